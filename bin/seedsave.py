#!/usr/bin/env python3
"""usage: seedsave.py <id> <property> <seed-dir> <seedcheck-json> "<summary>" "<needs>"
Copies a confirmed seeded change to /verif/seeded/<id>/ (patch.diff, demonstration, agent README) and writes meta.json."""
import json, os, shutil, sys
sid, prop, seed, res, summary, needs = sys.argv[1:7]
t = open(res).read()
j = json.loads(t[t.index('{'):])
dst = os.path.join('/verif/seeded', sid)
os.makedirs(dst, exist_ok=True)
for f in os.listdir(seed):
    if f == 'patch.diff' or f.endswith('_test.go') or f.endswith('.go') or f == 'README.md':
        shutil.copy(os.path.join(seed, f), os.path.join(dst, f if not f.endswith('_test.go') else f.replace('_test.go', '_test.go.txt')))
meta = {
    'id': sid,
    'property': prop,
    'summary': summary,
    'needs_to_manifest': needs,
    'origin': 'written by an independent sub-agent that saw only the property text and a scratch worktree',
    'confirmed_by_me': {
        'patch_applies': j.get('applies'), 'builds': j.get('builds'),
        'demo': {k: ({'fails_with_patch': v['with_patch_fails'], 'passes_without_patch': v['without_patch_passes']} if isinstance(v, dict) else v) for k, v in j.get('demo', {}).items()},
        'pinned_suite_still_passes': j.get('baseline_ok'),
        'how': 'bin/seedcheck.py: scratch git worktree of /repo under /tmp (removed afterwards); go build ./...; demo copied next to the package and run with and without the patch; /tmp/seedtools/baseline.sh (pinned suite vs BASELINE.json stable_pass)',
    },
    'detection': {ck: {'fired': r['fired'], 'diagnostics': r['diagnostics'][:3]} for ck, r in j['checks'].items()},
    'demo_note': 'the demonstration is stored with a .txt suffix so that it is not compiled as part of /verif; copy it into the package directory named on its first line and drop the suffix to run it',
}
json.dump(meta, open(os.path.join(dst, 'meta.json'), 'w'), indent=1)
print('saved', dst, 'detected by', [k for k, r in j['checks'].items() if r['fired']])
