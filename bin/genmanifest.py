#!/usr/bin/env python3
"""Regenerates /verif/MANIFEST.json from the per-property texts below and the list of properties
the bufsa binary actually implements (`bufsa list`). Properties without a checker are listed under
not_applicable with the reason."""
import json, subprocess, os, sys
HERE = os.path.dirname(os.path.dirname(os.path.abspath(__file__)))
sys.path.insert(0, os.path.join(HERE, "bin"))
from manifest_texts import TEXTS, NOT_APPLICABLE

implemented = subprocess.run([os.path.join(HERE, "bin", "bufsa"), "list"], capture_output=True, text=True).stdout.split()
ids = ["C%02d" % i for i in range(1, 21)]
checks, na = [], []
TB = ("Trusted base: go/types, go/cfg, go/ssa of golang.org/x/tools v0.29.0; Go evaluation order; stated models of library functions "
      "(filepath.Clean, errors.Join, sort.*, sync.RWMutex, os.Rename); absence of unsafe/reflection writes to the analysed state. ")
for pid in ids:
    if pid in implemented and pid in TEXTS:
        t = TEXTS[pid]
        checks.append({
            "property_id": pid,
            "quick_cmd": f"bin/check {pid} quick",
            "thorough_cmd": f"bin/check {pid} thorough",
            "evidence_file": f"/verif/evidence/{pid}.json",
            "replay_cmd_template": f"bin/check {pid} --replay {{path}}",
            "engine": "bufsa",
            "level_claimed": {"category": "other", "text": t["text"], "design_ref": f"DESIGN.md §4 {pid}"},
            "level_note": TB + t["note"],
            "technique": t["technique"],
        })
    else:
        na.append({"property_id": pid, "reason": NOT_APPLICABLE.get(pid, "static checker for this property is not built yet in this round; no claim is made")})
m = {
    "version": 1,
    "setup_cmd": "cd /verif/sa && GOFLAGS=-mod=mod GOPROXY=off GOSUMDB=off GOTOOLCHAIN=local GOWORK=off go build -o /verif/bin/bufsa . && /verif/bin/bufsa selftest",
    "hooks": {
        "guard": "verif",
        "enable": "none needed: static analysis reads the source of /repo's working tree; no instrumentation is compiled in",
        "baseline_off_cmd": "cd /repo && GOFLAGS=-mod=mod GOPROXY=off go test -mod=mod -json -vet=off -count=1 -timeout 25m ./...",
        "source_commits": [],
        "add_only": True,
    },
    "engines": [{"name": "bufsa", "path": "/verif/sa", "serves_properties": [c["property_id"] for c in checks],
                 "kind_free_text": "repository-specific static analyser (go/packages + go/cfg + go/ssa): obligations = rule x code construct, decided from the type-checked working tree on every run"}],
    "checks": checks,
    "notes": "Tiers: quick = the structural analysis of /repo's working tree; thorough = the same analysis plus SELF-CHECK (every stored seeded change of the property is applied in memory through the loader's overlay and must make the check fail, so a rule that silently stopped biting is reported) plus REFACTOR-SILENT (every stored behaviour-preserving refactoring of the property, applied the same way, must cause no new failing obligation) plus, for C13/C14/C19, a second load with GOOS=windows that runs the rules on the windows-only implementations. All claims are at level 'other': each check decides structural necessary conditions of its property (listed in level_claimed.text) and says what it does not decide (level_note). See DESIGN.md. Genuine defects found are in known_findings.json.",
    "not_applicable": na,
}
json.dump(m, open(os.path.join(HERE, "MANIFEST.json"), "w"), indent=1)
print("claimed:", [c["property_id"] for c in checks], "not_applicable:", [n["property_id"] for n in na])
