#!/usr/bin/env python3
"""Re-applies every stored seeded change to /repo (transiently), runs the property's quick check and reports which
are still detected. A seed whose patch no longer applies to today's tree (the code it touches was repaired since) is
reported as 'stale'. /repo is restored after every seed. usage: seedregress.py [ids...]"""
import json, os, subprocess, sys
ROOT = '/verif/seeded'
def run(cmd, cwd=None):
    p = subprocess.run(cmd, cwd=cwd, shell=True, capture_output=True, text=True)
    return p.returncode, p.stdout + p.stderr
ids = sys.argv[1:] or sorted(os.listdir(ROOT))
rc, o = run('git -C /repo status --short')
assert o.strip() == '', 'repo not clean'
res = {}
for sid in ids:
    d = os.path.join(ROOT, sid)
    meta = json.load(open(os.path.join(d, 'meta.json')))
    prop = meta['property']
    checks = list(meta.get('detection', {}).keys()) or [prop]
    rc, o = run(f'git -C /repo apply --3way {d}/patch.diff')
    if rc != 0:
        run('git -C /repo checkout -- . && git -C /repo reset -q')
        res[sid] = 'stale (patch does not apply)'
        print(sid, res[sid], flush=True)
        continue
    try:
        fired = []
        for ck in checks:
            rc, o = run(f'/verif/bin/check {ck} quick', cwd='/verif')
            if rc == 1 and 'VIOLATION' in o:
                fired.append(ck)
        res[sid] = 'detected by ' + ','.join(fired) if fired else 'MISSED'
    finally:
        run('git -C /repo reset -q && git -C /repo checkout -- . && git -C /repo clean -fdq')
    print(sid, res[sid], flush=True)
out = '/verif/seeded/REGRESSION.json'
allres = json.load(open(out)) if os.path.exists(out) and sys.argv[1:] else {}
allres.update(res)
json.dump(allres, open(out, 'w'), indent=1, sort_keys=True)
print('missed:', [k for k, v in res.items() if v == 'MISSED'])
