#!/usr/bin/env python3
"""Regenerates the round-2 seed table of DESIGN.md §13 (between the ROUND2-SEEDS markers) from /verif/seeded/*/meta.json."""
import json, os, re, sys
root = '/verif/seeded'
rows = []
for sid in sorted(os.listdir(root)):
    mp = os.path.join(root, sid, 'meta.json')
    if not os.path.exists(mp) or sid[-1] not in 'def':
        continue
    m = json.load(open(mp))
    caught = []
    for ck, r in m.get('detection', {}).items():
        if not r.get('fired'):
            continue
        rules = []
        for d in r.get('diagnostics', []):
            mm = re.match(r'^[^ ]+: ([A-Z0-9][A-Z0-9-]+):', d)
            if mm and mm.group(1) not in rules:
                rules.append(mm.group(1))
        caught.append(ck + ' ' + '/'.join(rules) if rules else ck)
    added = m.get('rule_added_or_strengthened', '')
    if not added:
        mm = re.search(r'caught after ([^)]+)\)', m.get('needs_to_manifest', ''))
        added = mm.group(1) if mm else '—'
    def cell(t):
        return ' '.join(str(t).replace('|', '\\|').split())
    needs = re.sub(r'\s*\(initially missed[^)]*\)', '', m.get('needs_to_manifest', ''))
    rows.append('| %s | %s | %s | %s | %s |' % (sid, cell(m['summary'])[:260], cell(needs)[:260], cell(', '.join(caught)) or '**not caught**', cell(added)))
table = '| seed | change (one line) | needs to manifest | caught by | rule written/extended after the seed |\n|---|---|---|---|---|\n' + '\n'.join(rows)
p = '/verif/DESIGN.md'
s = open(p).read()
b, e = '<!-- ROUND2-SEEDS-BEGIN -->', '<!-- ROUND2-SEEDS-END -->'
if b not in s:
    sys.exit('markers missing')
s = s[:s.index(b) + len(b)] + '\n' + table + '\n' + s[s.index(e):]
open(p, 'w').write(s)
print(len(rows), 'rows')
