#!/usr/bin/env python3
"""Regenerates the round-2 and round-3 seed tables of DESIGN.md §13 (between the ROUNDn-SEEDS markers) from /verif/seeded/*/meta.json."""
import json, os, re, sys
root = '/verif/seeded'
def table(letters):
    rows = []
    for sid in sorted(os.listdir(root)):
        mp = os.path.join(root, sid, 'meta.json')
        if not os.path.exists(mp) or sid[-1] not in letters:
            continue
        m = json.load(open(mp))
        caught = []
        for ck, r in m.get('detection', {}).items():
            if not r.get('fired'):
                continue
            rules = []
            for d in r.get('diagnostics', []):
                mm = re.match(r'^[^ ]+: ([A-Z0-9][A-Z0-9-]+):', d)
                if mm and mm.group(1) not in rules:
                    rules.append(mm.group(1))
            caught.append(ck + ' ' + '/'.join(rules) if rules else ck)
        added = m.get('rule_added_or_strengthened', '')
        if not added:
            mm = re.search(r'caught after ([^)]+)\)', m.get('needs_to_manifest', ''))
            added = mm.group(1) if mm else '—'
        def cell(t):
            return ' '.join(str(t).replace('|', '\\|').split())
        needs = re.sub(r'\s*\(initially missed[^)]*\)', '', m.get('needs_to_manifest', ''))
        rows.append('| %s | %s | %s | %s | %s |' % (sid, cell(m['summary'])[:260], cell(needs)[:260], cell(', '.join(caught)) or '**not caught**', cell(added)))
    return '| seed | change (one line) | needs to manifest | caught by | rule written/extended after the seed |\n|---|---|---|---|---|\n' + '\n'.join(rows), len(rows)

p = '/verif/DESIGN.md'
s = open(p).read()
for name, letters in (('ROUND2', 'def'), ('ROUND3', 'ghi'), ('ROUND4', 'jkl'), ('ROUND5', 'mno'), ('ROUND6', 'pqr')):
    b, e = '<!-- %s-SEEDS-BEGIN -->' % name, '<!-- %s-SEEDS-END -->' % name
    if b not in s:
        print(name, 'markers missing')
        continue
    t, n = table(letters)
    s = s[:s.index(b) + len(b)] + '\n' + t + '\n' + s[s.index(e):]
    print(name, n, 'rows')
open(p, 'w').write(s)
