#!/usr/bin/env python3
"""Confirms a seeded change and runs the registered checks against it.

usage: seedcheck.py <property> <seed-dir> [--checks C15,C09] [--skip-confirm]

1. confirm (in a scratch worktree under /tmp, removed afterwards): the patch applies and builds, the demonstration
   FAILS with it and PASSES without it, and the pinned test suite still passes with it;
2. detect: apply the patch to /repo, run the quick checks, undo it (git checkout), print which checks fired.
Nothing is left in /repo. Prints a JSON summary on the last line.
"""
import json, os, re, subprocess, sys, shutil, tempfile

ENV = dict(os.environ, GOFLAGS="-mod=mod", GOPROXY="off")

def run(cmd, cwd=None, timeout=1800):
    p = subprocess.run(cmd, cwd=cwd, shell=True, capture_output=True, text=True, env=ENV, timeout=timeout)
    return p.returncode, p.stdout + p.stderr

def demo_target(demo):
    head = open(demo).read(600)
    m = re.search(r"(private/[A-Za-z0-9_/\-]+|cmd/[A-Za-z0-9_/\-]+)", head)
    return m.group(1).rstrip("/") if m else None

def main():
    prop, seed = sys.argv[1], os.path.abspath(sys.argv[2])
    checks = [prop]
    skip = "--skip-confirm" in sys.argv
    for i, a in enumerate(sys.argv):
        if a == "--checks":
            checks = sys.argv[i + 1].split(",")
    patch = os.path.join(seed, "patch.diff")
    demos = [f for f in os.listdir(seed) if f.endswith("_test.go")]
    out = {"property": prop, "seed": seed, "checks": {}}
    if not skip:
        wt = tempfile.mkdtemp(prefix="seedwt-", dir="/tmp")
        os.rmdir(wt)
        rc, o = run(f"git -C /repo worktree add -q {wt} HEAD")
        assert rc == 0, o
        try:
            rc, o = run(f"git apply {patch}", cwd=wt)
            out["applies"] = rc == 0
            rc, o = run("go build ./...", cwd=wt)
            out["builds"] = rc == 0
            demo_res = {}
            for d in demos:
                tgt = demo_target(os.path.join(seed, d))
                if not tgt:
                    demo_res[d] = "no target dir"
                    continue
                dst = os.path.join(wt, tgt, "zz_seed_" + d)
                shutil.copy(os.path.join(seed, d), dst)
                rc_with, o_with = run(f"go test -count=1 -run 'Seed|Demo|TestC[0-9]+' ./{tgt}/", cwd=wt)
                run(f"git apply -R {patch}", cwd=wt)
                rc_without, o_without = run(f"go test -count=1 -run 'Seed|Demo|TestC[0-9]+' ./{tgt}/", cwd=wt)
                run(f"git apply {patch}", cwd=wt)
                os.remove(dst)
                demo_res[d] = {"with_patch_fails": rc_with != 0, "without_patch_passes": rc_without == 0,
                               "tail_with": o_with[-400:], "tail_without": o_without[-200:]}
            out["demo"] = demo_res
            rc, o = run(f"/tmp/seedtools/baseline.sh {wt}")
            out["baseline_ok"] = rc == 0
            out["baseline_tail"] = o[-300:]
        finally:
            run(f"git -C /repo worktree remove --force {wt}")
    if "--skip-detect" in sys.argv:
        print(json.dumps(out, indent=1))
        return
    # detection
    rc, o = run(f"git -C /repo apply {patch}")
    assert rc == 0, "patch does not apply to /repo: " + o
    try:
        for ck in checks:
            rc, o = run(f"/verif/bin/check {ck} quick", cwd="/verif")
            viol = [l for l in o.splitlines() if "VIOLATION" in l or (": " in l and l.startswith("private/"))]
            out["checks"][ck] = {"exit": rc, "fired": rc == 1, "diagnostics": [l[:400] for l in o.splitlines() if l.startswith("private/") or l.startswith("-:")][:8]}
    finally:
        run("git -C /repo checkout -- .")
        rc, o = run("git -C /repo status --short")
        assert o.strip() == "", "repo not clean: " + o
    print(json.dumps(out, indent=1))

if __name__ == "__main__":
    main()
