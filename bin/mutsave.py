#!/usr/bin/env python3
"""mutsave.py <id> <property> <patch.diff> <summary>
Stores a rule-test mutant written together with a rule (NOT an independently seeded change) under /verif/seeded/<id>/,
after checking with `bufsa overlay` that the property's own check fails on it. Such ids use the suffix -m<N>."""
import json, os, subprocess, sys
id_, prop, patch, summary = sys.argv[1:5]
out = subprocess.run(["/verif/bin/bufsa", "overlay", "-props", prop, "-patch", patch], capture_output=True, text=True, cwd="/verif").stdout
diags = [l.split(": ", 2)[2] for l in out.splitlines() if l.startswith("PATCH") and f": {prop}: " in l]
if not diags:
    print(out); sys.exit("not caught - not stored")
d = f"/verif/seeded/{id_}"
os.makedirs(d, exist_ok=True)
open(f"{d}/patch.diff", "w").write(open(patch).read())
json.dump({"id": id_, "property": prop, "summary": summary,
           "origin": "rule-test mutant written by the author of the rule together with the rule (not an independent seed; no demonstration, the suite was not run on it)",
           "detection": {prop: {"fired": True, "diagnostics": diags[:3]}}, "round": "mutant"}, open(f"{d}/meta.json", "w"), indent=1)
print("stored", id_, diags[0][:160])
