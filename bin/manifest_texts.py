# Per-property texts for MANIFEST.json (kept next to the generator; edited as checks are built).
NOT_APPLICABLE = {}
TEXTS = {
 "C15": {
  "text": "Decides, on the current tree, structural necessary conditions of 'write failures are reported / atomic puts are all-or-nothing': "
          "R-DEFER on every deferred assignment to a named error result of the module; R-ERRUSE (SSA) on every error-returning call — the error "
          "component must have a consuming use, in-memory sinks decided by receiver type, reviewed exceptions frozen one per line; R-ERRSWALLOW on "
          "every nil return under an err!=nil test; R-CLOSE pairing for every acquired writer; thread.Parallelize collects each job error under its "
          "mutex, waits before reading and returns non-nil when any was recorded; the disk bucket's atomic writer typestate (temp file in the final "
          "directory, rename only after Close and only when neither Close nor any Write failed, remove on every other exit); CopyWithAtomic is the only "
          "origin of the PutWithAtomic guard; bufgen flushes staged output only on the all-success path. This quantifies over every failure position "
          "of every write helper at once, which no test injects. It is a statement about code paths, not about observed bytes.",
  "note": "Not decided: what a concurrent reader or a post-crash observer sees (OS rename semantics assumed), short writes, content equality. "
          "Stores of an error into a captured/escaping variable count as consumption (may miss an overwrite-before-read through memory).",
  "technique": "SSA error-use analysis + CFG must-pass-through pairing + deferred-overwrite rule + typestate on SSA guards (go/ssa, go/cfg)",
 },
 "C13": {
  "text": "Decides structural necessary conditions of bucket containment: R-ABSVALID evaluates the guards of normalpath.NormalizeAndValidate three-valued over "
          "a bounded-exhaustive enumeration of cleaned slash paths (alphabet {a . /}, length <= 6) partitioned into '.', '..', '../x', rooted and name-first; no "
          "escaping or rooted member may reach the success return (this is what found the accepted bare '..'); R-MUSTVALIDATE runs an interprocedural SSA taint from "
          "the raw path/prefix parameter of every Get/Stat/Walk/Put/Delete/DeleteAll (and GetFile/StatFileInfo) method of every type implementing storage.ReadBucket, "
          "storage.WriteBucket or bufmodule.ModuleReadBucket: the raw value may only reach a sanitizer or the same method of a delegate interface, never a map key, Mapper, "
          "os/fs/filepathext call, nor be joined/mapped and then delegated; every sanitizer call site uses its result only on the nil edge of the error test; archive entry "
          "names and plugin-chosen names reach only the sanitizing helper, bucket API or error text; the disk bucket joins only sanitizer results under its root and Walk "
          "re-validates. Covers every spelling and every operation of every bucket kind at once.",
  "note": "Not decided: symlink resolution at run time (symlink-following buckets follow links by design), OS behaviour for exotic names, Windows volume semantics beyond the stated IsAbs model. "
          "Taint inlining bound 4; an exceeded bound is reported as undecided (fails).",
  "technique": "abstract evaluation of guards over a finite path partition + interprocedural SSA taint with sanitizers (go/ssa, go/cfg)",
 },
 "C09": {
  "text": "Decides the ordering/typestate skeleton of the cache protocol: the completion marker (PutPath of externalModuleDataFileName; the tar archive Put in tar mode) "
          "carries PutWithAtomic; no write is reachable after it; it executes only on the nil edge of the error of every fallible call that can precede it (a failed "
          "copy or side-file write can never be followed by the marker; only the marker re-read may continue on its not-exist classification); readers build ModuleData "
          "only after a successful marker read, unmarshal and isValid()==true, and report 'found' only on err==nil; every path to a marker read or cache write passes a "
          "lock acquisition (or the tar branch), a marker re-check lies between Lock and the first write, every Unlocker has a dominating deferred Unlock; every "
          "ModuleData accessor uses its raw getter only on the nil edge of checkDigest, whose nil return lies only on the DigestEqual-true edge comparing the pinned "
          "digest with one recomputed from content; the provider re-reads after put and errors on a still-missing key; R-DEFER/R-ERRUSE on the anchored packages. "
          "This covers every crash *ordering* and failure position the code can produce, which example tests never visit.",
  "note": "Not decided: crash instants inside one storage operation, I/O error sequences, cross-process interleavings under flock, what a reader sees mid-rename; those need execution or a model.",
  "technique": "SSA guard/edge dominance (must-pass-through, nil-edge control dependence) + CFG reachability-avoiding for lock discipline",
 },
 "C02": {
  "text": "Enumerates every syntactic source of order-nondeterminism in the product packages on each run: R-MAPORDER classifies the effects of every `range` over a map "
          "(callees resolved through go/types, local closures inlined): commutative effects discharge; a slice appended to in map order discharges only if every CFG path "
          "from the loop to its next use passes a sort of it or the use is a frozen sorting consumer (each consumer is itself checked to sort); find-any returns, "
          "last-writer-wins stores and effectful calls must be in the frozen, reasoned triage table, whose checkable reasons (prefix-free literal tables, single-element "
          "guards) are checked; every other loop is reported as an unreviewed order-sensitive iteration naming the loop, the map and the effect. The same obligation is applied "
          "to the map-order sources MapKeysToSlice/MapValuesToSlice/maps.Keys/Values at each call site. R-GOAGG checks that job closures run by thread.Parallelize write shared "
          "variables only index-addressed or under a mutex followed by a sort after the barrier. Marshalling entry points may be referenced only inside protoencoding, whose wire "
          "marshaler sets Deterministic:true and disables detrand at init. Entropy sources (rand, time.Now, multi-way select) are confined to a frozen allow-list and "
          "thread.globalParallelism is accessed under its lock. This forbids unsorted aggregation for every schedule and map seed at once, where the suite runs one.",
  "note": "Not decided: byte equality across runs; nondeterminism inside dependencies (protocompile scheduling); which of several errors is reported when a loop returns early on error "
          "(class error-choice, stated limitation); the triage reasons that are prose, not checkable. Queries (calls whose value is consumed) are assumed free of order-dependent effects.",
  "technique": "effect classification of map iterations + CFG sort-before-use must-pass-through + who-may-reference tables (go/types, go/cfg)",
 },
}
