# Per-property texts for MANIFEST.json (kept next to the generator; edited as checks are built).
NOT_APPLICABLE = {}
TEXTS = {
 "C15": {
  "text": "Decides, on the current tree, structural necessary conditions of 'write failures are reported / atomic puts are all-or-nothing': "
          "R-DEFER on every deferred assignment to a named error result of the module; R-ERRUSE (SSA) on every error-returning call — the error "
          "component must have a consuming use, in-memory sinks decided by receiver type, reviewed exceptions frozen one per line; R-ERRSWALLOW on "
          "every nil return under an err!=nil test; R-CLOSE pairing for every acquired writer; thread.Parallelize collects each job error under its "
          "mutex, waits before reading and returns non-nil when any was recorded; the disk bucket's atomic writer typestate (temp file in the final "
          "directory, rename only after Close and only when neither Close nor any Write failed, remove on every other exit); CopyWithAtomic is the only "
          "origin of the PutWithAtomic guard; bufgen flushes staged output only on the all-success path. This quantifies over every failure position "
          "of every write helper at once, which no test injects. It is a statement about code paths, not about observed bytes.",
  "note": "Not decided: what a concurrent reader or a post-crash observer sees (OS rename semantics assumed), short writes, content equality. "
          "Stores of an error into a captured/escaping variable count as consumption (may miss an overwrite-before-read through memory).",
  "technique": "SSA error-use analysis + CFG must-pass-through pairing + deferred-overwrite rule + typestate on SSA guards (go/ssa, go/cfg)",
 },
}
