# Per-property texts for MANIFEST.json (kept next to the generator; edited as checks are built).
NOT_APPLICABLE = {}
TEXTS = {
 "C15": {
  "text": "Decides, on the current tree, structural necessary conditions of 'write failures are reported / atomic puts are all-or-nothing': "
          "R-DEFER on every deferred assignment to a named error result of the module; R-ERRUSE (SSA) on every error-returning call — the error "
          "component must have a consuming use, in-memory sinks decided by receiver type, reviewed exceptions frozen one per line; R-ERRSWALLOW on "
          "every nil return under an err!=nil test; R-CLOSE pairing for every acquired writer; thread.Parallelize collects each job error under its "
          "mutex, waits before reading and returns non-nil when any was recorded; the disk bucket's atomic writer typestate (temp file in the final "
          "directory, rename only after Close and only when neither Close nor any Write failed, remove on every other exit); CopyWithAtomic is the only "
          "origin of the PutWithAtomic guard; bufgen flushes staged output only on the all-success path. This quantifies over every failure position "
          "of every write helper at once, which no test injects. It is a statement about code paths, not about observed bytes.",
  "note": "Not decided: what a concurrent reader or a post-crash observer sees (OS rename semantics assumed), short writes, content equality. "
          "Stores of an error into a captured/escaping variable count as consumption (may miss an overwrite-before-read through memory).",
  "technique": "SSA error-use analysis + CFG must-pass-through pairing + deferred-overwrite rule + typestate on SSA guards (go/ssa, go/cfg)",
 },
 "C13": {
  "text": "Decides structural necessary conditions of bucket containment: R-ABSVALID evaluates the guards of normalpath.NormalizeAndValidate three-valued over "
          "a bounded-exhaustive enumeration of cleaned slash paths (alphabet {a . /}, length <= 6) partitioned into '.', '..', '../x', rooted and name-first; no "
          "escaping or rooted member may reach the success return (this is what found the accepted bare '..'); R-MUSTVALIDATE runs an interprocedural SSA taint from "
          "the raw path/prefix parameter of every Get/Stat/Walk/Put/Delete/DeleteAll (and GetFile/StatFileInfo) method of every type implementing storage.ReadBucket, "
          "storage.WriteBucket or bufmodule.ModuleReadBucket: the raw value may only reach a sanitizer or the same method of a delegate interface, never a map key, Mapper, "
          "os/fs/filepathext call, nor be joined/mapped and then delegated; every sanitizer call site uses its result only on the nil edge of the error test; archive entry "
          "names and plugin-chosen names reach only the sanitizing helper, bucket API or error text; the disk bucket joins only sanitizer results under its root and Walk "
          "re-validates. Covers every spelling and every operation of every bucket kind at once.",
  "note": "Not decided: symlink resolution at run time (symlink-following buckets follow links by design), OS behaviour for exotic names, Windows volume semantics beyond the stated IsAbs model. "
          "Taint inlining bound 4; an exceeded bound is reported as undecided (fails).",
  "technique": "abstract evaluation of guards over a finite path partition + interprocedural SSA taint with sanitizers (go/ssa, go/cfg)",
 },
 "C09": {
  "text": "Decides the ordering/typestate skeleton of the cache protocol: the completion marker (PutPath of externalModuleDataFileName; the tar archive Put in tar mode) "
          "carries PutWithAtomic; no write is reachable after it; it executes only on the nil edge of the error of every fallible call that can precede it (a failed "
          "copy or side-file write can never be followed by the marker; only the marker re-read may continue on its not-exist classification); readers build ModuleData "
          "only after a successful marker read, unmarshal and isValid()==true, and report 'found' only on err==nil; every path to a marker read or cache write passes a "
          "lock acquisition (or the tar branch), a marker re-check lies between Lock and the first write, every Unlocker has a dominating deferred Unlock; every "
          "ModuleData accessor uses its raw getter only on the nil edge of checkDigest, whose nil return lies only on the DigestEqual-true edge comparing the pinned "
          "digest with one recomputed from content; the provider re-reads after put and errors on a still-missing key; R-DEFER/R-ERRUSE on the anchored packages. "
          "This covers every crash *ordering* and failure position the code can produce, which example tests never visit.",
  "note": "Not decided: crash instants inside one storage operation, I/O error sequences, cross-process interleavings under flock, what a reader sees mid-rename; those need execution or a model.",
  "technique": "SSA guard/edge dominance (must-pass-through, nil-edge control dependence) + CFG reachability-avoiding for lock discipline",
 },
 "C02": {
  "text": "Enumerates every syntactic source of order-nondeterminism in the product packages on each run: R-MAPORDER classifies the effects of every `range` over a map "
          "(callees resolved through go/types, local closures inlined): commutative effects discharge; a slice appended to in map order discharges only if every CFG path "
          "from the loop to its next use passes a sort of it or the use is a frozen sorting consumer (each consumer is itself checked to sort); find-any returns, "
          "last-writer-wins stores and effectful calls must be in the frozen, reasoned triage table, whose checkable reasons (prefix-free literal tables, single-element "
          "guards) are checked; every other loop is reported as an unreviewed order-sensitive iteration naming the loop, the map and the effect. The same obligation is applied "
          "to the map-order sources MapKeysToSlice/MapValuesToSlice/maps.Keys/Values at each call site. R-GOAGG checks that job closures run by thread.Parallelize write shared "
          "variables only index-addressed or under a mutex followed by a sort after the barrier. Marshalling entry points may be referenced only inside protoencoding, whose wire "
          "marshaler sets Deterministic:true and disables detrand at init. Entropy sources (rand, time.Now, multi-way select) are confined to a frozen allow-list and "
          "thread.globalParallelism is accessed under its lock. This forbids unsorted aggregation for every schedule and map seed at once, where the suite runs one.",
  "note": "Not decided: byte equality across runs; nondeterminism inside dependencies (protocompile scheduling); which of several errors is reported when a loop returns early on error "
          "(class error-choice, stated limitation); the triage reasons that are prose, not checkable. Queries (calls whose value is consumed) are assumed free of order-dependent effects.",
  "technique": "effect classification of map iterations + CFG sort-before-use must-pass-through + who-may-reference tables (go/types, go/cfg)",
 },
 "C03": {
  "text": "Decides structural necessary conditions of 'no false negative': registry integrity (each breaking RuleSpecBuilder's handler variable, bound function and builder variable "
          "agree with the rule ID; every non-deprecated rule is listed in every spec version except a frozen introduced-later table; replacements exist); R-LABEL current/previous "
          "origin labels (flow-insensitive, fixed point over helper parameters) show that each pair adapter calls f(w, req, current, previous) with the current element looked "
          "up in the current index under the previous key, that every range/lookup/annotate-on-miss loop ranges over previous and looks up in current keyed by the range key "
          "(one documented two-direction rule), that every NO_DELETE rule reaches such a loop, that helper parameters forming a current/previous pair keep one label over all "
          "call sites (sibling call sites agree: catches a swapped argument pair), and that AddProtosourceAnnotation is located at current/nil and refers to previous; an "
          "annotation call is reachable from every handler; the wire and wire+JSON tables have a key for every protoreflect.Kind.",
  "note": "Not decided: that each predicate implements the documented notion of breaking for every schema pair; nested/extension/map coverage beyond the traversal structure. Index builders are assumed pure.",
  "technique": "literal-table extraction + origin-label dataflow over go/types objects + static call closure",
 },
 "C04": {
  "text": "Decides the table side of the category ordering and of 'additions are never reported': for each spec version and adjacent pair FILE→PACKAGE→WIRE_JSON→WIRE every rule of "
          "the laxer category is a member of the stricter one or all rules of a frozen, reasoned implication table that imply it are; the WIRE_JSON compatibility partition "
          "refines the WIRE partition (folded map literals); the reservation exemptions fold to 'not allowed' when both allow-flags are false (boolean partial evaluation over "
          "the CFG) and the three NO_DELETE variants pass flag tuples matching their IDs; the pair adapters invoke callbacks only inside loops over previous collections.",
  "note": "Not decided: absence of false positives for arbitrary additive chains (value semantics of 60 predicates); the implication table is the author's reading of the documentation and is trusted.",
  "technique": "table obligations over composite literals + three-valued partial evaluation of guards + origin labels",
 },
 "C05": {
  "text": "Narrow: lint registry integrity (as C03); every lint handler is built by a NewLint* adapter whose static call chain ends in NewLintFilesRuleHandler, where the slice handed "
          "on is appended to only under !file.IsImport() (raw handlers are a frozen list and must test IsImport themselves); ForEachMessage/Enum/Extension visit their level and "
          "recurse into Messages(); each element adapter calls the accessors its kind needs (fields and extensions at message and file level, enum values, oneofs, methods); "
          "every handler reaches an annotation call; lint options are wired like-named field to field from LintConfig to bufcheckopt, each stored key is the key its Get* reader "
          "uses and each reader is consulted by a handler.",
  "note": "Not decided (the heart of the property): the case-conversion / suffix / prefix predicates, exact line and column, and 'nothing for unrelated rules'. This check would not notice a wrong predicate.",
  "technique": "literal-table extraction + static call-chain and guard-shape checks (go/types, AST)",
 },
 "C06": {
  "text": "Decides the skeleton of rule selection and suppression: category nesting MINIMAL⊆BASIC⊆STANDARD(/DEFAULT) in every spec; in newRulesConfig inserted ids derive from `use` and "
          "deleted ids from `except`, both through category expansion and un-deprecation, ignore_only through its pair of transforms and normalisation (SSA data dependence on "
          "parameters and calls); unknown ids return an error; no insertion is reachable after a deletion; the filter is FilterError of its input with the negated ignore "
          "decision; every `return true` of ignoreFileLocation is guarded by a condition reading the config; comment directives are gated by AllowCommentIgnores && prefix != \"\", "
          "matched against the annotation's own rule id and only as a whole word unless the lint ids are prefix-free (this found COMMENT_ENUM < COMMENT_ENUM_VALUE); ExcludeImports "
          "is read by the filter and set only from the option.",
  "note": "Not decided: the algebraic laws over all configurations (union of single-rule results, monotonicity of suppression) — they quantify over run-time annotation sets.",
  "technique": "SSA data-dependence slices + CFG reachability + table obligations",
 },
 "C20": {
  "text": "Decides structural conditions tying printing, exit status and formats together: every use of bufctl.ErrFileAnnotation in the buf tree is preceded on every CFG path by a print "
          "of the annotation set (reviewed exception: format --exit-code's guarded defer) and, in the buf commands and the controller, every exit after a successful print yields the "
          "sentinel; ExitCodeFileAnnotation is referenced only by the sentinel and wrapError's import-not-exist case; every exported error-returning *controller method defers "
          "handleFileAnnotationSetRetError(&named result) (one reasoned exception); GetExitCode returns 0 only under err == nil and newAppError replaces a 0 code; Format constants, "
          "both name tables, AllFormatStrings and the printer switch are mutually total, each arm passing fileAnnotationSet.FileAnnotations() to its own printer, the shared loop "
          "rendering every element; fileAnnotationSet is built only by newFileAnnotationSet through dedup+sort, whose comparator reads every printed field and whose identity key "
          "delimits its variable-length components; free text reaches JSON via json.Marshal, JUnit via xml.Encoder and the github-actions command only through escaping helpers.",
  "note": "Not decided: the actual process exit status and bytes, and agreement of field values across formats for concrete annotations.",
  "technique": "CFG must-pass-through pairing + who-may-reference + table totality + SSA data-dependence on encoders",
 },
 "C16": {
  "text": "Decides the coverage conditions without which a round trip cannot be lossless: R-FIELDCOV — every field of every external YAML/JSON struct of bufconfig that a reader consumes "
          "is produced by a writer and conversely (read-only-by-design families and a frozen reasoned list excepted); R-ACCESSORCOV — every exported accessor of the config "
          "interfaces reaching the writers' static call closure is consulted there; the v2 buf.yaml collapse of a single '.' module accounts for every field of the dropped entry "
          "(tested in the guard, hoisted, or zeroed-and-hoisted); FileVersion switches are total or error. These rules re-derived the dropped includes and the ignored Disabled() "
          "(both repaired) and three dropped buf.gen.yaml fields (recorded as known findings because an existing test pins the lossy output).",
  "note": "Not decided: value-level equality after write+read (path re-basing arithmetic, ordering, defaults), idempotence of writing, and all of migration equivalence. A field that is "
          "written from the wrong source still counts as written.",
  "technique": "struct-field read/write coverage + interface accessor coverage over a static call closure (go/types)",
 },
 "C18": {
  "text": "Decides the frame condition and pairing of managed mode from the code of bufimagemodify: effect whitelist — every store through a descriptorpb message targets a FileOptions "
          "field that has a modifier, FieldOptions.Jstype, a nil Options pointer replaced by an empty literal under an == nil test, or SourceCodeInfo.Location, and no reflective "
          "mutator is referenced; path↔field agreement — per modifier the getter/setter/is-set closures name one FileOptions field F, the source path is {8, n} with n the protobuf "
          "number of F read from the generated struct tag, and the bufconfig.FileOption constant names F (js_type likewise); every FileOption constant has a modifier and every "
          "modifier is in Modify's list; in each generic modifier the setter and sweeper.Mark lie on exactly the same paths; modifiers sit behind the Enabled() early return and the "
          "datawkt.Exists skip, the setter is unreachable from the disabled edge, a non-nil override replaces the default before the setter, and no override loop breaks early "
          "(last match wins). Quantifies over every combination of rules at once; tests enumerate options one at a time.",
  "note": "Not decided: the default-value formulas (java_package/go_package derivation etc.) and the matching predicates of disable/override rules (path/module/field matching).",
  "technique": "effect whitelist over assignments + struct-tag/table agreement + CFG pairing (go/types, go/cfg)",
 },
 "C19": {
  "text": "Decides the code-shape conditions of non-leakage: the Authorization header is written only by NewAuthorizationInterceptorProvider (user-header forwarders listed); RemoteToken "
          "is asked for the provider closure's own address parameter (SSA origin through closure bindings) and connectclient.Make passes its un-mapped address parameter to the "
          "auth interceptor provider before any mapping; every TokenProvider implementation uses the address only as a map key, ==/!= operand or netrc machine name (never "
          "prefix/suffix/contains/regexp/slicing; the single-token provider ignores it by documented design); the header Set is unreachable from itself and guarded by a non-empty "
          "token (first source wins, once); parsers return a nil provider with every error, publish the map only after the loop and reject repeated addresses; netrc looks up the "
          "exact machine then only \"default\".",
  "note": "Not decided: HTTP-level behaviour (redirects, proxies, connection reuse) and the netrc library's own matching.",
  "technique": "who-may-reference + SSA value provenance + use-site classification of a parameter",
 },
 "C12": {
  "text": "Decides structural necessary conditions of the type filter: inclusionModeExcluded may be stored only for the descriptor being processed or one of its own children (type-switch "
          "bindings and range values over its Get*() lists), never for an element obtained through the name index — this re-derives the RPC request type being excluded in place of "
          "the method (recorded as a known finding: an existing test pins the error message the repair changes); a map field written only by append must not have a reader that "
          "turns absence into an error (re-derived and repaired: `missing <file>` for type-less files); type switches over the eight asserted namedDescriptor kinds and switches "
          "over FieldDescriptorProto_Type are total or have a non-silent default; the 26 source-path tag constants equal the protobuf field numbers read from descriptorpb's struct "
          "tags; descriptor field stores in the rewriter target values cloned in the same function.",
  "note": "Not decided: that the filtered image links, is minimal and idempotent; map-entry/Any reachability; correctness of the closure's mode escalation. Determinism of the closure loops is decided under C02.",
  "technique": "origin classification of map keys + writer/reader belief contradiction + table agreement with generated struct tags",
 },
 "C01": {
  "text": "Decides structural necessary conditions of closure, order and flags: R-POSTORDER on every self-recursive seen-set walk of bufimage (seen test and mark dominate the recursion; "
          "the current file is emitted after the loop over its imports and nothing recurses afterwards); the DFS input is the result of checkAndSortFiles, which appends only "
          "inside a range over the path slice; isImport is the negated comma-ok of a lookup in a set filled with Path() of the sorted targets; newImage errors on a duplicate path "
          "and on a second commit of one module (check-then-insert); the built-in WKT copy is consulted only after GetFile failed and past the errors.Is(err, fs.ErrNotExist) gate; "
          "lockset for the accessor handler's maps; compiler errors are converted with the external-path resolver and buildResult.Err is returned before Files is used; the "
          "path/exclude-path arm of the target decision, evaluated three-valued over all consistent assignments of (targets empty, excludes empty, in targets, in excludes), equals "
          "(Tempty ∨ inT) ∧ ¬(¬Eempty ∧ inE) behind the !IsTarget early return.",
  "note": "Not decided: that descriptors, source info, unused-import indexes and syntax markers equal what the compiler produces (delegated to protocompile; value-level); the proto-file-reference "
          "targeting branch; agreement of module-level and image-level path filtering.",
  "technique": "CFG dominance/reachability shape rules + SSA value identity + lockset + three-valued evaluation of a decision table",
 },
 "C08": {
  "text": "Decides structural necessary conditions of digest purity and manifest canonicity: the bucket handed to storage.WalkReadObjects in the b4 and b5 digest paths is "
          "FilterReadBucket(_, getStorageMatcher(…)) (SSA identity), so non-module files cannot enter; the dependency digest strings, which arrive in the caller's listing order, "
          "are sorted before strings.Join feeds the hash; the hashed manifest comes from bufcas.NewManifest (sorted by path) and the b4 side files from a fixed literal list; the "
          "digest functions reference no FullName/OpaqueID/CommitID/Description accessor; fileNode.String joins with the separator ParseFileNode splits on and the split is bounded "
          "(the path is unconstrained text — this re-derived, and led to the repair of, paths containing two spaces); manifest.String and ParseManifest agree on the newline protocol; "
          "digest-type name tables are mutually inverse and DigestType switches are total or error.",
  "note": "Not decided: equality with the published SHAKE256 construction, sensitivity to every byte and path, equality across storage backends; these quantify over hash values.",
  "technique": "SSA value identity + CFG sort-before-use + who-may-reference + writer/parser literal agreement",
 },
 "C10": {
  "text": "Decides structural necessary conditions of dependency resolution: in getModuleDepsRec the cycle test on the parent stack is the first test and returns *ModuleCycleError, the "
          "push dominates the recursion, the delete of the same key follows it and lies on every path to a nil return; the top-level call passes isDirect=true, the recursive call "
          "false, and a recorded dependency is never overwritten; every construction of ModuleCycleError/DuplicateProtoPathError/ImportNotExistError/NoProtoFilesError is returned; "
          "getModuleForFilePathUncached maps zero owners to not-exist, two or more to the duplicate error and returns other stat errors at once; the only `continue` on an error "
          "edge is under ErrNotExist && datawkt.Exists; duplicates of a module are reduced by the chain IsTarget → IsLocal → remote, each stage filtering by that method value "
          "and falling through only to the next, with a single caller; the ls-files closure marks before recursing, starts from non-import files and sorts; R-ERRUSE on bufmodule, "
          "bufworkspace, buftarget and dag.",
  "note": "Not decided: exactness of the dependency set for arbitrary import graphs, local-over-remote precedence values, and that ls-files lists exactly the files build puts in the image.",
  "technique": "CFG push/pop pairing + constant-argument and check-then-insert shape rules + static call-chain + SSA error-use",
 },
 "C14": {
  "text": "Decides narrow structural necessary conditions of the bucket model, not the model equivalence itself: lockset — every access to the memory bucket's object map holds its "
          "RWMutex (writes exclusively) and the map is written only by the WriteObjectCloser's Close (objects become visible on Close) and by Delete/DeleteAll; prefix tests are "
          "path-wise — inside the storage packages no strings.HasPrefix/HasSuffix/Contains is applied to a path/prefix parameter or a value derived from it (two reviewed diff-label "
          "exceptions), and every Walk/DeleteAll prefix filter goes through normalpath.EqualsOrContainsPath; sibling agreement on not-exist — every *fs.PathError built for a missing "
          "object in the storage packages carries fs.ErrNotExist; the union bucket builds ErrExistsMultipleLocations in both Walk and lookup unless overlay, and the overlay picks the "
          "first delegate in index order; the prefix mapper pair MapPath/UnmapFullPath use the same prefix under an EqualsOrContainsPath guard and the chain mapper applies its list in "
          "opposite orders for the two directions; the memory bucket's Walk visits sorted paths.",
  "note": "Not decided: equivalence to the abstract map model after arbitrary operation histories, agreement of the os/mem/archive backends on the same history, copy/diff results; those "
          "quantify over histories and contents and need execution.",
  "technique": "lockset analysis on go/cfg + who-may-write + AST/type-resolved forbidden-call rule on derived path values + sibling agreement of error constructions",
 },
 "C17": {
  "text": "Decides structural necessary conditions of exactly-once generation and output confinement: in isFileToGenerate every `return true` is preceded on its path by the store of the "
          "path into alreadyUsedPaths (or the nil-map edge), imports found in either set return false, both lookups precede the store; ImagesToCodeGeneratorRequests fills the "
          "non-import set for all images before the first request is built; ImageByDir sorts its directories and requests are built in slice order and stored by index; the "
          "source-retention strip is applied only to the descriptor placed in ProtoFile[i], on the isFileToGenerate-true edge, while the unstripped one is appended to "
          "SourceFileDescriptors; plugin-chosen names reach only storage.PutPath / ReadBucket.Get / the duplicate key / error text, and an insertion point without a read bucket is an "
          "error; ValidatePluginResponses errors on a seen key Join(PluginOut, name) and bufgen calls it before any response is written; results of the parallel plugin jobs are "
          "stored by index.",
  "note": "Not decided: exactly-once over arbitrary directory/import shapes (value-level), dependency order inside requests (inherits C01), what a plugin does.",
  "technique": "CFG must-precede / edge-dominance shape rules + SSA value identity for the two descriptor views + interprocedural SSA taint on plugin-chosen names",
 },
 "C07": {
  "text": "Decides structural necessary conditions of 'the printer drops nothing', not the behaviour of the whitespace/comment state machine: NODE-COVERAGE — writeNode's type switch has a non-empty "
          "case for every concrete node type of protocompile/ast (enumerated from the type-checked dependency; reviewed exceptions for the root, the edition node and synthetic nodes) and its "
          "default joins an error into f.err; HEADER-PARTITION — the kinds collected by writeFileHeader equal the kinds skipped by writeFileTypes, everything collected is written and an import is "
          "skipped only as a comment-free duplicate of its predecessor; CHILD-COVERAGE — each of the 142 exported child/token fields of the node structs is handed to a write* function (a token "
          "never written loses its text and comments); TERMINAL-COMMENTS — a possibly-terminal node reaches writeNode or a leaf writer only in a function that consults f.nodeInfo of that node; "
          "OVERRIDE-KEY — a moved trailing comment is keyed by a node whose info some writer asks for (terminal, or a composite whose writers consult nodeInfo of the node itself); STABLE-SORT — "
          "option nodes are never sorted with an unstable sort (equal names = one repeated option whose order is its value); ERR-SURFACE — f.err only accumulates, Run returns it, FormatFileNode "
          "returns Run's result, FormatBucket returns every job's error; R-ERRUSE/R-DEFER on bufformat and the format command.",
  "note": "Not decided (the heart of the property): descriptor equality before/after, where a comment lands, idempotence on concrete texts — they depend on the printer's state over concrete inputs and "
          "need execution. Found with these rules: F16 (comments on empty declarations dropped; pinned by a golden file, known finding), F17 (unstable option sort, fixed), F18 (separator comment of "
          "signed/compound values lost, fixed).",
  "technique": "type-switch exhaustiveness over a dependency's node types + struct-field coverage with use classification + type-resolved call rules on the AST + CFG dominance for the error path",
 },
 "C11": {
  "text": "Decides structural necessary conditions of 'the serialized image carries everything and every encoding is read with the codec that wrote it': FDP-FIELDS — each proto field of "
          "descriptorpb.FileDescriptorProto (enumerated from the generated struct, so an upgrade that adds a field is caught) is copied from its namesake in the ImageFile builder literal, in "
          "FileDescriptorProtoForFileDescriptor and is a method of the FileDescriptor interface, and unknown fields are carried (through stripBufExtensionField outwards); EXT-FIELDS — every field of "
          "ImageFileExtension/ModuleInfo/ModuleName is written outwards and read back by NewImageForProto, each value under its own name (accessor→parameter→key, getter→variable→NewImageFile "
          "parameter); EXT-NUMBER — bufExtensionFieldNumber equals the generated number of ImageFile.buf_extension, is what the stripper compares, and malformed bytes return the input unchanged; "
          "ENCODING-PAIRED — all switches over MessageEncoding are total with an erroring default and each arm builds only its own codec (Binpb~Wire, JSON, Txtpb, YAML), parseMessageEncoding inverts "
          "messageEncodingToFormat; BOOTSTRAP — each text arm of getImageForMessageRef unmarshals the same data twice, second with the resolver bootstrapped by the same codec, WithNoReparse only "
          "there; COMPRESSION-PAIRED — reader/writer switches total, gzip arm↔gzip codec, zstd↔zstd, ChainCloser closes the codec before the stream; EXT-TABLE-AGREES — the four sibling raw-ref "
          "processors map each extension to one (format, compression), .gz and .zst inner tables equal.",
  "note": "Not decided: round-trip equality of images, equality of builds across packagings (dir/tar/zip/export), equality of image-level and module-level --path/--exclude-path filtering, lint/breaking "
          "on image vs sources — all value-level, they need execution.",
  "technique": "struct-field coverage against generated descriptor types + name-preserving flow check + enum-switch exhaustiveness with per-arm callee pairing + sibling-table agreement",
 },
}

# ---- clauses added with the second seeding round and findings F25-F27 (appended to the texts above) -------------
_ROUND2 = {
 "C10": " Round 2: the import-lookup error of the dependency walk is swallowed only on the true edges of errors.Is(err, fs.ErrNotExist) and datawkt.Exists (SSA, across helpers); the ls-files closure fails on an import no file provides; the dep-graph printers have no success return inside a loop over dependencies (F25).",
 "C11": " Round 2: archive/git path lists are joined onto subdir unless subdir == \".\" on that edge alone (SUBDIR-REMAP-TOTAL); map iterations of package bufimage are order-insensitive (shared R-MAPORDER); controller writers report their Close error (shared R-CLOSE).",
 "C12": " Round 2: index values written to a rebuilt index list are loads from the old->new table built in the same function; descriptor field stores are through clones on every feasible path (flow-sensitive COPY-MODE with correlated-guard pruning); the plugin batching key is built from namesake accessors and covers what is read from a group's representative (BATCH-KEY); the index appended to a source path is a position, never an element value (PATH-INDEX-POSITIONAL; reports the known finding F26).",
 "C13": " Round 2: every named parameter of a validate* function is consulted by its body (VALIDATOR-COVERS; found F27: exclude paths of archive/git inputs were never validated).",
 "C14": " Round 2: Walk/DeleteAll never route their prefix through a helper that rejects the root path; the disk bucket's atomic-writer typestate (shared with C15) keeps a failed put from changing the map.",
 "C15": " Round 2: the module cache's archive object is written through a call that carries PutWithAtomic, whichever storage helper performs the put (ATOMIC-REQUESTED, shared with C09).",
 "C16": " Round 2: module-relative path lists obtained from *Paths() accessors pass the join-onto-module-directory closure before being stored in an external struct; no attribute is written only on the edge where another string attribute is empty (WRITE-INDEPENDENT, 105 stores).",
 "C17": " Round 2: the duplicate-output map is looked up and updated with Join(PluginOut, name) itself as the key (on SSA values); BATCH-KEY as for C12.",
 "C18": " Round 2: each v1 except/override section is translated with the FileOption constants of that section; both consumers of the disable rules are evaluated (never run) on all 18 rule shapes {file option: none/this/other} x {field option: none/this/other} x {match} against the scope table (DISABLE-SCOPE).",
 "C19": " Round 2: a RemoteToken address may not be passed to any non-module function before the lookup (net.SplitHostPort, strings.*, url.*).",
 "C20": " Round 2: in the github-actions line, property values are written through an escaper whose replacer table covers ':' and ',' and the message through one that covers exactly '%', CR, LF (position decided by dominance of the \"::\" write); every command that reads an ErrorFormat flag and constructs a reading controller passes WithFileAnnotationErrorFormat(<that flag>).",
}
for _k, _v in _ROUND2.items():
    if _k in TEXTS and _v.strip() not in TEXTS[_k]["text"]:
        TEXTS[_k]["text"] = TEXTS[_k]["text"].rstrip() + _v

# ---- clauses added with the third seeding round and findings F28-F29 -----------------------------------------
_ROUND3 = {
 "C01": " Round 3: field-by-field struct copies name every field (COPY-COMPLETE, reviewed resets listed); per-module maps are keyed by the full module name; every compiler warning reaches the syntax/unused-import recorders; recursive import walks follow every listed dependency.",
 "C02": " Round 3: functions named …Sorted… sort before every slice return; a slice collected in bucket walk order is sorted before it is iterated.",
 "C03": " Round 3: the enum-subset helper compares numbers pairwise under the same name; a fresh per-package inner map is installed only on the absent edge of a lookup of the same key; the map-entry skip guard is the same expression in all sibling cardinality handlers.",
 "C04": " Round 3: SUBSET-BY-PAIR, INDEX-ACCUMULATES and SIBLING-SKIP-GUARDS as for C03.",
 "C05": " Round 3: resolved GroupKind is never singled out without MessageKind or a syntax test; a version containing \"test\" is classified test-level on guards of that literal alone; an element taken from a map is re-filed under its own key or full name.",
 "C06": " Round 3: no answer other than `ignore` is returned before every suppressor (config-guarded `return true`) had one of its fields consulted; every transition of the source-path automaton into the options state associates the whole path.",
 "C07": " Round 3: a formatter mode flag raised in a method is lowered on every exit; a message/array literal value answers the multi-line predicate unconditionally; files opened for overwriting carry O_TRUNC/O_APPEND/O_EXCL.",
 "C08": " Round 3: every walked object becomes one node named by Path() with the digest of its own content; content hashing consumes bytes returned together with io.EOF; in-place sorts never reorder a slice owned by another object; a digest's cached string is rendered from its bytes.",
 "C09": " Round 3: no `return nil, err` with err known nil (R-STALE-ERR; found and fixed F28); the digest a cached commit is checked against comes from the request; the validity of a marker read is decided from that read alone.",
 "C10": " Round 3: a struct value is stored into a map only after it is complete; every import of every file is resolved on every visit of the dependency walk.",
 "C11": " Round 3: an image derived by dropping files keeps the resolver of its source image.",
 "C12": " Round 3: conditions singling out type-referencing fields name ENUM, MESSAGE and GROUP; a descriptor list is not read again after it was handed to the in-place rewriter; Any type URLs are cut at the last slash; a type that was never walked is not kept (KEPT-IMPLIES-WALKED; reports the known finding F29).",
 "C13": " Round 3: Matcher methods are sinks for unsanitised paths; keys of a bucket built from a path map are sanitizer results on every path.",
 "C14": " Round 3: R-MUSTVALIDATE (shared with C13) for 'equivalent spellings denote the same object'; a writer's Close publishes at most once.",
 "C15": " Round 3: R-STALE-ERR and R-ERRLOOP module-wide (self-tested positive examples); os.Remove in the atomic writer takes the temporary file's name and os.Rename goes from it; OPEN-TRUNCATES.",
 "C16": " Round 3: value->name and name->value tables are inverse bijections; accessor results passed to constructors land in the parameter of their name; the distinct-section sets used for hoisting receive every module's section.",
 "C17": " Round 3: the staging-bucket cache is keyed by the output location parameter itself; recursive import walks follow every dependency; PROTOFILE-TOTAL.",
 "C18": " Round 3: walk callbacks write no captured variable; parts of a composed override that are not replaced are carried over from the accumulator; sweep keys keep every byte of every path element.",
 "C19": " Round 3: RemoteToken writes no field of its provider.",
 "C20": " Round 3: an exit-code carrier stays on the error chain (%w) until returned; annotation groups are formed in order of first appearance without re-sorting.",
}
for _k, _v in _ROUND3.items():
    if _k in TEXTS and _v.strip() not in TEXTS[_k]["text"]:
        TEXTS[_k]["text"] = TEXTS[_k]["text"].rstrip() + _v

# ---- clauses added with the fourth seeding round (anchors no earlier seed had touched) and finding F30 ---------------
_ROUND4 = {
 "C01": " Round 4: a failing delegate of a union bucket is never read as \"does not have the path\" (DELEGATE-ERR: its error is inspected or returned); the target state given to a re-targeted module does not depend on its previous state (RETARGET-FRESH).",
 "C02": " Round 4: the annotation comparator reads every accessor the identity key reads (ORDER-TOTAL); every running arg-max updates its bound together with the selection (ARGMAX, on SSA, module-wide).",
 "C03": " Round 4: no comparison helper returns \"nothing\" merely because the current side is empty (EMPTY-CURRENT); the annotation filter drops only under a condition reading the configuration (SUPPRESSION-CONFIGURED); pair adapters hand on every existing pair (LABEL-ADAPTER/unfiltered); struct types with a dedicated comparison function are compared only through it (EQUALITY-HELPER).",
 "C04": " Round 4: ADAPTERS-UNFILTERED (FILE rules see every file the PACKAGE rules see) and EQUALITY-HELPER (defaults are compared through defaultsEqual, which knows NaN and float widening).",
 "C05": " Round 4: a per-element boolean is accumulated or acted on inside its loop, never overwritten so that the last element decides (R-FLAGLOOP, self-tested); every setter of the source model has a call site (SETTERS-CALLED); a path-set search that may return without cleaning up gets a fresh set on every iteration (PATH-SET-FRESH).",
 "C06": " Round 4: a deprecated category has exactly the members of its replacements in every rule set listing both (DEPRECATED-CATEGORY); a literal transferring same-named fields from another struct names every shared field (TRANSFER-COMPLETE); use, except, ignore and ignore_only are stored independently of each other and every ignore_only key is kept (SELECTORS-INDEPENDENT).",
 "C07": " Round 4: comment text is classified by the tokens // and /* only (COMMENT-TOKENS); a blank line prompted by the input's own empty lines is never the first output (BLANK-AFTER-OUTPUT; F30, fixed).",
 "C08": " Round 4: sort comparators of the digest packages compare accessor results, not transformations of them (BYTE-ORDER); hashed dependency digests are a total mapping of the list received (DEPS-UNFILTERED); a value computed inside sync.Once.Do is kept where later calls see it (ONCE-RESULT-LOST, self-tested).",
 "C09": " Round 4: the lock layer itself (FILELOCK: Unlocker only when held, Lock exclusive / RLock shared, one lock file per key for readers and writers, locker root from the cache directory, lock files never removed); the joined error of thread.Parallelize is returned whole (PARALLEL-ERR-WHOLE); ONCE-RESULT-LOST.",
 "C10": " Round 4: a list filled and consumed within one loop iteration does not live across iterations (LOOP-ACCUM, self-tested); a not-found for some other path is classified before it can be returned as the answer about the caller's path (FOREIGN-NOT-FOUND); every path through a builder's Add method records the module or an error (ADD-RECORDS); ARGMAX on SSA replaces the name-anchored ARGMAX-LOOP; DELEGATE-ERR.",
 "C11": " Round 4: a search through public imports recurses (PUBLIC-TRANSITIVE); the built-in well-known types are consulted only after the workspace lookup failed (WKT-AFTER-MISS); unknown fields are cleared before the re-parse merge, never after (CLEAR-BEFORE-MERGE).",
 "C12": " Round 4: a slice parameter is returned as is only where known non-empty when callers read nil as 'deleted' (NIL-PROTOCOL); every list of google.protobuf.*Options names covers descriptorpb's options messages (OPTIONS-TYPES-COMPLETE); include and exclude reach one FilterImage call together, never chained passes (FILTER-ONCE); binary-searched tries are grown by sorted insertion (SORTED-INVARIANT).",
 "C13": " Round 4: nothing that can create a separator is applied after Clean (CLEAN-LAST); the disk bucket never removes or renames a parent of an object's path (DISK-NO-ASCEND); the atomic put's temporary file lies in the final directory (ATOMIC-WRITER shared).",
 "C14": " Round 4: each exported matcher applies the normalpath predicate its name promises (MATCHER-NAMESAKE); bucket views write no field of their own (WRAPPER-STATELESS); R-ABSVALID shared; DELEGATE-ERR on the multi bucket.",
 "C15": " Round 4: packages whose objects are trusted on sight create every object with PutWithAtomic (ATOMIC-KEPT); the error of a call that may write is never turned into success, classified or not (R-WRITE-SWALLOW, 78 sites); an error handed on along one path is looked at before success is returned on another (R-ERRSEEN, self-tested); PARALLEL-ERR-WHOLE.",
 "C16": " Round 4: root-relative exclude filters are applied to the root-mapped bucket (FILTER-AFTER-MAP); the protoc built-in table is consulted only after a PATH lookup by executor and writer alike (BINARY-BEFORE-BUILTIN); every constructor call fed from one external struct receives all sections any of them receives (SECTIONS-KEPT).",
 "C17": " Round 4: a response's files enter the shared response writer in one call (RESPONSE-WHOLE); a parameter compared with a canonicalised value was canonicalised the same way by every caller (SAME-CANONICAL); the insertion-point marker delimits the name on both sides (MARKER-DELIMITED).",
 "C18": " Round 4: the FieldOptions trie is grown by sorted insertion only (SORTED-INVARIANT); option name tables are mutually inverse (TABLES-INVERSE shared).",
 "C19": " Round 4: token sources are handed over in the order environment, then .netrc, for every way the list can be built (SOURCE-ORDER); a per-call list built on a shared slice starts from a copy (SHARED-APPEND); errors are consumed in the client-building packages (R-ERRUSE).",
 "C20": " Round 4: printers never format a raw line/column (POSITION-CLAMPED); format strings of the printers are constants (FORMAT-CONSTANT); the exit status is a constant or the app error's own code (EXIT-CODE-OWN).",
}
for _k, _v in _ROUND4.items():
    if _k in TEXTS and _v.strip() not in TEXTS[_k]["text"]:
        TEXTS[_k]["text"] = TEXTS[_k]["text"].rstrip() + _v

# ---- clauses added with the fifth seeding round and findings F31, F32 -------------------------------------------------
_ROUND5 = {
 "C01": " Round 5: a walk over --path values decides containment by path components, never by string prefix (PATHS-BY-COMPONENT); a with-flag helper returns its argument unchanged only under a condition on the requested flag (WITH-FLAG-NOOP).",
 "C02": " Round 5: a sort that follows an append covers the appended tail (SORT-COVERS-APPENDED); the pick among duplicate references prefers targets by a rule that does not depend on argument order (TARGETS-PREFERRED); thread.Parallelize cancels siblings only when asked to (CANCEL-GATED).",
 "C03": " Round 5: the previous side of a range comparison is skipped only for reviewed reasons (PREVIOUS-NOT-SKIPPED); an implicit enum default is resolved to the first declared value, not to number 0 (DEFAULT-RESOLVED); no count comparison short-cuts a per-element comparison (NO-COUNT-SHORTCUT).",
 "C04": " Round 5: the reserved-name exemption is reached only by the weak variant (RESERVATION-GATED); an inner map of a two-level table is made per outer key (INNER-MAP-PER-KEY); NO-COUNT-SHORTCUT.",
 "C05": " Round 5: LOOP-EARLY-SUCCESS shared with the per-package adapters; `unstable` covers every non-stable version form (UNSTABLE-IS-NOT-STABLE).",
 "C06": " Round 5: comment directives are matched anchored at the start of the trimmed line (DIRECTIVE-ANCHORED); rule and category IDs are checked for duplicates in one set (DUPLICATES-TOGETHER); SHARED-APPEND also through a reslice.",
 "C07": " Round 5: a comment transferred from a dropped token is transferred before every write that can consume it (TRANSFER-ON-EVERY-PATH).",
 "C08": " Round 5: byte slices kept in bufcas digests are the package's own (BYTES-OWNED); NODE-FROM-OBJECT also for bufcas.NewFileSetForBucket.",
 "C09": " Round 5: the locker handed to a store is the result of filelock.NewLocker on every path (FILELOCK locker-real); every key-to-path function of the store uses the same complete set of key components, digest type and commit included (ENTRY-KEY).",
 "C10": " Round 5: the scanner's weak/public flags are not consulted when imports and dependencies are computed (IMPORT-KIND-BLIND); no ModuleSetBuilder.Add*Module call is gated on a targeting flag (ADD-NOT-TARGET-GATED).",
 "C11": " Round 5: archive readers write every valid entry, later members win (ARCHIVE-LAST-WINS); the image path filter promotes a file to non-import only when a --path selects it or it is one already (PROMOTION-NEEDS-PATH); every target path of a module's targeting went through the roots mapping (ROOTS-APPLIED); the resolver-less first pass over a text-encoded image discards unknown fields in every encoding (BOOTSTRAP-LENIENT; F33, fixed).",
 "C12": " Round 5: a field is kept only after its type was looked at (FIELD-TYPE-CHECKED); the image index never consults IsImport (INDEX-TOTAL).",
 "C13": " Round 5: an untrusted name is not edited before validation (UNTRUSTED-NAME); archive readers validate a name before skipping the entry by kind or matcher (VALIDATE-BEFORE-SKIP); view constructors wrap exactly the bucket and mappers they were given (VIEW-WRAPS-ARGUMENT; a correctly ordered flattening is accepted).",
 "C14": " Round 5: VIEW-WRAPS-ARGUMENT also for union/overlay constructors; a symlink met while walking is resolved with EvalSymlinks, never one Readlink hop (SYMLINK-RESOLVED); ARCHIVE-LAST-WINS and UNTRUSTED-NAME shared.",
 "C15": " Round 5: the OS response writer touches output files only in the closures it runs at Close (STAGED-UNTIL-FLUSH).",
 "C16": " Round 5: a configuration file is marked for deletion only on routes that also record its replacement (DELETE-PAIRED); deprecated-ID replacements are computed from a complete rule list (DEPRECATIONS-COMPLETE; F32, fixed) and merged when they collide (G-DERIVED-KEY-STORE; F34, fixed); an extended use list keeps the defaults and names only v2 rules (MIGRATE-USE-LIST; F31, fixed).",
 "C17": " Round 5: the protoc proxy hands protoc the source view of the request (RETENTION-VIEWS); STAGED-UNTIL-FLUSH shared.",
 "C18": " Round 5: a yes/no walk over the disable rules answers with constants (DISABLE-ANY-MATCH).",
 "C19": " Round 5: the entries of a token string are judged exactly as split (PARSE-ALL-OR-NOTHING/split-as-is); a client built for an explicitly given token consults that token only (SOURCE-ORDER/explicit-token-only).",
 "C20": " Round 5: G-TRIM-CUTSET, G-FORMAT-DATA and G-DEFER-KEEPS-ERR over the printers and the format command.",
}
for _k, _v in _ROUND5.items():
    if _k in TEXTS and _v.strip() not in TEXTS[_k]["text"]:
        TEXTS[_k]["text"] = TEXTS[_k]["text"].rstrip() + _v

# ---- clauses added with the sixth seeding round and findings F33, F34 -------------------------------------------------
_ROUND6 = {
 "C01": " Round 6: target files are listed by a walk restricted to target files (TARGET-WALK-TARGETED); the exclude paths of a module read bucket are stored as given (EXCLUDES-KEPT-WHOLE); CLOSURE-ALWAYS-WALKED shared.",
 "C02": " Round 6: the image builder takes its file lists from the sorted accessors (IMAGE-LISTS-SORTED); indexed values are returned in request order (INDEXED-RETURN-SORTED, module-wide); thread.Parallelize records ctx.Err() whenever it stops dispatching (CTX-ERR-RECORDED).",
 "C03": " Round 6: a helper comparing two of its parameters does so before any success return (COMPARE-FIRST); reservation exemptions consult Reserved… accessors only (RESERVED-MEANS-RESERVED).",
 "C04": " Round 6: COMPARE-FIRST; a WIRE handler reads no attribute its WIRE_JSON sibling ignores (WIRE-SIBLINGS-AGREE, one reviewed exception).",
 "C05": " Round 6: the snake-case converters return only what the normalising routine produced (CASE-ALWAYS-NORMALISED).",
 "C06": " Round 6: the annotation filter's predicate keeps no state (ANNOTATION-JUDGED-ALONE); the replace-deprecated passes run unconditionally (UNDEPRECATE-UNGATED); G-INPLACE-FILTER-PARAM, G-MAP-ALIAS-MUTATED.",
 "C07": " Round 6: a has-comment question about a statement looks at every token member of the node (HAS-COMMENT-COVERS-TOKENS).",
 "C08": " Round 6: what is stored into a member named sorted… was sorted by the storing function (SORTED-FIELD-SORTED); digest computation touches no package-level state (DIGEST-STATELESS).",
 "C09": " Round 6: CTX-ERR-RECORDED; G-MEMO-DROPS-RESULT; a store's Put… method puts every element it was handed (PUT-ALL-GIVEN).",
 "C10": " Round 6: PATHS-BY-COMPONENT shared; a graph builder decides about AddNode before any success return (NODE-ALWAYS-CONSIDERED); the proto file tracker asks no kind of what it tracks (TRACKER-TRACKS-ALL).",
 "C11": " Round 6: an image assembled by the recursive import walk is returned only from that walk (CLOSURE-ALWAYS-WALKED); bootstrapResolver always returns a resolver built from all files; PATHS-BY-COMPONENT shared.",
 "C12": " Round 6: an import is recorded only when the element can no longer turn out excluded (IMPORT-AFTER-SURVIVAL); the exclude-only filter passes over a file only because it is an import or excluded (KEPT-UNLESS-EXCLUDED); include and exclude resolve a package name alike (PACKAGE-MEANS-PACKAGE).",
 "C13": " Round 6: a mapped view refuses its own root (VIEW-ROOT-REFUSED); list validators validate each element the range yields (LIST-VALIDATOR-TOTAL); OS paths are never related by string prefix (PATH-PREFIX-BY-STRING); Normalize returns only what Clean produced (CLEAN-ALWAYS).",
 "C14": " Round 6: the disk bucket validates before it opens (DISK-VALIDATE-FIRST); CLEAN-ALWAYS and PATH-PREFIX-BY-STRING shared.",
 "C15": " Round 6: PUT-ALL-GIVEN; archive readers extract sequentially (ARCHIVE-LAST-WINS); CTX-ERR-RECORDED.",
 "C16": " Round 6: re-basing lint/breaking paths drops a path only because it lies outside the module (REBASE-KEEPS-ALL); a remote plugin's name is its whole reference (PLUGIN-NAME-WHOLE-REF).",
 "C17": " Round 6: CLOSURE-ALWAYS-WALKED; per-directory images are selected by the directory's file list (BY-DIR-BY-FILES).",
 "C18": " Round 6: the suffix override is applied whether or not there is a prefix (PREFIX-SUFFIX-INDEPENDENT); the sweeper's passes run to the end of the list (SWEEP-SCANS-ALL).",
 "C19": " Round 6: the transport sets no redirect policy of its own and copies no headers in bulk (HEADER-WRITER); one netrc file is consulted (NETRC-LOOKUP).",
 "C20": " Round 6: annotation accessors return the stored member unchanged (ACCESSORS-PLAIN); the differ compares the bytes as read (DIFF-RAW-BYTES); position components are clamped independently (POSITION-CLAMPED).",
}
for _k, _v in _ROUND6.items():
    if _k in TEXTS and _v.strip() not in TEXTS[_k]["text"]:
        TEXTS[_k]["text"] = TEXTS[_k]["text"].rstrip() + _v

# ---- the generic pack (rules G-…), run for every property over the packages it is anchored in ------------------------
_GENERIC = " Generic shape rules over the anchored packages (G-FLAGLOOP, G-LOOP-ACCUM, G-ONCE-RESULT-LOST, G-ARGMAX, G-DELEGATE-ERR, G-ERRSEEN, G-STALE-ERR, G-ERRLOOP, G-SORTED-INVARIANT, G-PARALLEL-ERR-WHOLE, G-WRITE-SWALLOW, G-RANGE-KEY-AS-ELEMENT, G-MAP-APPEND-KEY, G-TRIM-CUTSET, G-FIRST-DECIDES, G-FORMAT-DATA, G-NIL-ELEMENT-BREAK, G-WALK-CUT, G-MARK-BEFORE-STATE-TEST, G-ERR-PATH-UNSEEN, G-COMPARATOR-BOTH, G-CTOR-KEEPS-PARAM, G-WITH-FLAG-NOOP, G-TWIN-PARAM-UNUSED, G-DEFER-KEEPS-ERR, G-SELF-OPERANDS, G-PURE-RESULT-DROPPED, G-LOCK-KIND-PAIRED, G-DERIVED-KEY-STORE, G-INPLACE-FILTER-PARAM, G-INDEXED-RETURN-SORTED, G-MEMO-DROPS-RESULT, G-MAP-ALIAS-MUTATED, G-LAST-ELEMENT-SKIPPED; DESIGN 3.1): zero instances expected, each with positive and negative examples in the self-test or among the stored seeds."
for _k in TEXTS:
    if _GENERIC.strip() not in TEXTS[_k]["text"]:
        TEXTS[_k]["text"] = TEXTS[_k]["text"].rstrip() + _GENERIC
