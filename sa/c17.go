package main

// C17 — each file is generated exactly once and plugin output stays in its directory (structural part).

import (
	"fmt"
	"go/ast"
	"go/token"
	"go/types"
	"sort"
	"strings"

	"golang.org/x/tools/go/packages"
	"golang.org/x/tools/go/ssa"
)

func init() {
	register(&propCheck{
		ID: "C17",
		Explanation: "Structural necessary conditions of exactly-once generation and output confinement: (1) test-and-set bookkeeping — in isFileToGenerate every `return true` is preceded on " +
			"its path by the store of the path into alreadyUsedPaths (or the nil-map edge), imports return false when found in either set, and both lookups precede the final store; " +
			"ImagesToCodeGeneratorRequests fills the non-import set for all images before the first request is built; (2) ImageByDir sorts its directories (R-MAPORDER instance " +
			"shared with C02) and requests are built in slice order, stored by index; (3) source-retention stripping happens only in the runtime view — the stripped descriptor goes " +
			"to ProtoFile[i], the unstripped one is what is appended to SourceFileDescriptors, and the strip call lies on the isFileToGenerate-true edge; (4) plugin-chosen names " +
			"reach only storage.PutPath / ReadBucket.Get / the duplicate key / error text (shared taint obligation with C13) and an insertion point without a read bucket is an " +
			"error; insertion points are read from and written to buckets passed by the caller; (5) ValidatePluginResponses returns an error on a seen key, keyed by " +
			"Join(PluginOut, name), and bufgen calls it before any response is written; (6) results of the parallel plugin jobs are stored by index. " +
			"NOT decided: exactly-once over arbitrary directory/import shapes; dependency order inside requests (inherits C01).",
		Assumptions: []string{"a request's ProtoFile list inherits the image's topological order (C01)"},
		Run:         runC17,
	})
}

func runC17(c *Ctx) {
	p := c.P
	c.Rule("GENERATE-ONCE", "the cross-request bookkeeping is test-and-set and complete before the first request", 4)
	c.Rule("REQUEST-ORDER", "directories are sorted and requests are built and stored in order", 2)
	c.Rule("RETENTION-VIEWS", "source-retention options are stripped only from the runtime view", 3)
	c.Rule("NAME-CONFINED", "plugin-chosen names only reach the bucket API, and insertion points need an explicit read bucket", 3)
	c.Rule("DUPLICATE-OUTPUT", "the same output path from two plugins is an error, detected before anything is written", 3)
	c.Rule("INDEXED-RESULTS", "plugin responses are stored at the plugin's configuration index", 1)
	c15StagedUntilFlush(c)
	c11ClosureAlwaysWalked(c)
	c17ByDirByFiles(c)
	pk := p.Pkg("private/bufpkg/bufimage")
	if pk == nil {
		c.Fail("GENERATE-ONCE", "anchor", token.NoPos, "bufimage not found")
		return
	}
	info := pk.TypesInfo
	// (1) isFileToGenerate: the whole decision, as a truth table (robust to the shape of the control flow)
	c17GenerateTable(c)
	batchKeyRule(c, "BATCH-KEY")
	c17ProtoFileTotal(c)
	c17OutputCacheKey(c)
	if q := c.P.Pkg("private/bufpkg/bufprotoplugin/bufprotopluginos"); q != nil {
		ruleSameCanonicaliser(c, "SAME-CANONICAL", q, 1)
	}
	if q := c.P.Pkg("private/bufpkg/bufprotoplugin"); q != nil {
		c17MarkerDelimited(c, q)
	}
	if q := c.P.Pkg("private/buf/bufprotopluginexec"); q != nil {
		c17ResponseAddedWhole(c, q)
	}
	ruleClosureFollowsAll(c, "CLOSURE-FOLLOWS-ALL")
	// ImagesToCodeGeneratorRequests: fill loop before request loop
	if fr := p.Func("private/bufpkg/bufimage", "ImagesToCodeGeneratorRequests"); fr != nil {
		g := p.CFGOf(fr.Decl.Body, info)
		var fill, build ast.Node
		var buildCall *ast.CallExpr
		var fillStore ast.Node // the map store itself (in this function or in the helper that builds the set)
		var fillFn *FuncRef
		isPathKeyedStore := func(info *types.Info, x *ast.AssignStmt) bool {
			if len(x.Lhs) != 1 {
				return false
			}
			ix, ok := x.Lhs[0].(*ast.IndexExpr)
			if !ok {
				return false
			}
			_, isMap := info.TypeOf(ix.X).Underlying().(*types.Map)
			return isMap && strings.HasSuffix(exprString(ix.Index), "Path()")
		}
		ast.Inspect(fr.Decl.Body, func(n ast.Node) bool {
			switch x := n.(type) {
			case *ast.AssignStmt:
				if isPathKeyedStore(info, x) {
					fill, fillStore, fillFn = x, x, fr
				}
				// the set is built by a helper of the package: `nonImportPaths = helper(images)`
				if len(x.Lhs) == 1 && len(x.Rhs) == 1 {
					if call, ok := ast.Unparen(x.Rhs[0]).(*ast.CallExpr); ok {
						if _, isMap := info.TypeOf(x.Lhs[0]).Underlying().(*types.Map); isMap {
							if fn := Callee(info, call); fn != nil && fn.Pkg() == pk.Types {
								if h := p.DeclOf(fn); h != nil && h.Decl.Body != nil {
									ast.Inspect(h.Decl.Body, func(m ast.Node) bool {
										if hs, ok := m.(*ast.AssignStmt); ok && isPathKeyedStore(h.Info(), hs) {
											fill, fillStore, fillFn = x, hs, h
										}
										return true
									})
								}
							}
						}
					}
				}
			case *ast.CallExpr:
				if fn := Callee(info, x); fn != nil && fn.Name() == "imageToCodeGeneratorRequest" {
					build, buildCall = x, x
				}
			}
			return true
		})
		ok := fill != nil && build != nil && !g.Reachable(build, fill) && g.Reachable(fill, build)
		c.Ob("GENERATE-ONCE", "ImagesToCodeGeneratorRequests/non-import-set-complete", fr.Decl.Pos(), ok, true, "the non-import set is filled for all images before the first request is built (no fill reachable after a build): %v", ok)
		// fill guarded by !IsImport
		okG := false
		if fillStore != nil {
			for cur := p.Parent(fillStore); cur != nil && cur != ast.Node(fillFn.Decl); cur = p.Parent(cur) {
				if ifs, ok := cur.(*ast.IfStmt); ok && strings.HasPrefix(exprString(ifs.Cond), "!") && strings.HasSuffix(exprString(ifs.Cond), "IsImport()") {
					okG = true
				}
			}
		}
		c.Ob("GENERATE-ONCE", "ImagesToCodeGeneratorRequests/non-import-set-members", fr.Decl.Pos(), okG, true, "only non-import files enter the non-import set: %v", okG)
		// requests stored by index of the image
		okIdx := false
		if buildCall != nil {
			if as, ok := p.Parent(buildCall).(*ast.AssignStmt); ok {
				if ix, ok := as.Lhs[0].(*ast.IndexExpr); ok {
					for cur := p.Parent(as); cur != nil && cur != fr.Decl; cur = p.Parent(cur) {
						if rs, ok := cur.(*ast.RangeStmt); ok && identObj(info, rs.Key) == identObj(info, ix.Index) && identObj(info, rs.Value) == identObj(info, buildCall.Args[0]) {
							okIdx = true
						}
					}
				}
			}
		}
		c.Ob("REQUEST-ORDER", "ImagesToCodeGeneratorRequests/indexed", fr.Decl.Pos(), okIdx, true, "request i is built from image i and stored at index i: %v", okIdx)
		// both maps are passed to every build
		okArgs := buildCall != nil && len(buildCall.Args) >= 7
		c.Ob("GENERATE-ONCE", "ImagesToCodeGeneratorRequests/shared-bookkeeping", fr.Decl.Pos(), okArgs, false, "one pair of bookkeeping sets is shared by all requests: %v", okArgs)
	} else {
		c.Fail("GENERATE-ONCE", "ImagesToCodeGeneratorRequests", token.NoPos, "not found")
	}
	// (2) ImageByDir sorts
	if fr := p.Func("private/bufpkg/bufimage", "ImageByDir"); fr != nil {
		sorted := false
		ast.Inspect(fr.Decl.Body, func(n ast.Node) bool {
			if call, ok := n.(*ast.CallExpr); ok {
				if fn := Callee(info, call); fn != nil && callSorts(p, fn, 2) {
					sorted = true
				}
			}
			return true
		})
		c.Ob("REQUEST-ORDER", "ImageByDir/sorted-dirs", fr.Decl.Pos(), sorted, false, "directories are sorted (the sort-before-use path obligation is discharged under C02): %v", sorted)
	}
	// (3) retention views
	if fr := p.Func("private/bufpkg/bufimage", "imageToCodeGeneratorRequest"); fr != nil {
		sf := p.SSAFunc(fr.Obj)
		var strip *ssa.Call
		for _, call := range callsIn(sf) {
			if fn := staticCalleeObj(call.Call); fn != nil && fn.Name() == "StripSourceRetentionOptions" {
				strip, _ = call.Value.(*ssa.Call)
			}
		}
		if strip == nil {
			c.Fail("RETENTION-VIEWS", "imageToCodeGeneratorRequest/strip", fr.Decl.Pos(), "StripSourceRetentionOptions is not called")
		} else {
			// on the isFileToGenerate-true edge
			onTrue := false
			for _, ge := range guardingEdges(strip.Block()) {
				if call, ok := ge.If.Cond.(*ssa.Call); ok && ge.Branch {
					if fn := staticCalleeObj(&call.Call); fn != nil && fn.Name() == "isFileToGenerate" {
						onTrue = true
					}
				}
			}
			c.Ob("RETENTION-VIEWS", "imageToCodeGeneratorRequest/strip-only-generated", strip.Pos(), onTrue, true, "stripping lies on the true edge of isFileToGenerate: %v", onTrue)
			// what is appended to SourceFileDescriptors must NOT depend on the strip call; what is stored into ProtoFile[i] may
			okSrc, okRt, nSrc := true, false, 0
			for _, b := range sf.Blocks {
				for _, ins := range b.Instrs {
					st, ok := ins.(*ssa.Store)
					if !ok {
						continue
					}
					switch a := st.Addr.(type) {
					case *ssa.FieldAddr:
						fname := fieldName(a.X.Type(), a.Field)
						if strings.HasSuffix(fname, "CodeGeneratorRequest.SourceFileDescriptors") {
							nSrc++
							if dependsOnValue(st.Val, strip) {
								okSrc = false
							}
						}
					case *ssa.IndexAddr:
						// ProtoFile[i] = …
						if dependsOnValue(st.Val, strip) {
							okRt = true
						}
					}
				}
			}
			c.Ob("RETENTION-VIEWS", "imageToCodeGeneratorRequest/source-view-unstripped", strip.Pos(), okSrc && nSrc > 0, true, "SourceFileDescriptors receives the descriptor as it is in the image, not the stripped copy: %v", okSrc && nSrc > 0)
			c.Ob("RETENTION-VIEWS", "imageToCodeGeneratorRequest/runtime-view-stripped", strip.Pos(), okRt, true, "the stripped copy is what is stored into ProtoFile[i]: %v", okRt)
		}
	} else {
		c.Fail("RETENTION-VIEWS", "imageToCodeGeneratorRequest", token.NoPos, "not found")
	}
	c17ProxySourceView(c)
	// (4) name confinement in WriteResponse
	if wr := p.Func("private/bufpkg/bufprotoplugin", "responseWriter.WriteResponse"); wr != nil {
		winfo := wr.Info()
		// insertion point without a read bucket → error
		okIP := false
		_ = winfo
		// wherever the per-file logic lives (WriteResponse itself or a helper of the package it calls): a test of a
		// storage.ReadBucket-typed value against nil whose failing branch returns a non-nil error
		deepInspect(p, wr, 2, func(n ast.Node, info *types.Info) bool {
			ifs, ok := n.(*ast.IfStmt)
			if !ok {
				return true
			}
			be, ok := ast.Unparen(ifs.Cond).(*ast.BinaryExpr)
			if !ok || be.Op != token.EQL || !isNilIdent(info, be.Y) {
				return true
			}
			if t := info.TypeOf(be.X); t == nil || !strings.HasSuffix(namedPath(t), "storage.ReadBucket") {
				return true
			}
			for _, st := range ifs.Body.List {
				if r, ok := st.(*ast.ReturnStmt); ok && classifyReturn(info, r) == retNonNil {
					okIP = true
				}
			}
			return true
		})
		c.Ob("NAME-CONFINED", "WriteResponse/insertion-point-needs-bucket", wr.Decl.Pos(), okIP, true, "an insertion point without an insertion-point read bucket is an error: %v", okIP)
		// content is written only via storage.PutPath / applyInsertionPoint
		okSink := true
		ast.Inspect(wr.Decl.Body, func(n ast.Node) bool {
			if call, ok := n.(*ast.CallExpr); ok {
				if fn := Callee(winfo, call); fn != nil && fn.Pkg() != nil && (fn.Pkg().Path() == "os" || fn.Pkg().Path() == "path/filepath") {
					okSink = false
				}
			}
			return true
		})
		c.Ob("NAME-CONFINED", "WriteResponse/bucket-api-only", wr.Decl.Pos(), okSink, true, "WriteResponse touches no os/filepath API: plugin names go through storage.PutPath on the output bucket (taint obligation: C13 UNTRUSTED-NAME): %v", okSink)
	} else {
		c.Fail("NAME-CONFINED", "WriteResponse", token.NoPos, "not found")
	}
	if ai := p.Func("private/bufpkg/bufprotoplugin", "applyInsertionPoint"); ai != nil {
		sf := p.SSAFunc(ai.Obj)
		okRW := false
		var getName, putName ssa.Value
		for _, call := range callsIn(sf) {
			if call.Call.IsInvoke() && call.Call.Method.Name() == "Get" && len(call.Call.Args) == 2 {
				getName = call.Call.Args[1]
				if call.Call.Value == ssa.Value(sf.Params[2]) {
					okRW = true
				}
			}
			if fn := staticCalleeObj(call.Call); fn != nil && calleeIs(fn, "private/pkg/storage", "PutPath") {
				putName = call.Call.Args[2]
				if stripConv(call.Call.Args[1]) != ssa.Value(sf.Params[3]) {
					okRW = false
				}
			}
		}
		same := getName != nil && putName != nil && c17SameGetName(getName, putName)
		c.Ob("NAME-CONFINED", "applyInsertionPoint/same-file", ai.Decl.Pos(), okRW && same, true, "the insertion target is read from the caller's read bucket and written back to the caller's write bucket under the same plugin-given name: %v/%v", okRW, same)
	}
	// (5) duplicates
	c17InsertionPredicate(c)
	if vp := p.Func("private/bufpkg/bufprotoplugin", "ValidatePluginResponses"); vp != nil {
		vinfo := vp.Info()
		okErr, okKey := false, false
		deepInspect(p, vp, 2, func(n ast.Node, _ *types.Info) bool {
			switch x := n.(type) {
			case *ast.IfStmt:
				if as, ok := x.Init.(*ast.AssignStmt); ok && len(as.Rhs) == 1 {
					if _, ok := as.Rhs[0].(*ast.IndexExpr); ok && identObj(vinfo, x.Cond) == identObj(vinfo, as.Lhs[1]) {
						for _, st := range x.Body.List {
							if r, ok := st.(*ast.ReturnStmt); ok && classifyReturn(vinfo, r) == retNonNil {
								okErr = true
							}
						}
					}
				}
			case *ast.CallExpr:
				if fn := Callee(vinfo, x); fn != nil && fn.Name() == "Join" && len(x.Args) == 2 && strings.HasSuffix(exprString(x.Args[0]), ".PluginOut") && strings.HasSuffix(exprString(x.Args[1]), ".GetName()") {
					okKey = true
				}
			}
			return true
		})
		c.Ob("DUPLICATE-OUTPUT", "ValidatePluginResponses/seen-is-error", vp.Decl.Pos(), okErr, true, "a key already seen returns a non-nil error: %v", okErr)
		// decided on the values: both the lookup and the insertion use, as the key itself, the result of a Join of the
		// plugin's out directory and the file name (two spellings of one output file - "a/../x.go" under out "gen",
		// "x.go" under "gen" - are then one key; a (out, name) pair or an unjoined name is not)
		if vsf := p.SSAFunc(vp.Obj); vsf != nil {
			isJoined := func(k ssa.Value) bool {
				// a string key computed from (possibly normalised) Join(out, name)
				if b, ok := k.Type().Underlying().(*types.Basic); !ok || b.Kind() != types.String {
					return false
				}
				var call *ssa.Call
				sliceBack(k, func(x ssa.Value) bool {
					if cc, ok := x.(*ssa.Call); ok && call == nil {
						if fn := staticCalleeObj(&cc.Call); fn != nil && fn.Name() == "Join" {
							call = cc
						}
					}
					return call == nil
				})
				if call == nil {
					return false
				}
				out, name := false, false
				for _, a := range call.Call.Args {
					sliceBack(a, func(x ssa.Value) bool {
						if fa, ok := x.(*ssa.FieldAddr); ok {
							if st, ok := fa.X.Type().Underlying().(*types.Pointer).Elem().Underlying().(*types.Struct); ok && st.Field(fa.Field).Name() == "PluginOut" {
								out = true
							}
						}
						if cc, ok := x.(*ssa.Call); ok {
							if f := staticCalleeObj(&cc.Call); f != nil && f.Name() == "GetName" {
								name = true
							}
						}
						return true
					})
				}
				return out && name
			}
			lookups, updates, okAll := 0, 0, true
			var vblocks []*ssa.BasicBlock
			for _, f := range reachSSA(vsf, 2) {
				if f.Pkg == vsf.Pkg {
					vblocks = append(vblocks, f.Blocks...)
				}
			}
			for _, b := range vblocks {
				for _, ins := range b.Instrs {
					switch x := ins.(type) {
					case *ssa.Lookup:
						if _, isMap := x.X.Type().Underlying().(*types.Map); isMap {
							lookups++
							okAll = okAll && isJoined(x.Index)
						}
					case *ssa.MapUpdate:
						updates++
						okAll = okAll && isJoined(x.Key)
					}
				}
			}
			okKey = okKey && okAll && lookups >= 1 && updates >= 1
		}
		c.Ob("DUPLICATE-OUTPUT", "ValidatePluginResponses/key", vp.Decl.Pos(), okKey, true, "the key looked up and inserted is Join(PluginOut, file name), so equal names in different out directories do not collide and two spellings of one path do: %v", okKey)
	} else {
		c.Fail("DUPLICATE-OUTPUT", "ValidatePluginResponses", token.NoPos, "not found")
	}
	// bufgen: validation before the response writer is created/used
	pkG := p.Pkg("private/buf/bufgen")
	if pkG != nil {
		ginfo := pkG.TypesInfo
		cl := newCallClosure(p, []*packages.Package{pkG})
		reachesValidate := func(fn *types.Func) bool {
			for g := range cl.reach(fn) {
				if fr := cl.decls[g]; fr != nil {
					found := false
					ast.Inspect(fr.Decl.Body, func(n ast.Node) bool {
						if call, ok := n.(*ast.CallExpr); ok {
							if f2 := Callee(ginfo, call); f2 != nil && f2.Name() == "ValidatePluginResponses" {
								found = true
							}
						}
						return !found
					})
					if found {
						return true
					}
				}
			}
			return false
		}
		okOrder := false
		for _, fr := range p.FuncsOf(pkG) {
			g := p.CFGOf(fr.Decl.Body, ginfo)
			var v, add ast.Node
			ast.Inspect(fr.Decl.Body, func(n ast.Node) bool {
				if call, ok := n.(*ast.CallExpr); ok {
					if fn := Callee(ginfo, call); fn != nil && fn.Pkg() == pkG.Types && reachesValidate(fn) {
						v = call
					}
					if recvCallOn(ginfo, call, "private/bufpkg/bufprotoplugin/bufprotopluginos", "ResponseWriter", "AddResponse") {
						add = call
					}
				}
				return true
			})
			if v != nil && add != nil && g.Dominates(v, add) {
				// and the validating call's error is tested before the write: AddResponse on its nil edge (textually: an if err != nil return follows)
				okOrder = true
			}
		}
		c.Ob("DUPLICATE-OUTPUT", "bufgen/validate-before-write", token.NoPos, okOrder, true, "ValidatePluginResponses runs (inside the plugin execution step) before the first AddResponse: %v", okOrder)
		// (6) indexed results: responses[index] = … in job closures
		// decided on SSA over execPlugins and the job constructors it calls: every store into a slice of plugin
		// responses is addressed by the Index field of the plugin's slicesext.Indexed wrapper
		okIdx := false
		if ep := p.Func("private/buf/bufgen", "generator.execPlugins"); ep != nil && ep.Obj != nil {
			stores, byIndex := 0, 0
			for _, f := range reachSSA(p.SSAFunc(ep.Obj), 2) {
				if f.Pkg == nil || f.Pkg.Pkg != pkG.Types {
					continue
				}
				for _, b := range f.Blocks {
					for _, ins := range b.Instrs {
						st, ok := ins.(*ssa.Store)
						if !ok {
							continue
						}
						ia, ok := st.Addr.(*ssa.IndexAddr)
						if !ok {
							continue
						}
						sl, ok := ia.X.Type().Underlying().(*types.Slice)
						if !ok {
							continue
						}
						pt, ok := sl.Elem().(*types.Pointer)
						if !ok || namedName(pt.Elem()) != "CodeGeneratorResponse" {
							continue
						}
						stores++
						fromIndex := false
						sliceBack(ia.Index, func(x ssa.Value) bool {
							switch y := x.(type) {
							case *ssa.Field:
								if st, ok := y.X.Type().Underlying().(*types.Struct); ok && st.Field(y.Field).Name() == "Index" {
									fromIndex = true
								}
							case *ssa.FieldAddr:
								if st, ok := y.X.Type().Underlying().(*types.Pointer).Elem().Underlying().(*types.Struct); ok && st.Field(y.Field).Name() == "Index" {
									fromIndex = true
								}
							}
							return !fromIndex
						})
						if fromIndex {
							byIndex++
						}
					}
				}
			}
			okIdx = stores > 0 && stores == byIndex
		}
		c.Ob("INDEXED-RESULTS", "bufgen.execPlugins/responses-by-index", token.NoPos, okIdx, true, "each job stores its response at the plugin's original configuration index (R-GOAGG index-addressed store): %v", okIdx)
		// (6b) per-group state (added after seeded change C17-b): the loop over plugin groups ranges over a map; apart from
		// appending jobs and index-addressed stores it must not write state that outlives one iteration (a filtered image
		// assigned to a variable of the enclosing function leaks one plugin's type filter into the groups visited later,
		// in random order, and into every closure that captured the variable)
		found := false
		for _, l := range findMapLoops(p, pkG) {
			if l.Fn == nil || !strings.HasSuffix(l.Key, "#1") || !strings.Contains(l.Key, "execPlugins/") {
				continue
			}
			found = true
			classifyLoop(p, l, func(fn *types.Func) bool { return c02Absorbing(fn) })
			v, bad := l.verdict()
			c.Ob("INDEXED-RESULTS", "bufgen.execPlugins/per-group-state", l.Range.Pos(), v != "order-sensitive", true,
				"the loop over plugin groups (a map) has verdict %q; effects that outlive an iteration: %s", v, effectSummary(bad))
		}
		if !found {
			c.Fail("INDEXED-RESULTS", "bufgen.execPlugins/per-group-state", token.NoPos, "the map loop over plugin groups in execPlugins was not found")
		}
	}
}

// c17InsertionPredicate (added after seeded change C17-c): the duplicate-output validator skips insertion-point files
// and the response writer routes them to applyInsertionPoint; both must use the same predicate, or a file that the
// writer treats as a regular file is invisible to the validator (an explicit empty insertion_point is such a file
// under a presence test).
func c17InsertionPredicate(c *Ctx) {
	p := c.P
	pk := p.Pkg("private/bufpkg/bufprotoplugin")
	if pk == nil {
		c.Fail("DUPLICATE-OUTPUT", "insertion-predicate", token.NoPos, "bufprotoplugin not found")
		return
	}
	info := pk.TypesInfo
	preds := map[string][]string{}
	for _, fr := range p.FuncsOf(pk) {
		if fr.Decl.Body == nil {
			continue
		}
		ast.Inspect(fr.Decl.Body, func(n ast.Node) bool {
			ifs, ok := n.(*ast.IfStmt)
			if !ok {
				return true
			}
			mentions := false
			var recv string
			ast.Inspect(ifs.Cond, func(m ast.Node) bool {
				if sel, ok := m.(*ast.SelectorExpr); ok && (sel.Sel.Name == "GetInsertionPoint" || sel.Sel.Name == "InsertionPoint" || sel.Sel.Name == "HasInsertionPoint") {
					if namedName(info.TypeOf(sel.X)) == "CodeGeneratorResponse_File" {
						mentions = true
						recv = exprString(sel.X)
					}
				}
				return true
			})
			if mentions {
				norm := strings.ReplaceAll(exprString(ifs.Cond), recv, "FILE")
				// `X == ""` (process the file when it is NOT an insertion) and `X != ""` (skip it when it is) are the
				// same predicate read from the other side
				if be, ok := ast.Unparen(ifs.Cond).(*ast.BinaryExpr); ok && (be.Op == token.EQL || be.Op == token.NEQ) {
					norm = strings.ReplaceAll(exprString(be.X), recv, "FILE") + " <cmp> " + strings.ReplaceAll(exprString(be.Y), recv, "FILE")
				}
				preds[norm] = append(preds[norm], fr.Decl.Name.Name)
			}
			return true
		})
	}
	n := 0
	var desc []string
	for k, fs := range preds {
		n += len(fs)
		desc = append(desc, fmt.Sprintf("`%s` in %v", k, fs))
	}
	sort.Strings(desc)
	c.Ob("DUPLICATE-OUTPUT", "insertion-predicate-agrees", token.NoPos, len(preds) == 1 && n >= 2, true,
		"validator and writer decide 'is an insertion-point file' with one predicate (%d sites): %s", n, strings.Join(desc, "; "))
}

// c17SameGetName: both values are results of GetName() on the same receiver.
func c17SameGetName(a, b ssa.Value) bool {
	ca, ok1 := stripConv(a).(*ssa.Call)
	cb, ok2 := stripConv(b).(*ssa.Call)
	if !ok1 || !ok2 {
		return false
	}
	fa, fb := staticCalleeObj(&ca.Call), staticCalleeObj(&cb.Call)
	if fa == nil || fb == nil || fa.Name() != "GetName" || fb.Name() != "GetName" {
		return false
	}
	return len(ca.Call.Args) == 1 && len(cb.Call.Args) == 1 && ca.Call.Args[0] == cb.Call.Args[0]
}

// c17GenerateTable extracts the decision of isFileToGenerate as a truth table over its atomic predicates and
// compares it with the table the property demands:
//
//	generate  =  !isImport  ||  ( includeImports && !(isWKT && !includeWKT) && !inAlreadyUsed && !inNonImportElsewhere )
//	recorded  =  generate && alreadyUsed != nil        (and nothing is recorded when the answer is no)
//
// where a lookup in a nil set is false. The function body is interpreted by bfeval under each of the consistent
// assignments; it is not executed. An if-chain, a switch, hoisted lookups or early returns all yield the same table.
func c17GenerateTable(c *Ctx) {
	const rule = "GENERATE-ONCE"
	p := c.P
	fr := p.Func("private/bufpkg/bufimage", "isFileToGenerate")
	if fr == nil {
		c.Fail(rule, "isFileToGenerate", token.NoPos, "not found")
		return
	}
	info := fr.Info()
	var used, nonImp, incImports, incWKT types.Object
	for _, fld := range fr.Decl.Type.Params.List {
		for _, nm := range fld.Names {
			o := info.Defs[nm]
			switch o.Type().Underlying().(type) {
			case *types.Map:
				if used == nil {
					used = o
				} else {
					nonImp = o
				}
			case *types.Basic:
				if incImports == nil {
					incImports = o
				} else {
					incWKT = o
				}
			}
		}
	}
	if used == nil || nonImp == nil || incImports == nil || incWKT == nil {
		c.Fail(rule, "isFileToGenerate/params", fr.Decl.Pos(), "expected two set parameters and two boolean parameters")
		return
	}
	type asg struct{ isImport, incImports, incWKT, isWKT, usedNonNil, nonImpNonNil, inUsed, inNonImp bool }
	bad, n := "", 0
	for bits := 0; bits < 256 && bad == ""; bits++ {
		v := asg{bits&1 != 0, bits&2 != 0, bits&4 != 0, bits&8 != 0, bits&16 != 0, bits&32 != 0, bits&64 != 0, bits&128 != 0}
		if (v.inUsed && !v.usedNonNil) || (v.inNonImp && !v.nonImpNonNil) {
			continue // membership in a nil set is impossible
		}
		n++
		atom := func(e ast.Expr) (tri, bool) {
			e = ast.Unparen(e)
			switch x := e.(type) {
			case *ast.Ident:
				switch info.Uses[x] {
				case incImports:
					return triOf(v.incImports), true
				case incWKT:
					return triOf(v.incWKT), true
				}
			case *ast.CallExpr:
				if sel, ok := x.Fun.(*ast.SelectorExpr); ok && sel.Sel.Name == "IsImport" && len(x.Args) == 0 {
					return triOf(v.isImport), true
				}
				if fn := Callee(info, x); fn != nil && fn.Name() == "Exists" && fn.Pkg() != nil && strings.HasSuffix(fn.Pkg().Path(), "/datawkt") {
					return triOf(v.isWKT), true
				}
			case *ast.BinaryExpr:
				if x.Op == token.NEQ || x.Op == token.EQL {
					var m types.Object
					if isNilIdent(info, x.Y) {
						m = identObj(info, x.X)
					} else if isNilIdent(info, x.X) {
						m = identObj(info, x.Y)
					}
					var nonNil bool
					switch m {
					case used:
						nonNil = v.usedNonNil
					case nonImp:
						nonNil = v.nonImpNonNil
					default:
						return triUnknown, false
					}
					if x.Op == token.EQL {
						nonNil = !nonNil
					}
					return triOf(nonNil), true
				}
			}
			return triUnknown, false
		}
		lookup := func(m ast.Expr) (tri, bool) {
			switch identObj(info, m) {
			case used:
				return triOf(v.inUsed), true
			case nonImp:
				return triOf(v.inNonImp), true
			}
			return triUnknown, false
		}
		store := func(m ast.Expr) (string, bool) {
			switch identObj(info, m) {
			case used:
				if !v.usedNonNil {
					return "store into the nil already-used set (panic)", true
				}
				return "recorded", true
			case nonImp:
				return "store into the non-import set", true
			}
			return "", false
		}
		// set-membership helpers of the package (`pathSetContains(set, path)`) are evaluated through their bodies
		bfInline = func(call *ast.CallExpr) (*ast.FuncDecl, *types.Info) {
			fn := Callee(info, call)
			if fn == nil || fn.Pkg() == nil || fn.Pkg() != fr.Pkg.Types {
				return nil, nil
			}
			if d := p.DeclOf(fn); d != nil && d.Decl.Body != nil {
				return d.Decl, d.Info()
			}
			return nil, nil
		}
		out := bfEvalFunc(info, fr.Decl.Body, atom, lookup, store)
		bfInline = nil
		if out.Undecided != "" {
			bad = fmt.Sprintf("undecided for %+v: %s", v, out.Undecided)
			break
		}
		want := !v.isImport || (v.incImports && !(v.isWKT && !v.incWKT) && !v.inUsed && !v.inNonImp)
		wantRecorded := want && v.usedNonNil
		recorded := false
		for _, e := range out.Effects {
			if e == "recorded" {
				recorded = true
			} else {
				bad = fmt.Sprintf("for %+v: %s", v, e)
			}
		}
		if bad != "" {
			break
		}
		if (out.Value == triTrue) != want {
			bad = fmt.Sprintf("for %+v the code answers generate=%v, the property demands %v", v, out.Value == triTrue, want)
		} else if recorded != wantRecorded {
			bad = fmt.Sprintf("for %+v the code records the path in the already-used set=%v, the property demands %v (a generated file must be recorded so that no later request generates it again; a file that is not generated must not be)", v, recorded, wantRecorded)
		}
	}
	c.Ob(rule, "isFileToGenerate/truth-table", fr.Decl.Pos(), bad == "", true,
		"%d consistent assignments of (isImport, includeImports, includeWKT, isWKT, set nil-ness, memberships) evaluated on the extracted decision; first disagreement with generate = !isImport || (includeImports && !(isWKT && !includeWKT) && !inUsed && !inNonImportElsewhere), recorded = generate && used != nil: %s", n, bad)
}

// callSorts: fn is a sort of the standard library (sort.*, slices.Sort*), or a function of the module whose body
// calls one (a sorting producer such as slicesext.MapKeysToSortedSlice), followed to the given depth.
func callSorts(p *Prog, fn *types.Func, depth int) bool {
	if fn == nil || fn.Pkg() == nil {
		return false
	}
	switch fn.Pkg().Path() {
	case "sort":
		return true
	case "slices":
		return strings.HasPrefix(fn.Name(), "Sort") || fn.Name() == "Sorted" || fn.Name() == "SortedFunc"
	}
	if depth == 0 || !strings.HasPrefix(fn.Pkg().Path(), modPath) {
		return false
	}
	fr := p.DeclOf(fn)
	if fr == nil || fr.Decl.Body == nil {
		return false
	}
	found := false
	ast.Inspect(fr.Decl.Body, func(n ast.Node) bool {
		if call, ok := n.(*ast.CallExpr); ok && !found {
			if cf := Callee(fr.Info(), call); cf != nil && cf != fn && callSorts(p, cf, depth-1) {
				found = true
			}
		}
		return true
	})
	return found
}

// c17ProtoFileTotal (PROTOFILE-TOTAL): "each request carries all transitive dependencies of its files in dependency
// order". The image is already closed and ordered (C01); the request keeps that only if the loop that builds
// CodeGeneratorRequest.ProtoFile visits every image file and stores exactly one descriptor per file at the file's own
// position: the store `ProtoFile[key] = …` (or an append) is a top-level statement of the loop over image.Files(), the
// loop has no `continue`/`break` that could skip it, and an indexed store uses the range key into a slice made with
// len(files) elements. A skipped or mis-indexed element leaves a nil entry or drops a dependency the plugin needs.
func c17ProtoFileTotal(c *Ctx) {
	const rule = "PROTOFILE-TOTAL"
	c.Rule(rule, "the request's ProtoFile list holds one descriptor per image file, at the file's position", 1)
	p := c.P
	fr := p.Func("private/bufpkg/bufimage", "imageToCodeGeneratorRequest")
	if fr == nil {
		// found by what it builds
		if pk := p.Pkg("private/bufpkg/bufimage"); pk != nil {
			for _, f := range p.FuncsOf(pk) {
				if f.Decl.Type.Results != nil && len(f.Decl.Type.Results.List) >= 1 && strings.HasSuffix(exprString(f.Decl.Type.Results.List[0].Type), "CodeGeneratorRequest") && f.Decl.Recv == nil {
					fr = f
				}
			}
		}
	}
	if fr == nil || fr.Decl.Body == nil {
		c.Fail(rule, "anchor", token.NoPos, "the function building a CodeGeneratorRequest from an image was not found")
		return
	}
	info := fr.Info()
	isProtoFileField := func(e ast.Expr) bool {
		sel, ok := ast.Unparen(e).(*ast.SelectorExpr)
		return ok && sel.Sel.Name == "ProtoFile"
	}
	found := false
	ast.Inspect(fr.Decl.Body, func(n ast.Node) bool {
		rs, ok := n.(*ast.RangeStmt)
		if !ok {
			return true
		}
		// the loop that stores into ProtoFile: collect every store in its body (one per branch is fine)
		var stores []ast.Node
		indexed := false
		badIndex := ""
		inspectNoFuncLit(rs.Body, func(m ast.Node) bool {
			as, ok := m.(*ast.AssignStmt)
			if !ok || len(as.Lhs) != 1 || len(as.Rhs) != 1 {
				return true
			}
			if ix, ok := ast.Unparen(as.Lhs[0]).(*ast.IndexExpr); ok && isProtoFileField(ix.X) {
				stores, indexed = append(stores, as), true
				if rs.Key == nil || identObj(info, ix.Index) == nil || identObj(info, ix.Index) != identObj(info, rs.Key) {
					badIndex = exprString(ix.Index)
				}
			}
			if isProtoFileField(as.Lhs[0]) {
				if call, ok := ast.Unparen(as.Rhs[0]).(*ast.CallExpr); ok && len(call.Args) >= 2 && exprString(call.Fun) == "append" && isProtoFileField(call.Args[0]) {
					stores = append(stores, as)
				}
			}
			return true
		})
		if len(stores) == 0 {
			return true
		}
		found = true
		if badIndex != "" {
			c.Ob(rule, "store-at-range-key", stores[0].Pos(), false, true, "ProtoFile is indexed by %s, which is not the key of the loop over the image files", badIndex)
			return false
		}
		store := stores[0]
		// every iteration stores: from the start of the loop body no successful exit of the function (that is: no way
		// on to the next iteration and out of the loop) is reachable without passing one of the stores
		g := p.CFGOf(fr.Decl.Body, info)
		skipped := false
		if len(rs.Body.List) > 0 {
			skipped, _ = g.ExitReachableAvoiding(rs.Body.List[0], stores, func(r *ast.ReturnStmt) bool { return classifyReturn(info, r) == retNonNil })
			if containsAny(rs.Body.List[0], stores) {
				skipped = false
			}
		}
		c.Ob(rule, "store-on-every-iteration", store.Pos(), !skipped, true, "every iteration of the loop over the image files passes one of its %d ProtoFile store(s): %v", len(stores), !skipped)
		if indexed {
			// the slice was made with one slot per ranged element
			sized := false
			ast.Inspect(fr.Decl.Body, func(m ast.Node) bool {
				kv, ok := m.(*ast.KeyValueExpr)
				if !ok {
					return true
				}
				if id, ok := kv.Key.(*ast.Ident); ok && id.Name == "ProtoFile" {
					if mk, ok := ast.Unparen(kv.Value).(*ast.CallExpr); ok && exprString(mk.Fun) == "make" && len(mk.Args) == 2 {
						if ln, ok := ast.Unparen(mk.Args[1]).(*ast.CallExpr); ok && exprString(ln.Fun) == "len" && len(ln.Args) == 1 && exprString(ln.Args[0]) == exprString(rs.X) {
							sized = true
						}
					}
				}
				return true
			})
			c.Ob(rule, "sized-by-files", store.Pos(), sized, true, "ProtoFile is made with len(%s) slots, the slice the loop ranges over: %v", exprString(rs.X), sized)
		}
		return false
	})
	if !found {
		c.Fail(rule, "store", fr.Decl.Pos(), "no loop storing into ProtoFile found in %s", fr.Decl.Name.Name)
	}
}

func containsAny(n ast.Node, targets []ast.Node) bool {
	for _, t := range targets {
		if containsNode(n, t) {
			return true
		}
	}
	return false
}
