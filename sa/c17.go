package main

// C17 — each file is generated exactly once and plugin output stays in its directory (structural part).

import (
	"fmt"
	"go/ast"
	"go/token"
	"go/types"
	"sort"
	"strings"

	"golang.org/x/tools/go/packages"
	"golang.org/x/tools/go/ssa"
)

func init() {
	register(&propCheck{
		ID: "C17",
		Explanation: "Structural necessary conditions of exactly-once generation and output confinement: (1) test-and-set bookkeeping — in isFileToGenerate every `return true` is preceded on " +
			"its path by the store of the path into alreadyUsedPaths (or the nil-map edge), imports return false when found in either set, and both lookups precede the final store; " +
			"ImagesToCodeGeneratorRequests fills the non-import set for all images before the first request is built; (2) ImageByDir sorts its directories (R-MAPORDER instance " +
			"shared with C02) and requests are built in slice order, stored by index; (3) source-retention stripping happens only in the runtime view — the stripped descriptor goes " +
			"to ProtoFile[i], the unstripped one is what is appended to SourceFileDescriptors, and the strip call lies on the isFileToGenerate-true edge; (4) plugin-chosen names " +
			"reach only storage.PutPath / ReadBucket.Get / the duplicate key / error text (shared taint obligation with C13) and an insertion point without a read bucket is an " +
			"error; insertion points are read from and written to buckets passed by the caller; (5) ValidatePluginResponses returns an error on a seen key, keyed by " +
			"Join(PluginOut, name), and bufgen calls it before any response is written; (6) results of the parallel plugin jobs are stored by index. " +
			"NOT decided: exactly-once over arbitrary directory/import shapes; dependency order inside requests (inherits C01).",
		Assumptions: []string{"a request's ProtoFile list inherits the image's topological order (C01)"},
		Run:         runC17,
	})
}

func runC17(c *Ctx) {
	p := c.P
	c.Rule("GENERATE-ONCE", "the cross-request bookkeeping is test-and-set and complete before the first request", 5)
	c.Rule("REQUEST-ORDER", "directories are sorted and requests are built and stored in order", 2)
	c.Rule("RETENTION-VIEWS", "source-retention options are stripped only from the runtime view", 3)
	c.Rule("NAME-CONFINED", "plugin-chosen names only reach the bucket API, and insertion points need an explicit read bucket", 3)
	c.Rule("DUPLICATE-OUTPUT", "the same output path from two plugins is an error, detected before anything is written", 3)
	c.Rule("INDEXED-RESULTS", "plugin responses are stored at the plugin's configuration index", 1)
	pk := p.Pkg("private/bufpkg/bufimage")
	if pk == nil {
		c.Fail("GENERATE-ONCE", "anchor", token.NoPos, "bufimage not found")
		return
	}
	info := pk.TypesInfo
	// (1) isFileToGenerate
	if fr := p.Func("private/bufpkg/bufimage", "isFileToGenerate"); fr != nil {
		g := p.CFGOf(fr.Decl.Body, info)
		var used, nonImp types.Object
		idx := 0
		for _, fld := range fr.Decl.Type.Params.List {
			for _, nm := range fld.Names {
				if _, isMap := info.Defs[nm].Type().Underlying().(*types.Map); isMap {
					if used == nil {
						used = info.Defs[nm]
					} else {
						nonImp = info.Defs[nm]
					}
				}
				idx++
			}
		}
		if used == nil || nonImp == nil {
			c.Fail("GENERATE-ONCE", "isFileToGenerate/params", fr.Decl.Pos(), "the two bookkeeping maps were not found among the parameters")
		} else {
			var stores []ast.Node
			ast.Inspect(fr.Decl.Body, func(n ast.Node) bool {
				if as, ok := n.(*ast.AssignStmt); ok && len(as.Lhs) == 1 {
					if ix, ok := as.Lhs[0].(*ast.IndexExpr); ok && identObj(info, ix.X) == used {
						stores = append(stores, as)
					}
				}
				return true
			})
			// every `return true`: reachable from entry only through a store, or through the `used == nil` false edge.
			// Model: paths to `return true` avoiding all stores must pass a `used != nil` test's false edge.
			okAll, nTrue := true, 0
			for _, r := range g.Returns() {
				// every return that is not the constant false may say "generate" (`return includeWellKnownTypes` does)
				if tv, has := info.Types[r.Results[0]]; has && tv.Value != nil && tv.Value.ExactString() == "false" {
					continue
				}
				nTrue++
				if g.ReachableAvoiding(nil, r, stores) {
					// tolerated only if the path skipping the store goes through `if used != nil` being false
					nilGuards := []ast.Node{}
					ast.Inspect(fr.Decl.Body, func(n ast.Node) bool {
						if ifs, ok := n.(*ast.IfStmt); ok {
							if o, nonNil, ok := errNilTest(info, ifs.Cond); ok && o == used && nonNil {
								for _, st := range ifs.Body.List {
									for _, s := range stores {
										if containsNode(st, s) {
											nilGuards = append(nilGuards, ifs.Cond)
										}
									}
								}
							}
						}
						return true
					})
					if g.ReachableAvoiding(nil, r, append(append([]ast.Node{}, stores...), nilGuards...)) {
						okAll = false
					}
				}
			}
			c.Ob("GENERATE-ONCE", "isFileToGenerate/set-before-true", fr.Decl.Pos(), okAll && nTrue >= 2, true, "every return that may be true (%d) is preceded by the store into the already-used set or by its nil test: %v", nTrue, okAll)
			// imports found in either set return false; lookups precede the final store
			lookups := 0
			okFalse := true
			ast.Inspect(fr.Decl.Body, func(n ast.Node) bool {
				ifs, ok := n.(*ast.IfStmt)
				if !ok || ifs.Init == nil {
					return true
				}
				as, ok := ifs.Init.(*ast.AssignStmt)
				if !ok || len(as.Rhs) != 1 {
					return true
				}
				ix, ok := as.Rhs[0].(*ast.IndexExpr)
				if !ok {
					return true
				}
				o := identObj(info, ix.X)
				if o != used && o != nonImp {
					return true
				}
				lookups++
				ret := false
				for _, st := range ifs.Body.List {
					if r, ok := st.(*ast.ReturnStmt); ok && exprString(r.Results[0]) == "false" {
						ret = true
					}
				}
				if !ret || identObj(info, ifs.Cond) != identObj(info, as.Lhs[1]) {
					okFalse = false
				}
				// the lookup precedes the last store
				if len(stores) > 0 && !g.Reachable(ifs.Cond, stores[len(stores)-1]) {
					okFalse = false
				}
				return true
			})
			c.Ob("GENERATE-ONCE", "isFileToGenerate/found-returns-false", fr.Decl.Pos(), okFalse && lookups == 2, true, "an import found in the already-used set or in the non-import set is not generated (%d lookups, each returning false when found, before the final store): %v", lookups, okFalse)
			// non-import files are always generated and recorded: the `!IsImport()` branch stores and returns true
			first := false
			if len(fr.Decl.Body.List) > 1 {
				for _, st := range fr.Decl.Body.List {
					if ifs, ok := st.(*ast.IfStmt); ok && strings.HasPrefix(exprString(ifs.Cond), "!") && strings.HasSuffix(exprString(ifs.Cond), "IsImport()") {
						hasStore, retTrue := false, false
						ast.Inspect(ifs.Body, func(n ast.Node) bool {
							for _, s := range stores {
								if n == s {
									hasStore = true
								}
							}
							if r, ok := n.(*ast.ReturnStmt); ok && exprString(r.Results[0]) == "true" {
								retTrue = true
							}
							return true
						})
						first = hasStore && retTrue
					}
				}
			}
			c.Ob("GENERATE-ONCE", "isFileToGenerate/targets-recorded", fr.Decl.Pos(), first, true, "a non-import file is recorded in the already-used set and generated: %v", first)
		}
	} else {
		c.Fail("GENERATE-ONCE", "isFileToGenerate", token.NoPos, "not found")
	}
	// ImagesToCodeGeneratorRequests: fill loop before request loop
	if fr := p.Func("private/bufpkg/bufimage", "ImagesToCodeGeneratorRequests"); fr != nil {
		g := p.CFGOf(fr.Decl.Body, info)
		var fill, build ast.Node
		var buildCall *ast.CallExpr
		ast.Inspect(fr.Decl.Body, func(n ast.Node) bool {
			switch x := n.(type) {
			case *ast.AssignStmt:
				if len(x.Lhs) == 1 {
					if ix, ok := x.Lhs[0].(*ast.IndexExpr); ok {
						if _, isMap := info.TypeOf(ix.X).Underlying().(*types.Map); isMap && strings.HasSuffix(exprString(ix.Index), "Path()") {
							fill = x
						}
					}
				}
			case *ast.CallExpr:
				if fn := Callee(info, x); fn != nil && fn.Name() == "imageToCodeGeneratorRequest" {
					build, buildCall = x, x
				}
			}
			return true
		})
		ok := fill != nil && build != nil && !g.Reachable(build, fill) && g.Reachable(fill, build)
		c.Ob("GENERATE-ONCE", "ImagesToCodeGeneratorRequests/non-import-set-complete", fr.Decl.Pos(), ok, true, "the non-import set is filled for all images before the first request is built (no fill reachable after a build): %v", ok)
		// fill guarded by !IsImport
		okG := false
		if fill != nil {
			for cur := p.Parent(fill); cur != nil && cur != fr.Decl; cur = p.Parent(cur) {
				if ifs, ok := cur.(*ast.IfStmt); ok && strings.HasPrefix(exprString(ifs.Cond), "!") && strings.HasSuffix(exprString(ifs.Cond), "IsImport()") {
					okG = true
				}
			}
		}
		c.Ob("GENERATE-ONCE", "ImagesToCodeGeneratorRequests/non-import-set-members", fr.Decl.Pos(), okG, true, "only non-import files enter the non-import set: %v", okG)
		// requests stored by index of the image
		okIdx := false
		if buildCall != nil {
			if as, ok := p.Parent(buildCall).(*ast.AssignStmt); ok {
				if ix, ok := as.Lhs[0].(*ast.IndexExpr); ok {
					for cur := p.Parent(as); cur != nil && cur != fr.Decl; cur = p.Parent(cur) {
						if rs, ok := cur.(*ast.RangeStmt); ok && identObj(info, rs.Key) == identObj(info, ix.Index) && identObj(info, rs.Value) == identObj(info, buildCall.Args[0]) {
							okIdx = true
						}
					}
				}
			}
		}
		c.Ob("REQUEST-ORDER", "ImagesToCodeGeneratorRequests/indexed", fr.Decl.Pos(), okIdx, true, "request i is built from image i and stored at index i: %v", okIdx)
		// both maps are passed to every build
		okArgs := buildCall != nil && len(buildCall.Args) >= 7
		c.Ob("GENERATE-ONCE", "ImagesToCodeGeneratorRequests/shared-bookkeeping", fr.Decl.Pos(), okArgs, false, "one pair of bookkeeping sets is shared by all requests: %v", okArgs)
	} else {
		c.Fail("GENERATE-ONCE", "ImagesToCodeGeneratorRequests", token.NoPos, "not found")
	}
	// (2) ImageByDir sorts
	if fr := p.Func("private/bufpkg/bufimage", "ImageByDir"); fr != nil {
		sorted := false
		ast.Inspect(fr.Decl.Body, func(n ast.Node) bool {
			if call, ok := n.(*ast.CallExpr); ok {
				if fn := Callee(info, call); fn != nil && fn.Pkg() != nil && fn.Pkg().Path() == "sort" {
					sorted = true
				}
			}
			return true
		})
		c.Ob("REQUEST-ORDER", "ImageByDir/sorted-dirs", fr.Decl.Pos(), sorted, false, "directories are sorted (the sort-before-use path obligation is discharged under C02): %v", sorted)
	}
	// (3) retention views
	if fr := p.Func("private/bufpkg/bufimage", "imageToCodeGeneratorRequest"); fr != nil {
		sf := p.SSAFunc(fr.Obj)
		var strip *ssa.Call
		for _, call := range callsIn(sf) {
			if fn := staticCalleeObj(call.Call); fn != nil && fn.Name() == "StripSourceRetentionOptions" {
				strip, _ = call.Value.(*ssa.Call)
			}
		}
		if strip == nil {
			c.Fail("RETENTION-VIEWS", "imageToCodeGeneratorRequest/strip", fr.Decl.Pos(), "StripSourceRetentionOptions is not called")
		} else {
			// on the isFileToGenerate-true edge
			onTrue := false
			for _, ge := range guardingEdges(strip.Block()) {
				if call, ok := ge.If.Cond.(*ssa.Call); ok && ge.Branch {
					if fn := staticCalleeObj(&call.Call); fn != nil && fn.Name() == "isFileToGenerate" {
						onTrue = true
					}
				}
			}
			c.Ob("RETENTION-VIEWS", "imageToCodeGeneratorRequest/strip-only-generated", strip.Pos(), onTrue, true, "stripping lies on the true edge of isFileToGenerate: %v", onTrue)
			// what is appended to SourceFileDescriptors must NOT depend on the strip call; what is stored into ProtoFile[i] may
			okSrc, okRt, nSrc := true, false, 0
			for _, b := range sf.Blocks {
				for _, ins := range b.Instrs {
					st, ok := ins.(*ssa.Store)
					if !ok {
						continue
					}
					switch a := st.Addr.(type) {
					case *ssa.FieldAddr:
						fname := fieldName(a.X.Type(), a.Field)
						if strings.HasSuffix(fname, "CodeGeneratorRequest.SourceFileDescriptors") {
							nSrc++
							if dependsOnValue(st.Val, strip) {
								okSrc = false
							}
						}
					case *ssa.IndexAddr:
						// ProtoFile[i] = …
						if dependsOnValue(st.Val, strip) {
							okRt = true
						}
					}
				}
			}
			c.Ob("RETENTION-VIEWS", "imageToCodeGeneratorRequest/source-view-unstripped", strip.Pos(), okSrc && nSrc > 0, true, "SourceFileDescriptors receives the descriptor as it is in the image, not the stripped copy: %v", okSrc && nSrc > 0)
			c.Ob("RETENTION-VIEWS", "imageToCodeGeneratorRequest/runtime-view-stripped", strip.Pos(), okRt, true, "the stripped copy is what is stored into ProtoFile[i]: %v", okRt)
		}
	} else {
		c.Fail("RETENTION-VIEWS", "imageToCodeGeneratorRequest", token.NoPos, "not found")
	}
	// (4) name confinement in WriteResponse
	if wr := p.Func("private/bufpkg/bufprotoplugin", "responseWriter.WriteResponse"); wr != nil {
		winfo := wr.Info()
		// insertion point without a read bucket → error
		okIP := false
		ast.Inspect(wr.Decl.Body, func(n ast.Node) bool {
			ifs, ok := n.(*ast.IfStmt)
			if !ok || !strings.HasSuffix(exprString(ifs.Cond), "== nil") || !strings.Contains(exprString(ifs.Cond), "insertionPointReadBucket") {
				return true
			}
			for _, st := range ifs.Body.List {
				if r, ok := st.(*ast.ReturnStmt); ok && classifyReturn(winfo, r) == retNonNil {
					okIP = true
				}
			}
			return true
		})
		c.Ob("NAME-CONFINED", "WriteResponse/insertion-point-needs-bucket", wr.Decl.Pos(), okIP, true, "an insertion point without an insertion-point read bucket is an error: %v", okIP)
		// content is written only via storage.PutPath / applyInsertionPoint
		okSink := true
		ast.Inspect(wr.Decl.Body, func(n ast.Node) bool {
			if call, ok := n.(*ast.CallExpr); ok {
				if fn := Callee(winfo, call); fn != nil && fn.Pkg() != nil && (fn.Pkg().Path() == "os" || fn.Pkg().Path() == "path/filepath") {
					okSink = false
				}
			}
			return true
		})
		c.Ob("NAME-CONFINED", "WriteResponse/bucket-api-only", wr.Decl.Pos(), okSink, true, "WriteResponse touches no os/filepath API: plugin names go through storage.PutPath on the output bucket (taint obligation: C13 UNTRUSTED-NAME): %v", okSink)
	} else {
		c.Fail("NAME-CONFINED", "WriteResponse", token.NoPos, "not found")
	}
	if ai := p.Func("private/bufpkg/bufprotoplugin", "applyInsertionPoint"); ai != nil {
		sf := p.SSAFunc(ai.Obj)
		okRW := false
		var getName, putName ssa.Value
		for _, call := range callsIn(sf) {
			if call.Call.IsInvoke() && call.Call.Method.Name() == "Get" && len(call.Call.Args) == 2 {
				getName = call.Call.Args[1]
				if call.Call.Value == ssa.Value(sf.Params[2]) {
					okRW = true
				}
			}
			if fn := staticCalleeObj(call.Call); fn != nil && calleeIs(fn, "private/pkg/storage", "PutPath") {
				putName = call.Call.Args[2]
				if stripConv(call.Call.Args[1]) != ssa.Value(sf.Params[3]) {
					okRW = false
				}
			}
		}
		same := getName != nil && putName != nil && c17SameGetName(getName, putName)
		c.Ob("NAME-CONFINED", "applyInsertionPoint/same-file", ai.Decl.Pos(), okRW && same, true, "the insertion target is read from the caller's read bucket and written back to the caller's write bucket under the same plugin-given name: %v/%v", okRW, same)
	}
	// (5) duplicates
	c17InsertionPredicate(c)
	if vp := p.Func("private/bufpkg/bufprotoplugin", "ValidatePluginResponses"); vp != nil {
		vinfo := vp.Info()
		okErr, okKey := false, false
		ast.Inspect(vp.Decl.Body, func(n ast.Node) bool {
			switch x := n.(type) {
			case *ast.IfStmt:
				if as, ok := x.Init.(*ast.AssignStmt); ok && len(as.Rhs) == 1 {
					if _, ok := as.Rhs[0].(*ast.IndexExpr); ok && identObj(vinfo, x.Cond) == identObj(vinfo, as.Lhs[1]) {
						for _, st := range x.Body.List {
							if r, ok := st.(*ast.ReturnStmt); ok && classifyReturn(vinfo, r) == retNonNil {
								okErr = true
							}
						}
					}
				}
			case *ast.CallExpr:
				if fn := Callee(vinfo, x); fn != nil && fn.Name() == "Join" && len(x.Args) == 2 && strings.HasSuffix(exprString(x.Args[0]), ".PluginOut") && strings.HasSuffix(exprString(x.Args[1]), ".GetName()") {
					okKey = true
				}
			}
			return true
		})
		c.Ob("DUPLICATE-OUTPUT", "ValidatePluginResponses/seen-is-error", vp.Decl.Pos(), okErr, true, "a key already seen returns a non-nil error: %v", okErr)
		c.Ob("DUPLICATE-OUTPUT", "ValidatePluginResponses/key", vp.Decl.Pos(), okKey, true, "the key is Join(PluginOut, file name), so equal names in different out directories do not collide: %v", okKey)
	} else {
		c.Fail("DUPLICATE-OUTPUT", "ValidatePluginResponses", token.NoPos, "not found")
	}
	// bufgen: validation before the response writer is created/used
	pkG := p.Pkg("private/buf/bufgen")
	if pkG != nil {
		ginfo := pkG.TypesInfo
		cl := newCallClosure(p, []*packages.Package{pkG})
		reachesValidate := func(fn *types.Func) bool {
			for g := range cl.reach(fn) {
				if fr := cl.decls[g]; fr != nil {
					found := false
					ast.Inspect(fr.Decl.Body, func(n ast.Node) bool {
						if call, ok := n.(*ast.CallExpr); ok {
							if f2 := Callee(ginfo, call); f2 != nil && f2.Name() == "ValidatePluginResponses" {
								found = true
							}
						}
						return !found
					})
					if found {
						return true
					}
				}
			}
			return false
		}
		okOrder := false
		for _, fr := range p.FuncsOf(pkG) {
			g := p.CFGOf(fr.Decl.Body, ginfo)
			var v, add ast.Node
			ast.Inspect(fr.Decl.Body, func(n ast.Node) bool {
				if call, ok := n.(*ast.CallExpr); ok {
					if fn := Callee(ginfo, call); fn != nil && fn.Pkg() == pkG.Types && reachesValidate(fn) {
						v = call
					}
					if recvCallOn(ginfo, call, "private/bufpkg/bufprotoplugin/bufprotopluginos", "ResponseWriter", "AddResponse") {
						add = call
					}
				}
				return true
			})
			if v != nil && add != nil && g.Dominates(v, add) {
				// and the validating call's error is tested before the write: AddResponse on its nil edge (textually: an if err != nil return follows)
				okOrder = true
			}
		}
		c.Ob("DUPLICATE-OUTPUT", "bufgen/validate-before-write", token.NoPos, okOrder, true, "ValidatePluginResponses runs (inside the plugin execution step) before the first AddResponse: %v", okOrder)
		// (6) indexed results: responses[index] = … in job closures
		okIdx := false
		for _, fr := range p.FuncsOf(pkG) {
			if fr.Decl.Name.Name != "execPlugins" {
				continue
			}
			ast.Inspect(fr.Decl.Body, func(n ast.Node) bool {
				if as, ok := n.(*ast.AssignStmt); ok && len(as.Lhs) == 1 {
					if ix, ok := as.Lhs[0].(*ast.IndexExpr); ok && exprString(ix.X) == "responses" && strings.Contains(exprString(ix.Index), "Index") {
						okIdx = true
					}
				}
				return true
			})
		}
		c.Ob("INDEXED-RESULTS", "bufgen.execPlugins/responses-by-index", token.NoPos, okIdx, true, "each job stores its response at the plugin's original configuration index (R-GOAGG index-addressed store): %v", okIdx)
		// (6b) per-group state (added after seeded change C17-b): the loop over plugin groups ranges over a map; apart from
		// appending jobs and index-addressed stores it must not write state that outlives one iteration (a filtered image
		// assigned to a variable of the enclosing function leaks one plugin's type filter into the groups visited later,
		// in random order, and into every closure that captured the variable)
		found := false
		for _, l := range findMapLoops(p, pkG) {
			if l.Fn == nil || !strings.HasSuffix(l.Key, "#1") || !strings.Contains(l.Key, "execPlugins/") {
				continue
			}
			found = true
			classifyLoop(p, l, func(fn *types.Func) bool { return c02Absorbing(fn) })
			v, bad := l.verdict()
			c.Ob("INDEXED-RESULTS", "bufgen.execPlugins/per-group-state", l.Range.Pos(), v != "order-sensitive", true,
				"the loop over plugin groups (a map) has verdict %q; effects that outlive an iteration: %s", v, effectSummary(bad))
		}
		if !found {
			c.Fail("INDEXED-RESULTS", "bufgen.execPlugins/per-group-state", token.NoPos, "the map loop over plugin groups in execPlugins was not found")
		}
	}
}

// c17InsertionPredicate (added after seeded change C17-c): the duplicate-output validator skips insertion-point files
// and the response writer routes them to applyInsertionPoint; both must use the same predicate, or a file that the
// writer treats as a regular file is invisible to the validator (an explicit empty insertion_point is such a file
// under a presence test).
func c17InsertionPredicate(c *Ctx) {
	p := c.P
	pk := p.Pkg("private/bufpkg/bufprotoplugin")
	if pk == nil {
		c.Fail("DUPLICATE-OUTPUT", "insertion-predicate", token.NoPos, "bufprotoplugin not found")
		return
	}
	info := pk.TypesInfo
	preds := map[string][]string{}
	for _, fr := range p.FuncsOf(pk) {
		if fr.Decl.Body == nil {
			continue
		}
		ast.Inspect(fr.Decl.Body, func(n ast.Node) bool {
			ifs, ok := n.(*ast.IfStmt)
			if !ok {
				return true
			}
			mentions := false
			var recv string
			ast.Inspect(ifs.Cond, func(m ast.Node) bool {
				if sel, ok := m.(*ast.SelectorExpr); ok && (sel.Sel.Name == "GetInsertionPoint" || sel.Sel.Name == "InsertionPoint" || sel.Sel.Name == "HasInsertionPoint") {
					if namedName(info.TypeOf(sel.X)) == "CodeGeneratorResponse_File" {
						mentions = true
						recv = exprString(sel.X)
					}
				}
				return true
			})
			if mentions {
				norm := strings.ReplaceAll(exprString(ifs.Cond), recv, "FILE")
				preds[norm] = append(preds[norm], fr.Decl.Name.Name)
			}
			return true
		})
	}
	n := 0
	var desc []string
	for k, fs := range preds {
		n += len(fs)
		desc = append(desc, fmt.Sprintf("`%s` in %v", k, fs))
	}
	sort.Strings(desc)
	c.Ob("DUPLICATE-OUTPUT", "insertion-predicate-agrees", token.NoPos, len(preds) == 1 && n >= 2, true,
		"validator and writer decide 'is an insertion-point file' with one predicate (%d sites): %s", n, strings.Join(desc, "; "))
}

// c17SameGetName: both values are results of GetName() on the same receiver.
func c17SameGetName(a, b ssa.Value) bool {
	ca, ok1 := stripConv(a).(*ssa.Call)
	cb, ok2 := stripConv(b).(*ssa.Call)
	if !ok1 || !ok2 {
		return false
	}
	fa, fb := staticCalleeObj(&ca.Call), staticCalleeObj(&cb.Call)
	if fa == nil || fb == nil || fa.Name() != "GetName" || fb.Name() != "GetName" {
		return false
	}
	return len(ca.Call.Args) == 1 && len(cb.Call.Args) == 1 && ca.Call.Args[0] == cb.Call.Args[0]
}
