package main

func cmdSelftest(args []string) int { return 0 }
