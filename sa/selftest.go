package main

// `bufsa selftest` — run by MANIFEST.setup_cmd before any check. It does not look at /repo. It exercises the
// analysis primitives on small embedded programs for which the right answer is known, in both directions (a case
// that must hold and a case that must fail), and validates the committed tables. A failure here means the machinery
// itself is broken and nothing it reports should be believed; it exits non-zero.

import (
	"encoding/json"
	"fmt"
	"go/ast"
	"go/importer"
	"go/parser"
	"go/token"
	"go/types"
	"golang.org/x/tools/go/ssa"
	"golang.org/x/tools/go/ssa/ssautil"
	"os"
	"path/filepath"
	"sort"
	"strings"
)

type miniProg struct {
	P    *Prog
	File *ast.File
	Info *types.Info
}

func loadSnippet(src string) (*miniProg, error) {
	fset := token.NewFileSet()
	f, err := parser.ParseFile(fset, "snippet.go", src, parser.ParseComments)
	if err != nil {
		return nil, err
	}
	info := &types.Info{
		Types: map[ast.Expr]types.TypeAndValue{}, Defs: map[*ast.Ident]types.Object{}, Uses: map[*ast.Ident]types.Object{},
		Implicits: map[ast.Node]types.Object{}, Selections: map[*ast.SelectorExpr]*types.Selection{}, Scopes: map[ast.Node]*types.Scope{},
	}
	conf := types.Config{Importer: importer.ForCompiler(fset, "source", nil)}
	if _, err := conf.Check("snippet", fset, []*ast.File{f}, info); err != nil {
		return nil, err
	}
	p := &Prog{Fset: fset, parents: map[*ast.File]map[ast.Node]ast.Node{}, fileOf: map[*token.File]*ast.File{}, cfgs: map[*ast.BlockStmt]*FnCFG{}}
	p.fileOf[fset.File(f.Pos())] = f
	return &miniProg{p, f, info}, nil
}

func (m *miniProg) fn(name string) *ast.FuncDecl {
	for _, d := range m.File.Decls {
		if fd, ok := d.(*ast.FuncDecl); ok && fd.Name.Name == name {
			return fd
		}
	}
	return nil
}

// callsNamed returns the call expressions to the function `name` inside n, in source order.
func callsNamed(n ast.Node, name string) []ast.Node {
	var out []ast.Node
	ast.Inspect(n, func(x ast.Node) bool {
		if call, ok := x.(*ast.CallExpr); ok {
			if id, ok := call.Fun.(*ast.Ident); ok && id.Name == name {
				out = append(out, call)
			}
		}
		return true
	})
	return out
}

const selftestCFG = `package snippet
func open() int { return 0 }
func closeIt(int) {}
func work(int) bool { return true }

// closes on every path
func good(x bool) int {
	h := open()
	if x {
		closeIt(h)
		return 1
	}
	work(h)
	closeIt(h)
	return 2
}

// the early return skips the close
func bad(x bool) int {
	h := open()
	if !work(h) {
		return 1
	}
	closeIt(h)
	return 2
}
`

const selftestLess = `package snippet
import "strings"
type T struct{ n string }
func strict(a []T) func(i, j int) bool {
	return func(i, j int) bool {
		left := a[i].n
		right := a[j].n
		if strings.HasPrefix(left, "(") && !strings.HasPrefix(right, "(") {
			return false
		}
		return left < right
	}
}
func nonStrict(a []T) func(i, j int) bool {
	return func(i, j int) bool {
		left, right := a[i].n, a[j].n
		return left <= right
	}
}
func undecided(a []T, f func(T) bool) func(i, j int) bool {
	return func(i, j int) bool { return !f(a[j]) }
}
`

const selftestPatchOld = "a\nb\nc\nd\ne\nf\n"
const selftestPatch = `diff --git a/x.txt b/x.txt
--- a/x.txt
+++ b/x.txt
@@ -10,4 +10,4 @@
 b
-c
+C
+C2
 d
`
const selftestPatchNew = "a\nb\nC\nC2\nd\ne\nf\n"

func cmdSelftest(args []string) int {
	fails := 0
	check := func(name string, ok bool, format string, a ...any) {
		state := "ok  "
		if !ok {
			state = "FAIL"
			fails++
		}
		fmt.Printf("selftest %s %-38s %s\n", state, name, fmt.Sprintf(format, a...))
	}

	// 1. registry and committed tables
	var missing []string
	for i := 1; i <= 20; i++ {
		if registry[fmt.Sprintf("C%02d", i)] == nil {
			missing = append(missing, fmt.Sprintf("C%02d", i))
		}
	}
	check("registry", len(missing) == 0, "20 properties registered (missing %v)", missing)
	if kfs, err := loadKnownFindings(); err != nil {
		check("known_findings.json", false, "%v", err)
	} else {
		bad := 0
		for _, k := range kfs {
			if registry[k.Property] == nil || k.Rule == "" || k.Instance == "" || (k.Status != "known" && !strings.HasPrefix(k.Status, "fixed: property="+k.Property+" ")) {
				bad++
			}
		}
		check("known_findings.json", bad == 0 && len(kfs) > 0, "%d entries, %d malformed (status is `known` or `fixed: property=<id> <commit> <what failed>`)", len(kfs), bad)
	}
	if ents, err := os.ReadDir(filepath.Join(verifDir, "seeded")); err == nil {
		n, bad := 0, 0
		for _, e := range ents {
			if !e.IsDir() {
				continue
			}
			n++
			var m seedMeta
			b, err := os.ReadFile(filepath.Join(verifDir, "seeded", e.Name(), "meta.json"))
			if err != nil || json.Unmarshal(b, &m) != nil || registry[m.Property] == nil {
				bad++
			}
			if _, err := os.Stat(filepath.Join(verifDir, "seeded", e.Name(), "patch.diff")); err != nil {
				bad++
			}
		}
		check("seeded changes", bad == 0, "%d stored, %d unreadable", n, bad)
	}

	// 2. CFG primitives, both directions
	if m, err := loadSnippet(selftestCFG); err != nil {
		check("cfg snippet", false, "%v", err)
	} else {
		for _, tc := range []struct {
			fn   string
			want bool // an exit is reachable from open() avoiding closeIt()
		}{{"good", false}, {"bad", true}} {
			fd := m.fn(tc.fn)
			g := m.P.CFGOf(fd.Body, m.Info)
			opens, closes := callsNamed(fd.Body, "open"), callsNamed(fd.Body, "closeIt")
			got, _ := g.ExitReachableAvoiding(opens[0], closes, nil)
			check("ExitReachableAvoiding/"+tc.fn, got == tc.want, "exit reachable from the acquire while avoiding every release: %v (want %v)", got, tc.want)
		}
		fd := m.fn("good")
		g := m.P.CFGOf(fd.Body, m.Info)
		opens, works := callsNamed(fd.Body, "open"), callsNamed(fd.Body, "work")
		check("Dominates", g.Dominates(opens[0], works[0]) && !g.Dominates(works[0], opens[0]), "open() dominates work() and not conversely")
		closes := callsNamed(fd.Body, "closeIt")
		check("Reachable", g.Reachable(opens[0], closes[1]) && !g.Reachable(closes[0], closes[1]), "the second close is reachable from open() but not from the first close")
	}

	// 3. comparator evaluation
	if m, err := loadSnippet(selftestLess); err != nil {
		check("less snippet", false, "%v", err)
	} else {
		for _, tc := range []struct{ fn, want string }{{"strict", "false"}, {"nonStrict", "true"}, {"undecided", "unknown"}} {
			var lit *ast.FuncLit
			ast.Inspect(m.fn(tc.fn), func(n ast.Node) bool {
				if l, ok := n.(*ast.FuncLit); ok && lit == nil {
					lit = l
				}
				return true
			})
			got, why := lessReflexive(m.Info, lit, "i", "j")
			check("lessReflexive/"+tc.fn, got == tc.want, "less(i,i) = %s (want %s): %s", got, tc.want, why)
		}
	}

	// 4. in-memory patch application (used by the thorough tier)
	out, err := applyUnifiedDiff(selftestPatch, func(string) ([]byte, error) { return []byte(selftestPatchOld), nil })
	check("applyUnifiedDiff/drifted-hunk", err == nil && string(out["x.txt"]) == selftestPatchNew, "hunk recorded at line 10 found at line 2 and applied (err=%v)", err)
	_, err = applyUnifiedDiff(strings.Replace(selftestPatch, "-c\n", "-zzz\n", 1), func(string) ([]byte, error) { return []byte(selftestPatchOld), nil })
	check("applyUnifiedDiff/stale-hunk", err != nil, "a hunk whose old lines are gone is refused: %v", err)

	// 5. three-valued guard evaluation (R-ABSVALID)
	if m, err := loadSnippet("package snippet\nimport \"strings\"\nfunc f(p string) bool { return p == \"..\" || strings.HasPrefix(p, \"../\") }\n"); err != nil {
		check("guard snippet", false, "%v", err)
	} else {
		fd := m.fn("f")
		v := m.Info.Defs[fd.Type.Params.List[0].Names[0]]
		cond := fd.Body.List[0].(*ast.ReturnStmt).Results[0]
		var got []string
		for _, val := range []string{"..", "../a", "a/b", "."} {
			got = append(got, fmt.Sprint(evalGuard(m.Info, cond, v, val, false) == triTrue))
		}
		check("evalGuard", strings.Join(got, ",") == "true,true,false,false", "escaping-path predicate on [.. ../a a/b .] = %v", got)
	}

	// 5b. zero-expected SSA rules keep a positive example: stale error returns (R-STALE-ERR), with and without defer
	if fns, err := ssaSnippet(selftestStaleErr); err != nil {
		check("ssa snippet", false, "%v", err)
	} else {
		for name, want := range map[string]int{"plain": 1, "deferred": 1, "fine": 0, "wrapped": 0} {
			got := len(staleErrReturns(fns[name]))
			check("staleErrReturns/"+name, got == want, "%d stale `return nil, err` found (want %d)", got, want)
		}
		for name, want := range map[string]int{"loopLast": 1, "loopFirst": 0, "loopJoin": 0} {
			got := len(errOverwrittenInLoop(fns[name]))
			check("errOverwrittenInLoop/"+name, got == want, "%d loop-overwritten errors found (want %d)", got, want)
		}
	}

	// 5c. ONCE-RESULT-LOST
	if fns, err := ssaSnippet(selftestOnce); err != nil {
		check("ssa snippet once", false, "%v", err)
	} else {
		for name, want := range map[string]int{"lost": 1, "kept": 0, "localOnce": 0} {
			got := 0
			for _, g := range allSSAFuncs(fns[name]) {
				got += len(onceResultLost(g))
			}
			check("onceResultLost/"+name, got == want, "%d Once.Do results lost (want %d)", got, want)
		}
	}

	// 5d. R-FLAGLOOP
	if fns, err := ssaSnippet(selftestFlagLoop); err != nil {
		check("ssa snippet flagloop", false, "%v", err)
	} else {
		for name, want := range map[string]int{"lastWins": 1, "nestedLastWins": 1, "anyOf": 0, "accumulated": 0, "consulted": 0} {
			got := len(flagOverwrittenInLoop(fns[name]))
			check("flagOverwrittenInLoop/"+name, got == want, "%d loop-overwritten flags (want %d)", got, want)
		}
	}

	// 5e. LOOP-ACCUM, ARGMAX
	if fns, err := ssaSnippet(selftestLoops); err != nil {
		check("ssa snippet loops", false, "%v", err)
	} else {
		for name, want := range map[string]int{"leaks": 1, "perIteration": 0, "usedAfter": 0} {
			got := len(findLoopAccumLeaks(fns[name]))
			check("findLoopAccumLeaks/"+name, (got > 0) == (want > 0), "%d per-iteration lists outliving their iteration (want %d)", got, want)
		}
		for name, want := range map[string][2]int{"argmaxGood": {1, 1}, "argmaxStale": {1, 0}, "argmaxNeverUpdated": {1, 0}, "countAbove": {0, 0}} {
			sites := findArgmaxSites(fns[name])
			ok := 0
			for _, s := range sites {
				if s.OK {
					ok++
				}
			}
			check("findArgmaxSites/"+name, (len(sites) > 0) == (want[0] > 0) && (ok > 0) == (want[1] > 0), "%d running arg-max sites, %d correct (want %v)", len(sites), ok, want)
		}
	}

	// 5f. DELEGATE-ERR
	if fns, err := ssaSnippet(selftestDelegates); err != nil {
		check("ssa snippet delegates", false, "%v", err)
	} else {
		for name, want := range map[string]int{"dropped": 1, "classified": 0, "single": 0} {
			got := -1
			if fn := ssaMethod(fns, name); fn != nil {
				got = len(delegateErrDropped(fn))
			}
			check("delegateErrDropped/"+name, got == want, "%d delegate errors dropped (want %d)", got, want)
		}
	}

	// 5g. R-ERRSEEN
	if fns, err := ssaSnippet(selftestErrSeen); err != nil {
		check("ssa snippet errseen", false, "%v", err)
	} else {
		for name, want := range map[string]int{"wrongVar": 1, "rightVar": 0, "deferred": 0} {
			got := len(errUnseenOnSuccess(fns[name]))
			check("errUnseenOnSuccess/"+name, got == want, "%d errors unseen on a success path (want %d)", got, want)
		}
	}

	// 5h. the generic rules of round 5
	selftestRound5(check)
	selftestAnticipatory(check)
	selftestDerivedKey(check)
	selftestRound6(check)

	// 6. every rule table entry that names a function has the documented key shape
	var badKeys []string
	for k := range c14NameFilterAllowed {
		if !strings.HasPrefix(k, "private/") {
			badKeys = append(badKeys, k)
		}
	}
	for k := range c11CopyConstAllowed {
		if !strings.Contains(k, ":") {
			badKeys = append(badKeys, k)
		}
	}
	sort.Strings(badKeys)
	check("exemption tables", len(badKeys) == 0, "malformed keys: %v", badKeys)

	if fails > 0 {
		fmt.Printf("selftest: %d FAILED\n", fails)
		return 1
	}
	fmt.Println("selftest: all passed")
	return 0
}

const selftestStaleErr = `package snippet

type T struct{}

func read() ([]byte, error) { return nil, nil }
func valid(b []byte) bool   { return len(b) > 0 }
func cleanup(*error)        {}

func plain() (*T, error) {
	b, err := read()
	if err != nil {
		return nil, err
	}
	if !valid(b) {
		return nil, err // err is nil here
	}
	return &T{}, nil
}

func deferred() (_ *T, retErr error) {
	defer func() { cleanup(&retErr) }()
	b, err := read()
	if err != nil {
		return nil, err
	}
	if !valid(b) {
		return nil, err // err is nil here
	}
	return &T{}, nil
}

func fine() (*T, error) {
	b, err := read()
	if err != nil {
		return nil, err
	}
	if !valid(b) {
		return nil, errInvalid
	}
	return &T{}, nil
}

func wrapped() (*T, error) {
	b, err := read()
	if !valid(b) {
		return nil, err // not known to be nil: no test dominates
	}
	return &T{}, err
}

var errInvalid error

func join(a, b error) error { return a }

func loopLast(fs []func() error) error {
	var err error
	for _, f := range fs {
		err = f()
	}
	return err
}

func loopFirst(fs []func() error) error {
	for _, f := range fs {
		if err := f(); err != nil {
			return err
		}
	}
	return nil
}

func loopJoin(fs []func() error) error {
	var err error
	for _, f := range fs {
		err = join(err, f())
	}
	return err
}
`

// ssaSnippet type-checks and builds SSA for an import-free snippet and returns its functions by name.
func ssaSnippet(src string) (map[string]*ssa.Function, error) {
	fset := token.NewFileSet()
	f, err := parser.ParseFile(fset, "snippet.go", src, 0)
	if err != nil {
		return nil, err
	}
	pkg := types.NewPackage("snippet", "snippet")
	spkg, _, err := ssautil.BuildPackage(&types.Config{Importer: importer.ForCompiler(fset, "source", nil)}, fset, pkg, []*ast.File{f}, ssa.SanityCheckFunctions)
	if err != nil {
		return nil, err
	}
	out := map[string]*ssa.Function{}
	for name, m := range spkg.Members {
		if fn, ok := m.(*ssa.Function); ok {
			out[name] = fn
		}
	}
	return out, nil
}

const selftestOnce = `package snippet

import "sync"

func lost(f func() error) func() error {
	var once sync.Once
	return func() (err error) {
		once.Do(func() { err = f() })
		return err
	}
}

func kept(f func() error) func() error {
	var once sync.Once
	var err error
	return func() error {
		once.Do(func() { err = f() })
		return err
	}
}

func localOnce(f func() error) error {
	var once sync.Once
	var err error
	once.Do(func() { err = f() })
	return err
}
`

const selftestFlagLoop = `package snippet

func test(s string) bool { return len(s) > 0 }

func lastWins(xs []string) bool {
	ok := false
	for _, x := range xs {
		ok = test(x)
	}
	return ok
}

func nestedLastWins(xs, ys []string) bool {
	valid := false
	for _, x := range xs {
		if x == "" {
			continue
		}
		for _, y := range ys {
			valid = !test(x + y)
		}
	}
	return valid
}

func anyOf(xs []string) bool {
	for _, x := range xs {
		if test(x) {
			return true
		}
	}
	return false
}

func accumulated(xs []string) bool {
	ok := false
	for _, x := range xs {
		ok = ok || test(x)
	}
	return ok
}

func consulted(xs []string) bool {
	ok := false
	for _, x := range xs {
		ok = test(x)
		if ok {
			break
		}
	}
	return ok
}
`

const selftestLoops = `package snippet

func consume([]string) {}

func leaks(roots map[string][]string) {
	filters := []string{".proto"}
	for _, ex := range roots {
		for _, e := range ex {
			filters = append(filters, e)
		}
		consume(filters)
	}
}

func perIteration(roots map[string][]string) {
	for _, ex := range roots {
		filters := []string{".proto"}
		for _, e := range ex {
			filters = append(filters, e)
		}
		consume(filters)
	}
}

func usedAfter(roots map[string][]string) {
	var all []string
	for _, ex := range roots {
		all = append(all, ex...)
	}
	consume(all)
}

type item struct{ t int }

func argmaxGood(xs []item) item {
	best := xs[0]
	bt := xs[0].t
	for _, x := range xs[1:] {
		if x.t > bt {
			best = x
			bt = x.t
		}
	}
	return best
}

func argmaxStale(xs []item) item {
	best := xs[0]
	bt := xs[0].t
	for _, x := range xs[1:] {
		if x.t > bt {
			best = x
		} else {
			bt = bt + 0
		}
	}
	_ = bt
	return best
}

func argmaxNeverUpdated(xs []item) int {
	idx := 0
	bt := xs[0].t
	for i, x := range xs {
		if x.t > bt {
			idx = i
		}
	}
	return idx
}

func countAbove(xs []item, limit int) int {
	n := 0
	for _, x := range xs {
		if x.t > limit {
			n++
		}
	}
	return n
}
`

// ssaMethod finds a method by name among the methods of the named types of the snippet package.
func ssaMethod(fns map[string]*ssa.Function, name string) *ssa.Function {
	for _, f := range fns {
		if f.Pkg == nil {
			continue
		}
		for _, m := range f.Pkg.Members {
			tn, ok := m.(*ssa.Type)
			if !ok {
				continue
			}
			for _, t := range []types.Type{tn.Type(), types.NewPointer(tn.Type())} {
				ms := f.Prog.MethodSets.MethodSet(t)
				for i := 0; i < ms.Len(); i++ {
					if ms.At(i).Obj().Name() == name {
						if fn := f.Prog.MethodValue(ms.At(i)); fn != nil && fn.Blocks != nil {
							return fn
						}
					}
				}
			}
		}
		break
	}
	return nil
}

const selftestDelegates = `package snippet

import "errors"

var errNotExist = errors.New("not exist")

type bucket interface{ Stat(string) (int, error) }

type union struct {
	delegates []bucket
	one       bucket
}

func anchor() {}

func (u *union) dropped(path string) int {
	for _, d := range u.delegates {
		v, err := d.Stat(path)
		if err != nil || v == 0 {
			continue
		}
		return v
	}
	return 0
}

func (u *union) classified(path string) (int, error) {
	for _, d := range u.delegates {
		v, err := d.Stat(path)
		if err != nil {
			if errors.Is(err, errNotExist) {
				continue
			}
			return 0, err
		}
		return v, nil
	}
	return 0, errNotExist
}

func (u *union) single(path string) int {
	if v, err := u.one.Stat(path); err == nil {
		return v
	}
	return 0
}
`

const selftestErrSeen = `package snippet

import "errors"

type wc struct{}

func (wc) Write([]byte) (int, error) { return 0, nil }
func (wc) Close() error              { return nil }

func wrongVar(w wc, data []byte) error {
	_, err := w.Write(data)
	if closeErr := w.Close(); err != nil {
		return errors.Join(err, closeErr)
	}
	return nil
}

func rightVar(w wc, data []byte) error {
	_, err := w.Write(data)
	if closeErr := w.Close(); err != nil || closeErr != nil {
		return errors.Join(err, closeErr)
	}
	return nil
}

func deferred(w wc, data []byte) (retErr error) {
	defer func() { retErr = errors.Join(retErr, w.Close()) }()
	_, err := w.Write(data)
	return err
}
`
