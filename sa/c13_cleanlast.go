package main

import (
	"fmt"
	"go/token"

	"golang.org/x/tools/go/packages"
	"golang.org/x/tools/go/ssa"
)

// c13CleanIsLast (CLEAN-LAST; C13, after round-4 seed C13-j): the escape check of NormalizeAndValidate looks at the
// *cleaned* path (it must not start with "../" or be ".."). That is sound only if nothing rewrites the path after it
// was cleaned: a replacement that can create a separator - `\` → `/` applied after filepath.Clean - turns the single
// component `a\..\..\secret` into `a/../../secret`, which passes the check and leaves the bucket's root. In the path
// packages, no strings.Replace / ReplaceAll / Map / Replacer.Replace is applied to a value that has passed through
// filepath.Clean or path.Clean (filepath.ToSlash is the one allowed step: on the platforms where it changes anything,
// Clean has already treated that character as a separator).
func c13CleanIsLast(c *Ctx, pkgs []*packages.Package) {
	const rule = "CLEAN-LAST"
	c.Rule(rule, "nothing that can create a separator is applied to a path after it was cleaned", 2)
	p := c.P
	isClean := func(cc *ssa.CallCommon) bool {
		o := staticCalleeObj(cc)
		return o != nil && o.Pkg() != nil && (o.Pkg().Path() == "path/filepath" || o.Pkg().Path() == "path") && o.Name() == "Clean"
	}
	n := 0
	for _, sf := range p.SSAFuncsOf(pkgs) {
		for _, f := range allSSAFuncs(sf) {
			cleans := 0
			for _, call := range callsIn(f) {
				if isClean(call.Call) {
					cleans++
				}
			}
			if cleans == 0 {
				continue
			}
			n++
			var bad []string
			for _, call := range callsIn(f) {
				o := staticCalleeObj(call.Call)
				if o == nil || o.Pkg() == nil || o.Pkg().Path() != "strings" {
					continue
				}
				switch o.Name() {
				case "Replace", "ReplaceAll", "Map":
				default:
					continue
				}
				for _, a := range call.Call.Args {
					if dependsOnCall(a, isClean) {
						bad = append(bad, fmt.Sprintf("strings.%s at %s", o.Name(), p.Pos(call.Pos())))
					}
				}
			}
			c.Ob(rule, ssaFuncName(f), f.Pos(), len(bad) == 0, true, "%d Clean call(s); rewriting steps applied to the cleaned value: %v", cleans, bad)
		}
	}
	if n == 0 {
		c.Fail(rule, "anchor", token.NoPos, "no function calling filepath.Clean found in the path packages")
	}
}

// c13NormalizeAlwaysCleans (CLEAN-ALWAYS; C13 and C14, after round-6 seed C14-p): "equivalent spellings of a path
// denote the same object" because every spelling goes through filepath.Clean. Normalize returns nothing but the result
// of the cleaning call: a fast path that hands the argument back when it "looks clean" is as good as its predicate, and
// a predicate that forgets one spelling (a trailing "/.") makes `a/b/.` a key nothing is stored under.
func c13NormalizeAlwaysCleans(c *Ctx) {
	const rule = "CLEAN-ALWAYS"
	c.Rule(rule, "normalpath.Normalize returns only what filepath.Clean produced, for every spelling", 1)
	p := c.P
	pk := p.Pkg("private/pkg/normalpath")
	if pk == nil {
		c.Fail(rule, "anchor", token.NoPos, "normalpath not found")
		return
	}
	n := 0
	for _, sf := range p.SSAFuncsOf([]*packages.Package{pk}) {
		if sf.Name() != "Normalize" || sf.Signature.Recv() != nil {
			continue
		}
		k := 0
		for _, r := range returnsOf(sf) {
			if len(r.Results) != 1 {
				continue
			}
			n++
			k++
			ok := dependsOnCall(r.Results[0], func(cc *ssa.CallCommon) bool {
				o := staticCalleeObj(cc)
				return o != nil && o.Pkg() != nil && (o.Pkg().Path() == "path/filepath" || o.Pkg().Path() == "path") && o.Name() == "Clean"
			})
			c.Ob(rule, fmt.Sprintf("normalpath.Normalize/return#%d", k), r.Pos(), ok, true, "the returned path is the result of Clean: %v", ok)
		}
	}
	if n == 0 {
		c.Fail(rule, "anchor", token.NoPos, "normalpath.Normalize not found")
	}
}
