package main

import (
	"fmt"
	"go/token"
	"go/types"

	"golang.org/x/tools/go/packages"
	"golang.org/x/tools/go/ssa"
)

type loopAccumSite struct {
	Fn   *ssa.Function
	Phi  *ssa.Phi
	Use  ssa.Instruction
	What string
}

// findLoopAccumLeaks lists slices that are carried around a loop (a φ at the loop head fed by an append in the body),
// start out as a fresh value before the loop, and are handed to a call *inside* the loop body: what one iteration
// appended is still there when the next iteration hands the slice on. A list that is built per element (the filters
// of one root, the options of one plugin) must be declared inside the loop.
func findLoopAccumLeaks(f *ssa.Function) []loopAccumSite {
	var out []loopAccumSite
	for _, h := range f.Blocks {
		loop := loopBlocks(h)
		if loop == nil {
			continue
		}
		for _, ins := range h.Instrs {
			ph, ok := ins.(*ssa.Phi)
			if !ok {
				break
			}
			if _, isSlice := ph.Type().Underlying().(*types.Slice); !isSlice {
				continue
			}
			// fed back by an append of itself
			appended := false
			members := map[ssa.Value]bool{ph: true}
			var work []ssa.Value
			work = append(work, ph)
			for len(work) > 0 {
				v := work[len(work)-1]
				work = work[:len(work)-1]
				if v.Referrers() == nil {
					continue
				}
				for _, r := range *v.Referrers() {
					rb := r.Block()
					if rb == nil || !loop[rb] {
						continue
					}
					switch t := r.(type) {
					case *ssa.Call:
						if isBuiltinCall(&t.Call, "append") && len(t.Call.Args) > 0 && t.Call.Args[0] == v {
							appended = true
							if !members[t] {
								members[t] = true
								work = append(work, t)
							}
						}
					case *ssa.Phi:
						if !members[t] {
							members[t] = true
							work = append(work, t)
						}
					}
				}
			}
			if !appended {
				continue
			}
			// handed to a call inside the loop (other than append/len/cap/copy)
			for v := range members {
				if v.Referrers() == nil {
					continue
				}
				for _, r := range *v.Referrers() {
					rb := r.Block()
					if rb == nil || !loop[rb] {
						continue
					}
					ci, ok := r.(ssa.CallInstruction)
					if !ok {
						continue
					}
					cc := ci.Common()
					if _, isBuiltin := cc.Value.(*ssa.Builtin); isBuiltin {
						continue
					}
					isArg := false
					for _, a := range cc.Args {
						if a == v {
							isArg = true
						}
					}
					if !isArg {
						continue
					}
					what := "a call"
					if o := staticCalleeObj(cc); o != nil {
						what = funcIDFull(o)
					}
					out = append(out, loopAccumSite{f, ph, r, what})
				}
			}
		}
	}
	return out
}

// ruleLoopAccum (LOOP-ACCUM; C10, after round-4 seed C10-j): zero instances are expected.
func ruleLoopAccum(c *Ctx, rule string, pkgs []*packages.Package) {
	c.Rule(rule, "a list that is filled and consumed within one loop iteration does not live across iterations", 0)
	p := c.P
	n, fns := 0, 0
	for _, sf := range p.SSAFuncsOf(pkgs) {
		for _, f := range allSSAFuncs(sf) {
			fns++
			seen := map[*ssa.Phi]bool{}
			for _, s := range findLoopAccumLeaks(f) {
				if seen[s.Phi] {
					continue
				}
				seen[s.Phi] = true
				n++
				c.Ob(rule, fmt.Sprintf("%s/%s", ssaFuncName(f), s.Phi.Comment), s.Use.Pos(), false, true, "slice %s is appended to in the loop and handed to %s inside the same loop, but lives across iterations: later iterations see what earlier ones appended", s.Phi.Comment, s.What)
			}
		}
	}
	c.Ob(rule, "functions-scanned", token.NoPos, n == 0, fns > 0, "%d functions scanned, %d per-iteration lists that outlive their iteration", fns, n)
}
