package main

import (
	"fmt"
	"go/token"
	"go/types"
	"strings"

	"golang.org/x/tools/go/packages"
	"golang.org/x/tools/go/ssa"
)

// c04ReservationGated (RESERVATION-GATED; C04 and C03, after round-5 seed C04-m): a deleted field or enum value is
// excused by a reservation only in the rule that says so: FIELD_NO_DELETE_UNLESS_NUMBER_RESERVED accepts a reserved
// number, …_UNLESS_NAME_RESERVED a reserved name, and the strict FIELD_NO_DELETE accepts neither. The three rules share
// one helper that is told which reservation counts through two boolean flags. Wherever the handlers ask "is this
// number/name reserved?" on behalf of such flags, the question lies on the *true* edge of one of the flags, and the
// number question and the name question are gated by different flags. A fall-through (`if numberFlag { return
// numberReserved }; return nameReserved`) makes the strict rule accept a reserved name: FILE and PACKAGE stay clean
// where WIRE_JSON reports, against the category order.
func c04ReservationGated(c *Ctx, rule string, pk *packages.Package) {
	c.Rule(rule, "a reservation excuses a deletion only on the true edge of the flag that allows that kind of reservation", 2)
	p := c.P
	n := 0
	for _, sf := range p.SSAFuncsOf([]*packages.Package{pk}) {
		for _, f := range allSSAFuncs(sf) {
			// the boolean flags visible here: parameters, or free variables bound to the parent's parameters
			isFlag := func(v ssa.Value) (string, bool) {
				v = stripConv(v)
				if u, ok := v.(*ssa.UnOp); ok && u.Op == token.MUL {
					v = u.X // a captured variable is loaded from its cell
				}
				switch t := v.(type) {
				case *ssa.Parameter:
					if b, ok := t.Type().Underlying().(*types.Basic); ok && b.Kind() == types.Bool {
						return t.Name(), true
					}
				case *ssa.FreeVar:
					return t.Name(), true
				case *ssa.Alloc:
					return t.Comment, t.Comment != ""
				}
				return "", false
			}
			gates := map[string]string{} // "number"/"name" -> flag
			var sites []ssaCall
			for _, call := range callsIn(f) {
				o := staticCalleeObj(call.Call)
				if o == nil || o.Pkg() == nil || !strings.HasSuffix(o.Pkg().Path(), "bufpkg/bufprotosource") {
					continue
				}
				kind := ""
				switch {
				case strings.Contains(o.Name(), "InReservedRanges"):
					kind = "number"
				case strings.Contains(o.Name(), "InReservedNames"):
					kind = "name"
				default:
					continue
				}
				sites = append(sites, call)
				flag := ""
				for _, ge := range guardingEdges(call.Instr.Block()) {
					cv, pos := condPolarity(ge.If.Cond)
					if name, ok := isFlag(cv); ok && ge.Branch == pos {
						flag = name
					}
				}
				n++
				c.Ob(rule, fmt.Sprintf("%s/%s-reserved", ssaFuncName(f), kind), call.Pos(), flag != "", true, "%s is asked on the true edge of a boolean flag: %q", o.Name(), flag)
				if flag != "" {
					if other, ok := gates[kind]; ok && other != flag {
						flag = other + "," + flag
					}
					gates[kind] = flag
				}
			}
			if len(sites) >= 2 && gates["number"] != "" && gates["name"] != "" {
				c.Ob(rule, ssaFuncName(f)+"/distinct-flags", sites[0].Pos(), gates["number"] != gates["name"], true, "the number reservation is gated by %q, the name reservation by %q (different flags)", gates["number"], gates["name"])
			}
		}
	}
	if n == 0 {
		c.Fail(rule, "anchor", token.NoPos, "no reservation question found in the handler package")
	}
}
