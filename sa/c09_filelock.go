package main

import (
	"fmt"
	"go/token"
	"go/types"
	"sort"
	"strings"

	"golang.org/x/tools/go/packages"
	"golang.org/x/tools/go/ssa"
)

// c09FileLock (FILELOCK; C09): the cache's mutual exclusion between processes rests on private/pkg/filelock, which the
// other C09 rules only see through the Locker interface. Four structural necessary conditions, each decided on SSA:
//
//	held-on-return   a function that tries a flock (directly or through a function-typed parameter returning
//	                 (bool, error)) hands out a non-nil Unlocker only on the `locked` edge and the err == nil edge;
//	kind             everything named Lock reaches only the exclusive try-function, everything named RLock only the
//	                 shared one (a writer that takes a shared lock excludes nobody);
//	same-path        the Lock and RLock methods of one locker type compute the lock file from the same ingredients
//	                 (receiver fields, callees, constants) - a reader and a writer of one key meet on one file;
//	store-lock-path  every Locker.Lock/RLock call of the module store derives its path argument through the same
//	                 callees, and the locker's root handed to filelock.NewLocker is a function of the cache
//	                 directory and constants only (nothing per process).
//
// What it does not decide: that flock(2) excludes (external library), fairness, or time-outs.
func c09FileLock(c *Ctx, pkStore *packages.Package) {
	const rule = "FILELOCK"
	c.Rule(rule, "file locks are handed out only when held, exclusive for Lock and shared for RLock, and readers and writers of one key lock one file", 8)
	p := c.P
	pkLock := p.Pkg("private/pkg/filelock")
	if pkLock == nil {
		c.Fail(rule, "anchor", token.NoPos, "package private/pkg/filelock not found")
		return
	}
	isFlockTry := func(fn *types.Func) (excl, shared bool) {
		if fn == nil || fn.Pkg() == nil || !strings.HasSuffix(fn.Pkg().Path(), "gofrs/flock") {
			return
		}
		switch fn.Name() {
		case "TryLockContext", "TryLock", "Lock":
			return true, false
		case "TryRLockContext", "TryRLock", "RLock":
			return false, true
		}
		return
	}
	// try-functions reachable from f: static calls, and functions referenced as values (method expressions become thunks,
	// closures are MakeClosure operands) - followed through module functions and synthetic wrappers
	var tryKinds func(f *ssa.Function, seen map[*ssa.Function]bool) (excl, shared bool)
	tryKinds = func(f *ssa.Function, seen map[*ssa.Function]bool) (excl, shared bool) {
		if f == nil || seen[f] {
			return
		}
		seen[f] = true
		if o, ok := f.Object().(*types.Func); ok {
			if e, s := isFlockTry(o); e || s {
				return e, s
			}
		}
		inModule := f.Pkg != nil && strings.HasPrefix(f.Pkg.Pkg.Path(), modPath)
		if !inModule && f.Synthetic == "" {
			return
		}
		visit := func(g *ssa.Function) {
			e, s := tryKinds(g, seen)
			excl, shared = excl || e, shared || s
		}
		for _, a := range f.AnonFuncs {
			visit(a)
		}
		for _, b := range f.Blocks {
			for _, ins := range b.Instrs {
				if cv, ok := ins.(ssa.CallInstruction); ok {
					if o := staticCalleeObj(cv.Common()); o != nil {
						if e, s := isFlockTry(o); e || s {
							excl, shared = excl || e, shared || s
						}
					}
				}
				for _, op := range ins.Operands(nil) {
					if op == nil || *op == nil {
						continue
					}
					switch g := (*op).(type) {
					case *ssa.Function:
						visit(g)
					case *ssa.MakeClosure:
						if gf, ok := g.Fn.(*ssa.Function); ok {
							visit(gf)
						}
					}
				}
			}
		}
		return
	}

	// ---- held-on-return ----
	isTryParamCall := func(cc *ssa.CallCommon) bool {
		if cc.IsInvoke() {
			return false
		}
		if o := staticCalleeObj(cc); o != nil {
			e, s := isFlockTry(o)
			return e || s
		}
		sig, ok := cc.Value.Type().Underlying().(*types.Signature)
		if !ok || sig.Results().Len() != 2 {
			return false
		}
		b, ok := sig.Results().At(0).Type().Underlying().(*types.Basic)
		return ok && b.Kind() == types.Bool && isErrorType(sig.Results().At(1).Type())
	}
	held := 0
	for _, sf := range p.SSAFuncsOf([]*packages.Package{pkLock}) {
		for _, f := range allSSAFuncs(sf) {
			var try *ssa.Call
			for _, call := range callsIn(f) {
				if cv, ok := call.Instr.(*ssa.Call); ok && isTryParamCall(&cv.Call) {
					try = cv
				}
			}
			if try == nil || f.Signature.Results().Len() == 0 {
				continue
			}
			var locked, lerr ssa.Value
			if refs := try.Referrers(); refs != nil {
				for _, r := range *refs {
					if ex, ok := r.(*ssa.Extract); ok {
						if ex.Index == 0 {
							locked = ex
						} else {
							lerr = ex
						}
					}
				}
			}
			for _, ret := range returnsOf(f) {
				if len(ret.Results) == 0 || ret.Block() == f.Recover || isNilConst(spilledResult(ret, ret.Results[0])) {
					continue
				}
				if !instrDominates(try, ret) {
					// a lock handed out without the try call having run at all
					held++
					c.Ob(rule, ssaFuncName(f)+"/held-on-return", ret.Pos(), false, true, "a non-nil Unlocker is returned on a path that does not pass the try-lock call")
					continue
				}
				onLocked, onNilErr := false, false
				for _, ge := range guardingEdges(ret.Block()) {
					cv, pos := condPolarity(ge.If.Cond)
					if locked != nil && cv == locked && ge.Branch == pos {
						onLocked = true
					}
					if x, trueIsNonNil, ok := nilCompare(ge.If.Cond); ok && lerr != nil && x == lerr && ge.Branch != trueIsNonNil {
						onNilErr = true
					}
				}
				held++
				c.Ob(rule, ssaFuncName(f)+"/held-on-return", ret.Pos(), onLocked && onNilErr, true,
					"the Unlocker is returned only on the edge where the try-lock reported locked (%v) and no error (%v)", onLocked, onNilErr)
			}
		}
	}
	if held == 0 {
		c.Fail(rule, "held-on-return", token.NoPos, "no function trying a flock and returning an Unlocker found in private/pkg/filelock")
	}

	// ---- lock-file-kept: a flock is a lock on an inode; removing or renaming the lock file while another process
	// waits on (or is about to open) it splits the lock in two. Nothing in the package may remove files.
	removals, scanned := "", 0
	for _, sf := range p.SSAFuncsOf([]*packages.Package{pkLock}) {
		for _, f := range allSSAFuncs(sf) {
			scanned++
			for _, call := range callsIn(f) {
				if o := staticCalleeObj(call.Call); o != nil && o.Pkg() != nil && (o.Pkg().Path() == "os" || o.Pkg().Path() == "syscall") {
					switch o.Name() {
					case "Remove", "RemoveAll", "Rename", "Unlink", "Truncate":
						removals += " " + ssaFuncName(f) + ":" + o.Name()
					}
				}
			}
		}
	}
	c.Ob(rule, "lock-file-kept", token.NoPos, removals == "", scanned > 0, "%d functions of filelock scanned; calls that remove, rename or truncate a file:%s", scanned, removals)

	// ---- kind, same-path ----
	type pathIngredients struct {
		set    []string
		pos    token.Pos
		callee *ssa.Function
	}
	ingredientsOf := func(f *ssa.Function, v ssa.Value) []string {
		set := map[string]bool{}
		sliceBackDeep(v, func(x ssa.Value) bool {
			switch t := x.(type) {
			case *ssa.FieldAddr:
				set["field:"+fieldName(t.X.Type(), t.Field)] = true
			case *ssa.Field:
				set["field:"+fieldName(t.X.Type(), t.Field)] = true
			case *ssa.Const:
				if t.Value != nil && t.Value.Kind().String() == "String" {
					set["const:"+t.Value.ExactString()] = true
				}
			case *ssa.Parameter:
				if t.Parent() == f {
					for i, prm := range f.Params {
						if prm == t {
							set[fmt.Sprintf("param#%d", i)] = true
						}
					}
				}
			case *ssa.Call:
				if o := staticCalleeObj(&t.Call); o != nil {
					if dd := p.DeclOf(o); dd == nil || o.Pkg() == nil || !strings.HasPrefix(o.Pkg().Path(), modPath) || o.Pkg().Path() != f.Pkg.Pkg.Path() {
						// callees of other packages are ingredients; helpers of the same package are looked through
						set["call:"+funcIDFull(o)] = true
					}
				}
			}
			return true
		})
		return sortedKeys(set)
	}
	byRecv := map[string]map[string]pathIngredients{}
	kinds := 0
	for _, sf := range p.SSAFuncsOf([]*packages.Package{pkLock}) {
		name := sf.Name()
		lname := strings.ToLower(name)
		if lname != "lock" && lname != "rlock" {
			continue
		}
		excl, shared := tryKinds(sf, map[*ssa.Function]bool{})
		if !excl && !shared {
			continue // the no-op locker
		}
		kinds++
		wantExcl := lname == "lock"
		ok := excl == wantExcl && shared == !wantExcl
		c.Ob(rule, ssaFuncName(sf)+"/kind", sf.Pos(), ok, true, "%s reaches the exclusive try-lock: %v, the shared try-lock: %v (wanted: only %s)", name, excl, shared,
			map[bool]string{true: "exclusive", false: "shared"}[wantExcl])
		if sf.Signature.Recv() == nil {
			continue
		}
		// the path handed on: the string argument of the first module call that reaches a try function
		for _, call := range callsIn(sf) {
			callee := call.Call.StaticCallee()
			if callee == nil {
				continue
			}
			if e, s := tryKinds(callee, map[*ssa.Function]bool{}); !e && !s {
				// a shared helper that is handed the locking function as a value (lockWithFunc(ctx, path, lock, …))
				viaValue := false
				for _, a := range call.Call.Args {
					if fv, ok := stripConv(a).(*ssa.Function); ok {
						if e2, s2 := tryKinds(fv, map[*ssa.Function]bool{}); e2 || s2 {
							viaValue = true
						}
					}
				}
				if !viaValue {
					continue
				}
			}
			for _, a := range call.Call.Args {
				if b, ok := a.Type().Underlying().(*types.Basic); ok && b.Kind() == types.String {
					recv := namedPath(sf.Signature.Recv().Type())
					if byRecv[recv] == nil {
						byRecv[recv] = map[string]pathIngredients{}
					}
					byRecv[recv][lname] = pathIngredients{ingredientsOf(sf, a), call.Pos(), callee}
				}
			}
		}
	}
	if kinds < 4 {
		c.Fail(rule, "kind", token.NoPos, "expected the package-level and the locker's Lock and RLock (4 functions), found %d", kinds)
	}
	same := 0
	recvs := make([]string, 0, len(byRecv))
	for r := range byRecv {
		recvs = append(recvs, r)
	}
	sort.Strings(recvs)
	for _, r := range recvs {
		l, okL := byRecv[r]["lock"]
		rl, okR := byRecv[r]["rlock"]
		if !okL || !okR {
			continue
		}
		same++
		eq := strings.Join(l.set, " ") == strings.Join(rl.set, " ")
		usesRoot, usesParam := false, false
		for _, s := range l.set {
			usesRoot = usesRoot || strings.HasPrefix(s, "field:")
			usesParam = usesParam || strings.HasPrefix(s, "param#")
		}
		if l.callee == rl.callee && eq && usesParam {
			// both delegate to one helper with their own path argument: the root is joined there, identically
			usesRoot = true
		}
		c.Ob(rule, r+"/same-path", l.pos, eq && usesRoot && usesParam, true, "Lock builds the lock file path from %v, RLock from %v: equal %v, from the locker's root %v and the caller's path %v", l.set, rl.set, eq, usesRoot, usesParam)
	}
	if same == 0 {
		c.Fail(rule, "same-path", token.NoPos, "no locker type with both Lock and RLock handing a path to the flock layer found")
	}

	// ---- store-lock-path ----
	if pkStore != nil {
		type site struct {
			set []string
			pos token.Pos
			fn  string
		}
		var sites []site
		for _, sf := range p.SSAFuncsOf([]*packages.Package{pkStore}) {
			for _, f := range allSSAFuncs(sf) {
				for _, call := range callsIn(f) {
					if !call.Call.IsInvoke() || (call.Call.Method.Name() != "Lock" && call.Call.Method.Name() != "RLock") || !strings.HasSuffix(namedPath(call.Call.Value.Type()), "filelock.Locker") {
						continue
					}
					if len(call.Call.Args) < 2 {
						continue
					}
					set := map[string]bool{}
					sliceBackDeep(call.Call.Args[1], func(x ssa.Value) bool {
						switch t := x.(type) {
						case *ssa.Call:
							if strings.HasSuffix(namedPath(t.Type()), "bufmodule.ModuleKey") {
								break // how the key was come by is not part of the path
							}
							if o := staticCalleeObj(&t.Call); o != nil {
								if o.Pkg() != nil && o.Pkg().Path() == pkStore.PkgPath {
									break // the store's own helpers are looked through
								}
								if t.Call.IsInvoke() && strings.HasSuffix(namedPath(t.Call.Value.Type()), "bufmodule.ModuleKey") {
									set["key:"+o.Name()] = true
								} else {
									set["call:"+funcIDFull(o)] = true
								}
							}
						case *ssa.Const:
							if t.Value != nil && t.Value.Kind().String() == "String" {
								set["const:"+t.Value.ExactString()] = true
							}
						case *ssa.Global:
							set["global:"+t.Name()] = true
						}
						return true
					})
					sites = append(sites, site{sortedKeys(set), call.Pos(), ssaFuncName(f)})
				}
			}
		}
		if len(sites) < 2 {
			c.Fail(rule, "store-lock-path", token.NoPos, "expected at least a reader and a writer lock site in the module store, found %d", len(sites))
		}
		for i, s := range sites {
			eq := strings.Join(s.set, " ") == strings.Join(sites[0].set, " ")
			viaKey := false
			for _, x := range s.set {
				viaKey = viaKey || strings.HasPrefix(x, "key:") // an accessor of the module key
			}
			c.Ob(rule, fmt.Sprintf("store-lock-path/site#%d", i+1), s.pos, eq && viaKey, true, "%s derives the lock path from %v, the same as the first lock site: %v; from the module key: %v", s.fn, s.set, eq, viaKey)
		}
	}
	// the locker root: a function of the cache directory and constants
	roots := 0
	for _, pk := range p.ModulePkgs() {
		if strings.HasSuffix(pk.PkgPath, "_test") {
			continue
		}
		for _, sf := range p.SSAFuncsOf([]*packages.Package{pk}) {
			for _, f := range allSSAFuncs(sf) {
				for _, call := range callsIn(f) {
					o := staticCalleeObj(call.Call)
					if o == nil || !isFuncNamed(o, "private/pkg/filelock", "", "NewLocker") || len(call.Call.Args) == 0 {
						continue
					}
					var bad []string
					cacheDir := false
					sliceBackDeep(call.Call.Args[0], func(x ssa.Value) bool {
						if cl, ok := x.(*ssa.Call); ok {
							switch {
							case cl.Call.IsInvoke() && cl.Call.Method.Name() == "CacheDirPath":
								cacheDir = true
							case cl.Call.IsInvoke():
								bad = append(bad, "method "+cl.Call.Method.Name())
							default:
								if co := staticCalleeObj(&cl.Call); co != nil && co.Pkg() != nil {
									pp := co.Pkg().Path()
									if !(strings.HasSuffix(pp, "pkg/normalpath") || pp == "path/filepath" || pp == "path" || pp == "strings") {
										bad = append(bad, funcIDFull(co))
									}
								}
							}
						}
						return true
					})
					roots++
					c.Ob(rule, ssaFuncName(f)+"/locker-root", call.Pos(), cacheDir && len(bad) == 0, true, "the lock directory is built from the container's CacheDirPath (%v), path joins and constants only (other ingredients: %v)", cacheDir, bad)
				}
			}
		}
	}
	if roots == 0 {
		c.Fail(rule, "locker-root", token.NoPos, "no filelock.NewLocker call found in the module")
	}
	// the locker a store is given is a real one on every path: "several buf processes caching and reading the same
	// module at once" are only kept apart by lock files, so a fallback to the no-op locker (taken, say, when the lock
	// directory cannot be created) silently turns the guarantee off for that process.
	handed := 0
	for _, pk := range p.ModulePkgs() {
		if strings.HasSuffix(pk.PkgPath, "_test") || strings.HasSuffix(pk.PkgPath, "pkg/filelock") {
			continue
		}
		for _, sf := range p.SSAFuncsOf([]*packages.Package{pk}) {
			for _, f := range allSSAFuncs(sf) {
				for _, call := range callsIn(f) {
					for i, a := range call.Call.Args {
						if namedPath(a.Type()) != modPath+"/private/pkg/filelock.Locker" {
							continue
						}
						if _, isParam := stripConv(a).(*ssa.Parameter); isParam {
							continue // handed on: decided where it was made
						}
						handed++
						var other []string
						real := false
						var walk func(v ssa.Value, seen map[ssa.Value]bool)
						walk = func(v ssa.Value, seen map[ssa.Value]bool) {
							v = stripConv(v)
							if seen[v] {
								return
							}
							seen[v] = true
							switch x := v.(type) {
							case *ssa.Phi:
								for _, e := range x.Edges {
									walk(e, seen)
								}
							case *ssa.Extract:
								walk(x.Tuple, seen)
							case *ssa.MakeInterface:
								walk(x.X, seen)
							case *ssa.Call:
								if o := staticCalleeObj(&x.Call); o != nil && isFuncNamed(o, "private/pkg/filelock", "", "NewLocker") {
									real = true
								} else if o != nil {
									other = append(other, funcIDFull(o))
								} else {
									other = append(other, "dynamic call")
								}
							case *ssa.UnOp:
								// a local spilled to a cell (captured, or assigned in branches under a defer)
								if al, ok := x.X.(*ssa.Alloc); ok && x.Op == token.MUL {
									for _, st := range storesInto(al) {
										walk(st, seen)
									}
								} else {
									other = append(other, "load of "+x.X.Name())
								}
							case *ssa.Parameter:
							default:
								other = append(other, fmt.Sprintf("%T", v))
							}
						}
						walk(a, map[ssa.Value]bool{})
						who := "?"
						if o := staticCalleeObj(call.Call); o != nil {
							who = o.Name()
						}
						c.Ob(rule, fmt.Sprintf("%s/locker-real/%s#%d", ssaFuncName(f), who, i), call.Pos(), real && len(other) == 0, true, "the Locker handed to %s is the result of filelock.NewLocker on every path (%v); other origins: %v", who, real, uniq(other))
					}
				}
			}
		}
	}
	if handed == 0 {
		c.Fail(rule, "locker-real", token.NoPos, "no call site handing a filelock.Locker to a store found")
	}
}
