package main

import (
	"fmt"
	"go/token"
	"strings"

	"golang.org/x/tools/go/packages"
	"golang.org/x/tools/go/ssa"
)

// ruleTargetPathsByComponent (PATHS-BY-COMPONENT; C01 and C10, after round-5 seed C01-m): `--path acme/pay/v1` does
// not contain `acme/pay/v1beta1`. Whether one target path lies inside another is a question about path components,
// which normalpath.ContainsPath / EqualsOrContainsPath / MapHasEqualOrContainingPath answer; a string-prefix test on
// the same values answers a different question and makes a sibling directory that merely shares a spelling prefix
// count as "already covered" (its files are never walked: they keep IsTargetFile() == true and are missing from the
// image). In the packages that hold target paths, no strings.HasPrefix / HasSuffix / Contains / TrimPrefix is applied
// to a value that comes from a target-path field (a struct field whose name mentions both "target" and "path").
func ruleTargetPathsByComponent(c *Ctx, rule string, pkgs []*packages.Package) {
	c.Rule(rule, "target paths are compared by path components (normalpath), never by string prefix", 0)
	p := c.P
	n, calls := 0, 0
	for _, sf := range p.SSAFuncsOf(pkgs) {
		for _, f := range allSSAFuncs(sf) {
			k := 0
			for _, call := range callsIn(f) {
				o := staticCalleeObj(call.Call)
				if o == nil || o.Pkg() == nil || o.Pkg().Path() != "strings" {
					continue
				}
				switch o.Name() {
				case "HasPrefix", "HasSuffix", "Contains", "TrimPrefix", "CutPrefix", "Index":
				default:
					continue
				}
				calls++
				field := ""
				for _, a := range call.Call.Args {
					sliceBack(a, func(x ssa.Value) bool {
						if fa, ok := x.(*ssa.FieldAddr); ok {
							fn := strings.ToLower(fieldName(fa.X.Type(), fa.Field))
							fn = fn[strings.LastIndex(fn, ".")+1:]
							if strings.Contains(fn, "target") && strings.Contains(fn, "path") {
								field = fn
							}
						}
						// through closures: the value a free variable is bound to, in the enclosing function
						if fv, ok := x.(*ssa.FreeVar); ok {
							if bound := freeVarBinding(fv); bound != nil {
								sliceBack(bound, func(y ssa.Value) bool {
									if fa, ok := y.(*ssa.FieldAddr); ok {
										fn := strings.ToLower(fieldName(fa.X.Type(), fa.Field))
										fn = fn[strings.LastIndex(fn, ".")+1:]
										if strings.Contains(fn, "target") && strings.Contains(fn, "path") {
											field = fn
										}
									}
									return field == ""
								})
							}
						}
						return field == ""
					})
				}
				if field == "" {
					continue
				}
				n++
				k++
				c.Ob(rule, fmt.Sprintf("%s/strings.%s#%d", ssaFuncName(f), o.Name(), k), call.Pos(), false, true, "strings.%s is applied to a value of the target-path field %s: containment of paths is decided by components, not by spelling", o.Name(), field)
			}
		}
	}
	c.Ob(rule, "calls-scanned", token.NoPos, n == 0, calls >= 0, "%d strings prefix/substring calls scanned in the target-path packages, %d on target paths", calls, n)
}

// freeVarBinding returns the value a closure's free variable is bound to at the MakeClosure in the enclosing function.
func freeVarBinding(fv *ssa.FreeVar) ssa.Value {
	fn := fv.Parent()
	if fn == nil || fn.Parent() == nil {
		return nil
	}
	idx := -1
	for i, v := range fn.FreeVars {
		if v == fv {
			idx = i
		}
	}
	if idx < 0 {
		return nil
	}
	for _, b := range fn.Parent().Blocks {
		for _, ins := range b.Instrs {
			if mc, ok := ins.(*ssa.MakeClosure); ok && mc.Fn == ssa.Value(fn) && idx < len(mc.Bindings) {
				return mc.Bindings[idx]
			}
		}
	}
	return nil
}
