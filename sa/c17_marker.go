package main

import (
	"fmt"
	"go/token"
	"strings"

	"golang.org/x/tools/go/packages"
	"golang.org/x/tools/go/ssa"
)

// c17MarkerDelimited (MARKER-DELIMITED; C17, after round-4 seed C17-l): an insertion point is found by searching the
// target file for `@@protoc_insertion_point(NAME)`. The search is a substring test, so the name must be delimited on
// both sides in the needle: without the closing parenthesis, content addressed to `class_scope:pkg.Foo` is also
// inserted at `class_scope:pkg.FooBar`, and a point that does not exist is accepted when it is a prefix of one that
// does. For every substring/prefix test whose needle is built from GetInsertionPoint(), the needle is a concatenation
// in which the name is followed by a non-empty constant and preceded by one.
func c17MarkerDelimited(c *Ctx, pk *packages.Package) {
	const rule = "MARKER-DELIMITED"
	c.Rule(rule, "the insertion-point marker searched for delimits the point's name on both sides", 1)
	p := c.P
	n := 0
	isName := func(v ssa.Value) bool {
		cl, ok := stripConv(v).(*ssa.Call)
		if !ok {
			return false
		}
		if cl.Call.IsInvoke() {
			return cl.Call.Method.Name() == "GetInsertionPoint"
		}
		o := staticCalleeObj(&cl.Call)
		return o != nil && o.Name() == "GetInsertionPoint"
	}
	// flatten a + b + c
	var flatten func(v ssa.Value) []ssa.Value
	flatten = func(v ssa.Value) []ssa.Value {
		v = stripConv(v)
		if bo, ok := v.(*ssa.BinOp); ok && bo.Op == token.ADD {
			return append(flatten(bo.X), flatten(bo.Y)...)
		}
		return []ssa.Value{v}
	}
	for _, sf := range p.SSAFuncsOf([]*packages.Package{pk}) {
		for _, f := range allSSAFuncs(sf) {
			k := 0
			for _, call := range callsIn(f) {
				o := staticCalleeObj(call.Call)
				if o == nil || o.Pkg() == nil || (o.Pkg().Path() != "bytes" && o.Pkg().Path() != "strings") || len(call.Call.Args) != 2 {
					continue
				}
				switch o.Name() {
				case "Contains", "Index", "HasPrefix", "HasSuffix", "Equal":
				default:
					continue
				}
				needle := call.Call.Args[1]
				if !dependsOnCall(needle, func(cc *ssa.CallCommon) bool {
					if cc.IsInvoke() {
						return cc.Method.Name() == "GetInsertionPoint"
					}
					co := staticCalleeObj(cc)
					return co != nil && co.Name() == "GetInsertionPoint"
				}) {
					continue
				}
				n++
				k++
				// the needle (through []byte conversion and local variables) as a concatenation
				var parts []ssa.Value
				sliceBack(needle, func(x ssa.Value) bool {
					if bo, ok := x.(*ssa.BinOp); ok && bo.Op == token.ADD && parts == nil {
						parts = flatten(bo)
						return false
					}
					return true
				})
				before, after := false, false
				for i, part := range parts {
					if !isName(part) {
						continue
					}
					nonEmptyConst := func(v ssa.Value) bool {
						k, ok := v.(*ssa.Const)
						return ok && k.Value != nil && strings.Trim(k.Value.ExactString(), `"`) != ""
					}
					before = i > 0 && nonEmptyConst(parts[i-1])
					after = i+1 < len(parts) && nonEmptyConst(parts[i+1])
				}
				c.Ob(rule, fmt.Sprintf("%s/%s.%s#%d", ssaFuncName(f), o.Pkg().Name(), o.Name(), k), call.Pos(), before && after, true,
					"the needle built from GetInsertionPoint() has a constant before the name: %v, and after it: %v", before, after)
			}
		}
	}
	if n == 0 {
		c.Fail(rule, "anchor", token.NoPos, "no search for a marker built from GetInsertionPoint() found")
	}
}
