package main

import (
	"strings"

	"golang.org/x/tools/go/packages"
)

// c05UnstableIsNotStable (UNSTABLE-IS-NOT-STABLE; C05, after round-5 seed C05-o): "unstable" means every stability
// level other than stable - alpha, beta *and test*. A decision over protoversion.StabilityLevel written as a switch
// without default must therefore name every level except, at most, the stable one; listing alpha and beta only lets a
// stable package import a `v1test` package unreported. (`!= StabilityLevelStable` needs no rule: it cannot forget one.)
func c05UnstableIsNotStable(c *Ctx, rule string, pkgs []*packages.Package) {
	c.Rule(rule, "a switch over the stability level without default names every unstable level", 0)
	p := c.P
	n := 0
	for _, pk := range pkgs {
		for _, es := range findEnumSwitches(p, pk) {
			if !strings.HasSuffix(namedPath(es.Type), "protoversion.StabilityLevel") || es.HasDefault {
				continue
			}
			n++
			var bad []string
			for _, m := range es.Missing {
				if !strings.Contains(m, "Stable") || strings.Contains(m, "Unstable") {
					bad = append(bad, m)
				}
			}
			c.Ob(rule, es.Fn+"/switch", es.Switch.Pos(), len(bad) == 0, true, "levels not named by this switch without default: %v; unstable levels among them: %v", es.Missing, bad)
		}
	}
	c.Ob(rule, "switches-scanned", 0, true, false, "%d switches over StabilityLevel without default", n)
}
