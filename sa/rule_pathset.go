package main

import (
	"go/types"

	"golang.org/x/tools/go/packages"
	"golang.org/x/tools/go/ssa"
)

// leavesEntriesBehind reports whether g inserts into its map parameter idx, deletes from it again (the map is the set
// of nodes on the current search path, cleaned up when the search backs out), and has a return between the insertion
// and the deletion that skips the deletion (the search succeeded): after such a return the map is dirty.
func leavesEntriesBehind(g *ssa.Function, idx int) bool {
	if idx >= len(g.Params) {
		return false
	}
	prm := g.Params[idx]
	var ins, del ssa.Instruction
	for _, b := range g.Blocks {
		for _, in := range b.Instrs {
			switch t := in.(type) {
			case *ssa.MapUpdate:
				if t.Map == ssa.Value(prm) {
					ins = in
				}
			case *ssa.Call:
				if isBuiltinCall(&t.Call, "delete") && len(t.Call.Args) == 2 && t.Call.Args[0] == ssa.Value(prm) {
					del = in
				}
			}
		}
	}
	if ins == nil || del == nil {
		return false
	}
	// a return reachable from the insertion without passing the deletion's block
	seen := map[*ssa.BasicBlock]bool{}
	var dfs func(b *ssa.BasicBlock) bool
	dfs = func(b *ssa.BasicBlock) bool {
		if seen[b] || b == del.Block() {
			return false
		}
		seen[b] = true
		if len(b.Instrs) > 0 {
			if _, ok := b.Instrs[len(b.Instrs)-1].(*ssa.Return); ok {
				return true
			}
		}
		for _, s := range b.Succs {
			if dfs(s) {
				return true
			}
		}
		return false
	}
	if ins.Block() == del.Block() {
		return false
	}
	for _, s := range ins.Block().Succs {
		if dfs(s) {
			return true
		}
	}
	return false
}

// rulePathSetFresh (PATH-SET-FRESH; C05, after round-4 seed C05-l): a depth-first search that keeps the set of nodes
// on its current path in a map, and returns as soon as it has found what it looks for, leaves that map dirty. Each
// top-level search must therefore start from its own map: a call of such a function inside a loop whose map argument
// was made outside that loop lets one search see the leftovers of the previous one (a second import cycle through the
// same package is not reported, depending on map order).
func rulePathSetFresh(c *Ctx, rule string, pkgs []*packages.Package, min int) {
	c.Rule(rule, "a path-set search that can return without cleaning up is started with a fresh set on every iteration", min)
	p := c.P
	for _, sf := range p.SSAFuncsOf(pkgs) {
		for _, f := range allSSAFuncs(sf) {
			for _, call := range callsIn(f) {
				g := call.Call.StaticCallee()
				if g == nil || g == f || g.Blocks == nil {
					continue
				}
				for i, a := range call.Call.Args {
					if _, isMap := a.Type().Underlying().(*types.Map); !isMap || !leavesEntriesBehind(g, i) {
						continue
					}
					// innermost loop around the call
					var inner map[*ssa.BasicBlock]bool
					for _, h := range f.Blocks {
						if l := loopBlocks(h); l != nil && l[call.Instr.Block()] && (inner == nil || len(l) < len(inner)) {
							inner = l
						}
					}
					if inner == nil {
						c.Ob(rule, ssaFuncName(f)+"->"+g.Name(), call.Pos(), true, true, "%s may return with entries left in its path set; this call is not in a loop", g.Name())
						continue
					}
					fresh := false
					switch mv := stripConv(a).(type) {
					case *ssa.MakeMap:
						fresh = inner[mv.Block()]
					}
					c.Ob(rule, ssaFuncName(f)+"->"+g.Name(), call.Pos(), fresh, true, "%s may return with entries left in its path set; the set handed to it here is made inside the loop that starts the searches: %v", g.Name(), fresh)
				}
			}
		}
	}
}
