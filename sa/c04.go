package main

// C04 — compatible changes are never reported; breaking categories are ordered.

import (
	"fmt"
	"go/ast"
	"go/token"
	"go/types"
	"strings"
)

func init() {
	register(&propCheck{
		ID: "C04",
		Explanation: "Table and label obligations behind 'FILE ⊇ PACKAGE ⊇ WIRE_JSON ⊇ WIRE' and 'additions are never reported': (1) for every spec version and every adjacent " +
			"pair of breaking categories, each rule of the laxer category is a member of the stricter one or all the stricter rules that imply it (frozen, reasoned implication " +
			"table) are; (2) the wire+JSON compatibility partition refines the wire partition (same WIRE_JSON group ⇒ same WIRE group, literals folded); (3) the reservation " +
			"exemptions only weaken: with both allow-flags false the 'deletion allowed' predicates fold to false (boolean partial evaluation over the CFG), and the three " +
			"NO_DELETE variants call the shared helper with flag tuples (F,F), (name), (number) matching their rule IDs; (4) rules only visit elements present in the previous " +
			"image: the pair adapters drive their loops from previous indexes and handlers report only previous-keyed misses (LABEL obligations shared with C03). " +
			"NOT decided: absence of false positives for arbitrary additive chains (value-level semantics of 60 predicates); the implication table is my reading of the documentation.",
		Assumptions: []string{"a rule of a stricter category documented to imply a laxer one really fires whenever the laxer one does"},
		Run:         runC04,
	})
}

// rule that lives only in a laxer category → stricter rules that must ALL be members of the stricter category
var c04Implicants = map[string][]string{
	"PACKAGE_ENUM_NO_DELETE":                      {"ENUM_NO_DELETE", "FILE_NO_DELETE", "FILE_SAME_PACKAGE"},
	"PACKAGE_MESSAGE_NO_DELETE":                   {"MESSAGE_NO_DELETE", "FILE_NO_DELETE", "FILE_SAME_PACKAGE"},
	"PACKAGE_SERVICE_NO_DELETE":                   {"SERVICE_NO_DELETE", "FILE_NO_DELETE", "FILE_SAME_PACKAGE"},
	"PACKAGE_EXTENSION_NO_DELETE":                 {"EXTENSION_NO_DELETE", "FILE_NO_DELETE", "FILE_SAME_PACKAGE"},
	"PACKAGE_NO_DELETE":                           {"FILE_NO_DELETE", "FILE_SAME_PACKAGE"},
	"ENUM_VALUE_NO_DELETE_UNLESS_NAME_RESERVED":   {"ENUM_VALUE_NO_DELETE"},
	"ENUM_VALUE_NO_DELETE_UNLESS_NUMBER_RESERVED": {"ENUM_VALUE_NO_DELETE"},
	"FIELD_NO_DELETE_UNLESS_NAME_RESERVED":        {"FIELD_NO_DELETE"},
	"FIELD_NO_DELETE_UNLESS_NUMBER_RESERVED":      {"FIELD_NO_DELETE"},
	"FIELD_WIRE_JSON_COMPATIBLE_CARDINALITY":      {"FIELD_SAME_CARDINALITY"},
	"FIELD_WIRE_JSON_COMPATIBLE_TYPE":             {"FIELD_SAME_TYPE"},
	"FIELD_WIRE_COMPATIBLE_CARDINALITY":           {"FIELD_WIRE_JSON_COMPATIBLE_CARDINALITY"},
	"FIELD_WIRE_COMPATIBLE_TYPE":                  {"FIELD_WIRE_JSON_COMPATIBLE_TYPE"},
}

func specCategories(st *specTable) map[string]map[string]bool {
	cat := map[string]map[string]bool{}
	for _, r := range st.Rows {
		if r.Builder == nil {
			continue
		}
		for _, c := range r.Categories {
			if cat[c] == nil {
				cat[c] = map[string]bool{}
			}
			cat[c][r.Builder.ID] = true
		}
	}
	return cat
}

func runC04(c *Ctx) {
	p := c.P
	c.Rule("HIERARCHY", "each rule of a laxer breaking category is in the stricter category or all its documented implicants are", 150)
	c.Rule("GROUPS-NEST", "fields in one WIRE_JSON compatibility group are in one WIRE compatibility group", 1)
	c.Rule("EXEMPTION-WEAKENS", "reservation exemptions fold to 'not allowed' when both flags are false; flag tuples match the rule IDs", 3)
	c.Rule("PREVIOUS-DRIVEN", "pair adapters drive their loops from previous indexes: elements absent from the previous image are never visited", 6)
	t := extractCheckTables(p)
	chain := []string{"FILE", "PACKAGE", "WIRE_JSON", "WIRE"}
	for _, sn := range []string{"V1Beta1Spec", "V1Spec", "V2Spec"} {
		st := t.Specs[sn]
		if st == nil {
			c.Fail("HIERARCHY", sn, token.NoPos, "spec table not found")
			continue
		}
		cat := specCategories(st)
		for i := 0; i+1 < len(chain); i++ {
			strict, lax := chain[i], chain[i+1]
			if len(cat[lax]) == 0 || len(cat[strict]) == 0 {
				c.Fail("HIERARCHY", sn+"/"+lax, st.Pos, "category %s or %s has no rules in %s", strict, lax, sn)
				continue
			}
			for _, id := range sortedKeys(cat[lax]) {
				inst := fmt.Sprintf("%s/%s⊆%s/%s", sn, lax, strict, id)
				if cat[strict][id] {
					c.Ob("HIERARCHY", inst, st.Pos, true, false, "member of both %s and %s", lax, strict)
					continue
				}
				imp := c04Implicants[id]
				if len(imp) == 0 {
					c.Ob("HIERARCHY", inst, st.Pos, false, true, "rule %s is in %s but not in %s and no stricter rule is documented to imply it: a comparison clean under %s could fail under %s", id, lax, strict, strict, lax)
					continue
				}
				var missing []string
				for _, s := range imp {
					if !cat[strict][s] {
						missing = append(missing, s)
					}
				}
				c.Ob("HIERARCHY", inst, st.Pos, len(missing) == 0, true, "implied by %v which must all be in %s; missing: %v", imp, strict, missing)
			}
		}
	}
	// (2) groups nest
	pkH := p.Pkg(pkgCheckHandle)
	if pkH == nil {
		c.Fail("GROUPS-NEST", "anchor", token.NoPos, "handle package not found")
		return
	}
	read := func(name string) map[string]string {
		cl := pkgVarLiteral(pkH, name)
		if cl == nil {
			return nil
		}
		out := map[string]string{}
		for _, el := range cl.Elts {
			kv, ok := el.(*ast.KeyValueExpr)
			if !ok {
				continue
			}
			k, okk := pkH.TypesInfo.Types[kv.Key]
			v, okv := pkH.TypesInfo.Types[kv.Value]
			if okk && okv && k.Value != nil && v.Value != nil {
				out[k.Value.ExactString()] = v.Value.ExactString()
			}
		}
		return out
	}
	wireName, wjName := compatTableNames(p)
	wire, wj := read(wireName), read(wjName)
	if len(wire) < 10 || len(wj) < 10 {
		c.Fail("GROUPS-NEST", "tables", token.NoPos, "compatibility tables not found or not literal")
	} else {
		bad := ""
		pairs := 0
		for _, a := range sortedKeys(wj) {
			for _, b := range sortedKeys(wj) {
				if a < b && wj[a] == wj[b] {
					pairs++
					if wire[a] != wire[b] {
						bad = fmt.Sprintf("kinds %s and %s share WIRE_JSON group %s but have WIRE groups %s and %s", a, b, wj[a], wire[a], wire[b])
					}
				}
			}
		}
		c.Ob("GROUPS-NEST", "wire-json-groups⊑wire-groups", pkgVarLiteral(pkH, wjName).Pos(), bad == "", true,
			"%d same-group pairs of the WIRE_JSON table checked against the WIRE table %s", pairs, bad)
	}
	c.Rule("GROUPS-DOCUMENTED", "compatibility groups never merge kinds that the protobuf documentation lists as incompatible", 2)
	c04GroupsDocumented(c)
	// (3) exemptions
	c04Exemptions(c, t)
	c04ReservationGated(c, "RESERVATION-GATED", pkH)
	c04AllNames(c)
	// (4) previous-driven adapters
	c.Rule("ADAPTERS-UNFILTERED", "no pair adapter filters the pairs it hands to its rules by a property of the elements", 6)
	pkU := p.Pkg(pkgCheckUtil)
	l := newLabeler(p, checkPkgs(p))
	l.Run(seedHandlerParams(l, t))
	for _, fr := range p.FuncsOf(pkU) {
		if !strings.HasPrefix(fr.Decl.Name.Name, "NewBreaking") || !strings.HasSuffix(fr.Decl.Name.Name, "PairRuleHandler") {
			continue
		}
		info := fr.Info()
		fobj := info.Defs[fr.Decl.Type.Params.List[0].Names[0]]
		for _, site := range adapterCallbackSites(p, fr, fobj) {
			// every enclosing range loop — in the function that invokes the callback and around the helper calls that
			// lead there — iterates a previous collection
			okAll, loops := true, 0
			for _, fm := range site.Frames {
				for cur := p.Parent(fm.Node); cur != nil && cur != ast.Node(fm.Decl); cur = p.Parent(cur) {
					if rs, ok := cur.(*ast.RangeStmt); ok {
						loops++
						if l.L(fm.Info, rs.X) != labPrev {
							okAll = false
						}
					}
				}
			}
			c.Ob("PREVIOUS-DRIVEN", fr.ID(), site.Call.Pos(), okAll && loops > 0, true, "the callback is invoked inside %d loop(s), all ranging over previous collections: %v", loops, okAll)
			filter := adapterFilterCond(p, l, site.Call, site.Info, site.Frames[0].Decl)
			c.Ob("ADAPTERS-UNFILTERED", fr.ID(), site.Call.Pos(), filter == "", true,
				"no condition around the callback consults the elements: every existing pair reaches the rules of this scope, as it reaches those of the enclosing scope (FILE ⇒ PACKAGE needs the file rules to see every file the package rules see): %q", filter)
		}
	}
	ruleEqualityHelper(c, "EQUALITY-HELPER", checkPkgs(p))
	c03DefaultFromDefault(c, "DEFAULT-RESOLVED", pkH)
	c03CompareFirst(c, "COMPARE-FIRST", pkH)
	c04WireSiblingsAgree(c, pkH)
	c03ReservedMeansReserved(c, "RESERVED-MEANS-RESERVED", pkH)
	c03NoCountShortcut(c, l, "NO-COUNT-SHORTCUT")
	c04Extra(c)
	c04NormaliseTotal(c)
	c04NilOutSameSide(c)
	c03SubsetByPair(c, "SUBSET-BY-PAIR")
	c03IndexAccumulates(c, "INDEX-ACCUMULATES")
	if q := p.Pkg("private/bufpkg/bufprotosource"); q != nil {
		c04InnerMapPerKey(c, "INNER-MAP-PER-KEY", q)
	}
	c04SiblingSkipGuards(c, "SIBLING-SKIP-GUARDS")
	c.Rule("FILES-COMPLETE", "every input file (current and previous) is converted for the rule handlers whatever the parallelism", 1)
	goAggRule(c, "FILES-COMPLETE", func(rel string) bool { return rel == "private/bufpkg/bufprotosource" })
}

// triEvalBool evaluates a boolean expression with the given identifiers bound to constants.
func triEvalBool(info *types.Info, e ast.Expr, env map[types.Object]bool) tri {
	e = ast.Unparen(e)
	switch x := e.(type) {
	case *ast.Ident:
		if v, ok := env[identObj(info, x)]; ok {
			return triOf(v)
		}
		if tv, ok := info.Types[x]; ok && tv.Value != nil {
			return triOf(tv.Value.ExactString() == "true")
		}
	case *ast.UnaryExpr:
		if x.Op == token.NOT {
			return triNot(triEvalBool(info, x.X, env))
		}
	case *ast.BinaryExpr:
		switch x.Op {
		case token.LAND:
			return triAnd(triEvalBool(info, x.X, env), triEvalBool(info, x.Y, env))
		case token.LOR:
			return triOr(triEvalBool(info, x.X, env), triEvalBool(info, x.Y, env))
		}
	}
	return triUnknown
}

func c04Exemptions(c *Ctx, t *checkTables) {
	p := c.P
	const rule = "EXEMPTION-WEAKENS"
	for _, kind := range []string{"Field", "EnumValue"} {
		fr := p.Func(pkgCheckHandle, "isDeleted"+kind+"AllowedWithRules")
		if fr == nil {
			// the helper may have been inlined into its caller: RESERVATION-GATED decides the same thing on SSA wherever
			// the reservation questions are asked
			c.Note("%s: isDeleted%sAllowedWithRules not found (inlined?); see RESERVATION-GATED", rule, kind)
			continue
		}
		info := fr.Info()
		// boolean parameters and which reservation test each enables
		env := map[types.Object]bool{}
		role := map[int]string{} // param index → "number" | "name"
		idx := 0
		var boolParams []types.Object
		for _, fld := range fr.Decl.Type.Params.List {
			for _, nm := range fld.Names {
				obj := info.Defs[nm]
				if b, ok := obj.Type().Underlying().(*types.Basic); ok && b.Kind() == types.Bool {
					env[obj] = false
					boolParams = append(boolParams, obj)
					r := c04GuardedCall(p, info, fr.Decl, obj)
					role[idx] = r
				}
				idx++
			}
		}
		// partial evaluation: every reachable return is false
		g := p.CFGOf(fr.Decl.Body, info)
		allFalse, nRet := true, 0
		seen := map[int32]bool{}
		var walk func(bi int32)
		walk = func(bi int32) {
			if seen[bi] {
				return
			}
			seen[bi] = true
			b := g.G.Blocks[bi]
			for _, n := range b.Nodes {
				if r, ok := n.(*ast.ReturnStmt); ok {
					nRet++
					if len(r.Results) != 1 || triEvalBool(info, r.Results[0], env) != triFalse {
						allFalse = false
					}
					return
				}
			}
			if cond := g.Cond(b); cond != nil {
				switch triEvalBool(info, cond, env) {
				case triTrue:
					walk(b.Succs[0].Index)
				case triFalse:
					walk(b.Succs[1].Index)
				default:
					walk(b.Succs[0].Index)
					walk(b.Succs[1].Index)
				}
				return
			}
			for _, s := range b.Succs {
				walk(s.Index)
			}
		}
		walk(0)
		c.Ob(rule, fr.ID()+"/folds-to-false", fr.Decl.Pos(), allFalse && nRet > 0 && len(boolParams) == 2, true,
			"with both allow-flags false every reachable return (%d) evaluates to false: %v", nRet, allFalse)
		roles := fmt.Sprintf("%v", role)
		hasBoth := false
		{
			seenN, seenM := false, false
			for _, r := range role {
				if r == "number" {
					seenN = true
				}
				if r == "name" {
					seenM = true
				}
			}
			hasBoth = seenN && seenM
		}
		c.Ob(rule, fr.ID()+"/flag-roles", fr.Decl.Pos(), hasBoth, true, "one flag enables the reserved-number test and the other the reserved-name test: %s", roles)
		// the shared helper passes its own flags through in the same positions
		helper := p.Func(pkgCheckHandle, "check"+kind+"NoDeleteWithRules")
		if helper == nil {
			c.Fail(rule, "check"+kind+"NoDeleteWithRules", token.NoPos, "function not found")
			continue
		}
		hinfo := helper.Info()
		helperRole := map[int]string{}
		ast.Inspect(helper.Decl.Body, func(n ast.Node) bool {
			call, ok := n.(*ast.CallExpr)
			if !ok || Callee(hinfo, call) != fr.Obj {
				return true
			}
			for ai, a := range call.Args {
				r, has := role[ai]
				if !has {
					continue
				}
				// which parameter of the helper is this?
				hi := 0
				for _, fld := range helper.Decl.Type.Params.List {
					for _, nm := range fld.Names {
						if hinfo.Defs[nm] == identObj(hinfo, a) {
							helperRole[hi] = r
						}
						hi++
					}
				}
			}
			return true
		})
		c.Ob(rule, helper.ID()+"/passes-flags", helper.Decl.Pos(), len(helperRole) == 2, true, "the helper forwards both of its flags to %s: %v", fr.Decl.Name.Name, helperRole)
		// call sites in handlers: constants matching the rule ID
		for _, name := range sortedKeys(t.Builders) {
			b := t.Builders[name]
			hb := t.Handlers[b.HandlerVar]
			if hb == nil || hb.Func == nil {
				continue
			}
			hfr := p.DeclOf(hb.Func)
			if hfr == nil {
				continue
			}
			ast.Inspect(hfr.Decl.Body, func(n ast.Node) bool {
				call, ok := n.(*ast.CallExpr)
				if !ok || Callee(hfr.Info(), call) != helper.Obj {
					return true
				}
				got := map[string]string{}
				for ai, r := range helperRole {
					if ai < len(call.Args) {
						if tv, ok := hfr.Info().Types[call.Args[ai]]; ok && tv.Value != nil {
							got[r] = tv.Value.ExactString()
						} else {
							got[r] = "non-constant"
						}
					}
				}
				want := map[string]string{"number": "false", "name": "false"}
				switch {
				case strings.HasSuffix(b.ID, "UNLESS_NUMBER_RESERVED"):
					want["number"] = "true"
				case strings.HasSuffix(b.ID, "UNLESS_NAME_RESERVED"):
					want["name"] = "true"
				}
				ok2 := got["number"] == want["number"] && got["name"] == want["name"]
				c.Ob(rule, "rule "+b.ID+"/flags", call.Pos(), ok2, true, "%s calls %s with number-exemption=%s name-exemption=%s; want %s/%s", hb.Func.Name(), helper.Decl.Name.Name, got["number"], got["name"], want["number"], want["name"])
				return true
			})
		}
	}
}

// c04GuardedCall finds which reservation predicate is enabled by the boolean parameter.
func c04GuardedCall(p *Prog, info *types.Info, fd *ast.FuncDecl, param types.Object) string {
	out := ""
	calls := func(n ast.Node) string {
		r := ""
		ast.Inspect(n, func(m ast.Node) bool {
			if call, ok := m.(*ast.CallExpr); ok {
				if fn := Callee(info, call); fn != nil {
					switch fn.Name() {
					case "NumberInReservedRanges":
						r = "number"
					case "NameInReservedNames":
						r = "name"
					}
				}
			}
			return true
		})
		return r
	}
	ast.Inspect(fd.Body, func(n ast.Node) bool {
		switch x := n.(type) {
		case *ast.IfStmt:
			if identObj(info, x.Cond) == param {
				out = calls(x.Body)
			}
		case *ast.BinaryExpr:
			if x.Op == token.LAND && identObj(info, x.X) == param {
				out = calls(x.Y)
			}
		case *ast.CaseClause:
			// tagless switch form of the same chain: `case flag:`
			for _, e := range x.List {
				if identObj(info, e) == param {
					for _, st := range x.Body {
						if r := calls(st); r != "" {
							out = r
						}
					}
				}
			}
		}
		return true
	})
	return out
}

// c04AllNames: the reserved-name exemption for a deleted enum number holds only if ALL names of that number are reserved:
// inside the loop over the previous names the only return is `false` under a negated NameInReservedNames test, and the
// `true` follows the loop.
func c04AllNames(c *Ctx) {
	p := c.P
	const rule = "EXEMPTION-WEAKENS"
	fr := p.Func(pkgCheckHandle, "isDeletedEnumValueAllowedWithRules")
	if fr == nil {
		return
	}
	info := fr.Info()
	ok, found := true, false
	ast.Inspect(fr.Decl.Body, func(n ast.Node) bool {
		rs, isRange := n.(*ast.RangeStmt)
		if !isRange {
			return true
		}
		found = true
		ast.Inspect(rs.Body, func(m ast.Node) bool {
			r, isRet := m.(*ast.ReturnStmt)
			if !isRet || len(r.Results) != 1 {
				return true
			}
			tv, has := info.Types[r.Results[0]]
			if !has || tv.Value == nil || tv.Value.ExactString() != "false" {
				ok = false // a `return true` (or a computed value) inside the loop makes the exemption existential
				return true
			}
			// guarded by !NameInReservedNames(...)
			guarded := false
			for cur := p.Parent(r); cur != nil && cur != rs; cur = p.Parent(cur) {
				if ifs, isIf := cur.(*ast.IfStmt); isIf {
					if ue, isU := ast.Unparen(ifs.Cond).(*ast.UnaryExpr); isU && ue.Op == token.NOT {
						if call, isCall := ue.X.(*ast.CallExpr); isCall {
							if fn := Callee(info, call); fn != nil && fn.Name() == "NameInReservedNames" {
								guarded = true
							}
						}
					}
				}
			}
			if !guarded {
				ok = false
			}
			return true
		})
		return true
	})
	c.Ob(rule, fr.ID()+"/all-names-reserved", fr.Decl.Pos(), ok && found, true,
		"the name exemption is universal: inside the loop over the deleted number's names the only return is `false` for a name that is not reserved (all aliases must be reserved): %v", ok && found)
}

func c04GroupsDocumented(c *Ctx) {
	p := c.P
	pkH := p.Pkg(pkgCheckHandle)
	wireName, wjName := compatTableNames(p)
	if pkH == nil || wireName == "" || wjName == "" || pkgVarLiteral(pkH, wireName) == nil || pkgVarLiteral(pkH, wjName) == nil {
		c.Fail("GROUPS-DOCUMENTED", "tables", token.NoPos, "compatibility tables not found")
		return
	}
	read := func(name string) map[string]string {
		cl := pkgVarLiteral(pkH, name)
		out := map[string]string{}
		for _, el := range cl.Elts {
			kv, ok := el.(*ast.KeyValueExpr)
			if !ok {
				continue
			}
			k, okk := pkH.TypesInfo.Types[kv.Key]
			v, okv := pkH.TypesInfo.Types[kv.Value]
			if okk && okv && k.Value != nil && v.Value != nil {
				out[k.Value.ExactString()] = v.Value.ExactString()
			}
		}
		return out
	}
	// documented oracles for the two partitions (protobuf language guide: "updating a message type" and the proto3 JSON
	// mapping): kinds sharing a WIRE group share a documented wire-compatibility class, kinds sharing a WIRE_JSON group also
	// share their JSON representation
	kindName := func(v string) string {
		for name, cv := range enumConstants(pkH.TypesInfo.TypeOf(pkgVarLiteral(pkH, wireName)).Underlying().(*types.Map).Key()) {
			if cv.ExactString() == v {
				return name
			}
		}
		return v
	}
	wireClass := map[string]string{
		"Int32Kind": "varint", "Int64Kind": "varint", "Uint32Kind": "varint", "Uint64Kind": "varint", "BoolKind": "varint",
		"Sint32Kind": "zigzag", "Sint64Kind": "zigzag", "Fixed32Kind": "fixed32", "Sfixed32Kind": "fixed32",
		"Fixed64Kind": "fixed64", "Sfixed64Kind": "fixed64", "StringKind": "string", "BytesKind": "bytes", "DoubleKind": "double",
		"FloatKind": "float", "GroupKind": "group", "MessageKind": "message", "EnumKind": "enum",
	}
	jsonRepr := map[string]string{
		"Int32Kind": "number", "Uint32Kind": "number", "Sint32Kind": "number", "Fixed32Kind": "number", "Sfixed32Kind": "number",
		"Int64Kind": "decimal-string", "Uint64Kind": "decimal-string", "Sint64Kind": "decimal-string", "Fixed64Kind": "decimal-string", "Sfixed64Kind": "decimal-string",
		"BoolKind": "bool", "StringKind": "string", "BytesKind": "base64", "DoubleKind": "float", "FloatKind": "float",
		"GroupKind": "object", "MessageKind": "object", "EnumKind": "enum-name",
	}
	checkTable := func(name, varName string, tbl map[string]string, oracles ...map[string]string) {
		bad := ""
		for _, a := range sortedKeys(tbl) {
			for _, b := range sortedKeys(tbl) {
				if a >= b || tbl[a] != tbl[b] {
					continue
				}
				ka, kb := kindName(a), kindName(b)
				for _, o := range oracles {
					if o[ka] != o[kb] {
						bad = fmt.Sprintf("%s and %s share group %s but are documented as %s vs %s", ka, kb, tbl[a], o[ka], o[kb])
					}
				}
			}
		}
		c.Ob("GROUPS-DOCUMENTED", name, pkgVarLiteral(pkH, varName).Pos(), bad == "", true, "no group of %s (%s) merges kinds with different documented encodings %s", name, varName, bad)
	}
	wire, wj := read(wireName), read(wjName)
	if len(wire) >= 10 && len(wj) >= 10 {
		checkTable("wire-groups", wireName, wire, wireClass)
		checkTable("wire-json-groups", wjName, wj, wireClass, jsonRepr)
	}
}

// compatTableNames finds the wire and wire+JSON compatibility-group tables of the breaking handlers by what they
// are (package-level map[protoreflect.Kind]… literals) and by who uses them (the handlers registered for
// FIELD_WIRE_COMPATIBLE_TYPE and FIELD_WIRE_JSON_COMPATIBLE_TYPE), not by their names.
func compatTableNames(p *Prog) (wire, wireJSON string) {
	// memoised on the program itself (a package-level map keyed by *Prog would keep every loaded variant alive)
	if p.compatTables != nil {
		return p.compatTables[0], p.compatTables[1]
	}
	defer func() { p.compatTables = &[2]string{wire, wireJSON} }()
	pkH := p.Pkg(pkgCheckHandle)
	if pkH == nil {
		return "", ""
	}
	info := pkH.TypesInfo
	cands := map[types.Object]bool{}
	scope := pkH.Types.Scope()
	for _, name := range scope.Names() {
		v, ok := scope.Lookup(name).(*types.Var)
		if !ok {
			continue
		}
		mt, ok := v.Type().Underlying().(*types.Map)
		if !ok || namedName(mt.Key()) != "Kind" || !strings.HasSuffix(namedPath(mt.Key()), "protoreflect.Kind") {
			continue
		}
		if pkgVarLiteral(pkH, name) != nil {
			cands[v] = true
		}
	}
	t := extractCheckTables(p)
	usedBy := func(ruleID string) string {
		for _, b := range t.ByID[ruleID] {
			hb := t.Handlers[b.HandlerVar]
			if hb == nil || hb.Func == nil {
				continue
			}
			fr := p.DeclOf(hb.Func)
			if fr == nil || fr.Decl.Body == nil {
				continue
			}
			found := ""
			deepInspect(p, fr, 1, func(n ast.Node, ninfo *types.Info) bool {
				if id, ok := n.(*ast.Ident); ok && cands[ninfo.Uses[id]] {
					found = id.Name
				}
				return true
			})
			if found != "" {
				return found
			}
		}
		return ""
	}
	_ = info
	return usedBy("FIELD_WIRE_COMPATIBLE_TYPE"), usedBy("FIELD_WIRE_JSON_COMPATIBLE_TYPE")
}
