package main

import (
	"go/ast"

	"golang.org/x/tools/go/packages"
)

// selftestRound5 keeps, for each generic rule of round 5 (all of which have zero instances in the module today), one
// example that must match and one near miss that must not.
func selftestRound5(check func(name string, ok bool, format string, args ...any)) {
	fns, err := ssaSnippet(selftestRound5Src)
	if err != nil {
		check("ssa snippet round5", false, "%v", err)
		return
	}
	count := func(name string, got, want int) {
		check(name, got == want, "%d reported (want %d)", got, want)
	}
	for name, want := range map[string]int{"firstDecides": 1, "anyOfThem": 0, "countedLoop": 0} {
		count("firstElementDecides/"+name, len(firstElementDecides(fns[name])), want)
	}
	for name, want := range map[string]int{"dataAsFormat": 1, "computedFormatWithOperands": 0, "constantFormat": 0} {
		_, bad := formatIsData(fns[name])
		count("formatIsData/"+name, len(bad), want)
	}
	for name, want := range map[string]int{"walkCut": 1, "walkOn": 0, "walkRangeInt": 0} {
		_, cuts := walkCutSites(fns[name])
		count("walkCutSites/"+name, len(cuts), want)
	}
	for name, want := range map[string]int{"markThenTest": 1, "testThenMark": 0} {
		got := map[any]bool{}
		for _, mu := range markBeforeStateTest(fns[name]) {
			got[mu] = true
		}
		count("markBeforeStateTest/"+name, len(got), want)
	}
	for name, want := range map[string]int{"errBehindOtherTest": 1, "errTestedFirst": 0, "errJoined": 0} {
		count("errUnseenOnPath/"+name, len(errUnseenOnPath(fns[name])), want)
	}
	for name, want := range map[string]int{"sortsByOneOperand": 1, "sortsByBoth": 0} {
		count("comparatorIgnoresOperand/"+name, len(comparatorIgnoresOperand(fns[name])), want)
	}
	for name, want := range map[string]int{"newDropsPath": 1, "newKeepsAll": 0, "newCopiesMap": 0} {
		_, dropped := ctorDropsParam(fns[name])
		count("ctorDropsParam/"+name, len(dropped), want)
	}
	for name, want := range map[string]int{"twinUnused": 1, "twinBothUsed": 0, "stringsAreNotTwins": 0} {
		count("twinParamUnused/"+name, len(twinParamUnused(fns[name])), want)
	}
	// the two syntax-level rules
	mp, err := loadSnippet(selftestRound5Src)
	if err != nil {
		check("snippet round5 (syntax)", false, "%v", err)
		return
	}
	pk := &packages.Package{Syntax: []*ast.File{mp.File}, TypesInfo: mp.Info}
	_, cut := trimCutsetAffix(pk)
	var cutIn []string
	for _, call := range cut {
		if fd := enclosingDecl(mp.File, call); fd != nil {
			cutIn = append(cutIn, fd.Name.Name)
		}
	}
	check("trimCutsetAffix", len(cutIn) == 2 && cutIn[0] == "trimsAffix" && cutIn[1] == "trimsAffix", "affix-like cutsets in %v (want the two in trimsAffix, none in trimsSets)", cutIn)
	_, nb := nilElementBreaks(pk)
	var nbIn []string
	for _, is := range nb {
		if fd := enclosingDecl(mp.File, is); fd != nil {
			nbIn = append(nbIn, fd.Name.Name)
		}
	}
	_, ls := lastElementSkipped(pk)
	var lsIn []string
	for _, fs := range ls {
		if fd := enclosingDecl(mp.File, fs); fd != nil {
			lsIn = append(lsIn, fd.Name.Name)
		}
	}
	check("lastElementSkipped", len(lsIn) == 1 && lsIn[0] == "stopsShort", "loops stopping short of the end in %v (want stopsShort; not adjacentPairs, tailOnItsOwn, wholeSlice)", lsIn)
	check("nilElementBreaks", len(nbIn) == 2 && nbIn[0] == "breaksOnNil" && nbIn[1] == "returnsOnMissingMember", "loops left on an absent element in %v (want breaksOnNil, returnsOnMissingMember; not firstMatch, skipsNil)", nbIn)
}

func enclosingDecl(f *ast.File, n ast.Node) *ast.FuncDecl {
	for _, d := range f.Decls {
		if fd, ok := d.(*ast.FuncDecl); ok && fd.Pos() <= n.Pos() && n.End() <= fd.End() {
			return fd
		}
	}
	return nil
}

const selftestRound5Src = `package snippet

import (
	"errors"
	"fmt"
	"io"
	"sort"
	"strings"
)

type decl struct{ empty bool; info *int }

// ---- FIRST-DECIDES
func firstDecides(ds []decl) bool {
	has := false
	for _, d := range ds {
		if d.empty {
			break
		}
		has = true
	}
	return has
}
func anyOfThem(ds []decl) bool {
	has := false
	for _, d := range ds {
		if d.empty {
			continue
		}
		has = true
	}
	return has
}
func countedLoop(s string) bool {
	truncated := false
	for {
		i := strings.Index(s, "/")
		if i < 0 {
			break
		}
		s = s[i+1:]
		truncated = true
	}
	return truncated
}

// ---- FORMAT-DATA
func dataAsFormat(w io.Writer, data []byte) { fmt.Fprintf(w, string(data)) }
func computedFormatWithOperands(w io.Writer, f string, x int) { fmt.Fprintf(w, f+"\n", x) }
func constantFormat(w io.Writer, data []byte) { fmt.Fprintf(w, "%s", data) }

// ---- WALK-CUT
type node struct{ id string; local bool; next []*node }
func walkCut(seen map[string]bool, out map[string]*node, n *node) error {
	if seen[n.id] {
		return nil
	}
	seen[n.id] = true
	if !n.local {
		return nil
	}
	out[n.id] = n
	for _, m := range n.next {
		if err := walkCut(seen, out, m); err != nil {
			return err
		}
	}
	return nil
}
func walkOn(seen map[string]bool, out map[string]*node, n *node) error {
	if seen[n.id] {
		return nil
	}
	seen[n.id] = true
	if n.local {
		out[n.id] = n
	}
	for _, m := range n.next {
		if err := walkOn(seen, out, m); err != nil {
			return err
		}
	}
	return nil
}
func walkRangeInt(seen map[string]bool, n *node) error {
	if seen[n.id] {
		return nil
	}
	seen[n.id] = true
	for i := range len(n.next) {
		if err := walkRangeInt(seen, n.next[i]); err != nil {
			return err
		}
	}
	return nil
}

// ---- MARK-BEFORE-STATE-TEST
func handle(string) {}
func markThenTest(table map[string]int) {
	done := map[string]struct{}{}
	for {
		var todo []string
		for k, state := range table {
			if _, ok := done[k]; ok {
				continue
			}
			done[k] = struct{}{}
			if state != 1 {
				continue
			}
			todo = append(todo, k)
		}
		if len(todo) == 0 {
			return
		}
		for _, k := range todo {
			handle(k)
		}
	}
}
func testThenMark(table map[string]int) {
	done := map[string]struct{}{}
	for {
		var todo []string
		for k, state := range table {
			if state != 1 {
				continue
			}
			if _, ok := done[k]; ok {
				continue
			}
			done[k] = struct{}{}
			todo = append(todo, k)
		}
		if len(todo) == 0 {
			return
		}
		for _, k := range todo {
			handle(k)
		}
	}
}

// ---- ERR-PATH-UNSEEN
type file struct{ name *string }
func write(io.Writer, *file) error { return nil }
func wrap(string, error) error { return nil }
func errBehindOtherTest(w io.Writer, f *file) error {
	err := write(w, f)
	if n := f.name; n != nil && err != nil {
		return wrap(*n, err)
	}
	return nil
}
func errTestedFirst(w io.Writer, f *file) error {
	err := write(w, f)
	if err != nil {
		if n := f.name; n != nil {
			return wrap(*n, err)
		}
		return err
	}
	return nil
}
func errJoined(w io.Writer, f *file, c io.Closer) error {
	err := write(w, f)
	err = errors.Join(err, c.Close())
	if err != nil {
		return err
	}
	return nil
}

// ---- COMPARATOR-BOTH
type key struct{ t int }
func sortsByOneOperand(ks []key) {
	sort.Slice(ks, func(i, j int) bool {
		a := ks[i].t
		b := ks[i].t
		return a > b
	})
}
func sortsByBoth(ks []key) {
	sort.Slice(ks, func(i, j int) bool { return ks[i].t > ks[j].t })
}

// ---- CTOR-KEEPS-PARAM
type rule struct {
	path   string
	name   string
	byRoot map[string][]string
}
func newDropsPath(path string, name string) (*rule, error) {
	if path == "" {
		return nil, errors.New("empty path")
	}
	return &rule{name: name}, nil
}
func newKeepsAll(path string, name string) (*rule, error) {
	return &rule{path: strings.TrimSuffix(path, "/"), name: name}, nil
}
func newCopiesMap(byRoot map[string][]string) *rule {
	fresh := map[string][]string{}
	for root, xs := range byRoot {
		fresh[root] = append([]string(nil), xs...)
	}
	return &rule{byRoot: fresh}
}

// ---- TWIN-PARAM-UNUSED
func twinUnused(importsOverride *bool, wktOverride *bool) (bool, bool) {
	imports, wkt := false, false
	if importsOverride != nil {
		imports = *importsOverride
	}
	if importsOverride != nil {
		wkt = *importsOverride
	}
	return imports, wkt
}
func twinBothUsed(importsOverride *bool, wktOverride *bool) (bool, bool) {
	imports, wkt := false, false
	if importsOverride != nil {
		imports = *importsOverride
	}
	if wktOverride != nil {
		wkt = *wktOverride
	}
	return imports, wkt
}
func stringsAreNotTwins(path string, branch string, tag string) string { return branch + branch + tag }

// ---- TRIM-CUTSET (syntax)
func trimsAffix(p, a string) (string, string) {
	return strings.TrimRight(p, ".proto"), strings.TrimLeft(a, "http://")
}
func trimsSets(s string) (string, string, string) {
	return strings.Trim(s, " \t\r\n"), strings.TrimLeft(s, "./"), strings.TrimRight(s, "0123456789")
}

// ---- LAST-ELEMENT-SKIPPED (syntax)
func stopsShort(lines []string) int {
	n := 0
	for i := 1; i < len(lines)-1; i++ {
		n += len(lines[i])
	}
	return n
}
func adjacentPairs(lines []string) int {
	n := 0
	for i := 0; i < len(lines)-1; i++ {
		if lines[i] == lines[i+1] {
			n++
		}
	}
	return n
}
func tailOnItsOwn(lines []string) int {
	n := 0
	for i := 0; i < len(lines)-1; i++ {
		n += len(lines[i])
	}
	return n + 2*len(lines[len(lines)-1])
}
func wholeSlice(lines []string) int {
	n := 0
	for i := 0; i <= len(lines)-1; i++ {
		n += len(lines[i])
	}
	return n
}

// ---- NIL-ELEMENT-BREAK (syntax)
func use(*decl) {}
func breaksOnNil(ds []*decl) {
	for _, d := range ds {
		if d == nil {
			break
		}
		use(d)
	}
}
func returnsOnMissingMember(ds []*decl) error {
	for _, d := range ds {
		info := d.info
		if info == nil {
			return nil
		}
		use(d)
	}
	return nil
}
func firstMatch(ds []*decl) *decl {
	for _, d := range ds {
		if d != nil {
			return d
		}
	}
	return nil
}
func skipsNil(ds []*decl) {
	for _, d := range ds {
		if d == nil {
			continue
		}
		use(d)
	}
}
`

// selftestAnticipatory: the three seedless shape rules.
func selftestAnticipatory(check func(name string, ok bool, format string, args ...any)) {
	mp, err := loadSnippet(selftestAnticipatorySrc)
	if err != nil {
		check("snippet anticipatory", false, "%v", err)
		return
	}
	pk := &packages.Package{Syntax: []*ast.File{mp.File}, TypesInfo: mp.Info}
	names := func(nodes []ast.Node) []string {
		var out []string
		for _, n := range nodes {
			if fd := enclosingDecl(mp.File, n); fd != nil {
				out = append(out, fd.Name.Name)
			}
		}
		return out
	}
	_, so := selfOperands(pk)
	got := names(so)
	check("selfOperands", len(got) == 2 && got[0] == "selfCompare" && got[1] == "selfCall", "identical operands in %v (want selfCompare, selfCall; not nanTest, otherCompare)", got)
	_, lk := lockKindMismatch(pk)
	var lkIn []string
	for _, fd := range lk {
		lkIn = append(lkIn, fd.Name.Name)
	}
	check("lockKindMismatch", len(lkIn) == 1 && lkIn[0] == "readLockWriteUnlock", "mismatched in %v (want readLockWriteUnlock only)", lkIn)
	fns, err := ssaSnippet(selftestAnticipatorySrc)
	if err != nil {
		check("ssa snippet anticipatory", false, "%v", err)
		return
	}
	for name, want := range map[string]int{"dropsCompact": 2, "keepsCompact": 0} {
		_, bad := pureResultDropped(fns[name])
		check("pureResultDropped/"+name, len(bad) == want, "%d reported (want %d)", len(bad), want)
	}
}

const selftestAnticipatorySrc = `package snippet

import (
	"slices"
	"strings"
	"sync"
)

type key struct{ t int }

func equal(a, b key) bool { return a.t == b.t }
func selfCompare(ks []key, i, j int) bool { return ks[i].t > ks[i].t }
func selfCall(prev, cur key) bool       { return equal(prev, prev) }
func nanTest(x float64) bool            { return x != x }
func otherCompare(ks []key, i, j int) bool { return ks[i].t > ks[j].t && equal(ks[i], ks[j]) }

type guarded struct {
	mu sync.RWMutex
	n  int
}

func (g *guarded) readLockWriteUnlock() int { g.mu.RLock(); defer g.mu.Unlock(); return g.n }
func (g *guarded) paired() int              { g.mu.RLock(); defer g.mu.RUnlock(); return g.n }
func (g *guarded) wrapper()                 { g.mu.Lock() }

func dropsCompact(xs []string, p string) ([]string, string) {
	slices.Sort(xs)
	slices.Compact(xs)
	strings.TrimSuffix(p, ".proto")
	return xs, p
}
func keepsCompact(xs []string, p string) ([]string, string) {
	slices.Sort(xs)
	xs = slices.Compact(xs)
	return xs, strings.TrimSuffix(p, ".proto")
}
`

// selftestDerivedKey: G-DERIVED-KEY-STORE.
func selftestDerivedKey(check func(name string, ok bool, format string, args ...any)) {
	fns, err := ssaSnippet(`package snippet

import "errors"

func lastWins(in map[string][]string, repl map[string][]string) map[string][]string {
	out := map[string][]string{}
	for id, paths := range in {
		if rs, ok := repl[id]; ok {
			for _, r := range rs {
				out[r] = paths
			}
		} else {
			out[id] = paths
		}
	}
	return out
}
func merged(in map[string][]string, repl map[string][]string) map[string][]string {
	out := map[string][]string{}
	for id, paths := range in {
		ids := []string{id}
		if rs, ok := repl[id]; ok {
			ids = rs
		}
		for _, r := range ids {
			out[r] = append(out[r], paths...)
		}
	}
	return out
}
func collisionIsError(in map[string]string, norm func(string) string) (map[string]string, error) {
	out := map[string]string{}
	for k, v := range in {
		n := norm(k)
		if _, ok := out[n]; ok {
			return nil, errors.New("duplicate")
		}
		out[n] = v
	}
	return out, nil
}
func perElementMap(in map[string][]string) map[string]int {
	sizes := map[string]int{}
	for k, vs := range in {
		seen := map[string]string{}
		for _, v := range vs {
			seen[v] = k
		}
		sizes[k] = len(seen)
	}
	return sizes
}
`)
	if err != nil {
		check("ssa snippet derived-key", false, "%v", err)
		return
	}
	for name, want := range map[string]int{"lastWins": 1, "merged": 0, "collisionIsError": 0, "perElementMap": 0} {
		got := len(derivedKeyStores(fns[name]))
		check("derivedKeyStores/"+name, got == want, "%d reported (want %d)", got, want)
	}
}

// selftestRound6: the generic rules of round 6 that have no instance in the module.
func selftestRound6(check func(name string, ok bool, format string, args ...any)) {
	fns, err := ssaSnippet(`package snippet

import "sync"

func filtersInPlace(paths []string, keep func(string) bool) []string {
	out := paths[:0]
	for _, p := range paths {
		if keep(p) {
			out = append(out, p)
		}
	}
	return out
}
func filtersIntoNew(paths []string, keep func(string) bool) []string {
	out := make([]string, 0, len(paths))
	for _, p := range paths {
		if keep(p) {
			out = append(out, p)
		}
	}
	return out
}
func filtersOwn(n int, keep func(int) bool) []int {
	all := make([]int, n)
	out := all[:0]
	for i := range all {
		if keep(i) {
			out = append(out, i)
		}
	}
	return out
}

func onceCompleted(compare func() error) func() error {
	var lock sync.Mutex
	var completed bool
	return func() error {
		lock.Lock()
		defer lock.Unlock()
		if completed {
			return nil
		}
		err := compare()
		completed = true
		return err
	}
}
func onceRemembered(compare func() error) func() error {
	var lock sync.Mutex
	var completed bool
	var result error
	return func() error {
		lock.Lock()
		defer lock.Unlock()
		if completed {
			return result
		}
		result = compare()
		completed = true
		return result
	}
}

func aliases(in map[string]map[string]struct{}, repl map[string][]string) map[string]map[string]struct{} {
	out := map[string]map[string]struct{}{}
	add := func(id string, paths map[string]struct{}) {
		set, ok := out[id]
		if !ok {
			out[id] = paths
			return
		}
		for p := range paths {
			set[p] = struct{}{}
		}
	}
	for id, paths := range in {
		for _, r := range repl[id] {
			add(r, paths)
		}
	}
	return out
}
func copies(in map[string]map[string]struct{}, repl map[string][]string) map[string]map[string]struct{} {
	out := map[string]map[string]struct{}{}
	add := func(id string, paths map[string]struct{}) {
		set, ok := out[id]
		if !ok {
			set = map[string]struct{}{}
			out[id] = set
		}
		for p := range paths {
			set[p] = struct{}{}
		}
	}
	for id, paths := range in {
		for _, r := range repl[id] {
			add(r, paths)
		}
	}
	return out
}
`)
	if err != nil {
		check("ssa snippet round6", false, "%v", err)
		return
	}
	for name, want := range map[string]int{"filtersInPlace": 1, "filtersIntoNew": 0, "filtersOwn": 0} {
		got := len(inPlaceFilterOfParam(fns[name]))
		check("inPlaceFilterOfParam/"+name, got == want, "%d reported (want %d)", got, want)
	}
	for name, want := range map[string]bool{"onceCompleted": true, "onceRemembered": false} {
		got := false
		for _, f := range allSSAFuncs(fns[name]) {
			if memoDropsResult(f) {
				got = true
			}
		}
		check("memoDropsResult/"+name, got == want, "reported: %v (want %v)", got, want)
	}
	for name, want := range map[string]int{"aliases": 1, "copies": 0} {
		got := 0
		for _, f := range allSSAFuncs(fns[name]) {
			got += len(mapAliasMutated(f))
		}
		check("mapAliasMutated/"+name, got == want, "%d reported (want %d)", got, want)
	}
}
