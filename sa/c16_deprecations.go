package main

import (
	"fmt"
	"go/token"

	"golang.org/x/tools/go/ssa"
)

// c16DeprecationsComplete (DEPRECATIONS-COMPLETE; C16, finding F32): a v1 configuration may name deprecated rule IDs
// (FIELD_SAME_LABEL …) in use, except and ignore_only; they do not exist in v2 and have to be replaced by their
// successors when the configuration is migrated. The map of deprecated ID → replacements must therefore be computed
// from a complete rule list (Client.AllRules / the full category list). The *configured* rules never contain a
// deprecated rule - naming one configures its replacements (rulesConfig.RuleIDs "will only contain non-deprecated
// RuleIDs") - so a map computed from Client.ConfiguredRules is empty, the deprecated ID is copied into the v2 file and
// the migration fails with "not a known rule or category ID". At every call of GetDeprecatedIDToReplacementIDs in the
// module, the list handed in does not derive from ConfiguredRules.
func c16DeprecationsComplete(c *Ctx) {
	const rule = "DEPRECATIONS-COMPLETE"
	c.Rule(rule, "deprecated-ID replacements are computed from a complete rule list, never from the configured rules (which hold no deprecated rule)", 2)
	p := c.P
	n := 0
	for _, sf := range p.SSAFuncsOf(p.ModulePkgs()) {
		for _, f := range allSSAFuncs(sf) {
			k := 0
			for _, call := range callsIn(f) {
				o := staticCalleeObj(call.Call)
				if o == nil || o.Pkg() == nil || o.Pkg().Path() != modPath+"/private/bufpkg/bufcheck" || o.Name() != "GetDeprecatedIDToReplacementIDs" || len(call.Call.Args) == 0 {
					continue
				}
				n++
				k++
				configured := false
				sliceBack(call.Call.Args[0], func(x ssa.Value) bool {
					if cl, ok := x.(*ssa.Call); ok && calleeText(&cl.Call) == "ConfiguredRules" {
						configured = true
					}
					return !configured
				})
				c.Ob(rule, fmt.Sprintf("%s/call#%d", ssaFuncName(f), k), call.Pos(), !configured, true, "the list the deprecations are read from does not come from ConfiguredRules: %v", !configured)
			}
		}
	}
	if n == 0 {
		c.Fail(rule, "anchor", token.NoPos, "no call of bufcheck.GetDeprecatedIDToReplacementIDs found")
	}
}
