package main

import (
	"go/token"
	"go/types"
	"strings"

	"golang.org/x/tools/go/packages"
	"golang.org/x/tools/go/ssa"
)

// c14WrappersStateless (WRAPPER-STATELESS; C14, after round-4 seed C14-l): the bucket combinators (mapped, filtered,
// stripped, union views) are pure views of the bucket they wrap: whatever a Stat, Get or Walk through the view answers
// is what the wrapped bucket answers now. A view that remembers an earlier answer (a path → ObjectInfo cache filled by
// Stat) keeps reporting an object after it was deleted underneath while Get and Walk no longer see it - the view stops
// being one path→bytes map. For every struct type of the storage package that holds another bucket in a field and has
// the read methods Get, Stat and Walk, no method writes a field of its receiver, updates a map held in one, or calls a
// mutating method (Store, LoadOrStore, Swap, CompareAndSwap, Delete, Add) on one.
func c14WrappersStateless(c *Ctx, pk *packages.Package) {
	const rule = "WRAPPER-STATELESS"
	c.Rule(rule, "bucket views keep no state of their own: no method writes a field of the view", 3)
	p := c.P
	isBucketIface := func(t types.Type) bool {
		n, ok := t.(*types.Named)
		if !ok || n.Obj().Pkg() == nil || n.Obj().Pkg() != pk.Types {
			return false
		}
		_, isIface := n.Underlying().(*types.Interface)
		return isIface && strings.Contains(n.Obj().Name(), "Bucket")
	}
	byRecv := map[*types.TypeName][]*ssa.Function{}
	for _, sf := range p.SSAFuncsOf([]*packages.Package{pk}) {
		if sf.Signature.Recv() == nil {
			continue
		}
		rt := sf.Signature.Recv().Type()
		if pt, ok := rt.(*types.Pointer); ok {
			rt = pt.Elem()
		}
		if n, ok := rt.(*types.Named); ok {
			byRecv[n.Obj()] = append(byRecv[n.Obj()], sf)
		}
	}
	cnt := 0
	for tn, methods := range byRecv {
		st, ok := tn.Type().Underlying().(*types.Struct)
		if !ok {
			continue
		}
		wraps := false
		for i := 0; i < st.NumFields(); i++ {
			ft := st.Field(i).Type()
			if isBucketIface(ft) {
				wraps = true
			}
			if sl, ok := ft.Underlying().(*types.Slice); ok && isBucketIface(sl.Elem()) {
				wraps = true
			}
		}
		have := map[string]bool{}
		for _, m := range methods {
			have[m.Name()] = true
		}
		if !wraps || !have["Get"] || !have["Stat"] || !have["Walk"] {
			continue
		}
		cnt++
		var writes []string
		for _, m := range methods {
			if len(m.Params) == 0 {
				continue
			}
			recv := m.Params[0]
			for _, f := range allSSAFuncs(m) {
				for _, b := range f.Blocks {
					for _, ins := range b.Instrs {
						fieldOf := func(v ssa.Value) string {
							name := ""
							sliceBack(v, func(x ssa.Value) bool {
								if fa, ok := x.(*ssa.FieldAddr); ok && (fa.X == ssa.Value(recv) || types.Identical(fa.X.Type(), recv.Type())) {
									name = fieldName(fa.X.Type(), fa.Field)
								}
								return name == ""
							})
							return name
						}
						switch t := ins.(type) {
						case *ssa.Store:
							if fa, ok := t.Addr.(*ssa.FieldAddr); ok && types.Identical(fa.X.Type(), recv.Type()) {
								writes = append(writes, m.Name()+" stores "+fieldName(fa.X.Type(), fa.Field))
							}
						case *ssa.MapUpdate:
							if fn := fieldOf(t.Map); fn != "" {
								writes = append(writes, m.Name()+" updates map "+fn)
							}
						case *ssa.Call:
							if o := staticCalleeObj(&t.Call); o != nil && o.Pkg() != nil && (o.Pkg().Path() == "sync" || o.Pkg().Path() == "sync/atomic") && len(t.Call.Args) > 0 {
								switch o.Name() {
								case "Store", "LoadOrStore", "Swap", "CompareAndSwap", "Delete", "Add", "LoadAndDelete":
									if fn := fieldOf(t.Call.Args[0]); fn != "" {
										writes = append(writes, m.Name()+" calls "+o.Name()+" on "+fn)
									}
								}
							}
						}
					}
				}
			}
		}
		short := relPkg(pk.PkgPath) + "." + tn.Name()
		c.Ob(rule, short, tn.Pos(), len(writes) == 0, true, "%s wraps another bucket and has Get/Stat/Walk; writes to its own fields: %v", tn.Name(), writes)
	}
	if cnt == 0 {
		c.Fail(rule, "anchor", token.NoPos, "no bucket view type found in the storage package")
	}
}
