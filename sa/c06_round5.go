package main

import (
	"fmt"
	"go/token"
	"go/types"
	"strings"

	"golang.org/x/tools/go/packages"
	"golang.org/x/tools/go/ssa"
)

// c06DirectiveAnchored (DIRECTIVE-ANCHORED; C06, after round-5 seed C06-m): a `buf:lint:ignore RULE` directive is a
// comment line that *starts* with the directive. The function that recognises it (found as the function of bufcheck
// that takes three strings - line, prefix, rule id - and answers yes/no) may look at the line only from its start:
// strings.HasPrefix, or a reslice by a length. strings.Cut / Index / Contains on the line find the directive anywhere,
// so prose that merely mentions `buf:lint:ignore ENUM_PASCAL_CASE` suppresses the rule for that element.
func c06DirectiveAnchored(c *Ctx, pk *packages.Package) {
	const rule = "DIRECTIVE-ANCHORED"
	c.Rule(rule, "an ignore directive is recognised only at the start of a comment line", 1)
	p := c.P
	n := 0
	for _, sf := range p.SSAFuncsOf([]*packages.Package{pk}) {
		sig := sf.Signature
		if sig.Recv() != nil || sig.Params().Len() != 3 || sig.Results().Len() != 1 || sig.Results().At(0).Type().String() != "bool" {
			continue
		}
		allStr := true
		for i := 0; i < 3; i++ {
			if b, ok := sig.Params().At(i).Type().Underlying().(*types.Basic); !ok || b.Kind() != types.String {
				allStr = false
			}
		}
		if !allStr {
			continue
		}
		line := sf.Params[0]
		var bad []string
		seen := 0
		for _, call := range callsIn(sf) {
			o := staticCalleeObj(call.Call)
			if o == nil || o.Pkg() == nil || o.Pkg().Path() != "strings" || len(call.Call.Args) == 0 {
				continue
			}
			if stripConv(call.Call.Args[0]) != ssa.Value(line) {
				continue
			}
			seen++
			if o.Name() != "HasPrefix" && o.Name() != "CutPrefix" && o.Name() != "TrimPrefix" {
				bad = append(bad, "strings."+o.Name())
			}
		}
		if seen == 0 {
			continue
		}
		n++
		c.Ob(rule, ssaFuncName(sf), sf.Pos(), len(bad) == 0, true, "%d strings calls on the comment line, all anchored at its start (HasPrefix / CutPrefix / TrimPrefix); others: %v", seen, bad)
	}
	if n == 0 {
		c.Fail(rule, "anchor", token.NoPos, "no func(line, prefix, ruleID string) bool applying strings functions to its line found in bufcheck")
	}
}

// c06DuplicatesCheckedTogether (DUPLICATES-TOGETHER; C06, after round-5 seed C06-o): rule IDs and category IDs share
// one name space in use/except/ignore_only. The validator that rejects clashes between plugins therefore has to see
// the rules and the categories of all plugins in the same call; called once with (rules, nil) and once with (nil,
// categories) it no longer sees a rule of one plugin named like a category of another, and the id then silently
// resolves to the rule only. Every call of the function of bufcheck that takes ([]Rule, []Category) and returns an
// error passes two values that are not the nil constant.
func c06DuplicatesCheckedTogether(c *Ctx, pk *packages.Package) {
	const rule = "DUPLICATES-TOGETHER"
	c.Rule(rule, "rules and categories are validated for clashing ids in one call", 1)
	p := c.P
	n := 0
	isSliceOf := func(t types.Type, name string) bool {
		s, ok := t.Underlying().(*types.Slice)
		return ok && strings.HasSuffix(namedPath(s.Elem()), "bufcheck."+name)
	}
	for _, sf := range p.SSAFuncsOf([]*packages.Package{pk}) {
		for _, f := range allSSAFuncs(sf) {
			k := 0
			for _, call := range callsIn(f) {
				g := call.Call.StaticCallee()
				if g == nil || g.Pkg == nil || g.Pkg.Pkg != pk.Types || g.Signature.Params().Len() != 2 || g.Signature.Results().Len() != 1 || !isErrorType(g.Signature.Results().At(0).Type()) {
					continue
				}
				if !isSliceOf(g.Signature.Params().At(0).Type(), "Rule") || !isSliceOf(g.Signature.Params().At(1).Type(), "Category") {
					continue
				}
				n++
				k++
				both := !isNilConst(call.Call.Args[0]) && !isNilConst(call.Call.Args[1])
				c.Ob(rule, fmt.Sprintf("%s->%s#%d", ssaFuncName(f), g.Name(), k), call.Pos(), both, true, "%s receives the rules and the categories together: %v", g.Name(), both)
			}
		}
	}
	if n == 0 {
		c.Fail(rule, "anchor", token.NoPos, "no call of a func([]Rule, []Category) error found in bufcheck")
	}
}
