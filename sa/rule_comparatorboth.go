package main

import (
	"go/token"
	"go/types"

	"golang.org/x/tools/go/packages"
	"golang.org/x/tools/go/ssa"
)

// comparatorIgnoresOperand lists the comparison functions handed to the sort and slices packages (func(i, j int) bool
// for sort.Slice, func(a, b T) int/bool for slices.SortFunc and friends) whose outcome - everything they return and
// every condition they branch on - depends on only one of their two operands. A comparator that reads `keys[i]` where
// `keys[j]` was meant compares every element with itself: it answers "not less" for all pairs, the sort is a no-op and
// "the latest" is whatever happened to come first.
func comparatorIgnoresOperand(f *ssa.Function) []*ssa.Function {
	var out []*ssa.Function
	for _, call := range callsIn(f) {
		o := staticCalleeObj(call.Call)
		if o == nil || o.Pkg() == nil || (o.Pkg().Path() != "sort" && o.Pkg().Path() != "slices") {
			continue
		}
		for _, a := range call.Call.Args {
			var cf *ssa.Function
			switch x := a.(type) {
			case *ssa.MakeClosure:
				cf, _ = x.Fn.(*ssa.Function)
			case *ssa.Function:
				cf = x
			}
			if cf == nil || len(cf.Blocks) == 0 || len(cf.Params) != 2 || !types.Identical(cf.Params[0].Type(), cf.Params[1].Type()) || cf.Signature.Results().Len() != 1 {
				continue
			}
			if bt, ok := cf.Signature.Results().At(0).Type().Underlying().(*types.Basic); !ok || bt.Info()&(types.IsBoolean|types.IsInteger) == 0 {
				continue
			}
			var outcome []ssa.Value
			for _, r := range returnsOf(cf) {
				outcome = append(outcome, r.Results[0])
			}
			for _, b := range cf.Blocks {
				if i := ifOf(b); i != nil {
					outcome = append(outcome, i.Cond)
				}
			}
			uses := [2]bool{}
			for k := 0; k < 2; k++ {
				for _, v := range outcome {
					if dependsOnValue(v, cf.Params[k]) {
						uses[k] = true
						break
					}
				}
			}
			if uses[0] != uses[1] {
				out = append(out, cf)
			}
		}
	}
	return out
}

// ruleComparatorBoth (COMPARATOR-BOTH): zero instances are expected.
func ruleComparatorBoth(c *Ctx, rule string, pkgs []*packages.Package) {
	c.Rule(rule, "a comparison function handed to sort/slices looks at both of its operands", 0)
	p := c.P
	n, fns, cmps := 0, 0, 0
	for _, sf := range p.SSAFuncsOf(pkgs) {
		for _, f := range allSSAFuncs(sf) {
			fns++
			for _, call := range callsIn(f) {
				if o := staticCalleeObj(call.Call); o != nil && o.Pkg() != nil && (o.Pkg().Path() == "sort" || o.Pkg().Path() == "slices") {
					for _, a := range call.Call.Args {
						if _, ok := a.(*ssa.MakeClosure); ok {
							cmps++
						} else if _, ok := a.(*ssa.Function); ok {
							cmps++
						}
					}
				}
			}
			for _, cf := range comparatorIgnoresOperand(f) {
				n++
				pos := cf.Pos()
				if pos == token.NoPos {
					pos = f.Pos()
				}
				c.Ob(rule, ssaFuncName(cf)+"/one-operand", pos, false, true, "the comparison in %s depends on only one of its two operands (%s and %s): every pair compares the same way", ssaFuncName(f), cf.Params[0].Name(), cf.Params[1].Name())
			}
		}
	}
	c.Ob(rule, "functions-scanned", token.NoPos, n == 0, fns > 0, "%d functions scanned, %d functions handed to sort/slices, %d looking at one operand only", fns, cmps, n)
}
