package main

// Rules added after the third seeding round.

import (
	"fmt"
	"go/ast"
	"go/constant"
	"go/token"
	"go/types"
	"strings"

	"golang.org/x/tools/go/packages"
	"golang.org/x/tools/go/ssa"
)

var _ = fmt.Sprint
var _ = ast.Inspect
var _ *packages.Package

// c03SubsetByPair (SUBSET-BY-PAIR; C03/C04): an enum field may change its enum type without a wire / wire-JSON report
// only when the previous enum is a *subset* of the new one as a set of (name, number) pairs. The helper that decides it
// (the function of bufprotosource taking two Enums and returning (bool, error) that the wire-compatibility handlers
// call) must therefore compare the number of the value found under a name with the number of the value it was looked
// up for: an inequality test between two Number() results whose receivers come from two different maps - one through a
// lookup keyed by the other's key - with `false` returned on the unequal edge. Testing name and number membership
// separately accepts a permutation of the numbers (ACTIVE=1, DELETED=2 -> ACTIVE=2, DELETED=1).
func c03SubsetByPair(c *Ctx, rule string) {
	c.Rule(rule, "the enum-subset test compares numbers pairwise under the same name", 1)
	p := c.P
	pk := p.Pkg("private/bufpkg/bufprotosource")
	if pk == nil {
		c.Fail(rule, "anchor", token.NoPos, "bufprotosource not found")
		return
	}
	n := 0
	for _, sf := range p.SSAFuncsOf([]*packages.Package{pk}) {
		sig := sf.Signature
		if sf.Parent() != nil || sig.Recv() != nil || sig.Params().Len() != 2 || sig.Results().Len() != 2 {
			continue
		}
		if namedName(sig.Params().At(0).Type()) != "Enum" || namedName(sig.Params().At(1).Type()) != "Enum" {
			continue
		}
		if b, ok := sig.Results().At(0).Type().Underlying().(*types.Basic); !ok || b.Kind() != types.Bool {
			continue
		}
		n++
		// the origin map of a value: the map it was looked up in / ranged from
		originMap := func(v ssa.Value) ssa.Value {
			var m ssa.Value
			sliceBack(v, func(x ssa.Value) bool {
				switch y := x.(type) {
				case *ssa.Lookup:
					if _, isMap := y.X.Type().Underlying().(*types.Map); isMap && m == nil {
						m = y.X
					}
				case *ssa.Next:
					if r, ok := y.Iter.(*ssa.Range); ok && m == nil {
						m = r.X
					}
				}
				return m == nil
			})
			return m
		}
		okPair, okReturn := false, false
		for _, b := range sf.Blocks {
			i := ifOf(b)
			if i == nil {
				continue
			}
			cv, _ := condPolarity(i.Cond)
			bin, ok := cv.(*ssa.BinOp)
			if !ok || (bin.Op != token.EQL && bin.Op != token.NEQ) {
				continue
			}
			cx, okx := bin.X.(*ssa.Call)
			cy, oky := bin.Y.(*ssa.Call)
			if !okx || !oky || !cx.Call.IsInvoke() || !cy.Call.IsInvoke() || cx.Call.Method.Name() != "Number" || cy.Call.Method.Name() != "Number" {
				continue
			}
			mx, my := originMap(cx.Call.Value), originMap(cy.Call.Value)
			if mx == nil || my == nil || mx == my {
				continue
			}
			okPair = true
			// the unequal edge returns false
			succ := b.Succs[0]
			if bin.Op == token.EQL {
				succ = b.Succs[1]
			}
			if len(succ.Instrs) > 0 {
				if r, ok := succ.Instrs[len(succ.Instrs)-1].(*ssa.Return); ok && len(r.Results) == 2 {
					if cst, ok := r.Results[0].(*ssa.Const); ok && cst.Value != nil && cst.Value.ExactString() == "false" {
						okReturn = true
					}
				}
			}
		}
		c.Ob(rule, sf.Name(), sf.Pos(), okPair && okReturn, true, "numbers of the two enums are compared under the same name (%v) and a difference answers false (%v)", okPair, okReturn)
	}
	if n == 0 {
		c.Fail(rule, "anchor", token.NoPos, "no (Enum, Enum) (bool, error) helper found in bufprotosource")
	}
}

var _ = strings.Contains

// c05ResolvedKindGroup (RESOLVED-KIND-GROUP): protoreflect's GroupKind is what a *resolved* field reports both for a
// proto2 group and for an ordinary message field with features.message_encoding = DELIMITED (editions). Code of the
// lint handlers that singles out GroupKind without MessageKind therefore treats delimited message fields as proto2
// groups (e.g. "groups have no field comment" would exempt documented-looking ordinary fields). In the handler,
// utility and protovalidate-lint packages every condition or case list that mentions GroupKind also mentions
// MessageKind; a syntax-level test (descriptorpb TYPE_GROUP) is the way to recognise a real group.
func c05ResolvedKindGroup(c *Ctx) {
	const rule = "RESOLVED-KIND-GROUP"
	c.Rule(rule, "resolved GroupKind is never singled out without MessageKind in lint code", 1)
	p := c.P
	n := 0
	for _, rel := range []string{pkgCheckHandle, "private/bufpkg/bufcheck/bufcheckserver/internal/buflintvalidate", "private/bufpkg/bufcheck/bufcheckserver/internal/bufcheckserverutil"} {
		pk := p.Pkg(rel)
		if pk == nil {
			continue
		}
		mentions := func(n ast.Node, name string) bool {
			found := false
			ast.Inspect(n, func(m ast.Node) bool {
				if sel, ok := m.(*ast.SelectorExpr); ok && sel.Sel.Name == name {
					if cst, ok := pk.TypesInfo.Uses[sel.Sel].(*types.Const); ok && cst.Pkg() != nil && strings.HasSuffix(cst.Pkg().Path(), "protoreflect") {
						found = true
					}
				}
				return !found
			})
			return found
		}
		for _, f := range pk.Syntax {
			if strings.HasSuffix(p.Fset.Position(f.Pos()).Filename, "_test.go") {
				continue
			}
			var stack []ast.Node
			ast.Inspect(f, func(x ast.Node) bool {
				if x == nil {
					stack = stack[:len(stack)-1]
					return true
				}
				stack = append(stack, x)
				sel, ok := x.(*ast.SelectorExpr)
				if !ok || sel.Sel.Name != "GroupKind" {
					return true
				}
				if cst, ok := pk.TypesInfo.Uses[sel.Sel].(*types.Const); !ok || cst.Pkg() == nil || !strings.HasSuffix(cst.Pkg().Path(), "protoreflect") {
					return true
				}
				// the enclosing decision: outermost boolean expression, or the case clause
				var scope ast.Node
				for i := len(stack) - 2; i >= 0; i-- {
					switch y := stack[i].(type) {
					case *ast.BinaryExpr, *ast.ParenExpr, *ast.UnaryExpr:
						scope = y
						continue
					case *ast.CaseClause:
						scope = &ast.CompositeLit{Elts: y.List}
					}
					break
				}
				if scope == nil {
					return true
				}
				n++
				// … or the decision also looks at the syntax (proto2 groups versus delimited editions fields)
				ok2 := mentions(scope, "MessageKind") || mentions(scope, "Proto2") || strings.Contains(exprString(scope.(ast.Expr)), "Syntax()")
				name := "?"
				if fd := p.EnclosingFuncDecl(sel); fd != nil {
					name = declName(fd)
				}
				c.Ob(rule, fmt.Sprintf("%s/%s#%d", relPkg(pk.PkgPath), name, n), sel.Pos(), ok2, true, "the decision mentioning GroupKind also mentions MessageKind, or tests the syntax: %v", ok2)
				return true
			})
		}
	}
	if n == 0 {
		c.Fail(rule, "count", token.NoPos, "no GroupKind decision found in the lint packages (anchor lost)")
	}
}

// c05VersionLevelTable (VERSION-LEVEL-TABLE): package versions are v<major>[p<patch>](alpha|beta)[<minor>] or
// v<major>test<anything>. The suffix after "test" is free-form, so "test" decides alone: in the function that
// classifies a version component, the construction of a Test-level version is guarded by Contains(…, "test") = true
// and by no test on "alpha"/"beta"; every other construction lies on the Contains(…, "test") = false edge. Decided
// on SSA guard edges (so hoisting the Contains calls into locals or folding them into one condition changes nothing).
func c05VersionLevelTable(c *Ctx) {
	const rule = "VERSION-LEVEL-TABLE"
	c.Rule(rule, "a version containing \"test\" is a test-level version whatever else its suffix contains", 2)
	p := c.P
	pk := p.Pkg("private/pkg/protoversion")
	if pk == nil {
		c.Fail(rule, "anchor", token.NoPos, "protoversion not found")
		return
	}
	n := 0
	for _, sf := range p.SSAFuncsOf([]*packages.Package{pk}) {
		for _, call := range callsIn(sf) {
			callee := call.Call.StaticCallee()
			if callee == nil || callee.Pkg == nil || callee.Pkg.Pkg != pk.Types || callee.Signature.Params().Len() < 2 || namedName(callee.Signature.Params().At(1).Type()) != "StabilityLevel" {
				continue
			}
			// guards of this construction that test for a literal in the version text
			lits := map[string]bool{}
			seen := map[string]bool{}
			for _, ge := range guardingEdges(call.Instr.Block()) {
				cv, pos := condPolarity(ge.If.Cond)
				cc, ok := cv.(*ssa.Call)
				if !ok || !calleeIs(staticCalleeObj(&cc.Call), "strings", "Contains") || len(cc.Call.Args) != 2 {
					continue
				}
				k, ok := cc.Call.Args[1].(*ssa.Const)
				if !ok || k.Value == nil {
					continue
				}
				lit := strings.Trim(k.Value.ExactString(), `"`)
				seen[lit] = true
				lits[lit] = ge.Branch == pos
			}
			isTest := false
			if k, ok := call.Call.Args[1].(*ssa.Const); ok && k.Value != nil {
				if cst, ok := pk.Types.Scope().Lookup("StabilityLevelTest").(*types.Const); ok && cst.Val().ExactString() == k.Value.ExactString() {
					isTest = true
				}
			}
			n++
			if isTest {
				ok := seen["test"] && lits["test"] && !seen["alpha"] && !seen["beta"]
				c.Ob(rule, fmt.Sprintf("%s/test-level#%d", sf.Name(), n), call.Pos(), ok, true, "a Test-level version is built exactly when the text contains \"test\" (guards on literals: %v)", lits)
			} else {
				ok := seen["test"] && !lits["test"]
				c.Ob(rule, fmt.Sprintf("%s/other-level#%d", sf.Name(), n), call.Pos(), ok, true, "a non-test version is built only when the text does not contain \"test\" (guards on literals: %v)", lits)
			}
		}
	}
	if n == 0 {
		c.Fail(rule, "anchor", token.NoPos, "no version construction with a StabilityLevel found")
	}
}

// c05RekeyByIdentity (REKEY-BY-IDENTITY): when a handler walks a map of elements and files each element into another
// map (to group or count the users of something), the element must be filed under the key it came with or under its
// full name. Filing it under a derived short name (method.Name()) merges elements of different containers that share
// that name - BookService.Get and AuthorService.Get become one user - and a uniqueness or sharing rule stops firing.
// Decided on SSA for the handler package: a map store whose value is the value of a map range uses, as its key, the
// key of that same range, or a value computed from FullName() of the element.
func c05RekeyByIdentity(c *Ctx) {
	const rule = "REKEY-BY-IDENTITY"
	c.Rule(rule, "an element taken from a map is re-filed under its own key or full name", 1)
	p := c.P
	pk := p.Pkg(pkgCheckHandle)
	if pk == nil {
		c.Fail(rule, "anchor", token.NoPos, "handler package not found")
		return
	}
	n := 0
	for _, sf := range p.SSAFuncsOf([]*packages.Package{pk}) {
		for _, f := range allSSAFuncs(sf) {
			for _, b := range f.Blocks {
				for _, ins := range b.Instrs {
					mu, ok := ins.(*ssa.MapUpdate)
					if !ok {
						continue
					}
					ex, ok := stripConv(mu.Value).(*ssa.Extract)
					if !ok || ex.Index != 2 {
						continue
					}
					nx, ok := ex.Tuple.(*ssa.Next)
					if !ok || nx.IsString {
						continue
					}
					rg, ok := nx.Iter.(*ssa.Range)
					if !ok {
						continue
					}
					if _, isMap := rg.X.Type().Underlying().(*types.Map); !isMap {
						continue
					}
					n++
					okKey := false
					if kx, ok := stripConv(mu.Key).(*ssa.Extract); ok && kx.Tuple == ex.Tuple && kx.Index == 1 {
						okKey = true
					}
					if !okKey && dependsOnCall(mu.Key, func(cc *ssa.CallCommon) bool {
						return cc.IsInvoke() && (cc.Method.Name() == "FullName" || cc.Method.Name() == "NestedName" || cc.Method.Name() == "Path") && cc.Value == ssa.Value(ex)
					}) {
						okKey = true
					}
					c.Ob(rule, fmt.Sprintf("%s#%d", ssaFuncName(f), n), mu.Pos(), okKey, true, "the element is stored under the key it was ranged with, or under its full name: %v", okKey)
				}
			}
		}
	}
}

// c06SuppressorsDisjoin (SUPPRESSORS-DISJOIN): an annotation is dropped when ANY suppression applies - ignore paths,
// per-rule ignore paths, unstable packages, comment ignores. The deciding function is a chain of independent tests that
// each may answer `true`. Any other answer (a constant false, or a computed value) returned before a later suppressor
// was consulted makes that suppressor unreachable for some configurations: adding an `ignore_only` entry for a rule
// would then switch *off* its comment ignores, i.e. adding a suppression adds annotations. Decided on SSA: let the
// suppressors be the `return true` sites, each identified by the config fields its guards read; a return of anything
// else must have consulted (in a guard or a dominating test) at least one field of every suppressor.
func c06SuppressorsDisjoin(c *Ctx) {
	const rule = "SUPPRESSORS-DISJOIN"
	c.Rule(rule, "no answer other than `ignore` is given before every suppressor was consulted", 1)
	p := c.P
	pk := p.Pkg("private/bufpkg/bufcheck")
	if pk == nil {
		c.Fail(rule, "anchor", token.NoPos, "bufcheck not found")
		return
	}
	found := 0
	for _, sf := range p.SSAFuncsOf([]*packages.Package{pk}) {
		sig := sf.Signature
		if sf.Parent() != nil || sig.Results().Len() != 2 || len(sf.Params) < 1 {
			continue
		}
		if b, ok := sig.Results().At(0).Type().Underlying().(*types.Basic); !ok || b.Kind() != types.Bool {
			continue
		}
		var cfg *ssa.Parameter
		for _, prm := range sf.Params {
			if pt, ok := prm.Type().(*types.Pointer); ok && namedName(pt.Elem()) == "config" {
				cfg = prm
			}
		}
		if cfg == nil {
			continue
		}
		fieldsOf := func(v ssa.Value) map[string]bool {
			out := map[string]bool{}
			sliceBack(v, func(x ssa.Value) bool {
				if fa, ok := x.(*ssa.FieldAddr); ok {
					if st, ok := fa.X.Type().Underlying().(*types.Pointer).Elem().Underlying().(*types.Struct); ok {
						// the leaf field; embedded sub-configs (config.optionsConfig.X) are only the way to it
						if f := st.Field(fa.Field); !f.Embedded() && dependsOnValue(fa.X, cfg) {
							out[f.Name()] = true
						}
					}
				}
				return true
			})
			return out
		}
		type ret struct {
			r      *ssa.Return
			isTrue bool
		}
		var rets []ret
		for _, r := range returnsOf(sf) {
			if len(r.Results) != 2 {
				continue
			}
			if !isNilConst(r.Results[1]) {
				// `return helper(…)`: both results come from one call - a delegated answer, not an error exit
				e0, ok0 := r.Results[0].(*ssa.Extract)
				e1, ok1 := r.Results[1].(*ssa.Extract)
				if !(ok0 && ok1 && e0.Tuple == e1.Tuple) {
					continue // error exits
				}
			}
			k, isConst := r.Results[0].(*ssa.Const)
			rets = append(rets, ret{r, isConst && k.Value != nil && k.Value.ExactString() == "true"})
		}
		// suppressors
		type supp struct {
			fields map[string]bool
			pos    token.Pos
		}
		var supps []supp
		for _, rt := range rets {
			if !rt.isTrue {
				continue
			}
			fs := map[string]bool{}
			for _, ge := range guardingEdges(rt.r.Block()) {
				// only tests that hold on the way in (the false edges of earlier suppressors do not identify this one)
				if _, pos := condPolarity(ge.If.Cond); ge.Branch != pos {
					continue
				}
				for f := range fieldsOf(ge.If.Cond) {
					fs[f] = true
				}
			}
			if len(fs) > 0 {
				supps = append(supps, supp{fs, rt.r.Pos()})
			}
		}
		if len(supps) < 2 {
			continue
		}
		found++
		k := 0
		for _, rt := range rets {
			if rt.isTrue {
				continue
			}
			k++
			consulted := map[string]bool{}
			for _, b := range sf.Blocks {
				i := ifOf(b)
				if i == nil || !b.Dominates(rt.r.Block()) {
					continue
				}
				for f := range fieldsOf(i.Cond) {
					consulted[f] = true
				}
			}
			var missed []string
			for _, s := range supps {
				hit := false
				for f := range s.fields {
					if consulted[f] {
						hit = true
					}
				}
				if !hit {
					missed = append(missed, strings.Join(sortedKeys(s.fields), "+"))
				}
			}
			c.Ob(rule, fmt.Sprintf("%s/non-ignore-return#%d", sf.Name(), k), rt.r.Pos(), len(missed) == 0, true, "%d suppressors (return true under config tests); this return was reached without consulting: %v", len(supps), missed)
		}
	}
	if found == 0 {
		c.Fail(rule, "anchor", token.NoPos, "no (…*config…) (bool, error) function with two or more config-guarded `return true` found in bufcheck")
	}
}

// c06OptionsFullPath (OPTIONS-FULL-PATH): a `buf:lint:ignore` comment is looked for on the source locations
// *associated* with an annotation's path (protosourcepath). For an option the comment sits on the option statement
// itself, whose location is the full path ([8, 11] for `option java_package = …;`), not the bare options message
// ([8], which never carries comments). Every transition of the path automaton into the `options` state must therefore
// associate a clone of the whole path it was given - the function's SourcePath parameter, unsliced. Sibling agreement
// over all states (file, message, field, enum, enum value, service, method …).
func c06OptionsFullPath(c *Ctx) {
	const rule = "OPTIONS-FULL-PATH"
	c.Rule(rule, "every transition into the options state associates the whole source path", 8)
	p := c.P
	pk := p.Pkg("private/pkg/protosourcepath")
	if pk == nil {
		c.Fail(rule, "anchor", token.NoPos, "protosourcepath not found")
		return
	}
	info := pk.TypesInfo
	optionsFn, _ := pk.Types.Scope().Lookup("options").(*types.Func)
	if optionsFn == nil {
		c.Fail(rule, "anchor", token.NoPos, "state function `options` not found")
		return
	}
	for _, fr := range p.FuncsOf(pk) {
		if fr.Decl.Body == nil || fr.Obj == optionsFn {
			continue
		}
		// SourcePath parameters of this state function
		params := map[types.Object]bool{}
		if fr.Decl.Type.Params != nil {
			for _, f := range fr.Decl.Type.Params.List {
				for _, nm := range f.Names {
					if o := info.Defs[nm]; o != nil && namedName(o.Type()) == "SourcePath" {
						params[o] = true
					}
				}
			}
		}
		k := 0
		ast.Inspect(fr.Decl.Body, func(n ast.Node) bool {
			r, ok := n.(*ast.ReturnStmt)
			if !ok || len(r.Results) != 3 {
				return true
			}
			if id := lastIdent(r.Results[0]); id == nil || info.Uses[id] != optionsFn {
				return true
			}
			k++
			okFull := false
			if lit, ok := ast.Unparen(r.Results[1]).(*ast.CompositeLit); ok && len(lit.Elts) == 1 {
				e := ast.Unparen(lit.Elts[0])
				if call, ok := e.(*ast.CallExpr); ok && len(call.Args) == 1 && calleeIs(Callee(info, call), "slices", "Clone") {
					e = ast.Unparen(call.Args[0])
				}
				if o := identObj(info, e); o != nil && params[o] {
					okFull = true
				}
			}
			c.Ob(rule, fmt.Sprintf("%s#%d", fr.Decl.Name.Name, k), r.Pos(), okFull, true, "the transition into `options` associates its whole SourcePath parameter: %v (%s)", okFull, exprString(r.Results[1]))
			return true
		})
	}
}

// c07ScopedFlagRestored (FLAG-RESTORED): the formatter carries mode flags (bool fields of the formatter struct) that
// change how later nodes are written. A method that both raises and lowers such a flag uses it as a *scope*: the flag
// must be lowered again on every way out - by a deferred reset that dominates nothing but the raise, or by a reset
// that every path from the raise to an exit passes. A `return` between raise and reset leaves the formatter in the
// wrong mode for the rest of the file (comments of the next option name are then skipped).
func c07ScopedFlagRestored(c *Ctx) {
	const rule = "FLAG-RESTORED"
	c.Rule(rule, "a formatter mode flag raised in a method is lowered again on every exit of that method", 1)
	p := c.P
	pk := p.Pkg("private/buf/bufformat")
	if pk == nil {
		c.Fail(rule, "anchor", token.NoPos, "bufformat not found")
		return
	}
	info := pk.TypesInfo
	n := 0
	for _, fr := range p.FuncsOf(pk) {
		if fr.Decl.Body == nil || fr.Decl.Recv == nil {
			continue
		}
		type site struct {
			node ast.Node
			val  bool
		}
		stores := map[types.Object][]site{}
		deferred := map[types.Object]bool{}
		var walk func(n ast.Node, inDefer bool)
		walk = func(root ast.Node, inDefer bool) {
			ast.Inspect(root, func(m ast.Node) bool {
				switch x := m.(type) {
				case *ast.DeferStmt:
					if root != ast.Node(x) {
						walk(x, true)
						return false
					}
				case *ast.FuncLit:
					if !inDefer {
						return false
					}
				case *ast.AssignStmt:
					if len(x.Lhs) != 1 || len(x.Rhs) != 1 {
						return true
					}
					sel, ok := ast.Unparen(x.Lhs[0]).(*ast.SelectorExpr)
					if !ok {
						return true
					}
					fld, ok := info.Uses[sel.Sel].(*types.Var)
					if !ok || !fld.IsField() {
						return true
					}
					tv, ok := info.Types[x.Rhs[0]]
					if !ok || tv.Value == nil {
						return true
					}
					if b, ok := fld.Type().Underlying().(*types.Basic); !ok || b.Kind() != types.Bool {
						return true
					}
					val := tv.Value.ExactString() == "true"
					if inDefer {
						if !val {
							deferred[fld] = true
						}
						return true
					}
					stores[fld] = append(stores[fld], site{x, val})
				}
				return true
			})
		}
		walk(fr.Decl.Body, false)
		g := p.CFGOf(fr.Decl.Body, info)
		for fld, ss := range stores {
			var raises, lowers []ast.Node
			for _, s := range ss {
				if s.val {
					raises = append(raises, s.node)
				} else {
					lowers = append(lowers, s.node)
				}
			}
			if len(raises) == 0 || (len(lowers) == 0 && !deferred[fld]) {
				continue // not a scoped use in this method
			}
			n++
			ok := true
			why := "a deferred reset"
			if !deferred[fld] {
				why = "every path from the raise to an exit passes a reset"
				for _, r := range raises {
					if reach, _ := g.ExitReachableAvoiding(r, lowers, nil); reach {
						ok = false
					}
				}
			}
			c.Ob(rule, declName(fr.Decl)+"/"+fld.Name(), raises[0].Pos(), ok, true, "flag %s is raised here and lowered again on every exit (%s): %v", fld.Name(), why, ok)
		}
	}
	if n == 0 {
		c.Fail(rule, "anchor", token.NoPos, "no scoped mode flag found in the formatter")
	}
}

// c07CompactOnlyScalars (COMPACT-ONLY-SCALARS): the one-line form of a message literal prints its field names through
// the writer for option names, which knows nothing of the `[type.googleapis.com/pkg.Msg]` spelling of an Any
// expansion (that is the reviewed exemption of WRITER-COVERAGE). The exemption is sound only while the predicate that
// sends a literal down the multi-line path answers true for EVERY element whose value is a message or array literal -
// an Any expansion always has a message value. Decided on SSA: in the predicate over a *MessageLiteralNode, the
// successful type test for a message / array literal value leads straight to `return true`.
func c07CompactOnlyScalars(c *Ctx) {
	const rule = "COMPACT-ONLY-SCALARS"
	c.Rule(rule, "a message literal holding a nested message or array value is never written in the one-line form", 2)
	p := c.P
	pk := p.Pkg("private/buf/bufformat")
	if pk == nil {
		c.Fail(rule, "anchor", token.NoPos, "bufformat not found")
		return
	}
	n := 0
	for _, sf := range p.SSAFuncsOf([]*packages.Package{pk}) {
		sig := sf.Signature
		if sf.Parent() != nil || sig.Recv() != nil || sig.Params().Len() != 1 || sig.Results().Len() != 1 {
			continue
		}
		if pt, ok := sig.Params().At(0).Type().(*types.Pointer); !ok || namedName(pt.Elem()) != "MessageLiteralNode" {
			continue
		}
		if b, ok := sig.Results().At(0).Type().Underlying().(*types.Basic); !ok || b.Kind() != types.Bool {
			continue
		}
		for _, b := range sf.Blocks {
			for _, ins := range b.Instrs {
				ta, ok := ins.(*ssa.TypeAssert)
				if !ok || !ta.CommaOk {
					continue
				}
				pt, ok := ta.AssertedType.(*types.Pointer)
				if !ok {
					continue
				}
				tn := namedName(pt.Elem())
				if tn != "MessageLiteralNode" && tn != "ArrayLiteralNode" {
					continue
				}
				i := ifOf(b)
				if i == nil {
					continue
				}
				n++
				succ := b.Succs[0]
				direct := false
				if len(succ.Instrs) > 0 {
					if r, ok := succ.Instrs[len(succ.Instrs)-1].(*ssa.Return); ok && len(succ.Instrs) == 1 && len(r.Results) == 1 {
						if k, ok := r.Results[0].(*ssa.Const); ok && k.Value != nil && k.Value.ExactString() == "true" {
							direct = true
						}
					}
				}
				c.Ob(rule, sf.Name()+"/"+tn, ta.Pos(), direct, true, "a %s value answers `true` unconditionally: %v", tn, direct)
			}
		}
	}
	if n == 0 {
		c.Fail(rule, "anchor", token.NoPos, "no predicate over *MessageLiteralNode testing for nested message/array values found")
	}
}

// ruleOpenTruncates (OPEN-TRUNCATES; C07 and C15): a file that is rewritten as a whole through os.OpenFile for writing
// must be opened with O_TRUNC (or O_APPEND / O_EXCL, which have their own meaning): without it, writing content that
// is shorter than the file leaves the old tail behind it - `buf format -w` on a file that shrinks produces text that
// no longer parses, and nothing reports an error. Flags are constant-folded by go/types.
func ruleOpenTruncates(c *Ctx, rule string) {
	c.Rule(rule, "files opened for (over)writing are truncated", 2)
	p := c.P
	n := 0
	for _, pk := range p.ModulePkgs() {
		for _, f := range pk.Syntax {
			if strings.HasSuffix(p.Fset.Position(f.Pos()).Filename, "_test.go") {
				continue
			}
			ast.Inspect(f, func(m ast.Node) bool {
				call, ok := m.(*ast.CallExpr)
				if !ok || len(call.Args) != 3 || !calleeIs(Callee(pk.TypesInfo, call), "os", "OpenFile") {
					return true
				}
				tv, ok := pk.TypesInfo.Types[call.Args[1]]
				if !ok || tv.Value == nil {
					n++
					c.Ob(rule, relPkg(pk.PkgPath)+"/OpenFile#"+fmt.Sprint(n), call.Pos(), false, true, "the open flags are not a constant expression: undecided")
					return true
				}
				flags, _ := constant.Int64Val(constant.ToInt(tv.Value))
				osConst := func(name string) int64 {
					if osPkg := p.ByPath["os"]; osPkg != nil {
						if k, ok := osPkg.Types.Scope().Lookup(name).(*types.Const); ok {
							v, _ := constant.Int64Val(constant.ToInt(k.Val()))
							return v
						}
					}
					return 0
				}
				oWRONLY, oRDWR, oAPPEND, oEXCL, oTRUNC := osConst("O_WRONLY"), osConst("O_RDWR"), osConst("O_APPEND"), osConst("O_EXCL"), osConst("O_TRUNC")
				if oTRUNC == 0 {
					n++
					c.Ob(rule, "os-constants", call.Pos(), false, true, "package os constants not available: undecided")
					return true
				}
				if flags&(oWRONLY|oRDWR) == 0 {
					return true
				}
				n++
				ok2 := flags&(oTRUNC|oAPPEND|oEXCL) != 0
				name := "?"
				if fd := p.EnclosingFuncDecl(call); fd != nil {
					name = declName(fd)
				}
				c.Ob(rule, relPkg(pk.PkgPath)+"."+name, call.Pos(), ok2, true, "os.OpenFile(…, %s, …) for writing carries O_TRUNC / O_APPEND / O_EXCL: %v", exprString(call.Args[1]), ok2)
				return true
			})
		}
	}
	if n == 0 {
		c.Fail(rule, "anchor", token.NoPos, "no os.OpenFile for writing found in the module")
	}
}

// c08ContentFullyRead (CONTENT-FULLY-READ): a content digest "changes whenever any byte changes" and is "the same for
// every storage backend" only if every byte the reader hands out is hashed. io.Copy / io.ReadAll guarantee that. A
// hand-written loop must honour the io.Reader contract: a Read may return n > 0 together with io.EOF (archive, gzip
// and HTTP readers do; in-memory and file readers do not), so the n bytes have to be consumed before the error is
// looked at. For every function of the digest packages that takes an io.Reader: the reader is passed to
// io.Copy/io.CopyBuffer/io.ReadAll, or each direct Read's byte count reaches the hash (a slice bounded by n) in a
// block that dominates every test of that Read's error.
func c08ContentFullyRead(c *Ctx) {
	const rule = "CONTENT-FULLY-READ"
	c.Rule(rule, "content hashing consumes every byte the reader returns, including bytes returned together with io.EOF", 1)
	p := c.P
	n := 0
	for _, rel := range []string{"private/pkg/shake256", "private/bufpkg/bufcas"} {
		pk := p.Pkg(rel)
		if pk == nil {
			continue
		}
		for _, sf := range p.SSAFuncsOf([]*packages.Package{pk}) {
			var rd *ssa.Parameter
			for _, prm := range sf.Params {
				if namedPath(prm.Type()) == "io.Reader" {
					rd = prm
				}
			}
			if rd == nil || sf.Blocks == nil {
				continue
			}
			copies, reads, bad := 0, 0, 0
			for _, f := range allSSAFuncs(sf) {
				for _, call := range callsIn(f) {
					if fn := staticCalleeObj(call.Call); fn != nil && fn.Pkg() != nil && fn.Pkg().Path() == "io" && (fn.Name() == "Copy" || fn.Name() == "CopyBuffer" || fn.Name() == "ReadAll" || fn.Name() == "CopyN") {
						for _, a := range call.Call.Args {
							if dependsOnValue(a, rd) {
								copies++
							}
						}
					}
					if call.Call.IsInvoke() && call.Call.Method.Name() == "Read" && dependsOnValue(call.Call.Value, rd) {
						reads++
						cv, ok := call.Value.(*ssa.Call)
						if !ok {
							bad++
							continue
						}
						var nVal, errVal ssa.Value
						for _, ref := range *cv.Referrers() {
							if ex, ok := ref.(*ssa.Extract); ok {
								if ex.Index == 0 {
									nVal = ex
								} else {
									errVal = ex
								}
							}
						}
						// uses of n as a slice bound
						var useBlocks []*ssa.BasicBlock
						if nVal != nil {
							for _, b := range f.Blocks {
								for _, ins := range b.Instrs {
									if sl, ok := ins.(*ssa.Slice); ok && sl.High == nVal {
										useBlocks = append(useBlocks, b)
									}
								}
							}
						}
						okRead := len(useBlocks) > 0
						if errVal != nil {
							for _, b := range f.Blocks {
								i := ifOf(b)
								if i == nil {
									continue
								}
								if x, _, isNil := nilCompare(i.Cond); !isNil || stripConv(x) != errVal {
									continue
								}
								dominated := false
								for _, ub := range useBlocks {
									if ub == b || ub.Dominates(b) {
										dominated = true
									}
								}
								if !dominated {
									okRead = false
								}
							}
						}
						if !okRead {
							bad++
						}
					}
				}
			}
			if copies == 0 && reads == 0 {
				continue // the reader is only handed on
			}
			n++
			c.Ob(rule, relPkg(pk.PkgPath)+"."+sf.Name(), sf.Pos(), bad == 0, true, "%d io.Copy/ReadAll of the reader, %d direct Read loop(s) of which %d look at the error before consuming the n bytes", copies, reads, bad)
		}
	}
	if n == 0 {
		c.Fail(rule, "anchor", token.NoPos, "no function consuming an io.Reader found in shake256/bufcas")
	}
}

// c08SortOwnSlice (SORT-OWN-SLICE): "the canonical manifest text of any file set parses back to an equal manifest" and
// the b5 construction (SHAKE256 over the *path-sorted* manifest) both rest on a manifest keeping its order for its
// whole life. An accessor that hands out the object's own backing slice makes that order hostage to every caller: an
// in-place sort (sort.*, slices.Sort*, slices.Reverse) applied directly to such a result reorders the object itself.
// For the content-addressing packages: the slice handed to an in-place sorter is never the direct result of a method
// whose implementation(s) in the module return a field of the receiver (instead of a fresh copy).
func c08SortOwnSlice(c *Ctx) {
	const rule = "SORT-OWN-SLICE"
	c.Rule(rule, "in-place sorts in the digest packages never reorder a slice owned by another object", 3)
	p := c.P
	isInPlaceSorter := func(fn *types.Func) bool {
		if fn == nil || fn.Pkg() == nil {
			return false
		}
		switch fn.Pkg().Path() {
		case "sort":
			return fn.Name() != "Search" && !strings.HasPrefix(fn.Name(), "Search") && !strings.HasSuffix(fn.Name(), "AreSorted") && fn.Name() != "IsSorted"
		case "slices":
			return (strings.HasPrefix(fn.Name(), "Sort") && fn.Name() != "Sorted" && fn.Name() != "SortedFunc" && fn.Name() != "SortedStableFunc") || fn.Name() == "Reverse"
		}
		return false
	}
	// does a module method return a field of its receiver?
	returnsOwnField := func(m *ssa.Function) bool {
		if m == nil || m.Blocks == nil || m.Signature.Recv() == nil || len(m.Params) == 0 {
			return false
		}
		own := false
		for _, r := range returnsOf(m) {
			if len(r.Results) == 0 {
				continue
			}
			v := stripConv(r.Results[0])
			if u, ok := v.(*ssa.UnOp); ok && u.Op == token.MUL {
				if fa, ok := u.X.(*ssa.FieldAddr); ok && dependsOnValue(fa.X, m.Params[0]) {
					own = true
				}
			}
		}
		return own
	}
	n := 0
	for _, rel := range []string{"private/bufpkg/bufcas", "private/bufpkg/bufmodule", "private/pkg/shake256"} {
		pk := p.Pkg(rel)
		if pk == nil {
			continue
		}
		for _, sf := range p.SSAFuncsOf([]*packages.Package{pk}) {
			for _, f := range allSSAFuncs(sf) {
				for _, call := range callsIn(f) {
					if !isInPlaceSorter(staticCalleeObj(call.Call)) || len(call.Call.Args) == 0 {
						continue
					}
					n++
					arg := stripConv(call.Call.Args[0])
					// a local captured by the less-closure lives in a cell: look at what was stored into it
					if u, ok := arg.(*ssa.UnOp); ok && u.Op == token.MUL {
						if al, ok := u.X.(*ssa.Alloc); ok {
							var stored []ssa.Value
							for _, ref := range *al.Referrers() {
								if st, ok := ref.(*ssa.Store); ok && st.Addr == ssa.Value(al) {
									stored = append(stored, stripConv(st.Val))
								}
							}
							if len(stored) == 1 {
								arg = stored[0]
							}
						}
					}
					owned := ""
					if src, ok := arg.(*ssa.Call); ok {
						if src.Call.IsInvoke() {
							// every implementation of the method in the module
							for _, impl := range p.SSAFuncsOf(p.ModulePkgs()) {
								if impl.Signature.Recv() != nil && impl.Name() == src.Call.Method.Name() && types.Identical(impl.Signature.Results(), src.Call.Method.Type().(*types.Signature).Results()) {
									if it, ok := src.Call.Value.Type().Underlying().(*types.Interface); ok && types.Implements(impl.Signature.Recv().Type(), it) && returnsOwnField(impl) {
										owned = ssaFuncName(impl)
									}
								}
							}
						} else if callee := src.Call.StaticCallee(); callee != nil && returnsOwnField(callee) {
							owned = ssaFuncName(callee)
						}
					}
					c.Ob(rule, fmt.Sprintf("%s/sort#%d", ssaFuncName(f), n), call.Pos(), owned == "", true, "the slice sorted in place is the caller's own (not the backing slice returned by %s): %v", owned, owned == "")
				}
			}
		}
	}
}

// c08CanonicalString (CANONICAL-STRING): digests are compared, sorted, written to buf.lock and - for b5 - *hashed*
// through their string form. That form must be a function of the digest's type and bytes alone: the cached string of
// a digest value is rendered from the decoded bytes (hex encoding) and never copied from the text that was parsed,
// which may spell the same bytes differently (upper-case hex decodes fine). Decided on SSA: no store into a string
// field of a digest struct depends on a string parameter of the storing function.
func c08CanonicalString(c *Ctx) {
	const rule = "CANONICAL-STRING"
	c.Rule(rule, "a digest's cached string form is rendered from its bytes, never copied from parsed input", 1)
	p := c.P
	n := 0
	for _, rel := range []string{"private/bufpkg/bufcas", "private/bufpkg/bufmodule", "private/pkg/shake256"} {
		pk := p.Pkg(rel)
		if pk == nil {
			continue
		}
		for _, sf := range p.SSAFuncsOf([]*packages.Package{pk}) {
			for _, b := range sf.Blocks {
				for _, ins := range b.Instrs {
					st, ok := ins.(*ssa.Store)
					if !ok {
						continue
					}
					fa, ok := st.Addr.(*ssa.FieldAddr)
					if !ok {
						continue
					}
					pt, ok := fa.X.Type().Underlying().(*types.Pointer)
					if !ok || !strings.Contains(strings.ToLower(namedName(pt.Elem())), "digest") {
						continue
					}
					fld := pt.Elem().Underlying().(*types.Struct).Field(fa.Field)
					if bt, ok := fld.Type().Underlying().(*types.Basic); !ok || bt.Kind() != types.String {
						continue
					}
					n++
					fromParam := ""
					for _, prm := range sf.Params {
						if bt, ok := prm.Type().Underlying().(*types.Basic); ok && bt.Kind() == types.String && dependsOnValue(st.Val, prm) {
							// a parameter that only reaches the value through a decoding call is fine: require a direct
							// (call-free) dependence
							direct := false
							var walk func(v ssa.Value, depth int)
							seen := map[ssa.Value]bool{}
							walk = func(v ssa.Value, depth int) {
								if v == nil || seen[v] || depth > 12 {
									return
								}
								seen[v] = true
								if v == ssa.Value(prm) {
									direct = true
									return
								}
								switch x := v.(type) {
								case *ssa.BinOp:
									walk(x.X, depth+1)
									walk(x.Y, depth+1)
								case *ssa.Phi:
									for _, e := range x.Edges {
										walk(e, depth+1)
									}
								case *ssa.Slice:
									walk(x.X, depth+1)
								case *ssa.ChangeType:
									walk(x.X, depth+1)
								case *ssa.Convert:
									walk(x.X, depth+1)
								}
							}
							walk(st.Val, 0)
							if direct {
								fromParam = prm.Name()
							}
						}
					}
					c.Ob(rule, fmt.Sprintf("%s/%s.%s", ssaFuncName(sf), namedName(pt.Elem()), fld.Name()), st.Pos(), fromParam == "", true, "the string form stored in %s.%s is computed, not the text of parameter %q: %v", namedName(pt.Elem()), fld.Name(), fromParam, fromParam == "")
				}
			}
		}
	}
	if n == 0 {
		c.Fail(rule, "anchor", token.NoPos, "no string field store into a digest struct found")
	}
}

// staleErrReturns lists the returns of f whose error result is a value that is known to be nil at that point (the
// return lies on the nil edge of a test of that very value) while every other result is a nil/zero constant: the
// caller gets neither a result nor an error.
func staleErrReturns(f *ssa.Function) []*ssa.Return {
	var out []*ssa.Return
	res := f.Signature.Results()
	if res.Len() < 2 || !isErrorType(res.At(res.Len()-1).Type()) {
		return nil
	}
	// with a defer in the function the results are spilled: `return nil, err` becomes stores to the result cells,
	// rundefers, loads; look through the cell at what the return statement stored
	resolve := func(r *ssa.Return, v ssa.Value) ssa.Value {
		u, ok := v.(*ssa.UnOp)
		if !ok || u.Op != token.MUL {
			return v
		}
		al, ok := u.X.(*ssa.Alloc)
		if !ok {
			return v
		}
		var last ssa.Value
		for _, ins := range r.Block().Instrs {
			if ins == ssa.Instruction(u) {
				break
			}
			if st, ok := ins.(*ssa.Store); ok && st.Addr == ssa.Value(al) {
				last = st.Val
			}
		}
		if last != nil {
			return last
		}
		return v
	}
	for _, r := range returnsOf(f) {
		if len(r.Results) != res.Len() {
			continue
		}
		ev := resolve(r, r.Results[len(r.Results)-1])
		if _, isConst := ev.(*ssa.Const); isConst {
			continue
		}
		allNil := true
		for _, v := range r.Results[:len(r.Results)-1] {
			k, ok := resolve(r, v).(*ssa.Const)
			if !ok || !(k.IsNil() || k.Value == nil) {
				allNil = false
			}
		}
		if !allNil {
			continue
		}
		if onNilEdgeOf(r.Block(), stripConv(ev)) {
			out = append(out, r)
		}
	}
	return out
}

// ruleStaleErr (R-STALE-ERR; C09 on the cache packages, C15 module-wide): `return nil, err` on a path where err is
// known to be nil - it was tested and found nil by a dominating `if err != nil { return … }`, and no later call
// reassigned it - returns neither a value nor an error. In the commit store this made an invalid (but parseable)
// cached commit file come back as a *found* nil Commit instead of "not cached" (F28). Zero instances are expected; the
// self-test keeps positive examples (with and without a deferred error hook).
func ruleStaleErr(c *Ctx, rule string, pkgs []*packages.Package) {
	c.Rule(rule, "no function returns a nil value together with an error variable that is known to be nil", 0)
	p := c.P
	n, fns := 0, 0
	for _, sf := range p.SSAFuncsOf(pkgs) {
		for _, f := range allSSAFuncs(sf) {
			fns++
			for _, r := range staleErrReturns(f) {
				n++
				c.Ob(rule, fmt.Sprintf("%s/return#%d", ssaFuncName(f), n), r.Pos(), false, true, "this return hands back nil results and an error value that the dominating test already found nil: the caller sees neither a value nor an error")
			}
		}
	}
	c.Ob(rule, "functions-scanned", token.NoPos, n == 0, fns > 0, "%d functions scanned, %d stale-error returns", fns, n)
}

// c09ExpectedFromRequest (EXPECTED-FROM-REQUEST): a cached commit is verified by comparing the digest stored in the
// cache with the digest *the requesting key pins*. The expectation handed to the verifying constructor
// (bufmodule.CommitWithExpectedDigest) must therefore come from the request - a parameter of the reading function -
// and must not be derived from what was read out of the cache (ParseDigest of the stored text, the unmarshalled file):
// comparing the cached digest with itself accepts every tampering.
func c09ExpectedFromRequest(c *Ctx, pkStore *packages.Package) {
	const rule = "EXPECTED-FROM-REQUEST"
	c.Rule(rule, "the digest a cached commit is checked against comes from the requesting key, not from the cache", 1)
	p := c.P
	n := 0
	for _, sf := range p.SSAFuncsOf([]*packages.Package{pkStore}) {
		for _, f := range allSSAFuncs(sf) {
			for _, call := range callsIn(f) {
				if !calleeIs(staticCalleeObj(call.Call), "private/bufpkg/bufmodule", "CommitWithExpectedDigest") || len(call.Call.Args) != 1 {
					continue
				}
				n++
				arg := call.Call.Args[0]
				fromParam := false
				root := f
				for root.Parent() != nil {
					root = root.Parent()
				}
				sliceBack(arg, func(x ssa.Value) bool {
					if prm, ok := x.(*ssa.Parameter); ok && prm.Parent() == root {
						fromParam = true
					}
					if fv, ok := x.(*ssa.FreeVar); ok && fv != nil {
						fromParam = true // captured from the reading function; checked against the cache below
					}
					return true
				})
				fromCache := dependsOnCall(arg, func(cc *ssa.CallCommon) bool {
					fn := staticCalleeObj(cc)
					return fn != nil && (fn.Name() == "ParseDigest" || fn.Name() == "Unmarshal" || fn.Name() == "ReadPath" || strings.HasPrefix(fn.Name(), "Unmarshal"))
				})
				c.Ob(rule, fmt.Sprintf("%s#%d", ssaFuncName(f), n), call.Pos(), fromParam && !fromCache, true, "expected digest comes from a parameter of the reader (%v) and not from cached data (%v)", fromParam, !fromCache)
			}
		}
	}
	if n == 0 {
		c.Fail(rule, "anchor", token.NoPos, "no CommitWithExpectedDigest call in the store")
	}
}

// c09RevalidateUnconditional (REVALIDATE-UNCONDITIONAL): "a later store of the same module repairs the entry" and
// "never leaves the entry marked complete" rest on the store re-reading the completion marker and re-deciding its
// validity each time it has (re)acquired a lock. Whether the marker read just now is valid may depend only on that
// read - its error and its content. For every read of the marker in the store, the isValid() decision that follows it
// is guarded, between the read and the decision, by nothing but nil-tests of error values: a flag remembered from an
// earlier read under another lock ("we already know it is stale") lets a complete entry written in between be
// overwritten, and a fault during that overwrite leaves a valid marker over truncated files.
func c09RevalidateUnconditional(c *Ctx, pkStore *packages.Package, isMarkerPath func(ssa.Value) bool) {
	const rule = "REVALIDATE-UNCONDITIONAL"
	c.Rule(rule, "the validity of a marker read is decided from that read alone", 2)
	p := c.P
	n := 0
	for _, sf := range p.SSAFuncsOf([]*packages.Package{pkStore}) {
		for _, f := range allSSAFuncs(sf) {
			var reads []ssaCall
			var valids []ssaCall
			for _, call := range callsIn(f) {
				if calleeIs(staticCalleeObj(call.Call), "private/pkg/storage", "ReadPath") && len(call.Call.Args) >= 3 && isMarkerPath(call.Call.Args[2]) {
					reads = append(reads, call)
				}
				if fn := staticCalleeObj(call.Call); fn != nil && fn.Name() == "isValid" {
					valids = append(valids, call)
				}
			}
			for _, r := range reads {
				// the first validity decision after this read
				var v *ssaCall
				for i := range valids {
					if instrDominates(r.Instr, valids[i].Instr) && (v == nil || instrDominates(valids[i].Instr, v.Instr)) {
						// keep the one closest to the read that no other read separates
						sep := false
						for _, r2 := range reads {
							if r2.Instr != r.Instr && instrDominates(r.Instr, r2.Instr) && instrDominates(r2.Instr, valids[i].Instr) {
								sep = true
							}
						}
						if !sep {
							v = &valids[i]
						}
					}
				}
				if v == nil {
					continue
				}
				n++
				var foreign []string
				for _, ge := range guardingEdges(v.Instr.Block()) {
					if !r.Instr.Block().Dominates(ge.If.Block()) {
						continue // decided before the read
					}
					if x, _, ok := nilCompare(ge.If.Cond); ok && isErrorType(x.Type()) {
						continue
					}
					foreign = append(foreign, ge.If.Cond.String())
				}
				c.Ob(rule, fmt.Sprintf("%s/read#%d", ssaFuncName(f), n), v.Pos(), len(foreign) == 0, true, "between this marker read and its isValid() decision only error tests intervene: %v %v", len(foreign) == 0, foreign)
			}
		}
	}
	if n == 0 {
		c.Fail(rule, "anchor", token.NoPos, "no marker read followed by an isValid() decision found in the store")
	}
}

// ruleCopyCtorComplete (COPY-COMPLETE): a method that returns a modified copy of its receiver by spelling out a
// composite literal of the receiver's own struct type (`&module{a: m.a, b: m.b, isTarget: isTarget, …}`) must name
// every field of the struct: a field left out silently becomes zero in the copy (withIsTarget without commitID: every
// image built after re-targeting loses the owning module's commit). A literal counts as such a copy when at least
// half of its elements are `f: recv.f`. Fields that are deliberately reset must be written down with their new value
// (`cache: nil`), which also documents the intent.
func ruleCopyCtorComplete(c *Ctx, rule string, pkgs []*packages.Package, min int) {
	c.Rule(rule, "a field-by-field copy of a struct names every field", min)
	p := c.P
	for _, pk := range pkgs {
		info := pk.TypesInfo
		for _, fr := range p.FuncsOf(pk) {
			if fr.Decl.Body == nil || fr.Decl.Recv == nil || len(fr.Decl.Recv.List) != 1 || len(fr.Decl.Recv.List[0].Names) != 1 {
				continue
			}
			recv := info.Defs[fr.Decl.Recv.List[0].Names[0]]
			if recv == nil {
				continue
			}
			rt := recv.Type()
			if pt, ok := rt.(*types.Pointer); ok {
				rt = pt.Elem()
			}
			st, ok := rt.Underlying().(*types.Struct)
			if !ok {
				continue
			}
			k := 0
			ast.Inspect(fr.Decl.Body, func(n ast.Node) bool {
				lit, ok := n.(*ast.CompositeLit)
				if !ok || len(lit.Elts) == 0 {
					return true
				}
				lt := info.TypeOf(lit)
				if lt == nil || !types.Identical(lt, rt) {
					return true
				}
				named := map[string]bool{}
				copies := 0
				for _, el := range lit.Elts {
					kv, ok := el.(*ast.KeyValueExpr)
					if !ok {
						return true // positional literal: the compiler demands every field
					}
					key := kv.Key.(*ast.Ident).Name
					named[key] = true
					if sel, ok := ast.Unparen(kv.Value).(*ast.SelectorExpr); ok && sel.Sel.Name == key && identObj(info, sel.X) == recv {
						copies++
					}
				}
				if copies*2 < len(lit.Elts) || copies < 3 {
					return true
				}
				k++
				// fields given a value right after the literal (`x := &T{…}; x.f = …`) are named too
				if holder := litHolder(p, info, lit); holder != nil {
					ast.Inspect(fr.Decl.Body, func(m ast.Node) bool {
						if as, ok := m.(*ast.AssignStmt); ok {
							for _, l := range as.Lhs {
								if sel, ok := ast.Unparen(l).(*ast.SelectorExpr); ok && identObj(info, sel.X) == holder {
									named[sel.Sel.Name] = true
								}
							}
						}
						return true
					})
				}
				var missing []string
				for i := 0; i < st.NumFields(); i++ {
					if f := st.Field(i); !named[f.Name()] && !c.copyFieldExempt(relPkg(pk.PkgPath)+"."+namedName(rt)+"."+f.Name()) {
						missing = append(missing, f.Name())
					}
				}
				c.Ob(rule, fmt.Sprintf("%s.%s#%d", relPkg(pk.PkgPath), declName(fr.Decl), k), lit.Pos(), len(missing) == 0, true, "copy of %s names %d of %d fields; left to their zero value: %v", namedName(rt), len(named), st.NumFields(), missing)
				return true
			})
		}
	}
}

// copyFieldsReset lists fields that a copy deliberately leaves at zero (lazily computed caches that must be rebuilt
// for the copy), one line of reason each.
var copyFieldsReset = map[string]string{
	"private/bufpkg/bufmodule.module.moduleSet":                           "the back pointer is installed by the ModuleSet that owns the copy (setModuleSet), never inherited",
	"private/bufpkg/bufmodule.moduleReadBucket.pathToFileInfoCache":       "per-bucket memo of file infos, which embed the owning module: must start empty for the copy (zero value is an empty cache)",
	"private/bufpkg/bufmodule.moduleReadBucket.pathToFastscanResultCache": "per-bucket memo; zero value is an empty cache",
}

// litHolder returns the variable a composite literal (or its address) is assigned to, if any.
func litHolder(p *Prog, info *types.Info, lit *ast.CompositeLit) types.Object {
	var n ast.Node = lit
	par := p.Parent(n)
	if ue, ok := par.(*ast.UnaryExpr); ok && ue.Op == token.AND {
		n, par = ue, p.Parent(ue)
	}
	if as, ok := par.(*ast.AssignStmt); ok && len(as.Lhs) == len(as.Rhs) {
		for i, r := range as.Rhs {
			if ast.Node(r) == n {
				return identObj(info, as.Lhs[i])
			}
		}
	}
	return nil
}

func (c *Ctx) copyFieldExempt(key string) bool {
	_, ok := copyFieldsReset[key]
	return ok
}

// c01KeyByFullName (KEY-BY-FULL-NAME): a map that stands for "per module" state must be keyed by the module's full
// name (registry/owner/name, FullName.String()); keying by one component (Name(), Owner(), Registry()) makes two
// different modules that share that component one entry - buf.build/acme/common and buf.build/acme-labs/common then
// fail the image's one-commit-per-module validation although the workspace is perfectly buildable. Decided on SSA for
// the image and module packages: no map key is derived from a component accessor of a bufparse.FullName unless the
// full string is part of the key too.
func c01KeyByFullName(c *Ctx) {
	const rule = "KEY-BY-FULL-NAME"
	c.Rule(rule, "maps keyed by a module are keyed by its full name, not by one component of it", 1)
	p := c.P
	var pkgs []*packages.Package
	// every package of the module: wherever a map is keyed by something derived from a module's FullName
	pkgs = p.ModulePkgs()
	n := 0
	for _, sf := range p.SSAFuncsOf(pkgs) {
		for _, f := range allSSAFuncs(sf) {
			for _, b := range f.Blocks {
				for _, ins := range b.Instrs {
					var key ssa.Value
					switch x := ins.(type) {
					case *ssa.MapUpdate:
						key = x.Key
					case *ssa.Lookup:
						if _, isMap := x.X.Type().Underlying().(*types.Map); isMap {
							key = x.Index
						}
					}
					if key == nil {
						continue
					}
					full, comp := false, ""
					sliceBack(key, func(x ssa.Value) bool {
						if cc, ok := x.(*ssa.Call); ok && cc.Call.IsInvoke() && namedName(cc.Call.Value.Type()) == "FullName" && strings.HasSuffix(namedPath(cc.Call.Value.Type()), "bufparse.FullName") {
							switch cc.Call.Method.Name() {
							case "String":
								full = true
							case "Name", "Owner", "Registry":
								comp = cc.Call.Method.Name()
							}
						}
						return true
					})
					if !full && comp == "" {
						continue
					}
					n++
					c.Ob(rule, fmt.Sprintf("%s/key#%d", ssaFuncName(f), n), ins.Pos(), full || comp == "", true, "the map key is built from the module's full name: %v (component used alone: %q)", full, comp)
				}
			}
		}
	}
	if n == 0 {
		c.Fail(rule, "anchor", token.NoPos, "no map keyed by a module full name found in bufimage/bufmodule")
	}
}

// c01WarningsAllFiles (WARNINGS-ALL-FILES): the unspecified-syntax marker and the unused-import markers of a file are
// taken from compiler *warnings*. The parser warns about a missing syntax line for every file it parses - imports
// included - so the loop that turns warnings into markers has to look at every warning: the recording calls are
// top-level statements of the loop over the warnings and nothing before them can `continue` past a warning. A filter
// ("only files we asked to compile") loses the marker on every file that is in the image as an import.
func c01WarningsAllFiles(c *Ctx) {
	const rule = "WARNINGS-ALL-FILES"
	c.Rule(rule, "every compiler warning is offered to the syntax-unspecified and unused-import recorders", 2)
	p := c.P
	pk := p.Pkg("private/bufpkg/bufimage")
	if pk == nil {
		c.Fail(rule, "anchor", token.NoPos, "bufimage not found")
		return
	}
	info := pk.TypesInfo
	recorders := map[string]bool{"maybeAddSyntaxUnspecified": true, "maybeAddUnusedImport": true}
	found := 0
	for _, fr := range p.FuncsOf(pk) {
		if fr.Decl.Body == nil {
			continue
		}
		ast.Inspect(fr.Decl.Body, func(n ast.Node) bool {
			rs, ok := n.(*ast.RangeStmt)
			if !ok {
				return true
			}
			for i, st := range rs.Body.List {
				es, ok := st.(*ast.ExprStmt)
				if !ok {
					continue
				}
				call, ok := es.X.(*ast.CallExpr)
				if !ok {
					continue
				}
				fn := Callee(info, call)
				if fn == nil || !recorders[fn.Name()] {
					continue
				}
				found++
				// nothing before it in the loop body can skip it
				skips := 0
				for _, prev := range rs.Body.List[:i] {
					inspectNoFuncLit(prev, func(m ast.Node) bool {
						if b, ok := m.(*ast.BranchStmt); ok && (b.Tok == token.CONTINUE || b.Tok == token.BREAK || b.Tok == token.GOTO) {
							skips++
						}
						if _, ok := m.(*ast.ReturnStmt); ok {
							skips++
						}
						return true
					})
				}
				c.Ob(rule, fr.Decl.Name.Name+"/"+fn.Name(), call.Pos(), skips == 0, true, "%s is called for every warning (statements before it that can leave the iteration: %d)", fn.Name(), skips)
			}
			return true
		})
	}
	if found < 2 {
		c.Fail(rule, "anchor", token.NoPos, "the warning loop calling maybeAddSyntaxUnspecified / maybeAddUnusedImport was not found (%d recorder calls at loop top level)", found)
	}
}

// c02NamePromisesSort (NAME-PROMISES-SORT): callers rely on a function called …Sorted… for a deterministic order and do
// not sort again (buf breaking pairs the i-th module of one workspace with the i-th of the other). Every return of such
// a function that hands back a slice must lie behind a sorting call - sort.*, slices.Sort*, or a module function that
// sorts - or return the result of one: a fast path that returns its input "because there is nothing to select
// between" returns it in the caller's (directory, map or registry) order.
func c02NamePromisesSort(c *Ctx) {
	const rule = "NAME-PROMISES-SORT"
	c.Rule(rule, "a function named …Sorted… sorts before every return of a slice", 4)
	p := c.P
	for _, pk := range p.ModulePkgs() {
		if !c02InScope(relPkg(pk.PkgPath)) {
			continue
		}
		info := pk.TypesInfo
		for _, fr := range p.FuncsOf(pk) {
			if fr.Decl.Body == nil || !strings.Contains(strings.ToLower(fr.Decl.Name.Name), "sorted") || fr.Decl.Type.Results == nil {
				continue
			}
			if strings.HasSuffix(p.Fset.Position(fr.Decl.Pos()).Filename, "_test.go") {
				continue
			}
			if _, isSlice := info.TypeOf(fr.Decl.Type.Results.List[0].Type).Underlying().(*types.Slice); !isSlice {
				continue
			}
			g := p.CFGOf(fr.Decl.Body, info)
			var sorts []ast.Node
			inspectNoFuncLit(fr.Decl.Body, func(n ast.Node) bool {
				if call, ok := n.(*ast.CallExpr); ok {
					if fn := Callee(info, call); fn != nil && fn != fr.Obj && callSorts(p, fn, 2) {
						sorts = append(sorts, call)
					}
				}
				return true
			})
			bad := 0
			nret := 0
			for _, r := range g.Returns() {
				if len(r.Results) == 0 || isNilIdent(info, r.Results[0]) {
					continue
				}
				nret++
				ok := false
				if call, isCall := ast.Unparen(r.Results[0]).(*ast.CallExpr); isCall {
					if fn := Callee(info, call); fn != nil && callSorts(p, fn, 2) {
						ok = true
					}
				}
				for _, s := range sorts {
					if g.Dominates(s, r) || containsNode(r, s) {
						ok = true
					}
				}
				if !ok {
					bad++
				}
			}
			if nret == 0 {
				continue
			}
			c.Ob(rule, relPkg(pk.PkgPath)+"."+declName(fr.Decl), fr.Decl.Pos(), bad == 0, true, "%d slice-returning exits, %d of them not behind a sorting call", nret, bad)
		}
	}
}

// c02WalkOrderSorted (WALK-ORDER-SORTED): the order in which a bucket's Walk reports objects is a property of the
// backend (directory order on disk, sorted in memory, member order in a union). A helper that collects the walked
// objects into a slice and returns it unsorted is a *walk-order producer*; whoever iterates over such a slice must
// have sorted it first, or the output (the order of the files in `buf format -d`'s diff) depends on where the files
// are stored. Producers are found by what they do (append in a Walk callback, no sorting call, slice returned); for
// every call of a producer the result may be indexed or ranged over only behind a sorting call that takes it.
func c02WalkOrderSorted(c *Ctx) {
	const rule = "WALK-ORDER-SORTED"
	c.Rule(rule, "a slice collected in bucket walk order is sorted before it is iterated", 2)
	p := c.P
	pk := p.Pkg("private/pkg/storage")
	if pk == nil {
		c.Fail(rule, "anchor", token.NoPos, "storage not found")
		return
	}
	producers := map[*ssa.Function]bool{}
	for _, sf := range p.SSAFuncsOf([]*packages.Package{pk}) {
		if sf.Signature.Results().Len() == 0 {
			continue
		}
		if _, isSlice := sf.Signature.Results().At(0).Type().Underlying().(*types.Slice); !isSlice {
			continue
		}
		walks, sorts := false, false
		for _, call := range callsDeep(sf) {
			if call.Call.IsInvoke() && call.Call.Method.Name() == "Walk" {
				walks = true
			}
			if fn := staticCalleeObj(call.Call); fn != nil && callSorts(p, fn, 2) {
				sorts = true
			}
		}
		if walks && !sorts {
			producers[sf] = true
		}
	}
	c.Ob(rule, "producers", token.NoPos, true, false, "%d walk-order producers in package storage", len(producers))
	n := 0
	for _, sf := range p.SSAFuncsOf(p.ModulePkgs()) {
		for _, f := range allSSAFuncs(sf) {
			for _, call := range callsIn(f) {
				callee := call.Call.StaticCallee()
				if callee == nil || !producers[callee] || producers[f] {
					continue
				}
				cv, ok := call.Value.(*ssa.Call)
				if !ok {
					continue
				}
				var res ssa.Value = cv
				for _, ref := range *cv.Referrers() {
					if ex, ok := ref.(*ssa.Extract); ok && ex.Index == 0 {
						res = ex
					}
				}
				n++
				// sorting calls that take the result
				var sortCalls []ssa.Instruction
				for _, c2 := range callsIn(f) {
					if fn := staticCalleeObj(c2.Call); fn != nil && callSorts(p, fn, 2) {
						for _, a := range c2.Call.Args {
							if dependsOnValue(a, res) {
								sortCalls = append(sortCalls, c2.Instr)
							}
						}
					}
				}
				// iterations: element access of the result
				unsorted := 0
				iter := 0
				for _, b := range f.Blocks {
					for _, ins := range b.Instrs {
						ia, ok := ins.(*ssa.IndexAddr)
						if !ok || stripConv(ia.X) != res {
							continue
						}
						iter++
						dom := false
						for _, s := range sortCalls {
							if instrDominates(s, ia) {
								dom = true
							}
						}
						if !dom {
							unsorted++
						}
					}
				}
				c.Ob(rule, fmt.Sprintf("%s/%s#%d", ssaFuncName(f), callee.Name(), n), call.Pos(), unsorted == 0, true, "the result of %s is indexed at %d place(s), %d of them not behind a sort of it", callee.Name(), iter, unsorted)
			}
		}
	}
}

// c03IndexAccumulates (INDEX-ACCUMULATES; C03/C04): the per-package indexes (package -> nested name -> element) are
// filled file by file, and a package is usually spread over several files. Installing a *fresh* inner map for a
// package is right only when the package has none yet: the store of a newly made map into the outer map must lie on
// the "absent" edge of a comma-ok lookup of the same key in the same map. An unconditional (or differently
// conditioned) install wipes what earlier files of the package contributed, and every element they declared is then
// reported as deleted although nothing changed - a compatible change (adding an enum-only file) gets reported.
func c03IndexAccumulates(c *Ctx, rule string) {
	c.Rule(rule, "a fresh inner map is installed for a package only when the package has none yet", 3)
	p := c.P
	pk := p.Pkg("private/bufpkg/bufprotosource")
	if pk == nil {
		c.Fail(rule, "anchor", token.NoPos, "bufprotosource not found")
		return
	}
	same := func(a, b ssa.Value) bool {
		a, b = stripConv(a), stripConv(b)
		if a == b {
			return true
		}
		ca, ok1 := a.(*ssa.Call)
		cb, ok2 := b.(*ssa.Call)
		if ok1 && ok2 && ca.Call.IsInvoke() && cb.Call.IsInvoke() && ca.Call.Method == cb.Call.Method && ca.Call.Value == cb.Call.Value && len(ca.Call.Args) == 0 {
			return true
		}
		return false
	}
	n := 0
	for _, sf := range p.SSAFuncsOf([]*packages.Package{pk}) {
		for _, f := range allSSAFuncs(sf) {
			for _, b := range f.Blocks {
				for _, ins := range b.Instrs {
					mu, ok := ins.(*ssa.MapUpdate)
					if !ok {
						continue
					}
					if _, fresh := stripConv(mu.Value).(*ssa.MakeMap); !fresh {
						continue
					}
					if mt, ok := mu.Map.Type().Underlying().(*types.Map); !ok || !isTwoLevelStringMap(mt) {
						continue
					}
					n++
					guarded := false
					for _, ge := range guardingEdges(b) {
						cv, pos := condPolarity(ge.If.Cond)
						ex, ok := cv.(*ssa.Extract)
						if !ok || ex.Index != 1 || ge.Branch == pos {
							continue // need the edge on which ok is false
						}
						lk, ok := ex.Tuple.(*ssa.Lookup)
						if !ok || !lk.CommaOk {
							continue
						}
						if sameMapValue(lk.X, mu.Map) && same(lk.Index, mu.Key) {
							guarded = true
						}
					}
					c.Ob(rule, fmt.Sprintf("%s/install#%d", ssaFuncName(f), n), mu.Pos(), guarded, true, "the fresh inner map is stored on the absent edge of a lookup of the same key: %v", guarded)
				}
			}
		}
	}
	if n == 0 {
		c.Fail(rule, "anchor", token.NoPos, "no install of a fresh inner map into a two-level index found")
	}
}

// sameMapValue: the same map value, directly or as two loads of the same cell (a map captured by a closure).
func sameMapValue(a, b ssa.Value) bool {
	if a == b {
		return true
	}
	ua, ok1 := a.(*ssa.UnOp)
	ub, ok2 := b.(*ssa.UnOp)
	if ok1 && ok2 && ua.Op == token.MUL && ub.Op == token.MUL && ua.X == ub.X {
		return true
	}
	// the map is a member read twice (`v.m[k]` … `v.m[k] = x`): no common subexpressions in SSA, compare by structure
	return sameSSAExpr(a, b, 3)
}

// c04SiblingSkipGuards (SIBLING-SKIP-GUARDS): the FILE/PACKAGE, WIRE_JSON and WIRE variants of one check differ in
// *what* they compare, not in *which fields they look at*: FILE => PACKAGE => WIRE_JSON => WIRE holds only if a field
// skipped by a stricter category's handler is skipped by the laxer ones too, and conversely. The guards that make a
// field handler return without comparing (tests of IsMapEntry() on the previous and the current containing message)
// must be the same expression in all handlers that have one: `prev && cur` in one and `prev || cur` in another makes
// WIRE report where WIRE_JSON is silent.
func c04SiblingSkipGuards(c *Ctx, rule string) {
	c.Rule(rule, "the map-entry skip guard is the same expression in every sibling handler", 2)
	p := c.P
	pk := p.Pkg(pkgCheckHandle)
	if pk == nil {
		c.Fail(rule, "anchor", token.NoPos, "handler package not found")
		return
	}
	type site struct {
		fn   string
		expr string
		pos  token.Pos
	}
	var sites []site
	for _, fr := range p.FuncsOf(pk) {
		if fr.Decl.Body == nil {
			continue
		}
		ast.Inspect(fr.Decl.Body, func(n ast.Node) bool {
			ifs, ok := n.(*ast.IfStmt)
			if !ok {
				return true
			}
			s := exprString(ifs.Cond)
			if strings.Count(s, "IsMapEntry()") < 2 {
				return true
			}
			// a skip guard: the body returns nil
			skips := false
			for _, st := range ifs.Body.List {
				if r, ok := st.(*ast.ReturnStmt); ok && classifyReturn(pk.TypesInfo, r) == retNil {
					skips = true
				}
			}
			if skips {
				sites = append(sites, site{declName(fr.Decl), normaliseGuard(s), ifs.Pos()})
			}
			return true
		})
	}
	// (siblings merged into one helper share their guard by construction: two sites are enough to compare)
	if len(sites) < 2 {
		c.Fail(rule, "anchor", token.NoPos, "only %d map-entry skip guards found in the handlers", len(sites))
		return
	}
	count := map[string]int{}
	for _, s := range sites {
		count[s.expr]++
	}
	major, best := "", 0
	for e, k := range count {
		if k > best {
			major, best = e, k
		}
	}
	for _, s := range sites {
		c.Ob(rule, s.fn, s.pos, s.expr == major, true, "skip guard `%s` (the %d sibling handlers agree on `%s`)", s.expr, best, major)
	}
}

// normaliseGuard renames the receiver variables so that guards over differently named locals compare equal.
func normaliseGuard(s string) string {
	s = strings.ReplaceAll(s, "previousDescriptor", "P")
	s = strings.ReplaceAll(s, "descriptor", "C")
	return strings.Join(strings.Fields(s), " ")
}

// c10ValueStoredLast (VALUE-STORED-LAST): a map whose values are structs (not pointers) keeps a *copy* of what is
// stored. A local struct that is put into such a map and modified afterwards (a field assignment, or a pointer-receiver
// method such as addDeps) leaves the map holding the unfinished copy; a later "already in the map, skip" test then
// presents that stale copy as the final answer (the dep-graph JSON lost the dependencies of every module first reached
// as somebody's dependency). Decided on SSA for the dependency-graph command and the module packages: after a store of
// a local struct value into a map, no instruction reachable from the store writes to that local or passes its address
// to a call, unless the local is first overwritten as a whole (next loop iteration).
func c10ValueStoredLast(c *Ctx) {
	const rule = "VALUE-STORED-LAST"
	c.Rule(rule, "a struct value is stored into a map only after it is complete", 1)
	p := c.P
	var pkgs []*packages.Package
	for _, pk := range p.ModulePkgs() {
		rel := relPkg(pk.PkgPath)
		// the packages that compute, represent or print module dependencies and workspaces
		if rel == "private/buf/cmd/buf/command/dep/depgraph" || strings.HasPrefix(rel, "private/bufpkg/bufmodule") || rel == "private/buf/bufworkspace" || rel == "private/bufpkg/bufimage" || rel == "private/buf/bufctl" {
			pkgs = append(pkgs, pk)
		}
	}
	n := 0
	for _, sf := range p.SSAFuncsOf(pkgs) {
		for _, f := range allSSAFuncs(sf) {
			for _, b := range f.Blocks {
				for idx, ins := range b.Instrs {
					mu, ok := ins.(*ssa.MapUpdate)
					if !ok {
						continue
					}
					if _, isStruct := mu.Value.Type().Underlying().(*types.Struct); !isStruct {
						continue
					}
					u, ok := mu.Value.(*ssa.UnOp)
					if !ok || u.Op != token.MUL {
						continue
					}
					al, ok := u.X.(*ssa.Alloc)
					if !ok || al.Comment == "complit" {
						continue // the temporary of a composite literal written in place: nothing can name it afterwards
					}
					n++
					// later mutations of the local
					mutates := func(x ssa.Instruction) bool {
						switch y := x.(type) {
						case *ssa.Store:
							if fa, ok := y.Addr.(*ssa.FieldAddr); ok && fa.X == ssa.Value(al) {
								return true
							}
						case ssa.CallInstruction:
							for _, a := range y.Common().Args {
								if a == ssa.Value(al) {
									return true
								}
							}
						}
						return false
					}
					redefines := func(x ssa.Instruction) bool {
						st, ok := x.(*ssa.Store)
						return ok && st.Addr == ssa.Value(al)
					}
					bad := ""
					// rest of this block, then forward over the CFG; a whole-value store to the local ends a path
					seen := map[*ssa.BasicBlock]bool{}
					var walk func(blk *ssa.BasicBlock, from int)
					walk = func(blk *ssa.BasicBlock, from int) {
						for _, x := range blk.Instrs[from:] {
							if redefines(x) {
								return
							}
							if mutates(x) && bad == "" {
								bad = p.Pos(x.Pos())
							}
						}
						for _, s := range blk.Succs {
							if !seen[s] {
								seen[s] = true
								walk(s, 0)
							}
						}
					}
					walk(b, idx+1)
					c.Ob(rule, fmt.Sprintf("%s/store#%d", ssaFuncName(f), n), mu.Pos(), bad == "", true, "local struct %s is not modified after its value was stored in the map: %v %s", al.Comment, bad == "", bad)
				}
			}
		}
	}
	if n == 0 {
		c.Fail(rule, "anchor", token.NoPos, "no store of a local struct value into a map found")
	}
}

// c10ImportsAllResolved (IMPORTS-ALL-RESOLVED): the dependency walk learns a module's dependencies - and notices
// dependency cycles - by asking, for every import of every file of the module, which module provides it. That
// question must be asked for every import on every visit: in the loop over a file's imports, the statement that
// performs the lookup (directly, or through a helper of the package) is a top-level statement of the loop body and
// nothing before it can `continue` past an import. A memo of "paths already resolved" shared across the recursion
// skips the very import that closes a cycle a -> b -> a when the root also imports that file itself.
func c10ImportsAllResolved(c *Ctx) {
	const rule = "IMPORTS-ALL-RESOLVED"
	c.Rule(rule, "every import of every file is resolved to its module on every visit", 1)
	p := c.P
	pk := p.Pkg("private/bufpkg/bufmodule")
	if pk == nil {
		c.Fail(rule, "anchor", token.NoPos, "bufmodule not found")
		return
	}
	info := pk.TypesInfo
	fr := p.Func("private/bufpkg/bufmodule", "getModuleDepsRec")
	if fr == nil {
		c.Fail(rule, "anchor", token.NoPos, "getModuleDepsRec not found")
		return
	}
	var doesLookup func(n ast.Node, depth int) bool
	doesLookup = func(n ast.Node, depth int) bool {
		found := false
		ast.Inspect(n, func(m ast.Node) bool {
			call, ok := m.(*ast.CallExpr)
			if !ok || found {
				return !found
			}
			fn := Callee(info, call)
			if fn == nil {
				return true
			}
			if fn.Name() == "getModuleForFilePath" {
				found = true
				return false
			}
			if depth > 0 && fn.Pkg() == pk.Types {
				if d := p.DeclOf(fn); d != nil && d.Decl.Body != nil && d.Obj != fr.Obj && doesLookup(d.Decl.Body, depth-1) {
					found = true
				}
			}
			return !found
		})
		return found
	}
	n := 0
	// the loop may live in getModuleDepsRec or in a helper the walk callback was extracted into
	deepInspect(p, fr, 2, func(m ast.Node, _ *types.Info) bool {
		rs, ok := m.(*ast.RangeStmt)
		if !ok {
			return true
		}
		// the innermost loop whose body (top level) performs the lookup
		for i, st := range rs.Body.List {
			if _, isLoop := st.(*ast.RangeStmt); isLoop {
				continue
			}
			if _, isFor := st.(*ast.ForStmt); isFor {
				continue
			}
			if !doesLookup(st, 2) {
				continue
			}
			// a statement holding nested loops that do the lookup is not the lookup statement
			nested := false
			ast.Inspect(st, func(x ast.Node) bool {
				if r2, ok := x.(*ast.RangeStmt); ok && doesLookup(r2.Body, 2) {
					nested = true
				}
				return !nested
			})
			if nested {
				continue
			}
			n++
			skips := 0
			for _, prev := range rs.Body.List[:i] {
				inspectNoFuncLit(prev, func(x ast.Node) bool {
					if b, ok := x.(*ast.BranchStmt); ok && (b.Tok == token.CONTINUE || b.Tok == token.BREAK || b.Tok == token.GOTO) {
						skips++
					}
					return true
				})
			}
			c.Ob(rule, fmt.Sprintf("getModuleDepsRec/range %s", exprString(rs.X)), st.Pos(), skips == 0, true, "the module lookup is a top-level statement of the loop over %s; statements before it that can skip an import: %d", exprString(rs.X), skips)
			break
		}
		return true
	})
	if n == 0 {
		c.Fail(rule, "anchor", fr.Decl.Pos(), "no loop performing the module lookup at its top level found in getModuleDepsRec")
	}
}

// c11ResolverKept (RESOLVER-KEPT): json/yaml (and the re-parse of unrecognised fields) render custom options through
// the image's resolver. An image derived from another by *dropping files* (ImageWithoutImports for --exclude-imports)
// still carries options whose extensions are declared in the dropped files, so it must keep the resolver of the image
// it was derived from; a resolver rebuilt from the remaining files makes json/yaml silently lose those options while
// binpb/txtpb keep them. Decided on SSA: in bufimage, a function that receives an Image and calls an image constructor
// with a non-nil resolver passes a value obtained from that parameter's Resolver().
func c11ResolverKept(c *Ctx, pk *packages.Package) {
	const rule = "RESOLVER-KEPT"
	c.Rule(rule, "an image derived by dropping files keeps the resolver of its source image", 1)
	p := c.P
	n := 0
	for _, sf := range p.SSAFuncsOf([]*packages.Package{pk}) {
		var img *ssa.Parameter
		for _, prm := range sf.Params {
			if namedName(prm.Type()) == "Image" && strings.HasSuffix(namedPath(prm.Type()), "bufimage.Image") {
				img = prm
			}
		}
		if img == nil {
			continue
		}
		for _, call := range callsIn(sf) {
			callee := call.Call.StaticCallee()
			if callee == nil || callee.Pkg == nil || callee.Pkg.Pkg != pk.Types {
				continue
			}
			sig := callee.Signature
			ri := -1
			for i := 0; i < sig.Params().Len(); i++ {
				if namedName(sig.Params().At(i).Type()) == "Resolver" {
					ri = i
				}
			}
			if ri < 0 || sig.Results().Len() == 0 || !strings.Contains(strings.ToLower(namedName(sig.Results().At(0).Type())), "image") {
				continue
			}
			arg := call.Call.Args[ri]
			if isNilConst(stripConv(arg)) {
				continue
			}
			n++
			kept := dependsOnCall(arg, func(cc *ssa.CallCommon) bool {
				return cc.IsInvoke() && cc.Method.Name() == "Resolver" && cc.Value == ssa.Value(img)
			})
			rebuilt := dependsOnCall(arg, func(cc *ssa.CallCommon) bool {
				fn := staticCalleeObj(cc)
				return fn != nil && !cc.IsInvoke() && strings.Contains(fn.Name(), "Resolver") && fn.Name() != "Resolver"
			})
			c.Ob(rule, sf.Name()+"/"+callee.Name(), call.Pos(), kept && !rebuilt, true, "the derived image is constructed with the source image's Resolver(): %v (rebuilt from a file subset: %v)", kept, rebuilt)
		}
	}
	if n == 0 {
		c.Fail(rule, "anchor", token.NoPos, "no image constructor call with a resolver in a function taking an Image")
	}
}

// c12ReadAfterInPlace (READ-AFTER-INPLACE): in in-place mode the generic list rewriter compacts the very slice it is
// given and nils its tail. Whatever else is derived from the *original* list (the old->new oneof index table that the
// fields are renumbered with) must be computed before the list is handed to the rewriter; reading `d.List` again
// after `remapSlice(…, d.List, …)` sees the already compacted list, finds that nothing moved, and the fields keep
// stale indexes - in in-place mode only, which is why the copying tests do not notice. Decided on the CFG: no read of
// the same field of the same variable is reachable from the call that received it.
func c12ReadAfterInPlace(c *Ctx, pk *packages.Package) {
	const rule = "READ-AFTER-INPLACE"
	c.Rule(rule, "a descriptor list is not read again after it was handed to the in-place rewriter", 8)
	p := c.P
	info := pk.TypesInfo
	for _, fr := range p.FuncsOf(pk) {
		if fr.Decl.Body == nil || !strings.HasSuffix(p.FileRel(fr.Decl.Pos()), "image_filter.go") {
			continue
		}
		g := p.CFGOf(fr.Decl.Body, info)
		k := 0
		ast.Inspect(fr.Decl.Body, func(n ast.Node) bool {
			call, ok := n.(*ast.CallExpr)
			if !ok {
				return true
			}
			fn := Callee(info, call)
			if fn == nil || fn.Pkg() != pk.Types || fn.Name() != "remapSlice" || len(call.Args) < 3 {
				return true
			}
			// the list argument: d.F or d.GetF()
			list := ast.Unparen(call.Args[2])
			if lc, ok := list.(*ast.CallExpr); ok && len(lc.Args) == 0 {
				list = ast.Unparen(lc.Fun)
			}
			sel, ok := list.(*ast.SelectorExpr)
			if !ok {
				return true
			}
			owner := identObj(info, sel.X)
			field := strings.TrimPrefix(sel.Sel.Name, "Get")
			if owner == nil {
				return true
			}
			k++
			var later []string
			ast.Inspect(fr.Decl.Body, func(m ast.Node) bool {
				s2, ok := m.(*ast.SelectorExpr)
				if !ok || s2 == sel || identObj(info, s2.X) != owner || strings.TrimPrefix(s2.Sel.Name, "Get") != field {
					return true
				}
				if containsNode(call, s2) {
					return true
				}
				// writes (d.F = …) are not reads
				if as, ok := p.Parent(s2).(*ast.AssignStmt); ok {
					for _, l := range as.Lhs {
						if ast.Node(l) == ast.Node(s2) {
							return true
						}
					}
				}
				if g.Reachable(call, s2) {
					later = append(later, p.Pos(s2.Pos()))
				}
				return true
			})
			c.Ob(rule, fmt.Sprintf("%s/%s.%s", declName(fr.Decl), owner.Name(), field), call.Pos(), len(later) == 0, true, "%s.%s is handed to remapSlice and not read afterwards: %v %v", owner.Name(), field, len(later) == 0, later)
			return true
		})
	}
}

// c12AnyURLLastSlash (ANY-URL-LAST-SLASH): the message name of an Any payload is what follows the LAST '/' of the type
// URL (google/protobuf/any.proto: "the last segment of the URL's path must represent the fully qualified name"); the
// prefix may itself contain slashes (example.com/schemas/v1/pkg.Msg). The closure walk that includes the types used
// inside Any-typed option values must cut there: the FullName it looks up is derived from the URL through
// strings.LastIndex*/path.Base, not through a first-separator function (Cut, Index, Split, SplitN, TrimPrefix).
func c12AnyURLLastSlash(c *Ctx, pk *packages.Package) {
	const rule = "ANY-URL-LAST-SLASH"
	c.Rule(rule, "the message name of an Any type URL is taken after the last slash", 1)
	p := c.P
	n := 0
	for _, sf := range p.SSAFuncsOf([]*packages.Package{pk}) {
		for _, f := range allSSAFuncs(sf) {
			for _, b := range f.Blocks {
				for _, ins := range b.Instrs {
					// the conversion string -> protoreflect.FullName of something derived from a "…URL…" value
					ct, ok := ins.(*ssa.ChangeType)
					if !ok || namedName(ct.Type()) != "FullName" {
						continue
					}
					last, first, fromURL := false, "", false
					sliceBack(ct.X, func(x ssa.Value) bool {
						if cc, ok := x.(*ssa.Call); ok {
							if fn := staticCalleeObj(&cc.Call); fn != nil && fn.Pkg() != nil {
								switch fn.Pkg().Path() + "." + fn.Name() {
								case "strings.LastIndex", "strings.LastIndexByte", "strings.LastIndexAny", "path.Base":
									last = true
								case "strings.Cut", "strings.Index", "strings.IndexByte", "strings.Split", "strings.SplitN", "strings.SplitAfterN":
									first = fn.Name()
								}
							}
							if cc.Call.IsInvoke() && cc.Call.Method.Name() == "String" {
								// msg.Get(typeURLFd).String(): the URL read from the Any message
								fromURL = true
							}
						}
						return true
					})
					if !last && first == "" {
						continue
					}
					_ = fromURL
					n++
					c.Ob(rule, fmt.Sprintf("%s#%d", ssaFuncName(f), n), ct.Pos(), last && first == "", true, "the name is cut at the last slash: %v (first-separator function used: %q)", last, first)
				}
			}
		}
	}
	if n == 0 {
		c.Fail(rule, "anchor", token.NoPos, "no FullName derived from a slash-separated URL found in bufimageutil")
	}
}

// c13ConstructorValidates (CONSTRUCTOR-VALIDATES): a bucket built from a caller-supplied map of path -> bytes (the
// module bucket made of file names received from a registry) takes its keys from outside. Every key stored in the
// bucket's own map must be the *result* of the sanitizer on every path - not a φ of the raw name and the sanitised
// one: "already in normal form" does not mean valid ("../x", "/etc/x" and ".." are in normal form).
func c13ConstructorValidates(c *Ctx) {
	const rule = "CONSTRUCTOR-VALIDATES"
	c.Rule(rule, "every key of a bucket built from a path map is a sanitizer result", 1)
	p := c.P
	isSan := func(fn *types.Func) bool {
		return calleeIs(fn, "private/pkg/storage/storageutil", "ValidatePath") || calleeIs(fn, "private/pkg/normalpath", "NormalizeAndValidate")
	}
	var sanitized func(v ssa.Value, seen map[ssa.Value]bool) bool
	sanitized = func(v ssa.Value, seen map[ssa.Value]bool) bool {
		if seen[v] {
			return true
		}
		seen[v] = true
		switch x := stripConv(v).(type) {
		case *ssa.Extract:
			if call, ok := x.Tuple.(*ssa.Call); ok && x.Index == 0 && isSan(staticCalleeObj(&call.Call)) {
				return true
			}
		case *ssa.Phi:
			for _, e := range x.Edges {
				if !sanitized(e, seen) {
					return false
				}
			}
			return true
		}
		return false
	}
	n := 0
	for _, rel := range []string{"private/pkg/storage/storagemem", "private/pkg/storage/storagemem/internal"} {
		pk := p.Pkg(rel)
		if pk == nil {
			continue
		}
		for _, sf := range p.SSAFuncsOf([]*packages.Package{pk}) {
			// constructors taking a map keyed by path
			var src *ssa.Parameter
			for _, prm := range sf.Params {
				if mt, ok := prm.Type().Underlying().(*types.Map); ok {
					if b, ok := mt.Key().Underlying().(*types.Basic); ok && b.Kind() == types.String {
						src = prm
					}
				}
			}
			if src == nil || sf.Signature.Recv() != nil {
				continue
			}
			for _, b := range sf.Blocks {
				for _, ins := range b.Instrs {
					mu, ok := ins.(*ssa.MapUpdate)
					if !ok || !dependsOnValue(mu.Key, src) {
						continue
					}
					n++
					ok2 := sanitized(mu.Key, map[ssa.Value]bool{})
					c.Ob(rule, fmt.Sprintf("%s/key#%d", ssaFuncName(sf), n), mu.Pos(), ok2, true, "the key stored is the sanitizer's result on every path: %v", ok2)
				}
			}
		}
	}
	if n == 0 {
		c.Fail(rule, "anchor", token.NoPos, "no bucket constructor storing caller-supplied path keys found in storagemem")
	}
}

// c14CloseOnce (CLOSE-ONCE): a bucket writer publishes its content when it is closed. Publishing is not idempotent
// over time: between a first and a second Close of the same handle (`defer w.Close()` next to an explicit Close) the
// object may have been deleted or rewritten, and publishing the old snapshot again resurrects it. A Close that marks
// the writer closed must therefore first test that mark and return without publishing when it is already set: the
// store `closed = true` is dominated by a test of the same field whose true edge leaves the function.
func c14CloseOnce(c *Ctx, pkgs []*packages.Package) {
	const rule = "CLOSE-ONCE"
	c.Rule(rule, "a writer's Close publishes at most once", 1)
	p := c.P
	n := 0
	for _, sf := range p.SSAFuncsOf(pkgs) {
		if sf.Name() != "Close" || sf.Signature.Recv() == nil || len(sf.Params) == 0 {
			continue
		}
		recv := sf.Params[0]
		for _, b := range sf.Blocks {
			for _, ins := range b.Instrs {
				st, ok := ins.(*ssa.Store)
				if !ok {
					continue
				}
				fa, ok := st.Addr.(*ssa.FieldAddr)
				if !ok || fa.X != ssa.Value(recv) {
					continue
				}
				k, ok := st.Val.(*ssa.Const)
				if !ok || k.Value == nil || k.Value.ExactString() != "true" {
					continue
				}
				fname := fa.X.Type().Underlying().(*types.Pointer).Elem().Underlying().(*types.Struct).Field(fa.Field).Name()
				if !strings.Contains(strings.ToLower(fname), "closed") {
					continue
				}
				n++
				guarded := false
				for _, ge := range guardingEdges(b) {
					cv, pos := condPolarity(ge.If.Cond)
					u, ok := cv.(*ssa.UnOp)
					if !ok || u.Op != token.MUL {
						continue
					}
					gfa, ok := u.X.(*ssa.FieldAddr)
					if ok && gfa.X == ssa.Value(recv) && gfa.Field == fa.Field && ge.Branch != pos {
						guarded = true // we are on the not-yet-closed edge
					}
				}
				c.Ob(rule, ssaFuncName(sf), st.Pos(), guarded, true, "the writer is marked closed (and published) only on the not-yet-closed edge of a test of %s: %v", fname, guarded)
			}
		}
	}
	if n == 0 {
		c.Fail(rule, "anchor", token.NoPos, "no Close method marking a writer closed found")
	}
}

// ruleErrOverwrittenInLoop (R-ERRLOOP; C15): `for … { err = f() }` followed by `if err != nil` reports only the last
// iteration's error: a failed flush of any earlier output is dropped and the command exits 0 with files missing. On
// SSA the pattern is exact: an error-typed call result whose only use is as the back-edge operand of a φ at the loop
// head, where that φ is not consulted anywhere inside the loop (no test, no errors.Join/append with the previous
// value). Scanned module-wide; zero instances are expected and the self-test keeps a positive example.
func ruleErrOverwrittenInLoop(c *Ctx, rule string, pkgs []*packages.Package) {
	c.Rule(rule, "an error assigned in a loop is tested or accumulated before the next iteration overwrites it", 0)
	p := c.P
	n, fns := 0, 0
	for _, sf := range p.SSAFuncsOf(pkgs) {
		for _, f := range allSSAFuncs(sf) {
			fns++
			for _, s := range errOverwrittenInLoop(f) {
				n++
				c.Ob(rule, fmt.Sprintf("%s/overwrite#%d", ssaFuncName(f), n), s.Pos(), false, true, "the error returned here is only carried to the next iteration, which overwrites it: failures of all but the last iteration are lost")
			}
		}
	}
	c.Ob(rule, "functions-scanned", token.NoPos, n == 0, fns > 0, "%d functions scanned, %d loop-overwritten errors", fns, n)
}

func errOverwrittenInLoop(f *ssa.Function) []ssa.Instruction {
	var out []ssa.Instruction
	for _, b := range f.Blocks {
		for _, ins := range b.Instrs {
			switch ins.(type) {
			case *ssa.Call, *ssa.Extract:
			default:
				continue
			}
			v, ok := ins.(ssa.Value)
			if !ok || !isErrorType(v.Type()) {
				continue
			}
			if ex, ok := ins.(*ssa.Extract); ok {
				if _, isCall := ex.Tuple.(*ssa.Call); !isCall {
					continue
				}
			}
			refs := *v.Referrers()
			var phis []*ssa.Phi
			other := 0
			for _, r := range refs {
				if _, isDbg := r.(*ssa.DebugRef); isDbg {
					continue
				}
				if ph, ok := r.(*ssa.Phi); ok {
					phis = append(phis, ph)
				} else {
					other++
				}
			}
			if other != 0 || len(phis) != 1 {
				continue
			}
			ph := phis[0]
			// the φ sits at the head of a loop that contains the assignment: the head reaches b and b reaches the head
			if !(blockReaches(ph.Block(), b) && blockReaches(b, ph.Block())) {
				continue
			}
			// is the previous value consulted inside the loop?
			usedInLoop := false
			for _, r := range *ph.Referrers() {
				if _, isDbg := r.(*ssa.DebugRef); isDbg {
					continue
				}
				rb := r.Block()
				if rb != nil && blockReaches(rb, ph.Block()) && blockReaches(ph.Block(), rb) {
					// a use on a path that returns to the loop head
					if _, isPhi := r.(*ssa.Phi); isPhi && r.(*ssa.Phi) == ph {
						continue
					}
					usedInLoop = true
				}
			}
			if !usedInLoop {
				out = append(out, ins)
			}
		}
	}
	return out
}

// c16TablesInverse (TABLES-INVERSE): names of enumerated settings are written through one table (value -> string) and
// read through another (string -> value). A round trip keeps a setting only if the two are inverse bijections: every
// (v -> s) of the writer table has (s -> v) in the reader table and conversely. Decided for every pair of package-level
// map literals of bufconfig with constant keys and values and mirrored types (map[T]string next to map[string]T).
func c16TablesInverse(c *Ctx) {
	const rule = "TABLES-INVERSE"
	c.Rule(rule, "each value->name table is the inverse of the name->value table of the same type", 2)
	p := c.P
	pk := p.Pkg("private/bufpkg/bufconfig")
	if pk == nil {
		c.Fail(rule, "anchor", token.NoPos, "bufconfig not found")
		return
	}
	info := pk.TypesInfo
	type table struct {
		name string
		pos  token.Pos
		kt   types.Type
		vt   types.Type
		m    map[string]string // key (as exact constant text) -> value
		ok   bool
	}
	var tables []*table
	var computed [][2]string // {source table, computed table}
	computedPos := map[string]token.Pos{}
	for _, f := range pk.Syntax {
		if strings.HasSuffix(p.Fset.Position(f.Pos()).Filename, "_test.go") {
			continue
		}
		for _, d := range f.Decls {
			gd, ok := d.(*ast.GenDecl)
			if !ok || gd.Tok != token.VAR {
				continue
			}
			for _, sp := range gd.Specs {
				vs := sp.(*ast.ValueSpec)
				for i, nm := range vs.Names {
					if i >= len(vs.Values) {
						continue
					}
					lit, ok := vs.Values[i].(*ast.CompositeLit)
					if !ok {
						// a table computed from its mirror (`stringToX = invert(xToString)`): inverse by construction when
						// the function ranges over its argument and stores out[value] = key
						if call, isCall := vs.Values[i].(*ast.CallExpr); isCall && len(call.Args) == 1 {
							if src, isID := ast.Unparen(call.Args[0]).(*ast.Ident); isID {
								if fn := Callee(info, call); fn != nil {
									if hd := p.DeclOf(fn.Origin()); hd != nil && hd.Decl.Body != nil && invertsItsArgument(hd) {
										computed = append(computed, [2]string{src.Name, nm.Name})
										computedPos[nm.Name] = nm.Pos()
									}
								}
							}
						}
						continue
					}
					mt, ok := info.TypeOf(lit).Underlying().(*types.Map)
					if !ok {
						continue
					}
					t := &table{name: nm.Name, pos: nm.Pos(), kt: mt.Key(), vt: mt.Elem(), m: map[string]string{}, ok: true}
					for _, el := range lit.Elts {
						kv, isKV := el.(*ast.KeyValueExpr)
						if !isKV {
							t.ok = false
							break
						}
						ktv, ok1 := info.Types[kv.Key]
						vtv, ok2 := info.Types[kv.Value]
						if !ok1 || !ok2 || ktv.Value == nil || vtv.Value == nil {
							t.ok = false
							break
						}
						t.m[ktv.Value.ExactString()] = vtv.Value.ExactString()
					}
					if t.ok && len(t.m) > 0 {
						tables = append(tables, t)
					}
				}
			}
		}
	}
	isStr := func(t types.Type) bool {
		b, ok := t.Underlying().(*types.Basic)
		return ok && b.Kind() == types.String && types.Identical(t, types.Typ[types.String])
	}
	n := 0
	for _, a := range tables {
		if !isStr(a.vt) || isStr(a.kt) {
			continue
		}
		for _, b := range tables {
			if !isStr(b.kt) || !types.Identical(b.vt, a.kt) {
				continue
			}
			n++
			var bad []string
			for k, s := range a.m {
				if b.m[s] != k {
					bad = append(bad, fmt.Sprintf("%s: %s -> %s but %s: %s -> %s", a.name, k, s, b.name, s, b.m[s]))
				}
			}
			for s, k := range b.m {
				if a.m[k] != s {
					bad = append(bad, fmt.Sprintf("%s: %s -> %s but %s: %s -> %s", b.name, s, k, a.name, k, a.m[k]))
				}
			}
			sortStrings(bad)
			c.Ob(rule, a.name+"<->"+b.name, a.pos, len(bad) == 0, true, "%d and %d entries, mismatches: %v", len(a.m), len(b.m), bad)
		}
	}
	for _, pr := range computed {
		for _, a := range tables {
			if a.name == pr[0] {
				n++
				// injective source: no two keys share a value, or the inversion loses an entry
				seen := map[string]bool{}
				dup := ""
				for _, v := range a.m {
					if seen[v] {
						dup = v
					}
					seen[v] = true
				}
				c.Ob(rule, pr[0]+"<->"+pr[1], computedPos[pr[1]], dup == "", true, "%s is computed by inverting %s (%d entries; value shared by two keys: %q)", pr[1], pr[0], len(a.m), dup)
			}
		}
	}
	if n == 0 {
		c.Fail(rule, "anchor", token.NoPos, "no mirrored pair of constant map tables found in bufconfig")
	}
}

// invertsItsArgument reports whether the function ranges over its (single) map parameter and stores, into the map it
// returns, every value as key and key as value.
func invertsItsArgument(fr *FuncRef) bool {
	if fr.Decl.Type.Params == nil || len(fr.Decl.Type.Params.List) != 1 || len(fr.Decl.Type.Params.List[0].Names) != 1 {
		return false
	}
	info := fr.Info()
	prm := info.Defs[fr.Decl.Type.Params.List[0].Names[0]]
	ok := false
	ast.Inspect(fr.Decl.Body, func(n ast.Node) bool {
		rs, isRange := n.(*ast.RangeStmt)
		if !isRange || identObj(info, rs.X) != prm || rs.Key == nil || rs.Value == nil {
			return true
		}
		k, v := identObj(info, rs.Key), identObj(info, rs.Value)
		for _, st := range rs.Body.List {
			if as, isAs := st.(*ast.AssignStmt); isAs && len(as.Lhs) == 1 && len(as.Rhs) == 1 && len(rs.Body.List) == 1 {
				if ix, isIx := as.Lhs[0].(*ast.IndexExpr); isIx && identObj(info, ix.Index) == v && identObj(info, as.Rhs[0]) == k {
					ok = true
				}
			}
		}
		return true
	})
	return ok
}

func sortStrings(s []string) {
	for i := 1; i < len(s); i++ {
		for j := i; j > 0 && s[j] < s[j-1]; j-- {
			s[j], s[j-1] = s[j-1], s[j]
		}
	}
}

// ruleArgsNamesake (ARGS-NAMESAKE): constructors of the config types take long runs of same-typed parameters
// (…, rpcAllowGoogleProtobufEmptyRequests bool, rpcAllowGoogleProtobufEmptyResponses bool, …); the compiler cannot see
// two of them swapped. When an argument is the result of a zero-argument accessor whose name equals (ignoring case) the
// name of one of the callee's parameters, it must be passed in that parameter's position.
func ruleArgsNamesake(c *Ctx, rule string, pkgs []*packages.Package, min int) {
	c.Rule(rule, "an accessor result passed to a constructor lands in the parameter that bears its name", min)
	p := c.P
	for _, pk := range pkgs {
		info := pk.TypesInfo
		for _, f := range pk.Syntax {
			if strings.HasSuffix(p.Fset.Position(f.Pos()).Filename, "_test.go") {
				continue
			}
			ast.Inspect(f, func(n ast.Node) bool {
				call, ok := n.(*ast.CallExpr)
				if !ok || len(call.Args) < 2 {
					return true
				}
				fn := Callee(info, call)
				if fn == nil || fn.Pkg() == nil || !strings.HasPrefix(fn.Pkg().Path(), modPath) {
					return true
				}
				sig := fn.Type().(*types.Signature)
				pos := map[string]int{}
				for i := 0; i < sig.Params().Len(); i++ {
					if nm := sig.Params().At(i).Name(); nm != "" && nm != "_" {
						pos[strings.ToLower(nm)] = i
					}
				}
				var bad []string
				checked := 0
				for i, a := range call.Args {
					ac, ok := ast.Unparen(a).(*ast.CallExpr)
					if !ok || len(ac.Args) != 0 {
						continue
					}
					sel, ok := ast.Unparen(ac.Fun).(*ast.SelectorExpr)
					if !ok {
						continue
					}
					want, has := pos[strings.ToLower(sel.Sel.Name)]
					if !has {
						continue
					}
					checked++
					// a misplacement only counts when the parameter of that name receives another accessor of the SAME
					// receiver (a swap within one config object); previous.Location() passed as againstLocation next to
					// current.Location() is two objects, not a slip
					sameRecv := false
					if want < len(call.Args) {
						if oc, ok := ast.Unparen(call.Args[want]).(*ast.CallExpr); ok && len(oc.Args) == 0 {
							if osel, ok := ast.Unparen(oc.Fun).(*ast.SelectorExpr); ok && identObj(info, osel.X) != nil && identObj(info, osel.X) == identObj(info, sel.X) {
								sameRecv = true
							}
						}
					}
					if want != i && sameRecv && !(sig.Variadic() && i >= sig.Params().Len()-1) {
						bad = append(bad, fmt.Sprintf("%s() passed as parameter %d (%s), the parameter of that name is %d", sel.Sel.Name, i, sig.Params().At(minInt(i, sig.Params().Len()-1)).Name(), want))
					}
				}
				if checked < 2 {
					return true
				}
				name := "?"
				if fd := p.EnclosingFuncDecl(call); fd != nil {
					name = declName(fd)
				}
				c.Ob(rule, fmt.Sprintf("%s.%s->%s", relPkg(pk.PkgPath), name, fn.Name()), call.Pos(), len(bad) == 0, true, "%d accessor arguments have a namesake parameter; misplaced: %v", checked, bad)
				return true
			})
		}
	}
}

func minInt(a, b int) int {
	if a < b {
		return a
	}
	return b
}

// c16HoistCountsAll (HOIST-COUNTS-ALL): when a v2 buf.yaml is written, a lint/breaking section that ALL modules share
// is hoisted to the top level ("one distinct rendering => hoist"). The set of distinct renderings must therefore
// receive the rendering of every module, default (empty) ones included: if empty sections are left out, a module with
// no section of its own is counted as agreeing with the others and, after the hoist, inherits their non-default
// configuration on the next read. In the writer, each store into a map from rendered section text to section is a
// top-level statement of the loop over the modules (no condition around it).
func c16HoistCountsAll(c *Ctx) {
	const rule = "HOIST-COUNTS-ALL"
	c.Rule(rule, "the distinct-section sets used for hoisting receive every module's section", 2)
	p := c.P
	fr := p.Func("private/bufpkg/bufconfig", "writeBufYAMLFile")
	if fr == nil {
		c.Fail(rule, "anchor", token.NoPos, "writeBufYAMLFile not found")
		return
	}
	n := 0
	deepInspect(p, fr, 2, func(m ast.Node, info *types.Info) bool {
		as, ok := m.(*ast.AssignStmt)
		if !ok || len(as.Lhs) != 1 {
			return true
		}
		ix, ok := ast.Unparen(as.Lhs[0]).(*ast.IndexExpr)
		if !ok {
			return true
		}
		mt, ok := info.TypeOf(ix.X).Underlying().(*types.Map)
		if !ok || !strings.HasPrefix(namedName(mt.Elem()), "external") {
			return true
		}
		if b, ok := mt.Key().Underlying().(*types.Basic); !ok || b.Kind() != types.String {
			return true
		}
		n++
		// unconditional: no if / switch / select between the store and the enclosing loop or function body
		direct := true
		for cur := p.Parent(as); cur != nil; cur = p.Parent(cur) {
			switch cur.(type) {
			case *ast.IfStmt, *ast.SwitchStmt, *ast.TypeSwitchStmt, *ast.SelectStmt, *ast.CaseClause:
				direct = false
			case *ast.RangeStmt, *ast.ForStmt, *ast.FuncDecl, *ast.FuncLit:
				cur = nil
			}
			if cur == nil || !direct {
				break
			}
		}
		c.Ob(rule, "writeBufYAMLFile/"+exprString(ix.X), as.Pos(), direct, true, "%s receives the section of every module (store is unconditional in the module loop): %v", exprString(ix.X), direct)
		return true
	})
	if n == 0 {
		c.Fail(rule, "anchor", fr.Decl.Pos(), "no distinct-section map store found in writeBufYAMLFile")
	}
}

// ruleClosureFollowsAll (CLOSURE-FOLLOWS-ALL; C01, C17): the recursive walks that collect a file together with the
// files it imports (image construction order, --path sub-images, per-directory images for plugins) recurse from a
// loop over the file's dependency list. The descriptor keeps listing every dependency, so the walk has to follow
// every one of them - an import the compiler flagged as unused is still an import: skipping it produces an image
// (and a CodeGeneratorRequest) that names a dependency it does not contain. In package bufimage, a loop over
// GetDependency() whose body calls the enclosing function again contains no `continue` / `break`.
func ruleClosureFollowsAll(c *Ctx, rule string) {
	c.Rule(rule, "recursive import walks follow every listed dependency", 2)
	p := c.P
	pk := p.Pkg("private/bufpkg/bufimage")
	if pk == nil {
		c.Fail(rule, "anchor", token.NoPos, "bufimage not found")
		return
	}
	info := pk.TypesInfo
	n := 0
	for _, fr := range p.FuncsOf(pk) {
		if fr.Decl.Body == nil {
			continue
		}
		litOfVar := map[types.Object]*ast.FuncLit{}
		ast.Inspect(fr.Decl.Body, func(m ast.Node) bool {
			if as, ok := m.(*ast.AssignStmt); ok && len(as.Lhs) == len(as.Rhs) {
				for i, l := range as.Lhs {
					if id, ok := l.(*ast.Ident); ok {
						if lit, ok := ast.Unparen(as.Rhs[i]).(*ast.FuncLit); ok {
							if o := info.ObjectOf(id); o != nil {
								litOfVar[o] = lit
							}
						}
					}
				}
			}
			return true
		})
		ast.Inspect(fr.Decl.Body, func(m ast.Node) bool {
			rs, ok := m.(*ast.RangeStmt)
			if !ok || !strings.Contains(exprString(rs.X), "Dependency") {
				return true
			}
			recursive := false
			ast.Inspect(rs.Body, func(x ast.Node) bool {
				if call, ok := x.(*ast.CallExpr); ok {
					if Callee(info, call) == fr.Obj {
						recursive = true
					}
					// a recursive function literal: the loop lies inside the literal held by the called variable
					if id, ok := ast.Unparen(call.Fun).(*ast.Ident); ok {
						if lit := litOfVar[info.Uses[id]]; lit != nil && lit.Pos() <= rs.Pos() && rs.End() <= lit.End() {
							recursive = true
						}
					}
				}
				return true
			})
			if !recursive {
				return true
			}
			n++
			skips := 0
			inspectNoFuncLit(rs.Body, func(x ast.Node) bool {
				b, ok := x.(*ast.BranchStmt)
				if !ok || (b.Tok != token.CONTINUE && b.Tok != token.BREAK && b.Tok != token.GOTO) {
					return true
				}
				// a dependency whose file is not in the image cannot be followed: `if !ok { continue }` after a
				// comma-ok lookup, or `if f == nil { continue }`, is the nested-if form written as a guard
				if b.Tok == token.CONTINUE {
					if ifs := enclosingIf(p, b); ifs != nil && notFoundGuard(info, fr.Decl.Body, ifs.Cond) {
						return true
					}
				}
				skips++
				return true
			})
			c.Ob(rule, declName(fr.Decl), rs.Pos(), skips == 0, true, "the loop over %s recurses for every dependency it can find (continue/break statements other than not-found guards: %d)", exprString(rs.X), skips)
			return true
		})
	}
	if n == 0 {
		c.Fail(rule, "anchor", token.NoPos, "no recursive loop over a dependency list found in bufimage")
	}
}

// c17OutputCacheKey (OUTPUT-CACHE-KEY): the response writer keeps one staging bucket per plugin output location so
// that later plugins (insertion points) see the files of earlier ones for the SAME location. "Files returned by
// plugins are written only beneath that plugin's output location" then requires the cache to be keyed by the location
// itself: the key of every lookup and store on the staging-bucket map is the method's own location parameter, not a
// value derived from it (filepath.Dir of an archive path makes two archives in one directory, or an archive and its
// parent directory, share a bucket: one plugin's files land in the other's output and duplicate names overwrite each
// other silently).
func c17OutputCacheKey(c *Ctx) {
	const rule = "OUTPUT-CACHE-KEY"
	c.Rule(rule, "the staging-bucket cache is keyed by the output location the method was given", 4)
	p := c.P
	pk := p.Pkg("private/bufpkg/bufprotoplugin/bufprotopluginos")
	if pk == nil {
		c.Fail(rule, "anchor", token.NoPos, "bufprotopluginos not found")
		return
	}
	n := 0
	for _, sf := range p.SSAFuncsOf([]*packages.Package{pk}) {
		if sf.Signature.Recv() == nil {
			continue
		}
		for _, b := range sf.Blocks {
			for _, ins := range b.Instrs {
				var m, key ssa.Value
				switch x := ins.(type) {
				case *ssa.Lookup:
					m, key = x.X, x.Index
				case *ssa.MapUpdate:
					m, key = x.Map, x.Key
				default:
					continue
				}
				mt, ok := m.Type().Underlying().(*types.Map)
				if !ok || !strings.Contains(namedName(mt.Elem()), "Bucket") {
					continue
				}
				if _, isField := func() (*ssa.FieldAddr, bool) {
					u, ok := m.(*ssa.UnOp)
					if !ok {
						return nil, false
					}
					fa, ok := u.X.(*ssa.FieldAddr)
					return fa, ok
				}(); !isField {
					continue
				}
				n++
				isParam := isParamOrItsCell(key)
				c.Ob(rule, fmt.Sprintf("%s/key#%d", ssaFuncName(sf), n), ins.Pos(), isParam, true, "the cache key is the method's location parameter itself: %v (%s)", isParam, key.String())
			}
		}
	}
	if n == 0 {
		c.Fail(rule, "anchor", token.NoPos, "no staging-bucket map access found in the response writer")
	}
}

// isParamOrItsCell: v is a parameter, or the load of a cell that only ever holds a parameter (a parameter captured by a
// closure is spilled to such a cell).
func isParamOrItsCell(v ssa.Value) bool {
	v = stripConv(v)
	if _, ok := v.(*ssa.Parameter); ok {
		return true
	}
	u, ok := v.(*ssa.UnOp)
	if !ok || u.Op != token.MUL {
		return false
	}
	al, ok := u.X.(*ssa.Alloc)
	if !ok {
		return false
	}
	stores := 0
	for _, ref := range *al.Referrers() {
		if st, ok := ref.(*ssa.Store); ok && st.Addr == ssa.Value(al) {
			stores++
			if _, isP := stripConv(st.Val).(*ssa.Parameter); !isP {
				return false
			}
		}
	}
	return stores == 1
}

// c18PerVisitState (PER-VISIT-STATE): the field-option modifiers walk every descriptor of a file with one callback.
// What the callback decides for a field (the override selected for it) must not outlive the visit: a variable that
// the callback writes but that is declared outside it carries the value chosen for one field over to every later
// field no rule matches - "changes only governed options" breaks in declaration order. On SSA: the callbacks handed to
// the descriptor walk in bufimagemodify store into none of their captured variables.
func c18PerVisitState(c *Ctx, pk *packages.Package) {
	const rule = "PER-VISIT-STATE"
	c.Rule(rule, "walk callbacks of the modifiers keep no state between visited descriptors", 1)
	p := c.P
	n := 0
	for _, sf := range p.SSAFuncsOf([]*packages.Package{pk}) {
		for _, call := range callsIn(sf) {
			fn := staticCalleeObj(call.Call)
			if fn == nil || fn.Pkg() == nil || !strings.HasSuffix(fn.Pkg().Path(), "/protodescriptor/walk") && !strings.HasSuffix(fn.Pkg().Path(), "/walk") {
				continue
			}
			for _, a := range call.Call.Args {
				mc, ok := a.(*ssa.MakeClosure)
				if !ok {
					continue
				}
				cb := mc.Fn.(*ssa.Function)
				n++
				var written []string
				for _, f := range allSSAFuncs(cb) {
					for _, b := range f.Blocks {
						for _, ins := range b.Instrs {
							if st, ok := ins.(*ssa.Store); ok {
								if fv, ok := st.Addr.(*ssa.FreeVar); ok && f == cb {
									written = append(written, fv.Name())
								}
							}
						}
					}
				}
				c.Ob(rule, fmt.Sprintf("%s/callback#%d", ssaFuncName(sf), n), call.Pos(), len(written) == 0, true, "the walk callback writes no variable of the enclosing function: %v %v", len(written) == 0, written)
			}
		}
	}
	if n == 0 {
		c.Fail(rule, "anchor", token.NoPos, "no descriptor-walk callback found in bufimagemodify")
	}
}

// c18AccumulatorCarry (ACCUMULATOR-CARRY): "overrides beat defaults; the last matching override wins" for options made
// of parts (java_package = prefix + package + suffix) means: a later *_prefix rule replaces the prefix and keeps the
// suffix chosen by an earlier *_suffix rule, and vice versa. In the loop over the override rules, when the accumulated
// options are rebuilt as a struct literal, every part that is carried over is read from the accumulator itself, not
// from the defaults or any other value of that type (which would silently drop the earlier rule).
func c18AccumulatorCarry(c *Ctx, pk *packages.Package) {
	const rule = "ACCUMULATOR-CARRY"
	c.Rule(rule, "parts of a composed override that are not being replaced are carried over from the accumulated value", 2)
	p := c.P
	info := pk.TypesInfo
	n := 0
	for _, fr := range p.FuncsOf(pk) {
		if fr.Decl.Body == nil {
			continue
		}
		ast.Inspect(fr.Decl.Body, func(m ast.Node) bool {
			rs, ok := m.(*ast.RangeStmt)
			if !ok {
				return true
			}
			ast.Inspect(rs.Body, func(x ast.Node) bool {
				as, ok := x.(*ast.AssignStmt)
				if !ok || len(as.Lhs) != 1 || len(as.Rhs) != 1 || as.Tok != token.ASSIGN {
					return true
				}
				acc := identObj(info, as.Lhs[0])
				lit, ok := ast.Unparen(as.Rhs[0]).(*ast.CompositeLit)
				if acc == nil || !ok {
					return true
				}
				if _, isStruct := acc.Type().Underlying().(*types.Struct); !isStruct || !types.Identical(info.TypeOf(lit), acc.Type()) {
					return true
				}
				for _, el := range lit.Elts {
					kv, ok := el.(*ast.KeyValueExpr)
					if !ok {
						continue
					}
					sel, ok := ast.Unparen(kv.Value).(*ast.SelectorExpr)
					if !ok {
						continue
					}
					src := identObj(info, sel.X)
					if src == nil || !types.Identical(src.Type(), acc.Type()) {
						continue
					}
					n++
					ok2 := src == acc && sel.Sel.Name == kv.Key.(*ast.Ident).Name
					c.Ob(rule, fmt.Sprintf("%s/%s.%s#%d", declName(fr.Decl), acc.Name(), kv.Key.(*ast.Ident).Name, n), kv.Pos(), ok2, true, "part %s is carried over from %s.%s (want the accumulator %s and the same part)", kv.Key.(*ast.Ident).Name, src.Name(), sel.Sel.Name, acc.Name())
				}
				return true
			})
			return true
		})
	}
	if n == 0 {
		c.Fail(rule, "anchor", token.NoPos, "no accumulated override literal found in bufimagemodify")
	}
}

// c20ExitCodeSurvives (EXIT-CODE-SURVIVES): "a missing import exits 100" is implemented by wrapping the error in an
// exit-code carrier (app.WrapError(100, …)) inside the CLI's last error decorator and reading the code back with
// errors.As at exit. Everything applied to the carrier after that must keep it on the error chain: a module function
// it is passed to returns fmt.Errorf with %w for that argument (recursively), a direct fmt.Errorf uses %w for it, or it
// is returned as it is. `%v` prints the same text and silently turns exit status 100 into 1.
func c20ExitCodeSurvives(c *Ctx) {
	const rule = "EXIT-CODE-SURVIVES"
	c.Rule(rule, "an exit-code carrier stays on the error chain until it is returned", 1)
	p := c.P
	pk := p.Pkg("private/buf/cmd/buf")
	if pk == nil {
		c.Fail(rule, "anchor", token.NoPos, "cmd/buf not found")
		return
	}
	// verbs of a constant format, in argument order (explicit [n] indexes are honoured)
	verbFor := func(format string, argIdx int) string {
		arg := 0
		for i := 0; i < len(format); i++ {
			if format[i] != '%' {
				continue
			}
			i++
			if i < len(format) && format[i] == '%' {
				continue
			}
			cur := arg
			for i < len(format) && strings.ContainsRune("+-# 0123456789.[]*", rune(format[i])) {
				if format[i] == '[' {
					j := strings.IndexByte(format[i:], ']')
					if j > 0 {
						var k int
						fmt.Sscanf(format[i+1:i+j], "%d", &k)
						cur = k - 1
						i += j
					}
				}
				i++
			}
			if i < len(format) {
				if cur == argIdx {
					return string(format[i])
				}
				arg = cur + 1
			}
		}
		return ""
	}
	var keeps func(v ssa.Value, depth int) (bool, string)
	keeps = func(v ssa.Value, depth int) (bool, string) {
		// every use of v must keep it on the chain
		for _, ref := range *v.Referrers() {
			switch x := ref.(type) {
			case *ssa.DebugRef, *ssa.Return:
				continue
			case *ssa.Phi:
				if ok, why := keeps(x, depth); !ok {
					return false, why
				}
			case *ssa.MakeInterface:
				if ok, why := keeps(x, depth); !ok {
					return false, why
				}
			case *ssa.ChangeInterface:
				if ok, why := keeps(x, depth); !ok {
					return false, why
				}
			case *ssa.Store:
				// stored into a varargs array handled at the Slice/call below, or into a local cell
				if ia, ok := x.Addr.(*ssa.IndexAddr); ok {
					if al, ok := ia.X.(*ssa.Alloc); ok {
						for _, r2 := range *al.Referrers() {
							if sl, ok := r2.(*ssa.Slice); ok {
								if ok2, why := keepsVariadic(sl, ia, verbFor); !ok2 {
									return false, why
								}
							}
						}
					}
				}
			case *ssa.Call:
				callee := x.Call.StaticCallee()
				if callee == nil {
					continue // errors.As(err, &x) and friends take it as a reader
				}
				if callee.Pkg != nil && strings.HasPrefix(callee.Pkg.Pkg.Path(), modPath) && callee.Blocks != nil && depth < 3 {
					for i, a := range x.Call.Args {
						if a == v && i < len(callee.Params) && isErrorType(callee.Signature.Results().At(callee.Signature.Results().Len()-1).Type()) {
							if ok, why := keeps(callee.Params[i], depth+1); !ok {
								return false, why
							}
						}
					}
				}
			}
		}
		return true, ""
	}
	n := 0
	for _, sf := range p.SSAFuncsOf([]*packages.Package{pk}) {
		for _, call := range callsIn(sf) {
			if !calleeIs(staticCalleeObj(call.Call), "private/pkg/app", "WrapError") {
				continue
			}
			cv, ok := call.Value.(*ssa.Call)
			if !ok {
				continue
			}
			n++
			ok2, why := keeps(cv, 0)
			c.Ob(rule, fmt.Sprintf("%s/carrier#%d", sf.Name(), n), call.Pos(), ok2, true, "the exit-code carrier reaches the caller on the error chain: %v %s", ok2, why)
		}
	}
	if n == 0 {
		c.Fail(rule, "anchor", token.NoPos, "no app.WrapError call in cmd/buf")
	}
}

// keepsVariadic: the value stored at ia of the variadic array sliced by sl is formatted with %w by the fmt.Errorf that
// receives the slice.
func keepsVariadic(sl *ssa.Slice, ia *ssa.IndexAddr, verbFor func(string, int) string) (bool, string) {
	idx := 0
	if k, ok := ia.Index.(*ssa.Const); ok && k.Value != nil {
		fmt.Sscanf(k.Value.ExactString(), "%d", &idx)
	}
	for _, ref := range *sl.Referrers() {
		call, ok := ref.(*ssa.Call)
		if !ok {
			continue
		}
		fn := staticCalleeObj(&call.Call)
		if fn == nil || fn.Pkg() == nil || fn.Pkg().Path() != "fmt" || fn.Name() != "Errorf" {
			continue
		}
		k, ok := call.Call.Args[0].(*ssa.Const)
		if !ok || k.Value == nil {
			return false, "fmt.Errorf with a non-constant format"
		}
		format := strings.Trim(k.Value.ExactString(), "\"")
		if v := verbFor(format, idx); v != "w" {
			return false, "formatted with %" + v + " instead of %w"
		}
	}
	return true, ""
}

// c20GroupingKeepsOrder (GROUPING-KEEPS-ORDER): every format prints "the same annotations in the same order"; the
// order is fixed once, by the annotation set's sort. A printer that needs groups (JUnit: one testsuite per file) must
// form them in order of first appearance in that sorted slice. Re-deriving an order inside the grouping function -
// ranging over a map, or sorting the group keys as strings - disagrees with the set's order as soon as the keys do
// not sort like the annotations do ("<input>" for file-less annotations, external paths starting with "../").
// In bufanalysis, the function that turns []FileAnnotation into [][]FileAnnotation contains no map range and no
// sorting call.
func c20GroupingKeepsOrder(c *Ctx) {
	const rule = "GROUPING-KEEPS-ORDER"
	c.Rule(rule, "annotation groups are formed in order of first appearance, without re-sorting", 1)
	p := c.P
	pk := p.Pkg("private/bufpkg/bufanalysis")
	if pk == nil {
		c.Fail(rule, "anchor", token.NoPos, "bufanalysis not found")
		return
	}
	info := pk.TypesInfo
	n := 0
	for _, fr := range p.FuncsOf(pk) {
		if fr.Decl.Body == nil || fr.Decl.Type.Results == nil || len(fr.Decl.Type.Results.List) != 1 || fr.Decl.Type.Params == nil {
			continue
		}
		rt, ok := info.TypeOf(fr.Decl.Type.Results.List[0].Type).(*types.Slice)
		if !ok {
			continue
		}
		inner, ok := rt.Elem().(*types.Slice)
		if !ok || namedName(inner.Elem()) != "FileAnnotation" {
			continue
		}
		n++
		mapRanges, sorts := 0, 0
		ast.Inspect(fr.Decl.Body, func(m ast.Node) bool {
			switch x := m.(type) {
			case *ast.RangeStmt:
				if _, isMap := info.TypeOf(x.X).Underlying().(*types.Map); isMap {
					mapRanges++
				}
			case *ast.CallExpr:
				if fn := Callee(info, x); fn != nil && callSorts(p, fn, 2) {
					sorts++
				}
			}
			return true
		})
		c.Ob(rule, declName(fr.Decl), fr.Decl.Pos(), mapRanges == 0 && sorts == 0, true, "groups follow the order of the (already sorted) input: %d map ranges, %d sorting calls in the grouping function", mapRanges, sorts)
	}
	if n == 0 {
		c.Fail(rule, "anchor", token.NoPos, "no []FileAnnotation -> [][]FileAnnotation grouping function found")
	}
}

// c19ProviderStateless (PROVIDER-STATELESS): one token provider serves every registry address of a process, from
// concurrent requests. Its RemoteToken(address) must be a function of the address and of immutable configuration: a
// method that writes to its receiver (a "last address / last token" memo) can pair host B with the token just looked
// up for host A when two requests overlap - a credential configured for one host goes to another. On SSA: no
// RemoteToken method of package bufconnect (nor a package function it calls with its receiver) stores into a field of
// the receiver.
func c19ProviderStateless(c *Ctx) {
	const rule = "PROVIDER-STATELESS"
	c.Rule(rule, "token lookups keep no per-call state on the provider", 3)
	p := c.P
	pk := p.Pkg("private/bufpkg/bufconnect")
	if pk == nil {
		c.Fail(rule, "anchor", token.NoPos, "bufconnect not found")
		return
	}
	for _, sf := range p.SSAFuncsOf([]*packages.Package{pk}) {
		if sf.Name() != "RemoteToken" || sf.Signature.Recv() == nil || len(sf.Params) == 0 {
			continue
		}
		var written []string
		for _, f := range reachSSA(sf, 2) {
			if f.Pkg == nil || f.Pkg.Pkg != pk.Types || len(f.Params) == 0 {
				continue
			}
			for _, b := range f.Blocks {
				for _, ins := range b.Instrs {
					st, ok := ins.(*ssa.Store)
					if !ok {
						continue
					}
					fa, ok := st.Addr.(*ssa.FieldAddr)
					if !ok {
						continue
					}
					// a field of a receiver of the same type as the provider
					if types.Identical(fa.X.Type(), sf.Params[0].Type()) {
						st2 := fa.X.Type().Underlying().(*types.Pointer).Elem().Underlying().(*types.Struct)
						written = append(written, st2.Field(fa.Field).Name())
					}
				}
			}
		}
		c.Ob(rule, ssaFuncName(sf), sf.Pos(), len(written) == 0, true, "RemoteToken writes no field of its provider: %v %v", len(written) == 0, written)
	}
}

// c12KeptImpliesWalked (KEPT-IMPLIES-WALKED, added with finding F29): the import list of a rewritten file is rebuilt
// from what the closure walk *recorded* (closure.imports); a type is written to the output when hasType says so.
// The image links only if every type that is kept has been walked. Two sites must agree: (A) hasType's answer for an
// element whose inclusion mode is still unknown, and (B) which files the include-everything walk (taken when no
// include list is given) seeds from. If (A) can answer true while (B) skips import files, an import file that stays
// in the image keeps types nobody walked, and the imports those types need are dropped.
func c12KeptImpliesWalked(c *Ctx, pk *packages.Package) {
	const rule = "KEPT-IMPLIES-WALKED"
	c.Rule(rule, "a type that was never walked is not kept (or every file is walked when everything is included)", 1)
	p := c.P
	info := pk.TypesInfo
	// (A) hasType: the value returned in the unknown case
	unknownKept, foundA := false, false
	for _, fr := range p.FuncsOf(pk) {
		if fr.Decl.Body == nil || fr.Decl.Name.Name != "hasType" {
			continue
		}
		ast.Inspect(fr.Decl.Body, func(n ast.Node) bool {
			cc, ok := n.(*ast.CaseClause)
			if !ok {
				return true
			}
			for _, e := range cc.List {
				if id := lastIdent(e); id != nil && strings.Contains(id.Name, "Unknown") {
					foundA = true
					for _, st := range cc.Body {
						if r, ok := st.(*ast.ReturnStmt); ok && len(r.Results) == 1 {
							if tv, ok := info.Types[r.Results[0]]; !ok || tv.Value == nil || tv.Value.ExactString() != "false" {
								unknownKept = true
							}
						}
					}
				}
			}
			return true
		})
	}
	if !foundA {
		// the same question asked without a switch (`if mode == inclusionModeUnknown { return … }`): on SSA, the
		// returns reached over the edge where the mode compared equal to the Unknown constant
		for _, sf := range p.SSAFuncsOf([]*packages.Package{pk}) {
			if sf.Name() != "hasType" {
				continue
			}
			for _, r := range returnsOf(sf) {
				if len(r.Results) != 1 {
					continue
				}
				for _, ge := range guardingEdges(r.Block()) {
					cv, pos := condPolarity(ge.If.Cond)
					bo, ok := cv.(*ssa.BinOp)
					if !ok || (bo.Op != token.EQL && bo.Op != token.NEQ) {
						continue
					}
					isUnknown := func(v ssa.Value) bool {
						k, ok := v.(*ssa.Const)
						if !ok || k.Value == nil {
							return false
						}
						for _, name := range pk.Types.Scope().Names() {
							if cst, ok := pk.Types.Scope().Lookup(name).(*types.Const); ok && strings.Contains(name, "Unknown") && types.Identical(cst.Type(), k.Type()) && cst.Val().ExactString() == k.Value.ExactString() {
								return true
							}
						}
						return false
					}
					if !isUnknown(bo.X) && !isUnknown(bo.Y) {
						continue
					}
					holds := ge.Branch == pos
					if (bo.Op == token.EQL) != holds {
						continue
					}
					foundA = true
					if k, isConst := stripConv(spilledResult(r, r.Results[0])).(*ssa.Const); !isConst || k.Value == nil || k.Value.ExactString() != "false" {
						unknownKept = true
					}
				}
			}
		}
	}
	// (B) the include-everything walk skips import files
	skipsImports, foundB := false, false
	// (wherever in the package the walk is seeded from the image's files: filterImage or a function split off it)
	for _, fr := range p.FuncsOf(pk) {
		if fr.Decl.Body == nil {
			continue
		}
		ast.Inspect(fr.Decl.Body, func(n ast.Node) bool {
			rs, ok := n.(*ast.RangeStmt)
			if !ok || !strings.HasSuffix(exprString(rs.X), ".Files()") {
				return true
			}
			seeds := false
			ast.Inspect(rs.Body, func(m ast.Node) bool {
				if call, ok := m.(*ast.CallExpr); ok {
					if fn := Callee(info, call); fn != nil && fn.Name() == "addElement" {
						seeds = true
					}
				}
				return true
			})
			if !seeds {
				return true
			}
			foundB = true
			ast.Inspect(rs.Body, func(m ast.Node) bool {
				if ifs, ok := m.(*ast.IfStmt); ok && strings.Contains(exprString(ifs.Cond), "IsImport()") {
					for _, st := range ifs.Body.List {
						if b, ok := st.(*ast.BranchStmt); ok && b.Tok == token.CONTINUE {
							skipsImports = true
						}
					}
				}
				return true
			})
			return true
		})
	}
	if !foundA || !foundB {
		c.Fail(rule, "anchor", token.NoPos, "hasType's unknown case (%v) or the include-everything seeding loop of filterImage (%v) not found", foundA, foundB)
		return
	}
	ok := !(unknownKept && skipsImports)
	c.Ob(rule, "hasType/unknown-kept-while-imports-unwalked", token.NoPos, ok, true, "hasType keeps elements whose mode is unknown: %v; the include-everything walk skips import files: %v (both together keep un-walked types of surviving import files without the imports they need)", unknownKept, skipsImports)
}

// notFoundGuard: cond is `!ok` with ok the second result of a map lookup, or `x == nil` with x the result of a lookup
// (map index or call).
func notFoundGuard(info *types.Info, body *ast.BlockStmt, cond ast.Expr) bool {
	cond = ast.Unparen(cond)
	var v types.Object
	wantSecond := false
	switch x := cond.(type) {
	case *ast.UnaryExpr:
		if x.Op == token.NOT {
			v, wantSecond = identObj(info, x.X), true
		}
	case *ast.BinaryExpr:
		if x.Op == token.EQL && isNilIdent(info, x.Y) {
			v = identObj(info, x.X)
		}
	}
	if v == nil {
		return false
	}
	found := false
	ast.Inspect(body, func(n ast.Node) bool {
		as, ok := n.(*ast.AssignStmt)
		if !ok || len(as.Rhs) != 1 {
			return true
		}
		for i, l := range as.Lhs {
			if identObj(info, l) != v {
				continue
			}
			r := ast.Unparen(as.Rhs[0])
			switch r.(type) {
			case *ast.IndexExpr:
				if (wantSecond && i == 1 && len(as.Lhs) == 2) || (!wantSecond && i == 0) {
					found = true
				}
			case *ast.CallExpr:
				if !wantSecond && i == 0 {
					found = true
				}
			}
		}
		return true
	})
	return found
}

// storeOnAbsentEdge: the map store lies on the edge where a comma-ok lookup of the same key in the same map said
// "absent".
func storeOnAbsentEdge(mu *ssa.MapUpdate) bool {
	same := func(a, b ssa.Value) bool {
		a, b = stripConv(a), stripConv(b)
		if a == b {
			return true
		}
		ca, ok1 := a.(*ssa.Call)
		cb, ok2 := b.(*ssa.Call)
		return ok1 && ok2 && ca.Call.IsInvoke() && cb.Call.IsInvoke() && ca.Call.Method == cb.Call.Method && ca.Call.Value == cb.Call.Value && len(ca.Call.Args) == 0
	}
	for _, ge := range guardingEdges(mu.Block()) {
		cv, pos := condPolarity(ge.If.Cond)
		ex, ok := cv.(*ssa.Extract)
		if !ok || ex.Index != 1 || ge.Branch == pos {
			continue
		}
		lk, ok := ex.Tuple.(*ssa.Lookup)
		if !ok || !lk.CommaOk {
			continue
		}
		if sameMapValue(lk.X, mu.Map) && same(lk.Index, mu.Key) {
			return true
		}
	}
	return false
}
