package main

import (
	"go/token"
	"go/types"

	"golang.org/x/tools/go/packages"
	"golang.org/x/tools/go/ssa"
)

// sharedFieldAppends lists `append(x.f, …)` where x.f is a slice held in a field of something the function was handed
// (a parameter or receiver, or reached from one) and the result is NOT stored back into that field: the function builds
// its own, longer list on top of a shared one. When the shared slice has spare capacity the new element is written
// into the shared backing array - two goroutines doing this for two registries overwrite each other's element (the
// authorization interceptor for registry A ends up in the client for registry B). The shared slice must be cloned
// first (slices.Clone, append([]T(nil), …), a fresh make+copy).
func sharedFieldAppends(f *ssa.Function) []ssa.Instruction {
	var out []ssa.Instruction
	for _, call := range callsIn(f) {
		if !isBuiltinCall(call.Call, "append") || len(call.Call.Args) == 0 {
			continue
		}
		cv, ok := call.Instr.(*ssa.Call)
		if !ok {
			continue
		}
		base := stripConv(call.Call.Args[0])
		// append(x.f[:n], …): a reslice of the shared slice - the element lands in the shared array for certain
		if sl, isSlice := base.(*ssa.Slice); isSlice {
			base = stripConv(sl.X)
		}
		ld, ok := base.(*ssa.UnOp)
		if !ok || ld.Op != token.MUL {
			continue
		}
		fa, ok := ld.X.(*ssa.FieldAddr)
		if !ok {
			continue
		}
		// the struct comes from outside: a parameter (receiver) or something loaded through one; not a local literal
		fromOutside := false
		sliceBack(fa.X, func(x ssa.Value) bool {
			switch t := x.(type) {
			case *ssa.Parameter:
				fromOutside = true
			case *ssa.FreeVar:
				fromOutside = true
			case *ssa.Alloc:
				_ = t
			}
			return !fromOutside
		})
		if !fromOutside {
			continue
		}
		// stored back into the same field (an accumulator owned by the struct): fine
		storedBack := false
		if cv.Referrers() != nil {
			for _, r := range *cv.Referrers() {
				if st, ok := r.(*ssa.Store); ok {
					if fb, ok := st.Addr.(*ssa.FieldAddr); ok && fb.Field == fa.Field && types.Identical(fb.X.Type(), fa.X.Type()) {
						storedBack = true
					}
				}
			}
		}
		if storedBack {
			continue
		}
		out = append(out, call.Instr)
	}
	return out
}

func ruleSharedAppend(c *Ctx, rule string, pkgs []*packages.Package) {
	c.Rule(rule, "a list built on top of a slice held by a shared object starts from a copy of it", 0)
	p := c.P
	n, fns := 0, 0
	for _, sf := range p.SSAFuncsOf(pkgs) {
		for _, f := range allSSAFuncs(sf) {
			fns++
			for _, ins := range sharedFieldAppends(f) {
				n++
				c.Ob(rule, ssaFuncName(f)+"/append-on-shared-field", ins.Pos(), false, true, "append extends a slice read from a field of a shared object without storing the result back there: with spare capacity the element lands in the shared backing array")
			}
		}
	}
	c.Ob(rule, "functions-scanned", token.NoPos, n == 0, fns > 0, "%d functions scanned, %d appends onto shared field slices", fns, n)
}
