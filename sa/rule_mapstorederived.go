package main

import (
	"go/ast"
	"go/token"
	"go/types"

	"golang.org/x/tools/go/packages"
	"golang.org/x/tools/go/ssa"
)

// derivedKeyStores lists, in loops that range over a map, plain stores `out[k2] = v` into another map whose key k2 is
// not the range key itself but something computed from the element (looked up in a table, read off the value): two
// elements may compute the same k2, and which of their values survives then depends on the iteration order of the
// ranged map - the result differs from run to run. Stores that merge (`out[k2] = append(out[k2], …)`, `out[k2] =
// out[k2] || …`, anything that reads out[k2] first in the same block) and set-like stores of a constant
// (`out[k2] = struct{}{}` / `true`) are order-independent and are not listed.
func derivedKeyStores(f *ssa.Function) []*ssa.MapUpdate {
	var out []*ssa.MapUpdate
	for _, h := range f.Blocks {
		if h.Comment != "rangeiter.loop" {
			continue
		}
		loop := loopBlocks(h)
		if loop == nil {
			continue
		}
		var next *ssa.Next
		for _, ins := range h.Instrs {
			if nx, ok := ins.(*ssa.Next); ok && !nx.IsString {
				next = nx
			}
		}
		if next == nil {
			continue
		}
		if _, isMap := next.Iter.(*ssa.Range).X.Type().Underlying().(*types.Map); !isMap {
			continue
		}
		var key ssa.Value
		for _, r := range *next.Referrers() {
			if ex, ok := r.(*ssa.Extract); ok && ex.Index == 1 {
				key = ex
			}
		}
		for b := range loop {
			for _, ins := range b.Instrs {
				mu, ok := ins.(*ssa.MapUpdate)
				if !ok {
					continue
				}
				k := stripConv(mu.Key)
				if u, ok := k.(*ssa.UnOp); ok && u.Op == token.MUL {
					// the range key spilled to a cell because a closure in the body captures it
					if al, ok := u.X.(*ssa.Alloc); ok {
						if sts := storesInto(al); len(sts) == 1 {
							k = stripConv(sts[0])
						}
					}
				}
				if key != nil && k == key {
					continue // keyed by the range key: distinct per iteration
				}
				if !dependsOnValue(mu.Key, next) {
					continue // a fixed key: not about the elements
				}
				// a map made inside the loop belongs to one element: whatever collides in it comes from that element
				if mm, ok := stripConv(mu.Map).(*ssa.MakeMap); ok && loop[mm.Block()] {
					continue
				}
				// get-or-create of a container (`if !ok { inner = make(…); outer[k2] = inner }`): which element creates
				// the empty container makes no difference
				switch stripConv(mu.Value).(type) {
				case *ssa.MakeMap, *ssa.MakeSlice:
					continue
				}
				// a collision that is an error: the store lies on the absent edge of a comma-ok lookup of the same map
				// and key whose present edge returns a non-nil error
				if storeOnAbsentErrOnPresent(mu) {
					continue
				}
				if _, isConst := stripConv(mu.Value).(*ssa.Const); isConst {
					continue // set-like
				}
				if al, ok := stripConv(mu.Value).(*ssa.Alloc); ok && al.Comment == "complit" {
					if st, ok := derefType(al.Type()).Underlying().(*types.Struct); ok && st.NumFields() == 0 {
						continue
					}
				}
				// merging store: the new value depends on a lookup of the same map
				merges := false
				sliceBack(mu.Value, func(x ssa.Value) bool {
					if lk, ok := x.(*ssa.Lookup); ok && sameSSAExpr(lk.X, mu.Map, 3) {
						merges = true
					}
					return !merges
				})
				if merges {
					continue
				}
				// guarded by "not there yet": if _, ok := out[k2]; !ok { out[k2] = v } is first-wins, equally order-dependent,
				// but an error return on the present edge makes a collision an error: accepted
				out = append(out, mu)
			}
		}
	}
	return out
}

func ruleDerivedKeyStores(c *Ctx, rule string, pkgs []*packages.Package) {
	c.Rule(rule, "a map filled while ranging over another map is keyed by the range key, or merges what is already there", 0)
	p := c.P
	n := 0
	for _, sf := range p.SSAFuncsOf(pkgs) {
		for _, f := range allSSAFuncs(sf) {
			for _, mu := range derivedKeyStores(f) {
				if invertsDistinctTable(p, f, mu) {
					continue
				}
				n++
				c.Ob(rule, ssaFuncName(f)+"/store", mu.Pos(), false, true, "out[<computed from the element>] = v while ranging over a map: two elements may compute the same key, and the survivor depends on map order")
			}
		}
	}
	c.Ob(rule, "functions-scanned", token.NoPos, n == 0, true, "%d derived-key stores in map-range loops", n)
}

func storeOnAbsentErrOnPresent(mu *ssa.MapUpdate) bool {
	for _, ge := range guardingEdges(mu.Block()) {
		cv, pos := condPolarity(ge.If.Cond)
		ex, ok := stripConv(cv).(*ssa.Extract)
		if !ok || ex.Index != 1 {
			continue
		}
		lk, ok := ex.Tuple.(*ssa.Lookup)
		if !ok || !lk.CommaOk || !sameSSAExpr(lk.X, mu.Map, 3) || !sameSSAExpr(lk.Index, mu.Key, 4) {
			continue
		}
		if ge.Branch == pos {
			continue // the store is on the present edge
		}
		// the other edge returns an error
		other := ge.If.Block().Succs[0]
		if ge.Branch {
			other = ge.If.Block().Succs[1]
		}
		if ge.Branch == false {
			other = ge.If.Block().Succs[0]
		}
		if r, ok := other.Instrs[len(other.Instrs)-1].(*ssa.Return); ok {
			for _, res := range r.Results {
				if isErrorType(res.Type()) && !isNilConst(res) {
					return true
				}
			}
		}
	}
	return false
}

// invertsDistinctTable: the store inverts a map (`out[v] = k` for k, v of the ranged map), the ranged map is a parameter,
// and every caller in the module passes a package-level table written as a literal whose values are distinct constants:
// no two elements compute the same key, so nothing depends on the order.
func invertsDistinctTable(p *Prog, f *ssa.Function, mu *ssa.MapUpdate) bool {
	ex, ok := stripConv(mu.Key).(*ssa.Extract)
	if !ok || ex.Index != 2 {
		return false
	}
	next, ok := ex.Tuple.(*ssa.Next)
	if !ok {
		return false
	}
	rng, ok := next.Iter.(*ssa.Range)
	if !ok {
		return false
	}
	par, ok := stripConv(rng.X).(*ssa.Parameter)
	if !ok {
		return false
	}
	idx := -1
	for i, fp := range f.Params {
		if fp == par {
			idx = i
		}
	}
	if idx < 0 {
		return false
	}
	origin := f
	if f.Origin() != nil {
		origin = f.Origin()
	}
	calls := 0
	scan := p.SSAFuncsOf(p.ModulePkgs())
	if f.Pkg != nil {
		// package-level tables are built in the package initialiser
		if ini := f.Pkg.Func("init"); ini != nil {
			scan = append(scan[:len(scan):len(scan)], ini)
		}
	}
	for _, sf := range scan {
		for _, g := range allSSAFuncs(sf) {
			for _, call := range callsIn(g) {
				sc := call.Call.StaticCallee()
				if sc == nil || (sc != origin && sc.Origin() != origin) || idx >= len(call.Call.Args) {
					continue
				}
				calls++
				u, ok := stripConv(call.Call.Args[idx]).(*ssa.UnOp)
				if !ok || u.Op != token.MUL {
					return false
				}
				gl, ok := u.X.(*ssa.Global)
				if !ok || gl.Object() == nil || !globalLiteralValuesDistinct(p, gl.Object()) {
					return false
				}
			}
		}
	}
	return calls > 0
}

// globalLiteralValuesDistinct: the package-level variable is initialised by a map literal whose values are constants,
// no two of them equal, and is assigned nowhere else.
func globalLiteralValuesDistinct(p *Prog, obj types.Object) bool {
	for _, pk := range p.ModulePkgs() {
		if pk.Types != obj.Pkg() {
			continue
		}
		info := pk.TypesInfo
		found, ok := false, true
		for _, file := range pk.Syntax {
			ast.Inspect(file, func(n ast.Node) bool {
				switch x := n.(type) {
				case *ast.ValueSpec:
					for i, nm := range x.Names {
						if info.Defs[nm] != obj || i >= len(x.Values) {
							continue
						}
						cl, isLit := ast.Unparen(x.Values[i]).(*ast.CompositeLit)
						if !isLit {
							ok = false
							continue
						}
						found = true
						seen := map[string]bool{}
						for _, e := range cl.Elts {
							kv, isKV := e.(*ast.KeyValueExpr)
							if !isKV {
								ok = false
								continue
							}
							tv, has := info.Types[kv.Value]
							if !has || tv.Value == nil || seen[tv.Value.ExactString()] {
								ok = false
								continue
							}
							seen[tv.Value.ExactString()] = true
						}
					}
				case *ast.AssignStmt:
					for _, l := range x.Lhs {
						if id, isID := l.(*ast.Ident); isID && info.Uses[id] == obj {
							ok = false
						}
						if ix, isIx := l.(*ast.IndexExpr); isIx && identObj(info, ix.X) == obj {
							ok = false
						}
					}
				}
				return true
			})
		}
		return found && ok
	}
	return false
}
