package main

import (
	"fmt"
	"go/token"
	"go/types"
	"strings"

	"golang.org/x/tools/go/packages"
	"golang.org/x/tools/go/ssa"
)

// c20PositionsClamped (POSITION-CLAMPED; C20, after round-4 seed C20-l): an annotation without a position (a deleted
// file) has line 0; the formats agree on printing it as 1:1. In every printer (the functions of bufanalysis reachable
// from a printAs…(io.Writer, []FileAnnotation) entry), the result of StartLine/StartColumn/EndLine/EndColumn is
// passed to the package's clamp (a function int → int), compared with a constant, or used under a guard that compares
// a position with 0 - never formatted raw.
func c20PositionsClamped(c *Ctx, pk *packages.Package) {
	const rule = "POSITION-CLAMPED"
	c.Rule(rule, "printers never format a raw line or column: positions are clamped or guarded by a comparison with 0", 8)
	p := c.P
	isPos := func(cc *ssa.CallCommon) bool {
		if !cc.IsInvoke() {
			return false
		}
		switch cc.Method.Name() {
		case "StartLine", "StartColumn", "EndLine", "EndColumn":
			return strings.HasSuffix(namedPath(cc.Value.Type()), "bufanalysis.FileAnnotation")
		}
		return false
	}
	printers := map[*ssa.Function]bool{}
	for _, sf := range p.SSAFuncsOf([]*packages.Package{pk}) {
		sig := sf.Signature
		if sig.Recv() != nil || sig.Params().Len() != 2 || namedPath(sig.Params().At(0).Type()) != "io.Writer" {
			continue
		}
		if sl, ok := sig.Params().At(1).Type().Underlying().(*types.Slice); !ok || !strings.HasSuffix(namedPath(sl.Elem()), "bufanalysis.FileAnnotation") {
			continue
		}
		for _, g := range reachSSA(sf, 3) {
			if g.Pkg != nil && g.Pkg.Pkg == pk.Types {
				printers[g] = true
			}
		}
		// functions handed over as values (printEachAnnotationOnNewLine(writer, annotations, printFileAnnotationAsX))
		for _, g := range allSSAFuncs(sf) {
			for _, b := range g.Blocks {
				for _, ins := range b.Instrs {
					for _, op := range ins.Operands(nil) {
						if op != nil && *op != nil {
							if fv, ok := (*op).(*ssa.Function); ok && fv.Pkg != nil && fv.Pkg.Pkg == pk.Types {
								for _, h := range reachSSA(fv, 2) {
									if h.Pkg != nil && h.Pkg.Pkg == pk.Types {
										printers[h] = true
									}
								}
							}
						}
					}
				}
			}
		}
	}
	n := 0
	for f := range printers {
		k := 0
		for _, call := range callsIn(f) {
			if !isPos(call.Call) {
				continue
			}
			cv, ok := call.Instr.(*ssa.Call)
			if !ok || cv.Referrers() == nil {
				continue
			}
			n++
			k++
			ok2 := true
			why := ""
			for _, r := range *cv.Referrers() {
				switch t := r.(type) {
				case *ssa.DebugRef:
				case *ssa.BinOp:
					// compared
				case *ssa.Call:
					g := t.Call.StaticCallee()
					if g != nil && g.Pkg != nil && g.Pkg.Pkg == pk.Types && g.Signature.Params().Len() == 1 && g.Signature.Results().Len() == 1 {
						continue // the clamp
					}
					ok2 = guardedByPositionTest(t.Block(), isPos)
					why = "passed to " + t.Call.String()
				default:
					if ins, isIns := r.(ssa.Instruction); isIns {
						if !guardedByPositionTest(ins.Block(), isPos) {
							ok2 = false
							why = fmt.Sprintf("used by %T", r)
						}
					}
				}
			}
			c.Ob(rule, fmt.Sprintf("%s/%s#%d", ssaFuncName(f), call.Call.Method.Name(), k), call.Pos(), ok2, true, "%s() is clamped, compared, or used under a position guard: %v %s", call.Call.Method.Name(), ok2, why)
		}
	}
	if n == 0 {
		c.Fail(rule, "anchor", token.NoPos, "no position accessor call found in the printers")
	}
}

func guardedByPositionTest(b *ssa.BasicBlock, isPos func(*ssa.CallCommon) bool) bool {
	for _, ge := range guardingEdges(b) {
		cv, _ := condPolarity(ge.If.Cond)
		if bo, ok := cv.(*ssa.BinOp); ok {
			for _, side := range []ssa.Value{bo.X, bo.Y} {
				if cl, ok := stripConv(side).(*ssa.Call); ok && isPos(&cl.Call) {
					return true
				}
			}
		}
	}
	return false
}

// c20FormatConstant (FORMAT-CONSTANT; C20, after round-4 seed C20-k): the text of an annotation is user data (a quoted
// import path, a type name). It must reach the output as an argument, never as part of a format string:
// fmt.Sprintf("%s:%d:%d:"+message, …) prints `100%done` as `100%!d(MISSING)one` in the text and junit formats while
// json, msvs and github-actions show the message intact. In bufanalysis, the format argument of every fmt formatting
// call is a constant.
func c20FormatConstant(c *Ctx, pk *packages.Package) {
	const rule = "FORMAT-CONSTANT"
	c.Rule(rule, "format strings of the diagnostic printers are constants; messages travel as arguments", 3)
	p := c.P
	n := 0
	for _, sf := range p.SSAFuncsOf([]*packages.Package{pk}) {
		for _, f := range allSSAFuncs(sf) {
			k := 0
			for _, call := range callsIn(f) {
				o := staticCalleeObj(call.Call)
				if o == nil || o.Pkg() == nil || o.Pkg().Path() != "fmt" {
					continue
				}
				idx := -1
				switch o.Name() {
				case "Sprintf", "Errorf", "Printf":
					idx = 0
				case "Fprintf":
					idx = 1
				}
				if idx < 0 || idx >= len(call.Call.Args) {
					continue
				}
				n++
				k++
				_, isConst := stripConv(call.Call.Args[idx]).(*ssa.Const)
				c.Ob(rule, fmt.Sprintf("%s/fmt.%s#%d", ssaFuncName(f), o.Name(), k), call.Pos(), isConst, true, "the format argument of fmt.%s is a constant: %v", o.Name(), isConst)
			}
		}
	}
	if n == 0 {
		c.Fail(rule, "anchor", token.NoPos, "no fmt formatting call found in bufanalysis")
	}
}

// c20ExitCodeOwn (EXIT-CODE-OWN; C20, after round-4 seed C20-j): status 100 means "the sources have a problem" because
// only the commands that print annotations wrap their error with it. The function that maps an error to the process's
// exit status may therefore return only constants and the code stored in the package's own error type - not whatever
// an arbitrary error in the chain offers through an ExitCode() method (a check plugin process dying with status 100
// would make buf exit 100 with no diagnostic printed).
func c20ExitCodeOwn(c *Ctx) {
	const rule = "EXIT-CODE-OWN"
	c.Rule(rule, "the exit status is a constant or the code carried by the app package's own error type", 1)
	p := c.P
	pk := p.Pkg("private/pkg/app")
	if pk == nil {
		c.Fail(rule, "anchor", token.NoPos, "private/pkg/app not found")
		return
	}
	n := 0
	for _, sf := range p.SSAFuncsOf([]*packages.Package{pk}) {
		sig := sf.Signature
		if sig.Recv() != nil || sig.Params().Len() != 1 || !isErrorType(sig.Params().At(0).Type()) || sig.Results().Len() != 1 {
			continue
		}
		if b, ok := sig.Results().At(0).Type().Underlying().(*types.Basic); !ok || b.Kind() != types.Int {
			continue
		}
		n++
		var foreign []string
		for _, r := range returnsOf(sf) {
			// what the returned number is made of, looking through helpers of the package (the errors.As lookup may live
			// in its own function): constants and fields of the package's own types are fine, any call that produces an
			// int outside the package - an ExitCode() method of whatever error is in the chain - is not
			sliceBackDeep(r.Results[0], func(x ssa.Value) bool {
				cl, ok := x.(*ssa.Call)
				if !ok {
					return true
				}
				if g := cl.Call.StaticCallee(); g != nil && g.Pkg != nil && g.Pkg.Pkg == pk.Types {
					return true // a helper of the package: its returns are followed
				}
				isInt := false
				switch t := cl.Type().(type) {
				case *types.Tuple:
					for i := 0; i < t.Len(); i++ {
						if b, ok := t.At(i).Type().Underlying().(*types.Basic); ok && b.Info()&types.IsInteger != 0 {
							isInt = true
						}
					}
				default:
					if b, ok := cl.Type().Underlying().(*types.Basic); ok && b.Info()&types.IsInteger != 0 {
						isInt = true
					}
				}
				if isInt {
					foreign = append(foreign, "call:"+cl.Call.String())
				}
				return true
			})
			for _, org := range p.Origins(r.Results[0], 0) {
				if strings.HasPrefix(org, "field:") && !strings.Contains(org, "private/pkg/app.") {
					foreign = append(foreign, org)
				}
			}
		}
		c.Ob(rule, ssaFuncName(sf), sf.Pos(), len(foreign) == 0, true, "%s returns constants and the app error's own code only; other sources: %v", sf.Name(), foreign)
	}
	if n == 0 {
		c.Fail(rule, "anchor", token.NoPos, "no func(error) int found in private/pkg/app")
	}
}
