package main

import (
	"go/ast"
	"go/token"
	"go/types"

	"golang.org/x/tools/go/packages"
)

// ruleEqualityHelper (EQUALITY-HELPER; C04 and C03, after round-4 seed C04-l): when a package has a dedicated
// comparison function for a struct type T - `func(a, b T) bool` - the package believes that comparing two T needs
// more than `==` (NaN defaults, float32/float64 widening, string/bytes leniency in `defaultsEqual`). A `==`/`!=`
// elsewhere in the package between two T values, or between the same field of two T values, contradicts that belief:
// for `fieldDefault` it makes an unchanged `[default = nan]` field report FIELD_SAME_DEFAULT against itself. Zero
// instances are expected; the helpers found are the floor.
func ruleEqualityHelper(c *Ctx, rule string, pkgs []*packages.Package) {
	c.Rule(rule, "two values of a struct type that has a dedicated comparison function are compared only through it", 1)
	p := c.P
	helpers, hits := 0, 0
	for _, pk := range pkgs {
		info := pk.TypesInfo
		helperOf := map[*types.TypeName]*ast.FuncDecl{}
		for _, fr := range p.FuncsOf(pk) {
			sig, ok := fr.Obj.Type().(*types.Signature)
			if !ok || sig.Recv() != nil || sig.Params().Len() != 2 || sig.Results().Len() != 1 {
				continue
			}
			if b, ok := sig.Results().At(0).Type().Underlying().(*types.Basic); !ok || b.Kind() != types.Bool {
				continue
			}
			t0, t1 := sig.Params().At(0).Type(), sig.Params().At(1).Type()
			n0, ok := t0.(*types.Named)
			if !ok || !types.Identical(t0, t1) || n0.Obj().Pkg() != pk.Types {
				continue
			}
			if _, isStruct := n0.Underlying().(*types.Struct); !isStruct {
				continue
			}
			helperOf[n0.Obj()] = fr.Decl
			helpers++
			c.Ob(rule, fr.ID()+"/helper", fr.Decl.Pos(), true, false, "%s is the comparison function of %s", fr.Decl.Name.Name, n0.Obj().Name())
		}
		if len(helperOf) == 0 {
			continue
		}
		typeNameOf := func(e ast.Expr) *types.TypeName {
			t := info.TypeOf(e)
			if t == nil {
				return nil
			}
			if pt, ok := t.(*types.Pointer); ok {
				t = pt.Elem()
			}
			if n, ok := t.(*types.Named); ok {
				return n.Obj()
			}
			return nil
		}
		for _, fr := range p.FuncsOf(pk) {
			if fr.Decl.Body == nil {
				continue
			}
			ast.Inspect(fr.Decl.Body, func(n ast.Node) bool {
				b, ok := n.(*ast.BinaryExpr)
				if !ok || (b.Op != token.EQL && b.Op != token.NEQ) {
					return true
				}
				var tn *types.TypeName
				what := ""
				if a, bb := typeNameOf(b.X), typeNameOf(b.Y); a != nil && a == bb && helperOf[a] != nil {
					tn, what = a, "two "+a.Name()+" values"
				} else if sx, ok := ast.Unparen(b.X).(*ast.SelectorExpr); ok {
					if sy, ok := ast.Unparen(b.Y).(*ast.SelectorExpr); ok && sx.Sel.Name == sy.Sel.Name {
						if a, bb := typeNameOf(sx.X), typeNameOf(sy.X); a != nil && a == bb && helperOf[a] != nil {
							if _, isField := info.Uses[sx.Sel].(*types.Var); isField {
								tn, what = a, "field "+sx.Sel.Name+" of two "+a.Name()+" values"
							}
						}
					}
				}
				if tn == nil || helperOf[tn] == fr.Decl {
					return true
				}
				hits++
				c.Ob(rule, fr.ID()+"/bypasses-"+helperOf[tn].Name.Name, b.Pos(), false, true, "%s are compared with %s instead of through %s, which exists because plain equality is not the right comparison for this type", what, b.Op, helperOf[tn].Name.Name)
				return true
			})
		}
	}
	c.Ob(rule, "helpers-found", token.NoPos, hits == 0, helpers > 0, "%d comparison function(s) for struct types found, %d comparisons bypassing them", helpers, hits)
}
