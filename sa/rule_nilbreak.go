package main

import (
	"go/ast"
	"go/token"
	"go/types"

	"golang.org/x/tools/go/packages"
)

// nilElementBreaks lists `for _, x := range list { if x == nil { break } … }`: the branch does nothing but leave the
// loop, and is taken because the current element is absent. The elements of a Go list are independent (there is no
// nil-terminated-list idiom), so an absent element is a reason to skip it, not to drop every element after it:
// getB4Digest hashing buf.yaml and buf.lock from `[]ObjectData{yaml, lock}` would ignore a buf.lock whenever there is
// no buf.yaml. The same holds for `{ return nil }` (all results nil) and for something read off the element
// (`d := x.Descriptor(); if d.Info == nil { return nil }`): one file without source info is no reason to leave the
// files after it unswept. A first-match search is not of this shape: its break follows a positive test or records
// the match, and its return hands back what was found.
func nilElementBreaks(pk *packages.Package) (loops int, bad []*ast.IfStmt) {
	info := pk.TypesInfo
	for _, f := range pk.Syntax {
		if isGenerated(f) {
			continue
		}
		ast.Inspect(f, func(n ast.Node) bool {
			rs, ok := n.(*ast.RangeStmt)
			if !ok || rs.Value == nil || rs.Tok != token.DEFINE {
				return true
			}
			val := identObj(info, rs.Value)
			if val == nil || val.Name() == "_" {
				return true
			}
			switch info.TypeOf(rs.X).Underlying().(type) {
			case *types.Slice, *types.Array, *types.Map:
			default:
				return true
			}
			loops++
			// the element and what is read off it by the statements of the body, in order
			derived := map[types.Object]bool{val: true}
			mentions := func(e ast.Expr) bool {
				found := false
				ast.Inspect(e, func(m ast.Node) bool {
					if id, ok := m.(*ast.Ident); ok && derived[info.Uses[id]] {
						found = true
					}
					return !found
				})
				return found
			}
			for _, st := range rs.Body.List {
				if as, ok := st.(*ast.AssignStmt); ok && as.Tok == token.DEFINE && len(as.Rhs) == 1 && mentions(as.Rhs[0]) {
					for _, l := range as.Lhs {
						if o := identObj(info, l); o != nil && len(as.Lhs) == 1 {
							derived[o] = true
						}
					}
					continue
				}
				is, ok := st.(*ast.IfStmt)
				if !ok || is.Init != nil || is.Else != nil || len(is.Body.List) != 1 {
					continue
				}
				leaves := false
				switch t := is.Body.List[0].(type) {
				case *ast.BranchStmt:
					leaves = t.Tok == token.BREAK && t.Label == nil
				case *ast.ReturnStmt:
					// a success return: every result nil
					leaves = len(t.Results) > 0
					for _, r := range t.Results {
						if !isNilIdent(info, r) {
							leaves = false
						}
					}
				}
				if !leaves {
					continue
				}
				be, ok := ast.Unparen(is.Cond).(*ast.BinaryExpr)
				if !ok || be.Op != token.EQL {
					continue
				}
				x, y := ast.Unparen(be.X), ast.Unparen(be.Y)
				if isNilIdent(info, x) {
					x, y = y, x
				}
				if !isNilIdent(info, y) {
					continue
				}
				// the element itself, or a member / accessor chain read off it (no other operands) ...
				if !chainOnDerived(info, x, derived) {
					continue
				}
				// ... tested as a guard in front of the element's processing: a later statement of the body works
				// on the element. (A body that is nothing but the test - "if any attempt has no error, done" - is a
				// search, not a skipped element.)
				processed := false
				past := false
				for _, later := range rs.Body.List {
					if later == st {
						past = true
						continue
					}
					if !past {
						continue
					}
					ast.Inspect(later, func(m ast.Node) bool {
						if id, ok := m.(*ast.Ident); ok && derived[info.Uses[id]] {
							processed = true
						}
						return !processed
					})
				}
				if processed {
					bad = append(bad, is)
				}
			}
			return true
		})
	}
	return loops, bad
}

// chainOnDerived: e is an identifier in the set, or a selector / argument-less call chain rooted at one.
func chainOnDerived(info *types.Info, e ast.Expr, derived map[types.Object]bool) bool {
	for {
		switch t := ast.Unparen(e).(type) {
		case *ast.Ident:
			return derived[info.Uses[t]]
		case *ast.SelectorExpr:
			e = t.X
		case *ast.CallExpr:
			if len(t.Args) != 0 {
				return false
			}
			e = t.Fun
		default:
			return false
		}
	}
}

// ruleNilBreak (NIL-ELEMENT-BREAK): zero instances are expected.
func ruleNilBreak(c *Ctx, rule string, pkgs []*packages.Package) {
	c.Rule(rule, "an absent (nil) element of a ranged-over list is skipped, it does not end the loop for the elements after it", 0)
	p := c.P
	n, loops := 0, 0
	for _, pk := range pkgs {
		l, bad := nilElementBreaks(pk)
		loops += l
		for _, is := range bad {
			n++
			fn := "?"
			if fd := p.EnclosingFuncDecl(is); fd != nil {
				fn = relPkg(pk.PkgPath) + "." + declName(fd)
			}
			c.Ob(rule, fn+"/"+exprString(is.Cond), is.Pos(), false, true, "`if %s { break / return nil }` drops every later element of the list because this one lacks something; `continue` skips just this one", exprString(is.Cond))
		}
	}
	c.Ob(rule, "packages-scanned", token.NoPos, n == 0, len(pkgs) > 0, "%d packages, %d value-range loops scanned, %d leave the loop on a nil element", len(pkgs), loops, n)
}
