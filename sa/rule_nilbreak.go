package main

import (
	"go/ast"
	"go/token"
	"go/types"

	"golang.org/x/tools/go/packages"
)

// nilElementBreaks lists `for _, x := range list { if x == nil { break } … }`: the branch does nothing but leave the
// loop, and is taken because the current element is absent. The elements of a Go list are independent (there is no
// nil-terminated-list idiom), so an absent element is a reason to skip it, not to drop every element after it:
// getB4Digest hashing buf.yaml and buf.lock from `[]ObjectData{yaml, lock}` would ignore a buf.lock whenever there is
// no buf.yaml. A first-match search is not of this shape: its break follows a positive test or records the match.
func nilElementBreaks(pk *packages.Package) (loops int, bad []*ast.IfStmt) {
	info := pk.TypesInfo
	for _, f := range pk.Syntax {
		if isGenerated(f) {
			continue
		}
		ast.Inspect(f, func(n ast.Node) bool {
			rs, ok := n.(*ast.RangeStmt)
			if !ok || rs.Value == nil || rs.Tok != token.DEFINE {
				return true
			}
			val := identObj(info, rs.Value)
			if val == nil || val.Name() == "_" {
				return true
			}
			switch info.TypeOf(rs.X).Underlying().(type) {
			case *types.Slice, *types.Array, *types.Map:
			default:
				return true
			}
			loops++
			for _, st := range rs.Body.List {
				is, ok := st.(*ast.IfStmt)
				if !ok || is.Init != nil || is.Else != nil || len(is.Body.List) != 1 {
					continue
				}
				br, ok := is.Body.List[0].(*ast.BranchStmt)
				if !ok || br.Tok != token.BREAK || br.Label != nil {
					continue
				}
				be, ok := ast.Unparen(is.Cond).(*ast.BinaryExpr)
				if !ok || be.Op != token.EQL {
					continue
				}
				x, y := ast.Unparen(be.X), ast.Unparen(be.Y)
				if isNilIdent(info, x) {
					x, y = y, x
				}
				if !isNilIdent(info, y) {
					continue
				}
				if id, ok := x.(*ast.Ident); ok && info.Uses[id] == val {
					bad = append(bad, is)
				}
			}
			return true
		})
	}
	return loops, bad
}

// ruleNilBreak (NIL-ELEMENT-BREAK): zero instances are expected.
func ruleNilBreak(c *Ctx, rule string, pkgs []*packages.Package) {
	c.Rule(rule, "an absent (nil) element of a ranged-over list is skipped, it does not end the loop for the elements after it", 0)
	p := c.P
	n, loops := 0, 0
	for _, pk := range pkgs {
		l, bad := nilElementBreaks(pk)
		loops += l
		for _, is := range bad {
			n++
			fn := "?"
			if fd := p.EnclosingFuncDecl(is); fd != nil {
				fn = relPkg(pk.PkgPath) + "." + declName(fd)
			}
			c.Ob(rule, fn+"/"+exprString(is.Cond), is.Pos(), false, true, "`if %s { break }` drops every later element of the list because this one is absent; `continue` skips just this one", exprString(is.Cond))
		}
	}
	c.Ob(rule, "packages-scanned", token.NoPos, n == 0, len(pkgs) > 0, "%d packages, %d value-range loops scanned, %d leave the loop on a nil element", len(pkgs), loops, n)
}
