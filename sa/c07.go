package main

// C07 — formatting preserves meaning and comments and is idempotent (narrow structural part).

import (
	"fmt"
	"go/ast"
	"go/token"
	"go/types"
	"regexp"
	"sort"
	"strings"

	"golang.org/x/tools/go/packages"
	"golang.org/x/tools/go/ssa"
)

const pkgFormat = "private/buf/bufformat"
const pkgPCAst = "github.com/bufbuild/protocompile/ast"

func init() {
	register(&propCheck{
		ID: "C07",
		Explanation: "Structural necessary conditions of 'nothing of the input is dropped by the printer': (1) NODE-COVERAGE — writeNode's type switch has a case for every concrete node type of " +
			"protocompile/ast (reviewed exceptions: nodes written by dedicated callers or never produced by the parser), its default records an error, and no case silently does nothing; " +
			"(2) HEADER-PARTITION — the file-element kinds collected by writeFileHeader are exactly the kinds skipped by writeFileTypes, every other kind reaches writeNode; package, every import " +
			"and every option collected is written; an import is skipped as a duplicate only when it has the previous import's name and carries no comment; (3) CHILD-COVERAGE — for every node " +
			"type, every exported child/token field (Keyword, Name, Equals, Semicolon, OpenBrace, Decls, …) is handed to a write function somewhere in the formatter (a token that is never " +
			"written loses its text and its comments); (4) TERMINAL-COMMENTS — a terminal node is emitted through writeNode only in a function that also consults that node's comment info, " +
			"i.e. through one of the comment-aware writers; (5) STABLE-SORT — header canonicalisation never sorts option nodes with an unstable sort (equal names = a repeated option whose " +
			"order is its value); (6) ERR-SURFACE — f.err only accumulates (errors.Join(f.err, …)), Run returns it, FormatFileNode returns Run's result, every Write error is consumed " +
			"(R-ERRUSE), FormatBucket returns every job's error and closes what it opens. NOT decided (the heart of the property): descriptor equality before/after, comment placement and " +
			"idempotence over concrete texts — those depend on the printer's whitespace/comment state machine and need execution.",
		Assumptions: []string{"protocompile's parser produces only the node types of its ast package and attaches every comment to a terminal node's NodeInfo"},
		Run:         runC07,
	})
}

// node types of protocompile/ast that need no case in writeNode
var c07NoCase = map[string]string{
	"FileNode":                  "the root: written by writeFile (header + types + EOF comments)",
	"EditionNode":               "written by writeFileHeader through writeEdition (never a FileNode.Decls element)",
	"NoSourceNode":              "placeholder for descriptors without source; never produced by the parser",
	"SyntheticMapField":         "synthetic node created while linking map entries; never produced by the parser",
	"SyntheticGroupMessageNode": "synthetic view of a group; never produced by the parser",
	"SyntheticOneof":            "synthetic node for proto3 optional; never produced by the parser",
	"SyntheticMapEntryNode":     "synthetic view of a map field; never produced by the parser",
}

// helpers that only forward a node to a writer (their result, or their argument, ends up in a write call)
var c07Forwarders = map[string]bool{
	"messageLiteralOpen":  true,
	"messageLiteralClose": true,
}

// exported child fields that need not be written
var c07ChildNotWritten = map[string]string{
	"FieldNode.Extendee":        "back pointer to the enclosing extend block, not a child",
	"GroupNode.Extendee":        "back pointer to the enclosing extend block, not a child",
	"FileNode.EOF":              "the EOF token has no text; only its leading comments are written (writeFile uses nodeInfo(EOF))",
	"MessageFieldNode.Sep":      "the optional ':' separator: written when present via writeMessageFieldPrefix",
	"ArrayLiteralNode.Commas":   "separators are re-derived (one element per line), their comments are moved with setTrailingComments",
	"MessageLiteralNode.Seps":   "optional separators are dropped, their comments are moved with setTrailingComments",
	"CompactOptionsNode.Commas": "separators are re-derived, their comments are moved with setTrailingComments",
}

func runC07(c *Ctx) {
	p := c.P
	c.Rule("NODE-COVERAGE", "every concrete protocompile/ast node type has a non-empty case in writeNode (or a reviewed reason), and the default records an error", 40)
	c.Rule("HEADER-PARTITION", "header kinds collected = kinds skipped by the body pass; everything collected is written; duplicates are skipped only when name-equal and comment-free", 6)
	c.Rule("CHILD-COVERAGE", "every exported child/token field of every node type is handed to a write function", 120)
	c.Rule("TERMINAL-COMMENTS", "a terminal node goes through writeNode only where its comment info is consulted", 10)
	c.Rule("STABLE-SORT", "option nodes are never sorted with an unstable sort", 1)
	c.Rule("ERR-SURFACE", "printer errors accumulate in f.err and reach the caller", 6)
	c.Rule("R-ERRUSE", "no error-returning call of the formatter packages has an unconsumed error", 5)
	c.Rule("R-DEFER", "deferred assignments to named error results join, never overwrite", 1)

	pk := p.Pkg(pkgFormat)
	pa := p.Pkg(pkgPCAst)
	if pk == nil || pa == nil {
		c.Fail("NODE-COVERAGE", "anchor", token.NoPos, "bufformat or protocompile/ast not loaded")
		return
	}
	info := pk.TypesInfo
	c07Field, c07Setter, c07Reader = c07OverrideNames(p, pk)
	nodeIface := lookupIface(pa, "Node")
	termIface := lookupIface(pa, "TerminalNode")
	compIface := lookupIface(pa, "CompositeNode")
	if nodeIface == nil || termIface == nil || compIface == nil {
		c.Fail("NODE-COVERAGE", "anchor", token.NoPos, "ast.Node / TerminalNode / CompositeNode interfaces not found")
		return
	}
	// concrete node types
	type nodeType struct {
		Name  string
		Named *types.Named
		Ptr   bool // pointer receiver implements Node
	}
	var nodes []nodeType
	scope := pa.Types.Scope()
	for _, name := range scope.Names() {
		tn, ok := scope.Lookup(name).(*types.TypeName)
		if !ok || tn.IsAlias() || !tn.Exported() {
			continue
		}
		named, ok := tn.Type().(*types.Named)
		if !ok || types.IsInterface(named) {
			continue
		}
		switch {
		case types.Implements(named, nodeIface):
			nodes = append(nodes, nodeType{name, named, false})
		case types.Implements(types.NewPointer(named), nodeIface):
			nodes = append(nodes, nodeType{name, named, true})
		}
	}
	if len(nodes) < 40 {
		c.Fail("NODE-COVERAGE", "anchor", token.NoPos, "only %d concrete node types found in protocompile/ast", len(nodes))
	}

	emptyCase := map[string]bool{}
	// ---- (1) NODE-COVERAGE
	wn := p.Func(pkgFormat, "formatter.writeNode")
	var sw *ast.TypeSwitchStmt
	// writeNode's dispatch: its own type switch, or - when the switch was split - the type switches of the formatter
	// methods it hands its node to (`f.writeDeclNode(node) || f.writeValueNode(node)`); the arms are read together
	dispatchFns := map[string]bool{"writeNode": true}
	var allClauses []*ast.CaseClause
	var afterSwitch []ast.Stmt // what writeNode does when no arm of a split dispatch took the node
	if wn != nil {
		ast.Inspect(wn.Decl.Body, func(n ast.Node) bool {
			if s, ok := n.(*ast.TypeSwitchStmt); ok && sw == nil {
				sw = s
			}
			return true
		})
		if sw != nil {
			for _, st := range sw.Body.List {
				allClauses = append(allClauses, st.(*ast.CaseClause))
			}
		} else if wn.Decl.Type.Params != nil && len(wn.Decl.Type.Params.List) == 1 && len(wn.Decl.Type.Params.List[0].Names) == 1 {
			nodeParam := info.Defs[wn.Decl.Type.Params.List[0].Names[0]]
			ast.Inspect(wn.Decl.Body, func(n ast.Node) bool {
				call, ok := n.(*ast.CallExpr)
				if !ok || len(call.Args) != 1 || identObj(info, call.Args[0]) != nodeParam || !isFormatterMethodCall(info, call) {
					return true
				}
				if h := p.DeclOf(Callee(info, call)); h != nil && h.Decl.Body != nil {
					ast.Inspect(h.Decl.Body, func(m ast.Node) bool {
						if s, ok := m.(*ast.TypeSwitchStmt); ok {
							dispatchFns[h.Decl.Name.Name] = true
							if sw == nil {
								sw = s
							}
							for _, st := range s.Body.List {
								if cc := st.(*ast.CaseClause); cc.List != nil {
									allClauses = append(allClauses, cc)
								}
							}
							return false
						}
						return true
					})
				}
				return true
			})
			afterSwitch = wn.Decl.Body.List
		}
	}
	if sw == nil {
		c.Fail("NODE-COVERAGE", "writeNode", token.NoPos, "formatter.writeNode or its type switch not found")
	} else {
		var caseTypes []types.Type
		caseOf := map[string]*ast.CaseClause{}
		var deflt *ast.CaseClause
		for _, cc := range allClauses {
			if cc.List == nil {
				deflt = cc
				continue
			}
			for _, e := range cc.List {
				t := info.TypeOf(e)
				if t == nil {
					continue
				}
				caseTypes = append(caseTypes, t)
				caseOf[types.TypeString(t, nil)] = cc
			}
		}
		covered := func(nt nodeType) (bool, *ast.CaseClause) {
			ptr := types.NewPointer(nt.Named)
			for _, ct := range caseTypes {
				if types.Identical(ct, ptr) || (!nt.Ptr && types.Identical(ct, nt.Named)) {
					return true, caseOf[types.TypeString(ct, nil)]
				}
				if it, ok := ct.Underlying().(*types.Interface); ok && (types.Implements(ptr, it) || types.Implements(nt.Named, it)) {
					return true, caseOf[types.TypeString(ct, nil)]
				}
			}
			return false, nil
		}
		for _, nt := range nodes {
			ok, cc := covered(nt)
			reason, exempt := c07NoCase[nt.Name]
			switch {
			case ok:
				c.Ob("NODE-COVERAGE", "case "+nt.Name, cc.Pos(), true, true, "writeNode has a case for ast.%s", nt.Name)
				// the case does something with the element
				does := false
				for _, s := range cc.Body {
					ast.Inspect(s, func(n ast.Node) bool {
						if call, ok := n.(*ast.CallExpr); ok && isFormatterMethodCall(info, call) {
							does = true
						}
						return true
					})
				}
				if !does {
					emptyCase[nt.Name] = true
				}
				c.Ob("NODE-COVERAGE", "case-body "+nt.Name, cc.Pos(), does, true,
					"the case for ast.%s calls a formatter method (an empty case drops the node together with the comments attached to its tokens): %v", nt.Name, does)
			case exempt:
				c.Ob("NODE-COVERAGE", "exempt "+nt.Name, sw.Pos(), true, false, "ast.%s needs no case: %s", nt.Name, reason)
			default:
				c.Ob("NODE-COVERAGE", "case "+nt.Name, sw.Pos(), false, true, "writeNode has no case for ast.%s: such a node would only produce the 'unexpected node' error or, worse, be skipped", nt.Name)
			}
		}
		for name := range c07NoCase {
			found := false
			for _, nt := range nodes {
				if nt.Name == name {
					found = true
				}
			}
			if !found {
				c.Note("NODE-COVERAGE: exemption for ast.%s is stale (no such node type)", name)
			}
		}
		okDefault := false
		for _, st := range afterSwitch {
			// split dispatch: the statement after the helpers' calls records the error
			if as, ok := st.(*ast.AssignStmt); ok && len(as.Lhs) == 1 && isFErr(info, as.Lhs[0]) && isJoinOfFErr(info, as.Rhs[0]) {
				okDefault = true
			}
		}
		if deflt != nil {
			for _, s := range deflt.Body {
				if as, ok := s.(*ast.AssignStmt); ok && len(as.Lhs) == 1 && isFErr(info, as.Lhs[0]) && isJoinOfFErr(info, as.Rhs[0]) {
					okDefault = true
				}
			}
		}
		c.Ob("NODE-COVERAGE", "default-records-error", sw.Pos(), okDefault, true, "writeNode's default clause joins an error into f.err: %v", okDefault)
	}

	// ---- (2) HEADER-PARTITION
	c07Header(c, pk, pa)

	// ---- (3) CHILD-COVERAGE
	written, tested := c07FieldUses(p, pk, pa)
	for _, nt := range nodes {
		if _, exempt := c07NoCase[nt.Name]; exempt && nt.Name != "FileNode" && nt.Name != "EditionNode" {
			continue
		}
		st, ok := nt.Named.Underlying().(*types.Struct)
		if !ok || emptyCase[nt.Name] {
			continue // a node whose case does nothing is already one NODE-COVERAGE violation
		}
		for _, fld := range nodeChildFields(st, nodeIface, "") {
			key := nt.Name + "." + fld
			if reason, ok := c07ChildNotWritten[key]; ok && written[key] == 0 {
				c.Ob("CHILD-COVERAGE", key, token.NoPos, true, false, "reviewed: %s (consulted %d times)", reason, tested[key])
				continue
			}
			c.Ob("CHILD-COVERAGE", key, token.NoPos, written[key] > 0, true,
				"ast.%s is handed to a formatter function %d times (only inspected: %d); a child that is never written loses its text and comments", key, written[key], tested[key])
		}
	}

	// ---- (4) TERMINAL-COMMENTS
	mayBeTerminal := func(t types.Type) bool {
		if t == nil {
			return false
		}
		if it, ok := t.Underlying().(*types.Interface); ok {
			for _, nt := range nodes {
				ptr := types.NewPointer(nt.Named)
				if (types.Implements(ptr, it) || types.Implements(nt.Named, it)) && (types.Implements(ptr, termIface) || types.Implements(nt.Named, termIface)) {
					return true
				}
			}
			return false
		}
		return types.Implements(t, termIface) || types.Implements(types.NewPointer(t), termIface)
	}
	for _, fr := range p.FuncsOf(pk) {
		if fr.Decl.Body == nil || fr.Decl.Name.Name == "writeNode" {
			continue
		}
		ast.Inspect(fr.Decl.Body, func(n ast.Node) bool {
			call, ok := n.(*ast.CallExpr)
			if !ok || len(call.Args) != 1 {
				return true
			}
			fn := Callee(info, call)
			if fn == nil || fn.Name() != "writeNode" || fn.Pkg() != pk.Types {
				return true
			}
			arg := call.Args[0]
			if !mayBeTerminal(info.TypeOf(arg)) {
				return true
			}
			c.CallSites++
			want := exprString(arg)
			consults := false
			ast.Inspect(fr.Decl.Body, func(m ast.Node) bool {
				if c2, ok := m.(*ast.CallExpr); ok && len(c2.Args) == 1 {
					if f2 := Callee(info, c2); f2 != nil && f2.Name() == c07Reader && exprString(c2.Args[0]) == want {
						consults = true
					}
				}
				return true
			})
			c.Ob("TERMINAL-COMMENTS", fr.ID()+"/writeNode("+want+")", call.Pos(), consults, true,
				"writeNode(%s) with a possibly terminal node (%s): the same function consults f.nodeInfo(%s) for its comments: %v", want, typeShort(info.TypeOf(arg)), want, consults)
			return true
		})
	}
	// the leaf writers (writeRune/writeIdent/…) are reached only from writeNode
	leaf := map[string]bool{}
	if sw != nil {
		for _, cc := range allClauses {
			for _, e := range cc.List {
				if t := info.TypeOf(e); t != nil && types.Implements(t, termIface) {
					for _, s := range cc.Body {
						ast.Inspect(s, func(n ast.Node) bool {
							if call, ok := n.(*ast.CallExpr); ok {
								if fn := Callee(info, call); fn != nil && fn.Pkg() == pk.Types {
									leaf[fn.Name()] = true
								}
							}
							return true
						})
					}
				}
			}
		}
	}
	for _, fr := range p.FuncsOf(pk) {
		if fr.Decl.Body == nil || dispatchFns[fr.Decl.Name.Name] {
			continue
		}
		ast.Inspect(fr.Decl.Body, func(n ast.Node) bool {
			call, ok := n.(*ast.CallExpr)
			if !ok {
				return true
			}
			fn := Callee(info, call)
			if fn == nil || fn.Pkg() != pk.Types || !leaf[fn.Name()] {
				return true
			}
			if leaf[fr.Decl.Name.Name] {
				return true // a leaf writer delegating to another leaf writer (writeRaw)
			}
			// allowed when the function consults nodeInfo of the same argument, else it bypasses comments
			want := ""
			if len(call.Args) > 0 {
				want = exprString(call.Args[0])
			}
			consults := false
			ast.Inspect(fr.Decl.Body, func(m ast.Node) bool {
				if c2, ok := m.(*ast.CallExpr); ok && len(c2.Args) == 1 {
					if f2 := Callee(info, c2); f2 != nil && f2.Name() == c07Reader && exprString(c2.Args[0]) == want {
						consults = true
					}
				}
				return true
			})
			c.Ob("TERMINAL-COMMENTS", fr.ID()+"/"+fn.Name()+"("+want+")", call.Pos(), consults, true,
				"leaf writer %s called outside writeNode: the caller consults f.nodeInfo(%s): %v", fn.Name(), want, consults)
			return true
		})
	}
	c.Ob("TERMINAL-COMMENTS", "leaf-writers", token.NoPos, len(leaf) >= 5, true, "%d leaf writers of terminal nodes identified from writeNode's cases: %s", len(leaf), strings.Join(sortedBoolKeys(leaf), ","))

	c07OverrideKeys(c, pk, pa, nodeIface, termIface)
	c07HasCommentCoversTokens(c, pk, pa, nodeIface)
	c07WriterCoverage(c, pk, nodeIface)
	c07Comparators(c, pk)
	c07FirstOutputNoBlank(c, pk)
	c07TransferOnEveryPath(c, pk)
	c07CommentTokens(c, pk)
	c07PreSortRead(c, pk)
	c07ScopedFlagRestored(c)
	c07CompactOnlyScalars(c)
	ruleOpenTruncates(c, "OPEN-TRUNCATES")

	// ---- (5) STABLE-SORT
	for _, fr := range p.FuncsOf(pk) {
		if fr.Decl.Body == nil {
			continue
		}
		ast.Inspect(fr.Decl.Body, func(n ast.Node) bool {
			call, ok := n.(*ast.CallExpr)
			if !ok || len(call.Args) == 0 {
				return true
			}
			fn := Callee(info, call)
			if fn == nil || fn.Pkg() == nil {
				return true
			}
			full := fn.Pkg().Path() + "." + fn.Name()
			unstable := map[string]bool{"sort.Slice": true, "sort.Sort": true, "slices.SortFunc": true, "slices.Sort": true}
			stable := map[string]bool{"sort.SliceStable": true, "sort.Stable": true, "slices.SortStableFunc": true}
			if !unstable[full] && !stable[full] {
				return true
			}
			et := sliceElemName(info.TypeOf(call.Args[0]))
			if et == "" {
				return true
			}
			c.CallSites++
			switch et {
			case "OptionNode":
				c.Ob("STABLE-SORT", fr.ID()+"/"+full+"([]"+et+")", call.Pos(), stable[full], true,
					"%s over option nodes: equal names are a repeated option set several times, whose relative order is its value; stable=%v", full, stable[full])
			case "ImportNode":
				c.Ob("STABLE-SORT", fr.ID()+"/"+full+"([]"+et+")", call.Pos(), true, false, "%s over import nodes: equal keys are duplicate imports, order carries no meaning", full)
			default:
				c.Ob("STABLE-SORT", fr.ID()+"/"+full+"([]"+et+")", call.Pos(), stable[full], true, "%s over %s nodes must be stable: %v", full, et, stable[full])
			}
			return true
		})
	}

	// ---- (6) ERR-SURFACE
	nAssign := 0
	for _, fr := range p.FuncsOf(pk) {
		if fr.Decl.Body == nil {
			continue
		}
		ast.Inspect(fr.Decl.Body, func(n ast.Node) bool {
			as, ok := n.(*ast.AssignStmt)
			if !ok {
				return true
			}
			for i, lhs := range as.Lhs {
				if !isFErr(info, lhs) {
					continue
				}
				nAssign++
				ok := len(as.Rhs) == len(as.Lhs) && isJoinOfFErr(info, as.Rhs[i])
				c.Ob("ERR-SURFACE", fmt.Sprintf("%s/f.err=#%d", fr.ID(), nAssign), as.Pos(), ok, true, "assignment to f.err is errors.Join(f.err, …) (accumulates, never overwrites): %v", ok)
			}
			return true
		})
	}
	if run := p.Func(pkgFormat, "formatter.Run"); run == nil {
		c.Fail("ERR-SURFACE", "Run", token.NoPos, "formatter.Run not found")
	} else {
		g := p.CFGOf(run.Decl.Body, info)
		rets := g.Returns()
		ok := len(rets) > 0 && !g.FallsOffEnd()
		var wf ast.Node
		ast.Inspect(run.Decl.Body, func(n ast.Node) bool {
			if call, ok := n.(*ast.CallExpr); ok {
				if fn := Callee(info, call); fn != nil && fn.Name() == "writeFile" {
					wf = call
				}
			}
			return true
		})
		for _, r := range rets {
			if len(r.Results) != 1 || !isFErr(info, r.Results[0]) || wf == nil || !g.Dominates(wf, r) {
				ok = false
			}
		}
		c.Ob("ERR-SURFACE", "Run-returns-f.err", run.Decl.Pos(), ok, true, "every return of Run is `return f.err`, after writeFile: %v", ok)
	}
	if ffn := p.Func(pkgFormat, "FormatFileNode"); ffn == nil {
		c.Fail("ERR-SURFACE", "FormatFileNode", token.NoPos, "not found")
	} else {
		ok := true
		n := 0
		ast.Inspect(ffn.Decl.Body, func(x ast.Node) bool {
			if r, isRet := x.(*ast.ReturnStmt); isRet {
				n++
				if len(r.Results) != 1 {
					ok = false
					return true
				}
				call, isCall := ast.Unparen(r.Results[0]).(*ast.CallExpr)
				if !isCall {
					ok = false
					return true
				}
				if fn := Callee(info, call); fn == nil || fn.Name() != "Run" {
					ok = false
				}
			}
			return true
		})
		c.Ob("ERR-SURFACE", "FormatFileNode-returns-Run", ffn.Decl.Pos(), ok && n > 0, true, "FormatFileNode returns the result of formatter.Run: %v", ok && n > 0)
	}
	// FormatBucket: a failed FormatFileNode returns the error from the job, and the job list is run through Parallelize whose error is returned
	if fb := p.Func(pkgFormat, "FormatBucket"); fb == nil {
		c.Fail("ERR-SURFACE", "FormatBucket", token.NoPos, "not found")
	} else {
		seenFormat, seenPar := false, false
		// decided on SSA over everything FormatBucket is made of (its closures, and package functions it calls or hands
		// over as job functions): the error of FormatFileNode and of thread.Parallelize reaches a return of the function
		// that made the call, and the failing edge of any test of it ends in a non-nil error return
		if sfb := p.SSAFunc(fb.Obj); sfb != nil {
			parts := map[*ssa.Function]bool{}
			var add func(f *ssa.Function, depth int)
			add = func(f *ssa.Function, depth int) {
				if f == nil || parts[f] || f.Blocks == nil || f.Pkg == nil || f.Pkg.Pkg != pk.Types {
					return
				}
				parts[f] = true
				for _, a := range f.AnonFuncs {
					add(a, depth)
				}
				if depth == 0 {
					return
				}
				for _, b := range f.Blocks {
					for _, ins := range b.Instrs {
						for _, op := range ins.Operands(nil) {
							if op != nil && *op != nil {
								if g, ok := (*op).(*ssa.Function); ok {
									add(g, depth-1)
								}
							}
						}
					}
				}
			}
			add(sfb, 2)
			for f := range parts {
				for _, call := range callsIn(f) {
					o := staticCalleeObj(call.Call)
					if o == nil {
						continue
					}
					which := ""
					switch {
					case o.Name() == "FormatFileNode" && o.Pkg() == pk.Types:
						which = "FormatFileNode"
					case isFuncNamed(o, "private/pkg/thread", "", "Parallelize"):
						which = "Parallelize"
					default:
						continue
					}
					ev, ok := call.Instr.(ssa.Value)
					if !ok {
						continue
					}
					returned := false
					for _, r := range returnsOf(f) {
						if len(r.Results) > 0 && dependsOnValue(spilledResult(r, r.Results[len(r.Results)-1]), ev) {
							returned = true
						}
					}
					failsOnErr := true
					if ev.Referrers() != nil {
						for _, r := range *ev.Referrers() {
							bo, isCmp := r.(*ssa.BinOp)
							if !isCmp || !(isNilConst(bo.X) || isNilConst(bo.Y)) || bo.Referrers() == nil {
								continue
							}
							for _, rr := range *bo.Referrers() {
								if iff, isIf := rr.(*ssa.If); isIf {
									nonNil := iff.Block().Succs[0]
									if bo.Op == token.EQL {
										nonNil = iff.Block().Succs[1]
									}
									if !blockAlwaysFails(nonNil, map[*ssa.BasicBlock]bool{}) {
										failsOnErr = false
									}
								}
							}
						}
					}
					okP := returned && failsOnErr
					if which == "FormatFileNode" {
						seenFormat = true
						c.Ob("ERR-SURFACE", "FormatBucket/FormatFileNode-error-returned", call.Pos(), okP, true, "a formatting error fails the job: %v", okP)
					} else {
						seenPar = true
						c.Ob("ERR-SURFACE", "FormatBucket/Parallelize-error-returned", call.Pos(), okP, true, "a failed job fails FormatBucket (no partially formatted bucket is returned): %v", okP)
					}
				}
			}
		}
		if !seenFormat || !seenPar {
			c.Fail("ERR-SURFACE", "FormatBucket/shape", fb.Decl.Pos(), "FormatBucket no longer has the `if err := FormatFileNode/Parallelize(...); err != nil { return err }` shape (FormatFileNode=%v Parallelize=%v)", seenFormat, seenPar)
		}
	}
	pkgs := []*packages.Package{pk}
	if q := p.Pkg("private/buf/cmd/buf/command/format"); q != nil {
		pkgs = append(pkgs, q)
	}
	ruleErrUse(c, "R-ERRUSE", pkgs, func(string) (bool, string) { return true, "" }, c15AllowedErrUse)
	ruleDefer(c, "R-DEFER", pkgs)
}

func lookupIface(pk *packages.Package, name string) *types.Interface {
	o := pk.Types.Scope().Lookup(name)
	if o == nil {
		return nil
	}
	it, _ := o.Type().Underlying().(*types.Interface)
	return it
}

func isFormatterMethodCall(info *types.Info, call *ast.CallExpr) bool {
	fn := Callee(info, call)
	if fn == nil {
		return false
	}
	sig, ok := fn.Type().(*types.Signature)
	if !ok || sig.Recv() == nil {
		return false
	}
	return namedName(sig.Recv().Type()) == "formatter"
}

// isFErr: expression `f.err` on the formatter.
func isFErr(info *types.Info, e ast.Expr) bool {
	sel, ok := ast.Unparen(e).(*ast.SelectorExpr)
	if !ok || sel.Sel.Name != "err" {
		return false
	}
	return namedName(info.TypeOf(sel.X)) == "formatter"
}

func isJoinOfFErr(info *types.Info, e ast.Expr) bool {
	call, ok := ast.Unparen(e).(*ast.CallExpr)
	if !ok {
		return false
	}
	fn := Callee(info, call)
	if fn == nil || fn.Pkg() == nil || fn.Pkg().Path() != "errors" || fn.Name() != "Join" {
		return false
	}
	for _, a := range call.Args {
		if isFErr(info, a) {
			return true
		}
	}
	return false
}

func sortedBoolKeys(m map[string]bool) []string {
	var out []string
	for k := range m {
		out = append(out, k)
	}
	sort.Strings(out)
	return out
}

// sliceElemName: for []*ast.X returns "X".
func sliceElemName(t types.Type) string {
	if t == nil {
		return ""
	}
	sl, ok := t.Underlying().(*types.Slice)
	if !ok {
		return ""
	}
	et := sl.Elem()
	if pt, ok := et.(*types.Pointer); ok {
		et = pt.Elem()
	}
	if n, ok := et.(*types.Named); ok && n.Obj().Pkg() != nil && n.Obj().Pkg().Path() == pkgPCAst {
		return n.Obj().Name()
	}
	return ""
}

// nodeChildFields lists the exported fields of st (promoting embedded exported structs) whose type is a node, a
// node interface or a slice of those.
func nodeChildFields(st *types.Struct, nodeIface *types.Interface, prefix string) []string {
	var out []string
	isNodeT := func(t types.Type) bool {
		if sl, ok := t.Underlying().(*types.Slice); ok {
			t = sl.Elem()
		}
		if it, ok := t.Underlying().(*types.Interface); ok {
			// an interface that embeds Node
			return types.Implements(t, nodeIface) || types.AssignableTo(it, nodeIface)
		}
		return types.Implements(t, nodeIface)
	}
	for i := 0; i < st.NumFields(); i++ {
		f := st.Field(i)
		if f.Embedded() {
			t := f.Type()
			if pt, ok := t.(*types.Pointer); ok {
				t = pt.Elem()
			}
			if es, ok := t.Underlying().(*types.Struct); ok && f.Exported() {
				out = append(out, nodeChildFields(es, nodeIface, prefix)...)
			}
			continue
		}
		if !f.Exported() {
			continue
		}
		if isNodeT(f.Type()) {
			out = append(out, prefix+f.Name())
		}
	}
	return out
}

// c07FieldUses classifies every selection of a child field of a protocompile/ast node type inside bufformat:
// written = the selected value (or an element of it, or a variable bound to it) is an argument of a call to a
// function of the package; tested = any other use.
var c07Field, c07Setter, c07Reader string

// c07PerFn: "func/param" -> child fields of the parameter's node that the function hands to writers itself.
var c07PerFn map[string]map[string]bool

func isParamOf(info *types.Info, fd *ast.FuncDecl, v *types.Var) bool {
	if fd.Type.Params == nil {
		return false
	}
	for _, fl := range fd.Type.Params.List {
		for _, nm := range fl.Names {
			if info.Defs[nm] == types.Object(v) {
				return true
			}
		}
	}
	return false
}

func c07FieldUses(p *Prog, pk *packages.Package, pa *packages.Package) (written, tested map[string]int) {
	written, tested = map[string]int{}, map[string]int{}
	c07PerFn = map[string]map[string]bool{}
	info := pk.TypesInfo
	ownerOf := func(sel *ast.SelectorExpr) string {
		s := info.Selections[sel]
		if s == nil || s.Kind() != types.FieldVal {
			return ""
		}
		t := s.Recv()
		if pt, ok := t.(*types.Pointer); ok {
			t = pt.Elem()
		}
		n, ok := t.(*types.Named)
		if !ok || n.Obj().Pkg() == nil || n.Obj().Pkg().Path() != pkgPCAst {
			return ""
		}
		return n.Obj().Name() + "." + sel.Sel.Name
	}
	isPkgCall := func(call *ast.CallExpr) bool {
		if fn := Callee(info, call); fn != nil {
			// only the writers count: f.nodeInfo / f.nodeHasComment / hasInteriorComments are queries
			return fn.Pkg() == pk.Types && (strings.HasPrefix(fn.Name(), "write") || c07Forwarders[fn.Name()])
		}
		// call of a local closure or function-typed parameter
		switch ast.Unparen(call.Fun).(type) {
		case *ast.Ident:
			return true
		}
		return false
	}
	var objPassed func(fnBody ast.Node, obj types.Object, depth int) bool
	var exprPassed func(e ast.Expr, depth int) bool
	exprPassed = func(e ast.Expr, depth int) bool {
		var cur ast.Node = e
		for {
			par := p.Parent(cur)
			switch x := par.(type) {
			case *ast.ParenExpr, *ast.IndexExpr, *ast.SliceExpr, *ast.TypeAssertExpr, *ast.StarExpr:
				if ix, ok := x.(*ast.IndexExpr); ok && ix.X != cur {
					return false
				}
				cur = par
				continue
			case *ast.SelectorExpr:
				// n.F.G handed to a writer: F is written through its own child G
				if x.X != cur {
					return false
				}
				if sl := info.Selections[x]; sl == nil || sl.Kind() != types.FieldVal {
					return false
				}
				cur = par
				continue
			case *ast.CallExpr:
				for _, a := range x.Args {
					if a == cur {
						return isPkgCall(x)
					}
				}
				return false
			case *ast.RangeStmt:
				if x.X != cur || depth > 2 {
					return false
				}
				if x.Value != nil {
					if o := identObj(info, x.Value); o != nil && objPassed(x.Body, o, depth+1) {
						return true
					}
				}
				// `for i := range n.F { … n.F[i] … }` is seen at the indexed use
				return false
			case *ast.ReturnStmt:
				// returned by a helper of the package: written when some call of the helper is
				if depth > 2 {
					return false
				}
				fd := p.EnclosingFuncDecl(x)
				if fd == nil {
					return false
				}
				fobj := info.Defs[fd.Name]
				hit := false
				for _, f := range pk.Syntax {
					ast.Inspect(f, func(n ast.Node) bool {
						if call, ok := n.(*ast.CallExpr); ok && !hit {
							if fn := Callee(info, call); fn != nil && types.Object(fn) == fobj && exprPassed(call, depth+1) {
								hit = true
							}
						}
						return true
					})
				}
				return hit
			case *ast.AssignStmt:
				if depth > 2 {
					return false
				}
				if ts, ok := p.Parent(x).(*ast.TypeSwitchStmt); ok && ts.Assign == ast.Stmt(x) {
					for _, st := range ts.Body.List {
						cc := st.(*ast.CaseClause)
						if obj := info.Implicits[cc]; obj != nil {
							for _, s := range cc.Body {
								if objPassed(s, obj, depth+1) {
									return true
								}
							}
						}
					}
					return false
				}
				for i, r := range x.Rhs {
					if r == cur && i < len(x.Lhs) {
						if o := identObj(info, x.Lhs[i]); o != nil {
							if fn := p.EnclosingFunc(x); fn != nil && objPassed(funcBody(fn), o, depth+1) {
								return true
							}
						}
					}
				}
				return false
			case *ast.ValueSpec:
				if depth > 2 {
					return false
				}
				for i, r := range x.Values {
					if r == cur && i < len(x.Names) {
						if o := info.Defs[x.Names[i]]; o != nil {
							if fn := p.EnclosingFunc(x); fn != nil && objPassed(funcBody(fn), o, depth+1) {
								return true
							}
						}
					}
				}
				return false
			case *ast.TypeSwitchStmt, *ast.ExprStmt:
				return false
			}
			// `switch v := n.F.(type)`: the guard is an AssignStmt handled above only for plain ones
			return false
		}
	}
	objPassed = func(body ast.Node, obj types.Object, depth int) bool {
		if body == nil {
			return false
		}
		hit := false
		ast.Inspect(body, func(n ast.Node) bool {
			id, ok := n.(*ast.Ident)
			if !ok || hit {
				return true
			}
			if info.Uses[id] == obj && exprPassed(id, depth) {
				hit = true
			}
			return true
		})
		return hit
	}
	for _, f := range pk.Syntax {
		ast.Inspect(f, func(n ast.Node) bool {
			sel, ok := n.(*ast.SelectorExpr)
			if !ok {
				return true
			}
			key := ownerOf(sel)
			if key == "" {
				return true
			}
			// type switch guard `switch v := n.F.(type)` binds v per clause: accept when any clause passes its v
			if exprPassed(sel, 0) || typeSwitchPasses(p, info, sel, exprPassed) {
				written[key]++
				if fd := p.EnclosingFuncDecl(sel); fd != nil {
					if po, ok := identObj(info, sel.X).(*types.Var); ok && isParamOf(info, fd, po) {
						k := fd.Name.Name + "/" + po.Name()
						if c07PerFn[k] == nil {
							c07PerFn[k] = map[string]bool{}
						}
						c07PerFn[k][sel.Sel.Name] = true
					}
				}
			} else {
				tested[key]++
			}
			return true
		})
	}
	return
}

// typeSwitchPasses: sel is the operand of `switch v := sel.(type)`, and some clause passes its v to a package call.
func typeSwitchPasses(p *Prog, info *types.Info, sel ast.Expr, exprPassed func(ast.Expr, int) bool) bool {
	var cur ast.Node = sel
	par := p.Parent(cur)
	ta, ok := par.(*ast.TypeAssertExpr)
	if !ok || ta.Type != nil {
		return false
	}
	var ts *ast.TypeSwitchStmt
	for n := p.Parent(ta); n != nil; n = p.Parent(n) {
		if t, ok := n.(*ast.TypeSwitchStmt); ok {
			ts = t
			break
		}
		if _, ok := n.(*ast.BlockStmt); ok {
			break
		}
	}
	if ts == nil {
		return false
	}
	hit := false
	for _, st := range ts.Body.List {
		cc := st.(*ast.CaseClause)
		obj := info.Implicits[cc]
		if obj == nil {
			continue
		}
		for _, s := range cc.Body {
			ast.Inspect(s, func(n ast.Node) bool {
				if id, ok := n.(*ast.Ident); ok && info.Uses[id] == obj && exprPassed(id, 1) {
					hit = true
				}
				return true
			})
		}
	}
	return hit
}

// c07Header checks the header/body partition of file elements.
func c07Header(c *Ctx, pk, pa *packages.Package) {
	p := c.P
	info := pk.TypesInfo
	hdr := p.Func(pkgFormat, "formatter.writeFileHeader")
	body := p.Func(pkgFormat, "formatter.writeFileTypes")
	if hdr == nil || body == nil {
		c.Fail("HEADER-PARTITION", "anchor", token.NoPos, "writeFileHeader / writeFileTypes not found")
		return
	}
	typeSwitchOverDecls := func(fr *FuncRef) *ast.TypeSwitchStmt {
		var out *ast.TypeSwitchStmt
		ast.Inspect(fr.Decl.Body, func(n ast.Node) bool {
			if s, ok := n.(*ast.TypeSwitchStmt); ok && out == nil {
				out = s
			}
			return true
		})
		return out
	}
	hs, bs := typeSwitchOverDecls(hdr), typeSwitchOverDecls(body)
	// the body pass may ask a predicate of the package ("is this a header element?") instead of switching itself:
	// the kinds for which the predicate returns true are the skipped ones
	var predSwitch *ast.TypeSwitchStmt
	if bs == nil {
		ast.Inspect(body.Decl.Body, func(n ast.Node) bool {
			call, ok := n.(*ast.CallExpr)
			if !ok || predSwitch != nil {
				return true
			}
			if fn := Callee(info, call); fn != nil && fn.Pkg() == pk.Types {
				if sig, ok := fn.Type().(*types.Signature); ok && sig.Results().Len() == 1 && sig.Results().At(0).Type().String() == "bool" {
					if hd := p.DeclOf(fn); hd != nil && hd.Decl.Body != nil {
						predSwitch = typeSwitchOverDecls(hd)
					}
				}
			}
			return true
		})
	}
	if hs == nil || (bs == nil && predSwitch == nil) {
		c.Fail("HEADER-PARTITION", "switches", token.NoPos, "type switches over the file elements not found")
		return
	}
	// header: case T: <collect>; default: continue
	collected := map[string]types.Object{} // type name -> variable collected into
	for _, st := range hs.Body.List {
		cc := st.(*ast.CaseClause)
		for _, e := range cc.List {
			name := namedName(info.TypeOf(e))
			var into types.Object
			for _, s := range cc.Body {
				if as, ok := s.(*ast.AssignStmt); ok && len(as.Lhs) == 1 {
					into = identObj(info, as.Lhs[0])
				}
			}
			collected[name] = into
		}
	}
	skipped := map[string]bool{}
	var dflt *ast.CaseClause
	if bs != nil {
		for _, st := range bs.Body.List {
			cc := st.(*ast.CaseClause)
			if cc.List == nil {
				dflt = cc
				continue
			}
			skips := false
			for _, s := range cc.Body {
				if b, ok := s.(*ast.BranchStmt); ok && b.Tok == token.CONTINUE {
					skips = true
				}
			}
			for _, e := range cc.List {
				if skips {
					skipped[namedName(info.TypeOf(e))] = true
				}
			}
		}
	} else {
		for _, st := range predSwitch.Body.List {
			cc := st.(*ast.CaseClause)
			yes := false
			for _, s := range cc.Body {
				if r, ok := s.(*ast.ReturnStmt); ok && len(r.Results) == 1 && exprString(r.Results[0]) == "true" {
					yes = true
				}
			}
			for _, e := range cc.List {
				if yes {
					skipped[namedName(info.TypeOf(e))] = true
				}
			}
		}
	}
	var cs, ss []string
	for k := range collected {
		cs = append(cs, k)
	}
	for k := range skipped {
		if k != "EmptyDeclNode" {
			ss = append(ss, k)
		}
	}
	sort.Strings(cs)
	sort.Strings(ss)
	same := strings.Join(cs, ",") == strings.Join(ss, ",")
	c.Ob("HEADER-PARTITION", "collected=skipped", hs.Pos(), same && len(cs) >= 3, true,
		"kinds collected by writeFileHeader {%s} = kinds skipped by writeFileTypes {%s} (a kind skipped but not collected vanishes; collected but not skipped is printed twice)", strings.Join(cs, ","), strings.Join(ss, ","))
	writes := false
	if bs == nil {
		// predicate form: the rest of the loop body writes the element
		ast.Inspect(body.Decl.Body, func(n ast.Node) bool {
			if call, ok := n.(*ast.CallExpr); ok {
				if fn := Callee(info, call); fn != nil && fn.Name() == "writeNode" {
					writes = true
				}
			}
			return true
		})
	}
	if dflt != nil {
		for _, s := range dflt.Body {
			ast.Inspect(s, func(n ast.Node) bool {
				if call, ok := n.(*ast.CallExpr); ok {
					if fn := Callee(info, call); fn != nil && fn.Name() == "writeNode" {
						writes = true
					}
				}
				return true
			})
		}
	}
	if !writes && bs != nil && dflt == nil {
		// no default arm: the arms of the header kinds jump to the next element and what follows the switch in the loop
		// body writes every other kind
		ast.Inspect(body.Decl.Body, func(n ast.Node) bool {
			if n == ast.Node(bs) {
				return false
			}
			if call, ok := n.(*ast.CallExpr); ok && call.Pos() > bs.End() {
				if fn := Callee(info, call); fn != nil && fn.Name() == "writeNode" {
					writes = true
				}
			}
			return true
		})
	}
	c.Ob("HEADER-PARTITION", "default-writes", body.Decl.Pos(), writes, true, "every other file element kind reaches writeNode in writeFileTypes: %v", writes)

	// everything collected is written: the collecting variable is passed to a formatter method, directly or as the
	// range value of a loop over it
	g := p.CFGOf(hdr.Decl.Body, info)
	_ = g
	for _, name := range cs {
		obj := collected[name]
		if obj == nil {
			c.Ob("HEADER-PARTITION", "written "+name, hs.Pos(), false, true, "the case for %s does not store the element", name)
			continue
		}
		passed := false
		var loop *ast.RangeStmt
		ast.Inspect(hdr.Decl.Body, func(n ast.Node) bool {
			switch x := n.(type) {
			case *ast.CallExpr:
				if isFormatterMethodCall(info, x) {
					for _, a := range x.Args {
						if identObj(info, a) == obj {
							passed = true
						}
					}
				}
			case *ast.RangeStmt:
				if identObj(info, x.X) == obj && x.Value != nil {
					vo := identObj(info, x.Value)
					ast.Inspect(x.Body, func(m ast.Node) bool {
						if call, ok := m.(*ast.CallExpr); ok && isFormatterMethodCall(info, call) && strings.HasPrefix(Callee(info, call).Name(), "write") {
							for _, a := range call.Args {
								if identObj(info, a) == vo {
									passed = true
									loop = x
								}
							}
						}
						return true
					})
				}
			}
			return true
		})
		c.Ob("HEADER-PARTITION", "written "+name, hs.Pos(), passed, true, "the collected %s is handed to a write function: %v", name, passed)
		if loop == nil {
			continue
		}
		// the same decision written the other way round: the write call sits under `if !dup { write }`
		ast.Inspect(loop.Body, func(n ast.Node) bool {
			call, ok := n.(*ast.CallExpr)
			if !ok || !isFormatterMethodCall(info, call) || !strings.HasPrefix(Callee(info, call).Name(), "write") {
				return true
			}
			passes := false
			for _, a := range call.Args {
				if identObj(info, a) == identObj(info, loop.Value) {
					passes = true
				}
			}
			if !passes {
				return true
			}
			for q := p.Parent(call); q != nil && q != ast.Node(loop); q = p.Parent(q) {
				ifs, ok := q.(*ast.IfStmt)
				if !ok || !containsNode(ifs.Body, call) {
					continue
				}
				ue, ok := ast.Unparen(ifs.Cond).(*ast.UnaryExpr)
				if !ok || ue.Op != token.NOT {
					continue
				}
				conj := splitAnd(resolveLocalCond(info, loop.Body, ue.X))
				eqPrev, noComment := false, false
				for _, t := range conj {
					if be, ok := ast.Unparen(t).(*ast.BinaryExpr); ok && be.Op == token.EQL {
						l, r := strings.ReplaceAll(exprString(be.X), " ", ""), strings.ReplaceAll(exprString(be.Y), " ", "")
						if strings.Contains(l, "Name.AsString()") && strings.Contains(r, "Name.AsString()") && (strings.Contains(l, "[i-1]") || strings.Contains(r, "[i-1]")) {
							eqPrev = true
						}
					}
					if u2, ok := ast.Unparen(t).(*ast.UnaryExpr); ok && u2.Op == token.NOT {
						if c2, ok := ast.Unparen(u2.X).(*ast.CallExpr); ok {
							if fn := Callee(info, c2); fn != nil && strings.Contains(fn.Name(), "HasComment") {
								noComment = true
							}
						}
					}
				}
				if len(conj) == 1 {
					if e2, n2, isH := c07DupHelper(p, info, conj[0]); isH {
						eqPrev, noComment = e2, n2
					}
				}
				c.Ob("HEADER-PARTITION", "skip-in-"+name+"-loop", ifs.Pos(), eqPrev && noComment, true, "an element of the header is written unless it is a comment-free duplicate of its predecessor: guard %q: same name as previous=%v, comment-free=%v", short(exprString(ue.X), 80), eqPrev, noComment)
			}
			return true
		})
		// skips inside the writing loop: each `continue` must be guarded by name equality with the previous element
		// and by the absence of comments
		ast.Inspect(loop.Body, func(n ast.Node) bool {
			b, ok := n.(*ast.BranchStmt)
			if !ok || (b.Tok != token.CONTINUE && b.Tok != token.BREAK) {
				return true
			}
			var ifs *ast.IfStmt
			for q := p.Parent(b); q != nil && q != ast.Node(loop); q = p.Parent(q) {
				if i, ok := q.(*ast.IfStmt); ok {
					ifs = i
					break
				}
			}
			okGuard := false
			why := "unguarded skip"
			if ifs != nil {
				conj := splitAnd(resolveLocalCond(info, loop.Body, ifs.Cond))
				eqPrev, noComment := false, false
				for _, t := range conj {
					if be, ok := ast.Unparen(t).(*ast.BinaryExpr); ok && be.Op == token.EQL {
						l, r := strings.ReplaceAll(exprString(be.X), " ", ""), strings.ReplaceAll(exprString(be.Y), " ", "")
						if strings.Contains(l, "Name.AsString()") && strings.Contains(r, "Name.AsString()") && (strings.Contains(l, "[i-1]") || strings.Contains(r, "[i-1]")) {
							eqPrev = true
						}
					}
					if ue, ok := ast.Unparen(t).(*ast.UnaryExpr); ok && ue.Op == token.NOT {
						if call, ok := ast.Unparen(ue.X).(*ast.CallExpr); ok {
							if fn := Callee(info, call); fn != nil && strings.Contains(fn.Name(), "HasComment") {
								noComment = true
							}
						}
					}
				}
				if len(conj) == 1 {
					if e2, n2, isH := c07DupHelper(p, info, conj[0]); isH {
						eqPrev, noComment = e2, n2
					}
				}
				okGuard = eqPrev && noComment
				why = fmt.Sprintf("guard %q: same name as previous=%v, comment-free=%v", short(exprString(ifs.Cond), 120), eqPrev, noComment)
			}
			c.Ob("HEADER-PARTITION", "skip-in-"+name+"-loop", b.Pos(), okGuard, true, "an element of the header is skipped only as a comment-free duplicate of its predecessor: %s", why)
			return true
		})
	}
}

// resolveLocalCond replaces a condition that is just a local boolean by the expression that local was defined with
// (`dup := a && b; if dup {…}`), looking for the definition inside scope.
func resolveLocalCond(info *types.Info, scope ast.Node, e ast.Expr) ast.Expr {
	id, ok := ast.Unparen(e).(*ast.Ident)
	if !ok {
		return e
	}
	obj := info.Uses[id]
	if obj == nil {
		return e
	}
	var def ast.Expr
	n := 0
	ast.Inspect(scope, func(m ast.Node) bool {
		if as, ok := m.(*ast.AssignStmt); ok && len(as.Lhs) == len(as.Rhs) {
			for i, l := range as.Lhs {
				if lid, ok := l.(*ast.Ident); ok && (info.Defs[lid] == obj || info.Uses[lid] == obj) {
					def = as.Rhs[i]
					n++
				}
			}
		}
		return true
	})
	if n == 1 && def != nil {
		return def
	}
	return e
}

func splitAnd(e ast.Expr) []ast.Expr {
	e = ast.Unparen(e)
	if be, ok := e.(*ast.BinaryExpr); ok && be.Op == token.LAND {
		return append(splitAnd(be.X), splitAnd(be.Y)...)
	}
	return []ast.Expr{e}
}

// c07OverrideKeys (OVERRIDE-KEY, added after finding F18): the trailing-comment override map is consulted only by
// f.nodeInfo(k). An override is therefore effective only when its key is a node whose info some writer asks for:
// a terminal node (every comment-aware writer asks for the info of the terminal it writes), or a composite node
// whose own writers ask f.nodeInfo(<the node>) before writing its closing token. The rule derives the set of
// composite types that can be a key — from the normalisation in setTrailingComments if there is one, otherwise from
// the static types at the call sites — and demands the second condition of each.
func c07OverrideKeys(c *Ctx, pk, pa *packages.Package, nodeIface, termIface *types.Interface) {
	const rule = "OVERRIDE-KEY"
	c.Rule(rule, "a trailing-comment override is keyed by a node whose comment info a writer consults", 3)
	p := c.P
	info := pk.TypesInfo
	set := p.Func(pkgFormat, "formatter."+c07Setter)
	if set == nil || c07Setter == "" {
		c.Fail(rule, "anchor", token.NoPos, "no method of the formatter stores into a map[ast.Node]ast.Comments field")
		return
	}
	// all concrete node types
	type nt struct {
		name  string
		named *types.Named
	}
	var all []nt
	scope := pa.Types.Scope()
	for _, name := range scope.Names() {
		tn, ok := scope.Lookup(name).(*types.TypeName)
		if !ok || tn.IsAlias() || !tn.Exported() {
			continue
		}
		named, ok := tn.Type().(*types.Named)
		if !ok || types.IsInterface(named) {
			continue
		}
		if types.Implements(named, nodeIface) || types.Implements(types.NewPointer(named), nodeIface) {
			all = append(all, nt{name, named})
		}
	}
	isTerminal := func(n *types.Named) bool {
		return types.Implements(n, termIface) || types.Implements(types.NewPointer(n), termIface)
	}
	implementers := func(t types.Type) []nt {
		var out []nt
		if it, ok := t.Underlying().(*types.Interface); ok {
			for _, x := range all {
				if types.Implements(x.named, it) || types.Implements(types.NewPointer(x.named), it) {
					out = append(out, x)
				}
			}
			return out
		}
		if pt, ok := t.(*types.Pointer); ok {
			t = pt.Elem()
		}
		if n, ok := t.(*types.Named); ok {
			out = append(out, nt{n.Obj().Name(), n})
		}
		return out
	}
	// does the setter normalise composite keys down to their last token? Decided on SSA, so that the shape of the
	// loop (a local for Children(), a switch or comma-ok assertions for the exempted types) does not matter: the key of
	// the store into the override map derives from an element read off the result of a Children() call, and the types
	// exempted from the descent are the concrete node types the setter's node parameter is tested against.
	var descends bool
	var keyStore *ssa.MapUpdate
	var childrenCall *ssa.Call
	setSSA := p.SSAFunc(set.Obj)
	if setSSA != nil {
		for _, b := range setSSA.Blocks {
			for _, ins := range b.Instrs {
				mu, ok := ins.(*ssa.MapUpdate)
				if !ok {
					continue
				}
				if u, ok := stripConv(mu.Map).(*ssa.UnOp); ok {
					if fa, ok := u.X.(*ssa.FieldAddr); ok && strings.HasSuffix(fieldName(fa.X.Type(), fa.Field), "."+c07Field) {
						keyStore = mu
					}
				}
			}
		}
		if keyStore != nil {
			sliceBack(keyStore.Key, func(x ssa.Value) bool {
				if cl, ok := x.(*ssa.Call); ok && cl.Call.IsInvoke() && cl.Call.Method.Name() == "Children" {
					childrenCall = cl
				}
				return true
			})
			descends = childrenCall != nil
		}
	}
	compositeKeys := map[string]*types.Named{}
	how := ""
	if descends {
		how = "setTrailingComments descends to the last token of a composite key, except for the types it tests its argument for"
		for _, b := range setSSA.Blocks {
			for _, ins := range b.Instrs {
				ta, ok := ins.(*ssa.TypeAssert)
				if !ok || len(setSSA.Params) < 2 || stripConv(ta.X) != ssa.Value(setSSA.Params[1]) {
					continue
				}
				if _, isIface := ta.AssertedType.Underlying().(*types.Interface); isIface {
					continue
				}
				for _, x := range implementers(ta.AssertedType) {
					if !isTerminal(x.named) {
						compositeKeys[x.name] = x.named
					}
				}
			}
		}
		// the store comes after the descent: it is not inside the loop that walks down
		inLoop := false
		for _, h := range setSSA.Blocks {
			if l := loopBlocks(h); l != nil && l[childrenCall.Block()] && l[keyStore.Block()] {
				inLoop = true
			}
		}
		c.Ob(rule, "store-after-normalisation", keyStore.Pos(), !inLoop, true, "the override is stored after the descent to the last token, never inside it")
	} else {
		how = "setTrailingComments stores its argument as the key: every composite type a call site can pass is a key"
		for _, f := range pk.Syntax {
			ast.Inspect(f, func(n ast.Node) bool {
				call, ok := n.(*ast.CallExpr)
				if !ok || len(call.Args) != 2 {
					return true
				}
				if fn := Callee(info, call); fn == nil || fn.Name() != c07Setter || fn.Pkg() != pk.Types {
					return true
				}
				for _, x := range implementers(info.TypeOf(call.Args[0])) {
					if _, never := c07NoCase[x.name]; never {
						continue // never produced by the parser
					}
					if !isTerminal(x.named) {
						compositeKeys[x.name] = x.named
					}
				}
				return true
			})
		}
	}
	c.Note("OVERRIDE-KEY: %s; composite key types: %s", how, strings.Join(sortedKeys(compositeKeys), ","))
	// key identity: the map is keyed by pointer. A key obtained from a helper that may allocate a fresh node
	// (messageLiteralClose builds a new '}' for a '>' literal) must be the very value handed to the writer: the
	// helper is called once per function and node, and its result reused.
	for _, fr := range p.FuncsOf(pk) {
		if fr.Decl.Body == nil {
			continue
		}
		ast.Inspect(fr.Decl.Body, func(n ast.Node) bool {
			call, ok := n.(*ast.CallExpr)
			if !ok || len(call.Args) != 2 {
				return true
			}
			if fn := Callee(info, call); fn == nil || fn.Name() != c07Setter || fn.Pkg() != pk.Types {
				return true
			}
			c.CallSites++
			key := ast.Unparen(call.Args[0])
			var def *ast.CallExpr
			if kc, ok := key.(*ast.CallExpr); ok {
				def = kc
			} else if ko := identObj(info, key); ko != nil {
				ast.Inspect(fr.Decl.Body, func(m ast.Node) bool {
					if as, ok := m.(*ast.AssignStmt); ok && len(as.Lhs) == len(as.Rhs) {
						for i, l := range as.Lhs {
							if identObj(info, l) == ko {
								if dc, ok := ast.Unparen(as.Rhs[i]).(*ast.CallExpr); ok {
									def = dc
								}
							}
						}
					}
					return true
				})
			}
			if def == nil {
				c.Ob(rule, fr.ID()+"/key-identity "+exprString(key), call.Pos(), true, false, "key %s is a field of the node (stable identity)", exprString(key))
				return true
			}
			dfn := Callee(info, def)
			if dfn == nil || dfn.Pkg() != pk.Types {
				return true
			}
			calls := 0
			want := exprString(def)
			ast.Inspect(fr.Decl.Body, func(m ast.Node) bool {
				if c2, ok := m.(*ast.CallExpr); ok && exprString(c2) == want {
					calls++
				}
				return true
			})
			_, direct := key.(*ast.CallExpr)
			c.Ob(rule, fr.ID()+"/key-identity "+want, call.Pos(), calls == 1 && !direct, true,
				"the override key comes from %s, which may allocate: it is evaluated %d time(s) in this function and its result is kept in a variable=%v (a second evaluation yields a different pointer, and the override is never found)", want, calls, !direct)
			return true
		})
	}
	// the map is read only by nodeInfo
	readers := map[string]bool{}
	for _, fr := range p.FuncsOf(pk) {
		if fr.Decl.Body == nil {
			continue
		}
		ast.Inspect(fr.Decl.Body, func(n ast.Node) bool {
			if sel, ok := n.(*ast.SelectorExpr); ok && sel.Sel.Name == c07Field {
				if _, isKV := p.Parent(sel).(*ast.KeyValueExpr); !isKV {
					readers[fr.Decl.Name.Name] = true
				}
			}
			return true
		})
	}
	okReaders := len(readers) == 2 && readers[c07Reader] && readers[c07Setter]
	c.Ob(rule, "map-accessors", set.Decl.Pos(), okReaders, true, "overrideTrailingComments is touched only by nodeInfo (read) and setTrailingComments (write): %v", sortedBoolKeys(readers))

	for _, name := range sortedKeys(compositeKeys) {
		named := compositeKeys[name]
		st, ok := named.Underlying().(*types.Struct)
		if !ok {
			continue
		}
		fields := nodeChildFields(st, nodeIface, "")
		if len(fields) == 0 {
			c.Ob(rule, "key "+name, set.Decl.Pos(), false, true, "composite key type ast.%s has no child fields to identify its closing token", name)
			continue
		}
		last := fields[len(fields)-1]
		writers, consulting := 0, 0
		var bad []string
		for _, fr := range p.FuncsOf(pk) {
			if fr.Decl.Body == nil || fr.Decl.Type.Params == nil {
				continue
			}
			for _, fld := range fr.Decl.Type.Params.List {
				for _, pn := range fld.Names {
					po := info.Defs[pn]
					if po == nil {
						continue
					}
					pt, ok := po.Type().(*types.Pointer)
					if !ok || !types.Identical(pt.Elem(), named) {
						continue
					}
					if c07Forwarders[fr.Decl.Name.Name] {
						continue
					}
					refsLast, consults := false, false
					ast.Inspect(fr.Decl.Body, func(n ast.Node) bool {
						switch x := n.(type) {
						case *ast.SelectorExpr:
							if x.Sel.Name == last && identObj(info, x.X) == po {
								refsLast = true
							}
						case *ast.CallExpr:
							fn := Callee(info, x)
							if fn == nil || len(x.Args) == 0 || identObj(info, x.Args[0]) != po {
								return true
							}
							if c07Forwarders[fn.Name()] && strings.HasSuffix(fn.Name(), "Close") {
								refsLast = true
							}
							if fn.Name() == c07Reader {
								consults = true
							}
						}
						return true
					})
					if !refsLast {
						continue
					}
					writers++
					if consults {
						consulting++
					} else {
						bad = append(bad, fr.Decl.Name.Name)
					}
				}
			}
		}
		c.Ob(rule, "key "+name, set.Decl.Pos(), writers > 0 && len(bad) == 0, true,
			"an override may be keyed by a composite ast.%s: %d of its %d writers that emit its closing token %s consult f.nodeInfo(<the node>) (not consulting: %v); "+
				"an override on a node nobody asks about is a lost comment", name, consulting, writers, last, bad)
	}
}

// c07WriterExempt: (entry writer, field) pairs that are deliberately not written by that writer.
var c07WriterExempt = map[string]string{
	"writeFieldReference:URLPrefix":    "option-name parts cannot carry an Any URL prefix; only message-literal field names can, and writeMessageFieldPrefix writes those",
	"writeFieldReference:Slash":        "see URLPrefix",
	"writeLastCompactOption:Semicolon": "a compact option (inside [...]) has no semicolon",
}

// c07WriterCoverage (WRITER-COVERAGE, added after seeded change C07-c): CHILD-COVERAGE asks that a field is written
// somewhere; this asks it of every *entry writer*. A function with a parameter n of node type *T is an entry writer
// of T when some call site hands it a node that is not the caller's own parameter (a parent's field, a type-switch
// or range variable): it is then responsible for all of T. Its coverage is what it writes itself plus the coverage
// of the package functions it passes n to. Helpers that only ever receive their caller's parameter write a part
// by design and are judged through their callers.
func c07WriterCoverage(c *Ctx, pk *packages.Package, nodeIface *types.Interface) {
	const rule = "WRITER-COVERAGE"
	c.Rule(rule, "every entry writer of a node type hands all of the node's child fields to writers (itself or through the helpers it passes the node to)", 30)
	p := c.P
	info := pk.TypesInfo
	type fparam struct {
		fd    *ast.FuncDecl
		obj   *types.Var
		named *types.Named
		idx   int
	}
	params := map[string]*fparam{} // "func/param"
	byFunc := map[*types.Func][]*fparam{}
	for _, fr := range p.FuncsOf(pk) {
		if fr.Decl.Body == nil || fr.Decl.Type.Params == nil {
			continue
		}
		fobj, _ := info.Defs[fr.Decl.Name].(*types.Func)
		idx := 0
		for _, fl := range fr.Decl.Type.Params.List {
			for _, nm := range fl.Names {
				v, _ := info.Defs[nm].(*types.Var)
				if v != nil {
					if pt, ok := v.Type().(*types.Pointer); ok {
						if n, ok := pt.Elem().(*types.Named); ok && n.Obj().Pkg() != nil && n.Obj().Pkg().Path() == pkgPCAst {
							if _, isStruct := n.Underlying().(*types.Struct); isStruct {
								fp := &fparam{fr.Decl, v, n, idx}
								params[fr.Decl.Name.Name+"/"+v.Name()] = fp
								byFunc[fobj] = append(byFunc[fobj], fp)
							}
						}
					}
				}
				idx++
			}
		}
	}
	// delegation edges and entry detection
	delegates := map[string][]string{} // "func/param" -> callee "func/param"
	entry := map[string]bool{}
	// entry writers that are handed something other than a part of an option name at some call site
	entryNotOptionNamePart := map[string]bool{}
	for _, fr := range p.FuncsOf(pk) {
		if fr.Decl.Body == nil {
			continue
		}
		fd := fr.Decl
		ast.Inspect(fd.Body, func(n ast.Node) bool {
			call, ok := n.(*ast.CallExpr)
			if !ok {
				return true
			}
			fn := Callee(info, call)
			if fn == nil || fn.Pkg() != pk.Types {
				return true
			}
			for _, fp := range byFunc[fn] {
				if fp.idx >= len(call.Args) {
					continue
				}
				arg := call.Args[fp.idx]
				calleeKey := fp.fd.Name.Name + "/" + fp.obj.Name()
				if v, ok := identObj(info, arg).(*types.Var); ok && isParamOf(info, fd, v) {
					delegates[fd.Name.Name+"/"+v.Name()] = append(delegates[fd.Name.Name+"/"+v.Name()], calleeKey)
				} else {
					entry[calleeKey] = true
					fromParts := false
					isPartsOf := func(e ast.Expr) bool {
						sel, ok := ast.Unparen(e).(*ast.SelectorExpr)
						return ok && sel.Sel.Name == "Parts" && strings.HasSuffix(types.TypeString(info.TypeOf(sel.X), nil), "ast.OptionNameNode")
					}
					switch a := ast.Unparen(arg).(type) {
					case *ast.IndexExpr:
						fromParts = isPartsOf(a.X)
					case *ast.Ident:
						if o := info.Uses[a]; o != nil {
							ast.Inspect(fd.Body, func(m ast.Node) bool {
								if rs, ok := m.(*ast.RangeStmt); ok && rs.Value != nil && identObj(info, rs.Value) == o && isPartsOf(rs.X) {
									fromParts = true
								}
								if as, ok := m.(*ast.AssignStmt); ok && len(as.Lhs) == 1 && len(as.Rhs) == 1 && identObj(info, as.Lhs[0]) == o {
									if ix, ok := ast.Unparen(as.Rhs[0]).(*ast.IndexExpr); ok && isPartsOf(ix.X) {
										fromParts = true
									}
								}
								return true
							})
						}
					}
					if !fromParts {
						entryNotOptionNamePart[calleeKey] = true
					}
				}
			}
			return true
		})
	}
	var cover func(k string, seen map[string]bool) map[string]bool
	cover = func(k string, seen map[string]bool) map[string]bool {
		out := map[string]bool{}
		if seen[k] {
			return out
		}
		seen[k] = true
		for f := range c07PerFn[k] {
			out[f] = true
		}
		for _, d := range delegates[k] {
			for f := range cover(d, seen) {
				out[f] = true
			}
		}
		return out
	}
	for _, k := range sortedKeys(entry) {
		fp := params[k]
		if c07Forwarders[fp.fd.Name.Name] || !strings.HasPrefix(fp.fd.Name.Name, "write") && !strings.HasPrefix(fp.fd.Name.Name, "maybeWrite") {
			continue
		}
		st := fp.named.Underlying().(*types.Struct)
		fields := nodeChildFields(st, nodeIface, "")
		got := cover(k, map[string]bool{})
		var missing []string
		for _, f := range fields {
			key := fp.named.Obj().Name() + "." + f
			if _, ok := c07ChildNotWritten[key]; ok {
				continue
			}
			if _, ok := c07WriterExempt[fp.fd.Name.Name+":"+f]; ok {
				continue
			}
			// the reason of the writeFieldReference exemption, by structure: a writer that only ever receives parts
			// of an option name never sees an Any URL prefix
			if fp.named.Obj().Name() == "FieldReferenceNode" && (f == "URLPrefix" || f == "Slash") && !entryNotOptionNamePart[k] {
				continue
			}
			if !got[f] {
				missing = append(missing, f)
			}
		}
		c.Ob(rule, k+" ("+fp.named.Obj().Name()+")", fp.fd.Pos(), len(missing) == 0, true,
			"entry writer %s of ast.%s covers %d of its %d child fields; not handed to any writer: %v", fp.fd.Name.Name, fp.named.Obj().Name(), len(fields)-len(missing), len(fields), missing)
	}
}

// c07Comparators (STRICT-LESS, added after seeded change C07-a): a `less` function handed to a sort must be
// irreflexive. With j := i every pair of expressions that differ only in i/j is equal; the function is evaluated
// under that assumption and must not definitely return true.
func c07Comparators(c *Ctx, pk *packages.Package) {
	const rule = "STRICT-LESS"
	c.Rule(rule, "comparators handed to sorts are irreflexive (less(i,i) is never definitely true)", 2)
	p := c.P
	info := pk.TypesInfo
	for _, fr := range p.FuncsOf(pk) {
		if fr.Decl.Body == nil {
			continue
		}
		ast.Inspect(fr.Decl.Body, func(n ast.Node) bool {
			call, ok := n.(*ast.CallExpr)
			if !ok || len(call.Args) != 2 {
				return true
			}
			fn := Callee(info, call)
			if fn == nil || fn.Pkg() == nil || fn.Pkg().Path() != "sort" || (fn.Name() != "Slice" && fn.Name() != "SliceStable") {
				return true
			}
			lit, ok := ast.Unparen(call.Args[1]).(*ast.FuncLit)
			if !ok || len(lit.Type.Params.List) == 0 {
				return true
			}
			var names []string
			for _, fl := range lit.Type.Params.List {
				for _, nm := range fl.Names {
					names = append(names, nm.Name)
				}
			}
			if len(names) != 2 {
				return true
			}
			c.CallSites++
			verdict, why := lessReflexive(info, lit, names[0], names[1])
			c.Ob(rule, fr.ID()+"/"+fn.Name()+"("+exprString(call.Args[0])+")", lit.Pos(), verdict != "true", true,
				"less(i,i) evaluates to %s: %s (a comparator that is true on equal keys reverses equal elements under a stable sort and is undefined under an unstable one)", verdict, why)
			return true
		})
	}
}

// lessReflexive evaluates the comparator body with the second index renamed to the first. Returns "true", "false"
// or "unknown" for the first return whose path conditions are all definite.
func lessReflexive(info *types.Info, lit *ast.FuncLit, iName, jName string) (string, string) {
	norm := func(e ast.Expr) string {
		s := exprString(e)
		// rename identifier j -> i (whole words only)
		re := regexp.MustCompile(`\b` + regexp.QuoteMeta(jName) + `\b`)
		return re.ReplaceAllString(s, iName)
	}
	env := map[string]string{} // local variable -> normalised defining expression
	var resolve func(e ast.Expr) string
	resolve = func(e ast.Expr) string {
		if id, ok := ast.Unparen(e).(*ast.Ident); ok {
			if d, ok := env[id.Name]; ok {
				return d
			}
		}
		out := norm(e)
		for name, def := range env {
			if strings.HasPrefix(name, "bool:") {
				continue
			}
			out = regexp.MustCompile(`\b`+regexp.QuoteMeta(name)+`\b`).ReplaceAllString(out, "("+strings.ReplaceAll(def, "$", "$$")+")")
		}
		return out
	}
	var eval func(e ast.Expr) string
	eval = func(e ast.Expr) string {
		switch x := ast.Unparen(e).(type) {
		case *ast.Ident:
			if x.Name == "true" || x.Name == "false" {
				return x.Name
			}
			if d, ok := env["bool:"+x.Name]; ok {
				return d
			}
			return "unknown"
		case *ast.UnaryExpr:
			if x.Op == token.NOT {
				switch eval(x.X) {
				case "true":
					return "false"
				case "false":
					return "true"
				}
			}
			return "unknown"
		case *ast.BinaryExpr:
			switch x.Op {
			case token.LAND:
				a, b := eval(x.X), eval(x.Y)
				if a == "false" || b == "false" {
					return "false"
				}
				if a == "true" && b == "true" {
					return "true"
				}
				// X && !X' with X ≡ X'
				if u, ok := ast.Unparen(x.Y).(*ast.UnaryExpr); ok && u.Op == token.NOT && resolve(u.X) == resolve(x.X) {
					return "false"
				}
				if u, ok := ast.Unparen(x.X).(*ast.UnaryExpr); ok && u.Op == token.NOT && resolve(u.X) == resolve(x.Y) {
					return "false"
				}
				return "unknown"
			case token.LOR:
				a, b := eval(x.X), eval(x.Y)
				if a == "true" || b == "true" {
					return "true"
				}
				if a == "false" && b == "false" {
					return "false"
				}
				return "unknown"
			case token.LSS, token.GTR, token.NEQ:
				if resolve(x.X) == resolve(x.Y) {
					return "false"
				}
				return "unknown"
			case token.LEQ, token.GEQ, token.EQL:
				if resolve(x.X) == resolve(x.Y) {
					return "true"
				}
				return "unknown"
			}
		}
		return "unknown"
	}
	var run func(stmts []ast.Stmt) (string, string, bool)
	run = func(stmts []ast.Stmt) (string, string, bool) {
		for _, s := range stmts {
			switch x := s.(type) {
			case *ast.AssignStmt:
				if len(x.Lhs) == len(x.Rhs) {
					for k, l := range x.Lhs {
						if id, ok := l.(*ast.Ident); ok {
							env[id.Name] = resolve(x.Rhs[k])
							if t := info.TypeOf(x.Rhs[k]); t != nil {
								if b, ok := t.Underlying().(*types.Basic); ok && b.Kind() == types.Bool {
									env["bool:"+id.Name] = eval(x.Rhs[k])
								}
							}
						}
					}
				}
			case *ast.IfStmt:
				if x.Init != nil {
					return "unknown", "if with init statement", true
				}
				switch eval(x.Cond) {
				case "true":
					if v, w, done := run(x.Body.List); done {
						return v, w, true
					}
				case "false":
					if x.Else != nil {
						if blk, ok := x.Else.(*ast.BlockStmt); ok {
							if v, w, done := run(blk.List); done {
								return v, w, true
							}
						} else {
							return "unknown", "else-if chain", true
						}
					}
				default:
					return "unknown", "condition " + short(exprString(x.Cond), 60) + " is not decided by i=j", true
				}
			case *ast.ReturnStmt:
				if len(x.Results) == 1 {
					return eval(x.Results[0]), "return " + short(exprString(x.Results[0]), 60), true
				}
				return "unknown", "multi-value return", true
			case *ast.ExprStmt, *ast.DeclStmt, *ast.EmptyStmt:
			default:
				return "unknown", "unsupported statement", true
			}
		}
		return "unknown", "falls off", false
	}
	v, w, _ := run(lit.Body.List)
	return v, w
}

// c07OverrideNames finds, by type and use rather than by name, the formatter's override map (a struct field of type
// map[ast.Node]ast.Comments), the function that writes it and the function that reads it.
func c07OverrideNames(p *Prog, pk *packages.Package) (field, setter, reader string) {
	info := pk.TypesInfo
	isOverrideMap := func(t types.Type) bool {
		mt, ok := t.Underlying().(*types.Map)
		return ok && namedName(mt.Key()) == "Node" && namedName(mt.Elem()) == "Comments"
	}
	for _, fr := range p.FuncsOf(pk) {
		if fr.Decl.Body == nil {
			continue
		}
		ast.Inspect(fr.Decl.Body, func(n ast.Node) bool {
			ix, ok := n.(*ast.IndexExpr)
			if !ok {
				return true
			}
			sel, ok := ast.Unparen(ix.X).(*ast.SelectorExpr)
			if !ok || !isOverrideMap(info.TypeOf(sel)) {
				return true
			}
			field = sel.Sel.Name
			if as, ok := p.Parent(ix).(*ast.AssignStmt); ok {
				for _, l := range as.Lhs {
					if l == ast.Expr(ix) {
						setter = fr.Decl.Name.Name
						return true
					}
				}
			}
			reader = fr.Decl.Name.Name
			return true
		})
	}
	return
}
