package main

import (
	"go/token"

	"golang.org/x/tools/go/packages"
	"golang.org/x/tools/go/ssa"
)

// c14SymlinkFullyResolved (SYMLINK-RESOLVED; C14, after round-5 seed C14-a): Get and Stat on the disk bucket open the
// path and let the OS follow links all the way; Walk sees directory entries and must do the same for a link it meets,
// or it passes over (as "not a regular file") an object that Get returns: a link to a link, or a link whose target
// lies below another linked directory. os.Readlink gives one hop, possibly relative, possibly another link; only
// filepath.EvalSymlinks gives the final target. In the walking packages os.Readlink is not called, and a function that
// tests a mode for ModeSymlink and then stats a path stats the result of filepath.EvalSymlinks.
func c14SymlinkFullyResolved(c *Ctx) {
	const rule = "SYMLINK-RESOLVED"
	c.Rule(rule, "a symlink met while walking is resolved to its final target (EvalSymlinks), never by a single Readlink hop", 1)
	p := c.P
	var pkgs []*packages.Package
	for _, rel := range []string{"private/pkg/filepathext", "private/pkg/storage/storageos"} {
		if pk := p.Pkg(rel); pk != nil {
			pkgs = append(pkgs, pk)
		}
	}
	n := 0
	for _, sf := range p.SSAFuncsOf(pkgs) {
		for _, f := range allSSAFuncs(sf) {
			testsSymlink := false
			for _, b := range f.Blocks {
				for _, ins := range b.Instrs {
					if bo, ok := ins.(*ssa.BinOp); ok && bo.Op == token.AND {
						for _, op := range []ssa.Value{bo.X, bo.Y} {
							if cst, ok := op.(*ssa.Const); ok && cst.Value != nil && namedPath(cst.Type()) == "io/fs.FileMode" && cst.Uint64() == uint64(1<<27) {
								testsSymlink = true
							}
						}
					}
				}
			}
			for _, call := range callsIn(f) {
				o := staticCalleeObj(call.Call)
				if o == nil || o.Pkg() == nil || o.Pkg().Path() != "os" {
					continue
				}
				switch o.Name() {
				case "Readlink":
					n++
					c.Ob(rule, ssaFuncName(f)+"/os.Readlink", call.Pos(), false, true, "os.Readlink resolves one hop only: a link to a link (or a relative target under a linked directory) is not what Get/Stat would open")
				case "Lstat", "Stat":
					if !testsSymlink || len(call.Call.Args) == 0 {
						continue
					}
					n++
					ok := dependsOnCall(call.Call.Args[0], func(cc *ssa.CallCommon) bool {
						co := staticCalleeObj(cc)
						return co != nil && co.Pkg() != nil && co.Pkg().Path() == "path/filepath" && co.Name() == "EvalSymlinks"
					})
					c.Ob(rule, ssaFuncName(f)+"/os."+o.Name(), call.Pos(), ok, true, "in a function that tests for ModeSymlink, the path that is stat'ed is the result of filepath.EvalSymlinks: %v", ok)
				}
			}
		}
	}
	if n == 0 {
		c.Fail(rule, "anchor", token.NoPos, "no symlink-resolving stat found in filepathext/storageos")
	}
}
