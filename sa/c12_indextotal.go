package main

import (
	"go/token"
	"strings"

	"golang.org/x/tools/go/packages"
)

// c12IndexTotal (INDEX-TOTAL; C12, after round-5 seed C12-c): the index of an image (names, descriptors, packages and
// their files) is shared by the include and the exclude side of the filter. Whether an element may be *included* from
// an imported file is the include side's decision (it reports ErrImageFilterTypeIsImport); excluded types "may always
// live in imported files". The index is therefore a total function of the image: the function that builds it, and the
// closures and same-package helpers it runs per file, never ask a file whether it is an import. An entry left out for
// import files makes `exclude: [pkg]` a silent no-op for a package declared by a dependency.
func c12IndexTotal(c *Ctx, pk *packages.Package) {
	const rule = "INDEX-TOTAL"
	c.Rule(rule, "the image index covers import files like any other: its builder never consults IsImport", 1)
	p := c.P
	n := 0
	for _, sf := range p.SSAFuncsOf([]*packages.Package{pk}) {
		sig := sf.Signature
		if sig.Recv() != nil || sig.Results().Len() == 0 || !strings.HasSuffix(namedPath(derefType(sig.Results().At(0).Type())), "bufimageutil.imageIndex") {
			continue
		}
		takesImage := false
		for _, prm := range sf.Params {
			if strings.HasSuffix(namedPath(prm.Type()), "bufimage.Image") {
				takesImage = true
			}
		}
		if !takesImage {
			continue
		}
		n++
		var asks []string
		pos := sf.Pos()
		for _, f := range reachSSA(sf, 2) {
			if f.Pkg != sf.Pkg {
				continue
			}
			for _, call := range callsDeep(f) {
				if call.Call.IsInvoke() && call.Call.Method.Name() == "IsImport" {
					asks = append(asks, ssaFuncName(f))
					pos = call.Pos()
				}
			}
		}
		c.Ob(rule, ssaFuncName(sf)+"/import-blind", pos, len(asks) == 0, true, "the index builder and its helpers never call IsImport (callers of it: %v)", uniq(asks))
	}
	if n == 0 {
		c.Fail(rule, "anchor", token.NoPos, "no function building an imageIndex from an Image found in bufimageutil")
	}
}
