package main

import (
	"bufio"
	"encoding/json"
	"os"
	"path/filepath"
	"sort"
	"strings"

	"golang.org/x/tools/go/packages"
)

// anchorPackages returns the module packages that hold the files and directories the property is anchored in
// (properties.jsonl, field anchors.files), plus their sub-packages for directory anchors.
func anchorPackages(c *Ctx) []*packages.Package {
	f, err := os.Open(filepath.Join(verifDir, "properties.jsonl"))
	if err != nil {
		return nil
	}
	defer f.Close()
	var files []string
	sc := bufio.NewScanner(f)
	sc.Buffer(make([]byte, 1<<20), 1<<22)
	for sc.Scan() {
		var rec struct {
			ID      string `json:"id"`
			Anchors struct {
				Files []string `json:"files"`
			} `json:"anchors"`
		}
		if json.Unmarshal(sc.Bytes(), &rec) == nil && rec.ID == c.Prop {
			files = rec.Anchors.Files
		}
	}
	want := map[string]bool{}
	var prefixes []string
	for _, a := range files {
		if strings.HasSuffix(a, ".go") {
			want[filepath.Dir(a)] = true
		} else {
			want[strings.TrimSuffix(a, "/")] = true
			prefixes = append(prefixes, strings.TrimSuffix(a, "/")+"/")
		}
	}
	var out []*packages.Package
	for _, pk := range c.P.ModulePkgs() {
		rel := relPkg(pk.PkgPath)
		ok := want[rel]
		for _, pre := range prefixes {
			if strings.HasPrefix(rel, pre) {
				ok = true
			}
		}
		if ok {
			out = append(out, pk)
		}
	}
	sort.Slice(out, func(i, j int) bool { return out[i].PkgPath < out[j].PkgPath })
	return out
}

// genericPack (rules named G-…) runs, over the packages every property is anchored in, the shape rules that were
// written for one property after a seed but state something that is wrong wherever it occurs, and that have no
// instance on today's tree anywhere in the module: a boolean overwritten in a loop so that the last element decides, a
// per-iteration list that outlives its iteration, a sync.Once result kept in a variable of the first call, a running
// arg-max with a stale bound, a delegate's error read as "not there", an error handed on along one path and unseen on
// the success path, a stale `return nil, err`, an error overwritten around a loop, an append onto a binary-searched
// slice, a comparison that bypasses the type's comparison function. A property's own check may run the same rule under
// its own name with a scope chosen for that property; here the scope is the anchors, for all twenty alike, so that a
// defect of one of these shapes in anchored code is reported by the check of the property it is anchored in.
func genericPack(c *Ctx) {
	pkgs := anchorPackages(c)
	if len(pkgs) == 0 {
		c.Note("G-pack: no anchored packages resolved for %s", c.Prop)
		return
	}
	// plus the utility packages (private/pkg/…) the anchored packages import directly: the anchored code runs through
	// them (path arithmetic, slice helpers, storage views, thread pools), and a slip of one of these shapes there is a
	// slip in the mechanism the property names
	nAnch := len(pkgs)
	pkgs = withSupportPackages(c, pkgs)
	c.Note("G-pack: %d anchored package(s) + %d utility package(s) they import directly", nAnch, len(pkgs)-nAnch)
	ruleFlagLoop(c, "G-FLAGLOOP", pkgs)
	ruleLoopAccum(c, "G-LOOP-ACCUM", pkgs)
	ruleOnceResultLost(c, "G-ONCE-RESULT-LOST", pkgs)
	ruleArgmax(c, "G-ARGMAX", pkgs, 0)
	ruleDelegateErr(c, "G-DELEGATE-ERR", pkgs)
	ruleErrAllPaths(c, "G-ERRSEEN", pkgs)
	ruleStaleErr(c, "G-STALE-ERR", pkgs)
	ruleErrOverwrittenInLoop(c, "G-ERRLOOP", pkgs)
	ruleSortedInvariant(c, "G-SORTED-INVARIANT", pkgs, 0)
	ruleJoinedErrWhole(c, "G-PARALLEL-ERR-WHOLE", pkgs, 0)
	ruleWriteSwallow(c, "G-WRITE-SWALLOW", pkgs, 0)
	ruleRangeKey(c, "G-RANGE-KEY-AS-ELEMENT", pkgs)
	ruleMapAppendKey(c, "G-MAP-APPEND-KEY", pkgs)
	ruleTrimCutset(c, "G-TRIM-CUTSET", pkgs)
	ruleLastElementSkipped(c, "G-LAST-ELEMENT-SKIPPED", pkgs)
	ruleFirstDecides(c, "G-FIRST-DECIDES", pkgs)
	ruleFormatData(c, "G-FORMAT-DATA", pkgs)
	ruleNilBreak(c, "G-NIL-ELEMENT-BREAK", pkgs)
	ruleWalkCut(c, "G-WALK-CUT", pkgs, 0)
	ruleMarkBeforeStateTest(c, "G-MARK-BEFORE-STATE-TEST", pkgs)
	ruleErrPathUnseen(c, "G-ERR-PATH-UNSEEN", pkgs)
	ruleComparatorBoth(c, "G-COMPARATOR-BOTH", pkgs)
	ruleCtorParam(c, "G-CTOR-KEEPS-PARAM", pkgs)
	ruleWithFlagNoop(c, "G-WITH-FLAG-NOOP", pkgs, 0)
	ruleTwinParam(c, "G-TWIN-PARAM-UNUSED", pkgs)
	ruleAnticipatory(c, "G-", pkgs)
	ruleDerivedKeyStores(c, "G-DERIVED-KEY-STORE", pkgs)
	ruleInPlaceFilter(c, "G-INPLACE-FILTER-PARAM", pkgs)
	ruleIndexedReturn(c, "G-INDEXED-RETURN-SORTED", pkgs)
	ruleMemoDropsResult(c, "G-MEMO-DROPS-RESULT", pkgs)
	ruleMapAliasMutated(c, "G-MAP-ALIAS-MUTATED", pkgs)
	if c.Prop != "C15" { // C15 runs R-DEFER over the whole module
		c.Rule("G-DEFER-KEEPS-ERR", "a deferred assignment to a named error result joins, wraps or is guarded by the current value", 0)
		ruleDefer(c, "G-DEFER-KEEPS-ERR", pkgs)
	}
}

func withSupportPackages(c *Ctx, pkgs []*packages.Package) []*packages.Package {
	have := map[string]bool{}
	for _, pk := range pkgs {
		have[pk.PkgPath] = true
	}
	byPath := map[string]*packages.Package{}
	for _, pk := range c.P.ModulePkgs() {
		byPath[pk.PkgPath] = pk
	}
	out := append([]*packages.Package(nil), pkgs...)
	for _, pk := range pkgs {
		for path := range pk.Imports {
			if have[path] || !strings.HasPrefix(path, modPath+"/private/pkg/") {
				continue
			}
			if sp := byPath[path]; sp != nil {
				have[path] = true
				out = append(out, sp)
			}
		}
	}
	sort.Slice(out, func(i, j int) bool { return out[i].PkgPath < out[j].PkgPath })
	return out
}
