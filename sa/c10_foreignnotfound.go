package main

import (
	"fmt"
	"go/token"
	"go/types"

	"golang.org/x/tools/go/packages"
	"golang.org/x/tools/go/ssa"
)

// c10ForeignNotFound (FOREIGN-NOT-FOUND; C10, after round-4 seed C10-k): import resolution asks each module "do you
// have this path?" and reads an error satisfying fs.ErrNotExist as "no". A function that answers for the path it was
// given, but on the way looks up a *different* path (the file named by a proto-file reference, kept in a field), must
// not let that other lookup's not-found escape as its own: the caller would conclude that the module does not have the
// path it asked about, and a file a sibling module provides is reported as missing. For every function of bufmodule
// with a path parameter and an error result, every call that looks up a path which does not derive from the function's
// own string parameters, and whose error the function returns as is, must have that error classified with
// errors.Is(err, fs.ErrNotExist) in the function.
func c10ForeignNotFound(c *Ctx, pk *packages.Package) {
	const rule = "FOREIGN-NOT-FOUND"
	c.Rule(rule, "a not-found for some other path is classified before it can be returned as the answer about the caller's path", 1)
	p := c.P
	n := 0
	isString := func(t types.Type) bool {
		b, ok := t.Underlying().(*types.Basic)
		return ok && b.Kind() == types.String
	}
	for _, sf := range p.SSAFuncsOf([]*packages.Package{pk}) {
		res := sf.Signature.Results()
		if res.Len() == 0 || !isErrorType(res.At(res.Len()-1).Type()) {
			continue
		}
		var own []*ssa.Parameter
		for _, prm := range sf.Params {
			if isString(prm.Type()) {
				own = append(own, prm)
			}
		}
		if len(own) == 0 {
			continue
		}
		k := 0
		for _, call := range callsIn(sf) {
			cv, ok := call.Instr.(*ssa.Call)
			if !ok {
				continue
			}
			callee := call.Call.StaticCallee()
			if callee == nil || callee.Pkg == nil || callee.Pkg.Pkg != pk.Types {
				continue
			}
			cres := callee.Signature.Results()
			if cres.Len() == 0 || !isErrorType(cres.At(cres.Len()-1).Type()) {
				continue
			}
			// a string argument that does not derive from the function's own string parameters, but from a field
			var foreign ssa.Value
			for _, a := range call.Call.Args {
				if !isString(a.Type()) {
					continue
				}
				if _, isConst := a.(*ssa.Const); isConst {
					continue
				}
				fromOwn, fromField := false, false
				sliceBack(a, func(x ssa.Value) bool {
					for _, o := range own {
						if x == ssa.Value(o) {
							fromOwn = true
						}
					}
					if _, ok := x.(*ssa.FieldAddr); ok {
						fromField = true
					}
					return true
				})
				if !fromOwn && fromField {
					foreign = a
				}
			}
			if foreign == nil {
				continue
			}
			// the call's error value
			var errv ssa.Value
			if cres.Len() == 1 {
				errv = cv
			} else if cv.Referrers() != nil {
				for _, r := range *cv.Referrers() {
					if ex, ok := r.(*ssa.Extract); ok && ex.Index == cres.Len()-1 {
						errv = ex
					}
				}
			}
			if errv == nil {
				continue
			}
			returnedAsIs := false
			for _, r := range returnsOf(sf) {
				if len(r.Results) > 0 && stripConv(spilledResult(r, r.Results[len(r.Results)-1])) == errv {
					returnedAsIs = true
				}
			}
			if !returnedAsIs {
				continue
			}
			classified := false
			for _, other := range callsIn(sf) {
				oo := staticCalleeObj(other.Call)
				if oo != nil && oo.Pkg() != nil && oo.Pkg().Path() == "errors" && oo.Name() == "Is" && len(other.Call.Args) == 2 && stripConv(other.Call.Args[0]) == errv {
					classified = true
				}
			}
			n++
			k++
			c.Ob(rule, fmt.Sprintf("%s/foreign-lookup#%d", ssaFuncName(sf), k), call.Pos(), classified, true,
				"%s looks up a path that is not the one this function was asked about and its error is returned as is; classified with errors.Is first: %v", callee.Name(), classified)
		}
	}
	if n == 0 {
		c.Fail(rule, "anchor", token.NoPos, "no lookup of a foreign path whose error is returned as is found in bufmodule")
	}
}
