package main

import (
	"fmt"
	"go/token"
	"go/types"

	"golang.org/x/tools/go/packages"
	"golang.org/x/tools/go/ssa"
)

// ruleFilteredPreferred (TARGETS-PREFERRED; C02 and C10, after round-5 seed C02-n): when several references to one
// module were added, the targeted ones are preferred: the candidates are first narrowed with Filter(…, IsTarget), and
// the unfiltered list is used only if that leaves nothing. If the unfiltered list is handed on while targeted
// candidates exist, a non-target reference that happens to have been added first wins: the resolved module (and its
// target files) depends on the order in which the references were added. For every function that narrows a slice
// parameter with a predicate and later hands the *unnarrowed* parameter to another function of the package, that call
// lies on the edge where the narrowed list is empty.
func ruleFilteredPreferred(c *Ctx, rule string, pk *packages.Package, min int) {
	c.Rule(rule, "the unfiltered candidate list is used only when filtering by target left nothing", min)
	p := c.P
	for _, sf := range p.SSAFuncsOf([]*packages.Package{pk}) {
		// F := Filter(S, pred) with S a slice parameter
		var filtered *ssa.Call
		var raw *ssa.Parameter
		for _, call := range callsIn(sf) {
			o := staticCalleeObj(call.Call)
			if o == nil || o.Name() != "Filter" || len(call.Call.Args) != 2 {
				continue
			}
			prm, ok := stripConv(call.Call.Args[0]).(*ssa.Parameter)
			if !ok {
				continue
			}
			if _, isSlice := prm.Type().Underlying().(*types.Slice); !isSlice {
				continue
			}
			// the predicate is (a thunk of) a method named IsTarget, or a closure calling one
			isTargetPred := false
			sliceBack(call.Call.Args[1], func(x ssa.Value) bool {
				switch t := x.(type) {
				case *ssa.Function:
					for _, g := range reachSSA(t, 0) {
						for _, cc := range callsIn(g) {
							if cc.Call.IsInvoke() && cc.Call.Method.Name() == "IsTarget" {
								isTargetPred = true
							}
							if co := staticCalleeObj(cc.Call); co != nil && co.Name() == "IsTarget" {
								isTargetPred = true
							}
						}
					}
					if t.Synthetic != "" || t.Name() == "IsTarget" {
						if obj := t.Object(); obj != nil && obj.Name() == "IsTarget" {
							isTargetPred = true
						}
					}
				case *ssa.MakeClosure:
					if g, ok := t.Fn.(*ssa.Function); ok {
						for _, cc := range callsIn(g) {
							if co := staticCalleeObj(cc.Call); co != nil && co.Name() == "IsTarget" {
								isTargetPred = true
							}
						}
					}
				}
				return true
			})
			if !isTargetPred {
				continue
			}
			if cv, ok := call.Instr.(*ssa.Call); ok {
				filtered, raw = cv, prm
			}
		}
		if filtered == nil {
			continue
		}
		k := 0
		for _, call := range callsIn(sf) {
			callee := call.Call.StaticCallee()
			if callee == nil || callee.Pkg == nil || callee.Pkg.Pkg != pk.Types || call.Instr == ssa.Instruction(filtered) {
				continue
			}
			passesRaw := false
			for _, a := range call.Call.Args {
				if stripConv(a) == ssa.Value(raw) {
					passesRaw = true
				}
			}
			if !passesRaw {
				continue
			}
			k++
			onEmpty := false
			for _, ge := range guardingEdges(call.Instr.Block()) {
				cv, pos := condPolarity(ge.If.Cond)
				bo, ok := cv.(*ssa.BinOp)
				if !ok {
					continue
				}
				ln, isLen := stripConv(bo.X).(*ssa.Call)
				zero, isC := bo.Y.(*ssa.Const)
				if !isLen || !isC || !isBuiltinCall(&ln.Call, "len") || len(ln.Call.Args) != 1 || stripConv(ln.Call.Args[0]) != ssa.Value(filtered) || zero.Value == nil || zero.Value.ExactString() != "0" {
					continue
				}
				holds := ge.Branch == pos
				if (bo.Op == token.EQL && holds) || ((bo.Op == token.NEQ || bo.Op == token.GTR) && !holds) {
					onEmpty = true
				}
			}
			c.Ob(rule, fmt.Sprintf("%s->%s#%d", ssaFuncName(sf), callee.Name(), k), call.Pos(), onEmpty, true, "the unfiltered %s is handed to %s only where the list filtered by IsTarget is empty: %v", raw.Name(), callee.Name(), onEmpty)
		}
	}
}
