package main

import (
	"fmt"
	"go/constant"
	"go/token"
	"go/types"

	"golang.org/x/tools/go/packages"
	"golang.org/x/tools/go/ssa"
)

// ruleFilteredPreferred (TARGETS-PREFERRED; C02 and C10, after round-5 seed C02-n): when several references to one
// module were added, the targeted ones are preferred: the candidates are first narrowed with Filter(…, IsTarget), and
// the unfiltered list is used only if that leaves nothing. If the unfiltered list is handed on while targeted
// candidates exist, a non-target reference that happens to have been added first wins: the resolved module (and its
// target files) depends on the order in which the references were added. For every function that narrows a slice
// parameter with a predicate and later hands the *unnarrowed* parameter to another function of the package, that call
// lies on the edge where the narrowed list is empty.
func ruleFilteredPreferred(c *Ctx, rule string, pk *packages.Package, min int) {
	c.Rule(rule, "the unfiltered candidate list is used only when filtering by target left nothing", min)
	p := c.P
	for _, sf := range p.SSAFuncsOf([]*packages.Package{pk}) {
		// F := Filter(S, pred) with S a slice parameter
		var filtered *ssa.Call
		var raw *ssa.Parameter
		for _, call := range callsIn(sf) {
			o := staticCalleeObj(call.Call)
			if o == nil || o.Name() != "Filter" || len(call.Call.Args) != 2 {
				continue
			}
			prm, ok := stripConv(call.Call.Args[0]).(*ssa.Parameter)
			if !ok {
				continue
			}
			if _, isSlice := prm.Type().Underlying().(*types.Slice); !isSlice {
				continue
			}
			// the predicate is (a thunk of) a method named IsTarget, or a closure calling one
			isTargetPred := false
			sliceBack(call.Call.Args[1], func(x ssa.Value) bool {
				switch t := x.(type) {
				case *ssa.Function:
					for _, g := range reachSSA(t, 0) {
						for _, cc := range callsIn(g) {
							if cc.Call.IsInvoke() && cc.Call.Method.Name() == "IsTarget" {
								isTargetPred = true
							}
							if co := staticCalleeObj(cc.Call); co != nil && co.Name() == "IsTarget" {
								isTargetPred = true
							}
						}
					}
					if t.Synthetic != "" || t.Name() == "IsTarget" {
						if obj := t.Object(); obj != nil && obj.Name() == "IsTarget" {
							isTargetPred = true
						}
					}
				case *ssa.MakeClosure:
					if g, ok := t.Fn.(*ssa.Function); ok {
						for _, cc := range callsIn(g) {
							if co := staticCalleeObj(cc.Call); co != nil && co.Name() == "IsTarget" {
								isTargetPred = true
							}
						}
					}
				}
				return true
			})
			if !isTargetPred {
				continue
			}
			if cv, ok := call.Instr.(*ssa.Call); ok {
				filtered, raw = cv, prm
			}
		}
		if filtered == nil {
			continue
		}
		// what is known about n = len(filtered) where control stands: the abstract values 0, 1 and "2 or more" that
		// the tests of n passed on the way still allow
		type edge struct {
			cond   ssa.Value
			branch bool
		}
		allowed := func(edges []edge) [3]bool {
			al := [3]bool{true, true, true}
			for _, e := range edges {
				cv, pos := condPolarity(e.cond)
				bo, ok := cv.(*ssa.BinOp)
				if !ok {
					continue
				}
				ln, isLen := stripConv(bo.X).(*ssa.Call)
				cst, isC := bo.Y.(*ssa.Const)
				if !isLen || !isC || !isBuiltinCall(&ln.Call, "len") || len(ln.Call.Args) != 1 || stripConv(ln.Call.Args[0]) != ssa.Value(filtered) || cst.Value == nil {
					continue
				}
				cv64, exact := constant.Int64Val(cst.Value)
				if !exact || cv64 < 0 || cv64 > 2 {
					continue
				}
				holds := e.branch == pos
				for v := 0; v < 3; v++ {
					// does abstract value v (2 = two or more) satisfy `n op c`? "maybe" keeps it
					var sat, unsat bool
					test := func(n int64) bool {
						switch bo.Op {
						case token.EQL:
							return n == cv64
						case token.NEQ:
							return n != cv64
						case token.GTR:
							return n > cv64
						case token.GEQ:
							return n >= cv64
						case token.LSS:
							return n < cv64
						case token.LEQ:
							return n <= cv64
						}
						return true
					}
					samples := []int64{int64(v)}
					if v == 2 {
						samples = []int64{2, 3, 1000}
					}
					for _, n := range samples {
						if test(n) {
							sat = true
						} else {
							unsat = true
						}
					}
					if holds && !sat {
						al[v] = false
					}
					if !holds && !unsat {
						al[v] = false
					}
				}
			}
			return al
		}
		guardsOf := func(b *ssa.BasicBlock) []edge {
			var out []edge
			for _, ge := range guardingEdges(b) {
				out = append(out, edge{ge.If.Cond, ge.Branch})
			}
			return out
		}
		// the contexts in which a value is the unnarrowed parameter: directly, or through the φ of a local that is
		// assigned either list (`candidates := all; if len(targets) > 1 { candidates = targets }`)
		var rawContexts func(v ssa.Value, at *ssa.BasicBlock, seen map[ssa.Value]bool) [][]edge
		rawContexts = func(v ssa.Value, at *ssa.BasicBlock, seen map[ssa.Value]bool) [][]edge {
			v = stripConv(v)
			if seen[v] {
				return nil
			}
			seen[v] = true
			switch t := v.(type) {
			case *ssa.Parameter:
				if t == raw {
					return [][]edge{guardsOf(at)}
				}
			case *ssa.Phi:
				var out [][]edge
				for i, e := range t.Edges {
					pred := t.Block().Preds[i]
					for _, ctx := range rawContexts(e, pred, seen) {
						if fi := ifOf(pred); fi != nil && len(pred.Succs) == 2 && pred.Succs[0] != pred.Succs[1] {
							ctx = append(append([]edge(nil), ctx...), edge{fi.Cond, pred.Succs[0] == t.Block()})
						}
						out = append(out, ctx)
					}
				}
				return out
			}
			return nil
		}
		k := 0
		for _, call := range callsIn(sf) {
			callee := call.Call.StaticCallee()
			if callee == nil || callee.Pkg == nil || callee.Pkg.Pkg != pk.Types || call.Instr == ssa.Instruction(filtered) {
				continue
			}
			var contexts [][]edge
			for _, a := range call.Call.Args {
				for _, ctx := range rawContexts(a, call.Instr.Block(), map[ssa.Value]bool{}) {
					// the tests passed on the way to the call itself count as well
					contexts = append(contexts, append(append([]edge(nil), ctx...), guardsOf(call.Instr.Block())...))
				}
			}
			if len(contexts) == 0 {
				continue
			}
			k++
			onEmpty := true
			for _, ctx := range contexts {
				al := allowed(ctx)
				if al[1] || al[2] {
					onEmpty = false
				}
			}
			c.Ob(rule, fmt.Sprintf("%s->%s#%d", ssaFuncName(sf), callee.Name(), k), call.Pos(), onEmpty, true, "the unfiltered %s is handed to %s only where the list filtered by IsTarget is empty: %v", raw.Name(), callee.Name(), onEmpty)
		}
	}
}
