package main

// C06 — rule selection and suppression compose set-theoretically.

import (
	"fmt"
	"go/ast"
	"go/token"
	"go/types"
	"strings"

	"golang.org/x/tools/go/packages"
	"golang.org/x/tools/go/ssa"
)

func init() {
	register(&propCheck{
		ID: "C06",
		Explanation: "Skeleton of rule resolution and suppression: (1) category nesting in every spec version — each rule listing MINIMAL lists BASIC and STANDARD (and DEFAULT where " +
			"that category exists), each rule listing BASIC lists STANDARD; deprecated categories name existing replacements; (2) in newRulesConfig the rule ids inserted into the " +
			"result derive from the `use` parameter through the category expansion and the un-deprecation transform, the ids deleted derive likewise from `except`, the " +
			"ignore_only map passes the corresponding pair of transforms and normalisation (SSA data dependence); (3) both category-expansion functions return a non-nil error on " +
			"the edge where the id is neither a rule nor a category; (4) no insertion into the result is reachable after a deletion (use ∖ except); (5) suppression only removes — " +
			"the annotations handed on are slicesext.FilterError of the input, every `return true` of ignoreFileLocation is guarded by a condition reading the config, the comment " +
			"directive path lies under AllowCommentIgnores && CommentIgnorePrefix != \"\", and a directive matches a rule id only as a whole word unless the lint rule ids are " +
			"prefix-free; (6) ExcludeImports is read in ignoreFileLocation and set only from the exclude-imports option; (7) the result rules and merged annotations are sorted. " +
			"NOT decided: the algebraic laws over all configurations.",
		Assumptions: []string{"set semantics of Go maps"},
		Run:         runC06,
	})
}

func runC06(c *Ctx) {
	c06ReplacementMerge(c)
	c06EmptySelectionSkips(c)
	c06SuppressorsDisjoin(c)
	c06OptionsFullPath(c)
	ruleIsEmptyCovers(c, "ISEMPTY-COVERS")
	p := c.P
	c.Rule("CATEGORY-NESTING", "MINIMAL ⊆ BASIC ⊆ STANDARD (and DEFAULT) in every spec version", 60)
	c.Rule("RESOLUTION-PIPELINE", "use/except/ignore_only pass category expansion and un-deprecation before they are consumed", 3)
	c.Rule("UNKNOWN-REJECTED", "an id that is neither a rule nor a category is an error", 2)
	c.Rule("USE-MINUS-EXCEPT", "no insertion into the selected rule set is reachable after a deletion", 1)
	c.Rule("SUPPRESSION-REMOVES", "suppression can only remove annotations, only under a configured condition, and only for the named rule", 6)
	c.Rule("EXCLUDE-IMPORTS", "the exclude-imports switch is read by the filter and set only from the option", 2)
	c.Rule("SORTED", "selected rules and merged annotations are sorted", 2)
	c.Rule("MERGE-COMPLETE", "annotations of all plugin clients are merged under one shared mutex and sorted after the barrier (no client's batch can be lost)", 1)

	t := extractCheckTables(p)
	for _, sn := range []string{"V1Beta1Spec", "V1Spec", "V2Spec"} {
		st := t.Specs[sn]
		if st == nil {
			c.Fail("CATEGORY-NESTING", sn, token.NoPos, "spec not found")
			continue
		}
		cat := specCategories(st)
		chains := [][2]string{{"MINIMAL", "BASIC"}, {"BASIC", "STANDARD"}, {"MINIMAL", "STANDARD"}}
		if len(cat["DEFAULT"]) > 0 {
			chains = append(chains, [2]string{"MINIMAL", "DEFAULT"}, [2]string{"BASIC", "DEFAULT"})
		}
		for _, ch := range chains {
			if len(cat[ch[0]]) == 0 {
				c.Fail("CATEGORY-NESTING", sn+"/"+ch[0], st.Pos, "category %s has no rules", ch[0])
				continue
			}
			for _, id := range sortedKeys(cat[ch[0]]) {
				c.Ob("CATEGORY-NESTING", fmt.Sprintf("%s/%s⊆%s/%s", sn, ch[0], ch[1], id), st.Pos, cat[ch[1]][id], false, "rule %s of %s is also in %s: %v", id, ch[0], ch[1], cat[ch[1]][id])
			}
		}
	}

	c06DeprecatedCategories(c, t)
	c06SelectorsIndependent(c)
	if q := p.Pkg("private/bufpkg/bufcheck"); q != nil {
		c06DirectiveAnchored(c, q)
		c06AnnotationJudgedAlone(c, q)
		c06UndeprecateUngated(c, q)
		c06DuplicatesCheckedTogether(c, q)
		ruleSharedAppend(c, "SHARED-APPEND", []*packages.Package{q})
	}
	{
		var tp []*packages.Package
		for _, rel := range []string{"private/bufpkg/bufcheck", pkgCheckUtil, "private/bufpkg/bufconfig"} {
			if q := p.Pkg(rel); q != nil {
				tp = append(tp, q)
			}
		}
		ruleTransferComplete(c, "TRANSFER-COMPLETE", tp, 2)
	}
	fr := p.Func("private/bufpkg/bufcheck", "newRulesConfig")
	if fr == nil {
		c.Fail("RESOLUTION-PIPELINE", "anchor", token.NoPos, "newRulesConfig not found")
		return
	}
	sf := p.SSAFunc(fr.Obj)
	calledIn := func(v ssa.Value, name string) bool {
		return dependsOnCall(v, func(cc *ssa.CallCommon) bool {
			fn := staticCalleeObj(cc)
			return fn != nil && fn.Name() == name
		})
	}
	dependsOnParam := func(v ssa.Value, idx int) bool {
		return idx < len(sf.Params) && dependsOnValue(v, sf.Params[idx])
	}
	// locate the result map: the map deleted from by a key derived from parameter 1 (except)
	var del *ssa.Call
	var inserts []*ssa.MapUpdate
	for _, b := range sf.Blocks {
		for _, ins := range b.Instrs {
			if call, ok := ins.(*ssa.Call); ok {
				if bi, ok := call.Call.Value.(*ssa.Builtin); ok && bi.Name() == "delete" && len(call.Call.Args) == 2 {
					if mt, ok := call.Call.Args[0].Type().Underlying().(*types.Map); ok && namedName(mt.Elem()) == "Rule" {
						del = call
					}
				}
			}
		}
	}
	if del == nil {
		c.Fail("RESOLUTION-PIPELINE", "delete", fr.Decl.Pos(), "no delete from a map[string]Rule in newRulesConfig")
		return
	}
	resMap := del.Call.Args[0]
	for _, b := range sf.Blocks {
		for _, ins := range b.Instrs {
			if mu, ok := ins.(*ssa.MapUpdate); ok && mu.Map == resMap {
				inserts = append(inserts, mu)
			}
		}
	}
	dk := del.Call.Args[1]
	okDel := calledIn(dk, "transformRuleIDsToUndeprecated") && calledIn(dk, "transformRuleOrCategoryIDsToRuleIDs") && dependsOnParam(dk, 1) && !dependsOnParam(dk, 0)
	c.Ob("RESOLUTION-PIPELINE", "newRulesConfig/except", del.Pos(), okDel, true,
		"deleted keys derive from the except parameter (%v, not from use: %v) through category expansion (%v) and un-deprecation (%v)",
		dependsOnParam(dk, 1), !dependsOnParam(dk, 0), calledIn(dk, "transformRuleOrCategoryIDsToRuleIDs"), calledIn(dk, "transformRuleIDsToUndeprecated"))
	for _, mu := range inserts {
		okIns := calledIn(mu.Key, "transformRuleIDsToUndeprecated") && calledIn(mu.Key, "transformRuleOrCategoryIDsToRuleIDs") && dependsOnParam(mu.Key, 0) && !dependsOnParam(mu.Key, 1)
		c.Ob("RESOLUTION-PIPELINE", "newRulesConfig/use", mu.Pos(), okIns, true,
			"inserted keys derive from the use parameter (%v, not from except: %v) through category expansion (%v) and un-deprecation (%v)",
			dependsOnParam(mu.Key, 0), !dependsOnParam(mu.Key, 1), calledIn(mu.Key, "transformRuleOrCategoryIDsToRuleIDs"), calledIn(mu.Key, "transformRuleIDsToUndeprecated"))
		c.Ob("USE-MINUS-EXCEPT", "newRulesConfig/insert-after-delete", mu.Pos(), !instrReaches(del, mu), true, "the insertion is not reachable after the deletion: %v", !instrReaches(del, mu))
	}
	if len(inserts) == 0 {
		c.Fail("RESOLUTION-PIPELINE", "newRulesConfig/use", fr.Decl.Pos(), "no insertion into the result map")
	}
	// ignore_only: the struct field IgnoreRuleIDToRootPaths of the returned rulesConfig
	okIgn, seen := false, false
	for _, b := range sf.Blocks {
		for _, ins := range b.Instrs {
			st, ok := ins.(*ssa.Store)
			if !ok {
				continue
			}
			fa, ok := st.Addr.(*ssa.FieldAddr)
			if !ok || fieldName(fa.X.Type(), fa.Field) != "private/bufpkg/bufcheck.rulesConfig.IgnoreRuleIDToRootPaths" {
				continue
			}
			if c0, isConst := st.Val.(*ssa.Const); isConst && c0.IsNil() {
				continue
			}
			if _, isMake := st.Val.(*ssa.MakeMap); isMake {
				continue
			}
			seen = true
			okIgn = calledIn(st.Val, "transformRuleOrCategoryIDToIgnoreRootPathsToRuleIDs") && calledIn(st.Val, "transformRuleIDToIgnoreRootPathsToUndeprecated") &&
				calledIn(st.Val, "normalizeKeyToIgnoreRootPathMap") && dependsOnParam(st.Val, 3)
			c.Ob("RESOLUTION-PIPELINE", "newRulesConfig/ignore_only", st.Pos(), okIgn, true, "IgnoreRuleIDToRootPaths derives from the ignore_only parameter through category expansion, un-deprecation and path normalisation: %v", okIgn)
		}
	}
	if !seen {
		c.Fail("RESOLUTION-PIPELINE", "newRulesConfig/ignore_only", fr.Decl.Pos(), "no store of a computed IgnoreRuleIDToRootPaths")
	}
	// sorted result
	sorted := false
	for _, call := range callsIn(sf) {
		if fn := staticCalleeObj(call.Call); fn != nil && fn.Pkg() != nil && fn.Pkg().Path() == "sort" {
			sorted = true
		}
	}
	c.Ob("SORTED", "newRulesConfig/resultRules", fr.Decl.Pos(), sorted, false, "the selected rules are sorted by id: %v (sort-before-use is an obligation of C02)", sorted)
	if mc := p.Func("private/bufpkg/bufcheck", "multiClient.Check"); mc != nil {
		has := false
		ast.Inspect(mc.Decl.Body, func(n ast.Node) bool {
			if call, ok := n.(*ast.CallExpr); ok {
				if fn := Callee(mc.Info(), call); fn != nil && fn.Pkg() != nil && fn.Pkg().Path() == "sort" {
					has = true
				}
			}
			return true
		})
		if !has && mc.Obj != nil {
			// the sort moved with the collected annotations into a helper or a method of a collector
			for _, f := range reachSSA(p.SSAFunc(mc.Obj), 2) {
				if f.Pkg == nil || f.Pkg.Pkg.Path() != mc.Pkg.PkgPath {
					continue
				}
				for _, call := range callsIn(f) {
					if fn := staticCalleeObj(call.Call); fn != nil && fn.Pkg() != nil && (fn.Pkg().Path() == "sort" || fn.Pkg().Path() == "slices" && strings.HasPrefix(fn.Name(), "Sort")) {
						has = true
					}
				}
			}
		}
		c.Ob("SORTED", "multiClient.Check/annotations", mc.Decl.Pos(), has, false, "merged annotations are sorted: %v (sort-after-barrier is an obligation of C02)", has)
	} else {
		c.Fail("SORTED", "multiClient.Check", token.NoPos, "not found")
	}

	// (3) unknown ids rejected
	for _, name := range []string{"transformRuleOrCategoryIDsToRuleIDs", "transformRuleOrCategoryIDToIgnoreRootPathsToRuleIDs"} {
		tf := p.Func("private/bufpkg/bufcheck", name)
		if tf == nil {
			c.Fail("UNKNOWN-REJECTED", name, token.NoPos, "not found")
			continue
		}
		// decided on SSA: some return of a non-nil error lies on the "absent" edge of two different comma-ok lookups (the
		// rule index and the category index), whatever the shape of the if/else-if/switch
		ok := false
		sf := p.SSAFunc(tf.Obj)
		for _, f := range allSSAFuncs(sf) {
			type absentEdge struct {
				blk    *ssa.BasicBlock
				branch bool // the branch taken when the key is absent
				lk     *ssa.Lookup
			}
			var edges []absentEdge
			for _, b := range f.Blocks {
				for _, ins := range b.Instrs {
					lk, isLk := ins.(*ssa.Lookup)
					if !isLk || !lk.CommaOk || lk.Referrers() == nil {
						continue
					}
					for _, ref := range *lk.Referrers() {
						ex, isEx := ref.(*ssa.Extract)
						if !isEx || ex.Index != 1 {
							continue
						}
						for _, ib := range f.Blocks {
							if i := ifOf(ib); i != nil {
								if cond, pos := condPolarity(i.Cond); cond == ssa.Value(ex) {
									edges = append(edges, absentEdge{ib, !pos, lk})
								}
							}
						}
					}
				}
			}
			for _, b := range f.Blocks {
				for _, ins := range b.Instrs {
					r, isRet := ins.(*ssa.Return)
					if !isRet || len(r.Results) == 0 {
						continue
					}
					last := r.Results[len(r.Results)-1]
					if !isErrorType(last.Type()) || isNilConst(last) {
						continue
					}
					absent := map[*ssa.Lookup]bool{}
					for _, e := range edges {
						if edgeDominates(e.blk, e.branch, b) {
							absent[e.lk] = true
						}
					}
					if len(absent) >= 2 {
						ok = true
					}
				}
			}
		}
		c.Ob("UNKNOWN-REJECTED", name, tf.Decl.Pos(), ok, true, "the branch where neither the rule lookup nor the category lookup succeeds returns a non-nil error: %v", ok)
	}

	c06Suppression(c, t)
	goAggRule(c, "MERGE-COMPLETE", func(rel string) bool { return rel == "private/bufpkg/bufcheck" })
}

func c06Suppression(c *Ctx, t *checkTables) {
	p := c.P
	const rule = "SUPPRESSION-REMOVES"
	pk := p.Pkg("private/bufpkg/bufcheck")
	info := pk.TypesInfo
	// (5a) filterAnnotations = FilterError(param)
	if fa := p.Func("private/bufpkg/bufcheck", "filterAnnotations"); fa != nil {
		sf := p.SSAFunc(fa.Obj)
		ok := false
		for _, r := range returnsOf(sf) {
			if len(r.Results) != 2 {
				continue
			}
			if ex, isEx := r.Results[0].(*ssa.Extract); isEx {
				if call, isCall := ex.Tuple.(*ssa.Call); isCall {
					if fn := staticCalleeObj(&call.Call); fn != nil && fn.Name() == "FilterError" && len(call.Call.Args) >= 1 && len(sf.Params) == 2 && call.Call.Args[0] == ssa.Value(sf.Params[1]) {
						ok = true
					}
				}
			}
		}
		isIgnoreCall := func(cc *ssa.CallCommon) bool {
			o := staticCalleeObj(cc)
			return o != nil && (o.Name() == "ignoreAnnotation" || o.Name() == "ignoreFileLocation")
		}
		loop := (*annFilterLoop)(nil)
		if !ok {
			// the hand-written form: a loop appending elements of the parameter
			if loop = findAnnFilterLoop(sf); loop != nil && loop.OnlyInput {
				ok = true
			}
		}
		c.Ob(rule, "filterAnnotations/filter-of-input", fa.Decl.Pos(), ok, true, "the result is slicesext.FilterError applied to the annotations parameter, or only elements of it are appended (nothing is added): %v", ok)
		// the predicate keeps an annotation iff it is not ignored
		neg := false
		ast.Inspect(fa.Decl.Body, func(n ast.Node) bool {
			if r, isRet := n.(*ast.ReturnStmt); isRet && len(r.Results) == 2 {
				if ue, isU := ast.Unparen(r.Results[0]).(*ast.UnaryExpr); isU && ue.Op == token.NOT && isNilIdent(fa.Info(), r.Results[1]) {
					neg = true
				}
			}
			return true
		})
		if loop != nil && !neg {
			neg = loop.keepsNotIgnored(isIgnoreCall)
		}
		c.Ob(rule, "filterAnnotations/keeps-not-ignored", fa.Decl.Pos(), neg, true, "the filter predicate returns the negation of the ignore decision (or the loop appends only where it is false): %v", neg)
	} else {
		c.Fail(rule, "filterAnnotations", token.NoPos, "not found")
	}
	// the filtered slice is what is converted
	if af := p.Func("private/bufpkg/bufcheck", "annotationsToFilteredFileAnnotationSetOrError"); af != nil {
		sf := p.SSAFunc(af.Obj)
		ok := false
		for _, call := range callsIn(sf) {
			if fn := staticCalleeObj(call.Call); fn != nil && fn.Name() == "annotationsToFileAnnotations" {
				if dependsOnCall(call.Call.Args[len(call.Call.Args)-1], func(cc *ssa.CallCommon) bool {
					f := staticCalleeObj(cc)
					return f != nil && f.Name() == "filterAnnotations"
				}) {
					ok = true
				}
			}
		}
		c.Ob(rule, "annotationsToFilteredFileAnnotationSetOrError/uses-filtered", af.Decl.Pos(), ok, true, "the annotations converted for output are the filtered ones: %v", ok)
	}
	// both locations of an annotation are consulted: the against-location test stays reachable after the current
	// location was examined and not ignored
	if ia := p.Func("private/bufpkg/bufcheck", "ignoreAnnotation"); ia != nil {
		iinfo := ia.Info()
		g := p.CFGOf(ia.Decl.Body, iinfo)
		var calls []*ast.CallExpr
		ast.Inspect(ia.Decl.Body, func(n ast.Node) bool {
			if call, ok := n.(*ast.CallExpr); ok {
				if fn := Callee(iinfo, call); fn != nil && fn.Name() == "ignoreFileLocation" {
					calls = append(calls, call)
				}
			}
			return true
		})
		mentions := func(n ast.Node, name string) bool {
			found := false
			ast.Inspect(ia.Decl.Body, func(m ast.Node) bool {
				if as, ok := m.(*ast.AssignStmt); ok && len(as.Rhs) == 1 {
					if call, ok := as.Rhs[0].(*ast.CallExpr); ok {
						if sel, ok := call.Fun.(*ast.SelectorExpr); ok && sel.Sel.Name == name {
							// the variable defined here is the argument of n
							if o := identObj(iinfo, as.Lhs[0]); o != nil && usesObj(iinfo, n, o) {
								found = true
							}
						}
					}
				}
				return true
			})
			return found
		}
		var cur, against *ast.CallExpr
		for _, call := range calls {
			if len(call.Args) == 3 && mentions(call.Args[2], "AgainstFileLocation") && !mentions(call.Args[2], "FileLocation") {
				against = call
			} else if len(call.Args) == 3 && mentions(call.Args[2], "FileLocation") && !mentions(call.Args[2], "AgainstFileLocation") {
				cur = call
			}
		}
		ok := cur != nil && against != nil && g.Reachable(cur, against)
		c.Ob(rule, "ignoreAnnotation/both-locations", ia.Decl.Pos(), ok, true,
			"the current and the against location are each passed to ignoreFileLocation, and the against test is reachable after the current one was examined: %v", ok)
	} else if fa := p.Func("private/bufpkg/bufcheck", "filterAnnotations"); fa != nil && fa.Obj != nil {
		// no separate ignoreAnnotation: the two ignoreFileLocation calls are looked for in what filterAnnotations runs
		locOf := func(v ssa.Value) string {
			cur, against := false, false
			sliceBack(v, func(x ssa.Value) bool {
				if call, ok := x.(*ssa.Call); ok {
					name := ""
					if o := staticCalleeObj(&call.Call); o != nil {
						name = o.Name()
					} else if call.Call.IsInvoke() {
						name = call.Call.Method.Name()
					}
					switch name {
					case "FileLocation":
						cur = true
					case "AgainstFileLocation":
						against = true
					}
				}
				return true
			})
			switch {
			case cur && !against:
				return "cur"
			case against && !cur:
				return "against"
			}
			return ""
		}
		ok := false
		for _, f := range reachSSA(p.SSAFunc(fa.Obj), 2) {
			if f.Pkg == nil || f.Pkg.Pkg.Path() != pk.PkgPath {
				continue
			}
			var cur, against []*ssa.Call
			for _, sc := range callsIn(f) {
				if o := staticCalleeObj(sc.Call); o != nil && o.Name() == "ignoreFileLocation" && len(sc.Call.Args) == 3 {
					if call, isCall := sc.Instr.(*ssa.Call); isCall {
						switch locOf(sc.Call.Args[2]) {
						case "cur":
							cur = append(cur, call)
						case "against":
							against = append(against, call)
						}
					}
				}
			}
			for _, a := range cur {
				for _, b := range against {
					if a.Block() == b.Block() || blockReaches(a.Block(), b.Block()) {
						ok = true
					}
				}
			}
		}
		c.Ob(rule, "ignoreAnnotation/both-locations", fa.Decl.Pos(), ok, true,
			"the current and the against location are each passed to ignoreFileLocation, and the against test is reachable after the current one was examined: %v", ok)
	} else {
		c.Fail(rule, "ignoreAnnotation", token.NoPos, "not found")
	}
	// FRESH-SETS: path sets stored into the per-rule result maps are freshly made, never an input set (aliasing would let
	// a later merge for one rule leak paths into another rule's suppression)
	for _, name := range []string{"transformRuleOrCategoryIDToIgnoreRootPathsToRuleIDs", "transformRuleIDToIgnoreRootPathsToUndeprecated"} {
		tf := p.Func("private/bufpkg/bufcheck", name)
		if tf == nil {
			c.Fail(rule, name+"/fresh-sets", token.NoPos, "not found")
			continue
		}
		sf := p.SSAFunc(tf.Obj)
		okF, n := true, 0
		for _, f := range reachSSA(sf, 2) {
			if f.Pkg == nil || f.Pkg != sf.Pkg {
				continue
			}
			for _, b := range f.Blocks {
				for _, ins := range b.Instrs {
					mu, ok := ins.(*ssa.MapUpdate)
					if !ok {
						continue
					}
					if _, isMap := mu.Value.Type().Underlying().(*types.Map); !isMap {
						continue
					}
					n++
					if _, fresh := stripConv(mu.Value).(*ssa.MakeMap); !fresh {
						okF = false
					}
				}
			}
		}
		c.Ob(rule, name+"/fresh-sets", tf.Decl.Pos(), okF && n > 0, true, "%d store(s) of a path set into the per-rule result, each a freshly made map (no aliasing of input sets): %v", n, okF)
	}
	// (5b) ignoreFileLocation: every `return true` guarded by a condition reading config
	il := p.Func("private/bufpkg/bufcheck", "ignoreFileLocation")
	if il == nil {
		c.Fail(rule, "ignoreFileLocation", token.NoPos, "not found")
		return
	}
	cfgObj := il.Info().Defs[il.Decl.Type.Params.List[0].Names[0]]
	ruleSuppressionGuarded(c, rule)
	// the comment-directive call lies under AllowCommentIgnores && CommentIgnorePrefix != ""
	ast.Inspect(il.Decl.Body, func(n ast.Node) bool {
		call, ok := n.(*ast.CallExpr)
		if !ok {
			return true
		}
		fn := Callee(info, call)
		if fn == nil || fn.Name() != "checkCommentLineForCheckIgnore" {
			return true
		}
		// decided on SSA so that `if a && b { … }` and the guard-clause form `if !a || !b { return }` read the same: the
		// call lies on the edge where AllowCommentIgnores holds and on the edge where CommentIgnorePrefix != ""
		okG := false
		if ssaIL := p.SSAFunc(il.Obj); ssaIL != nil {
			fieldLoad := func(v ssa.Value, name string) bool {
				v = stripConv(v)
				if u, ok := v.(*ssa.UnOp); ok && u.Op == token.MUL {
					if fa, ok := u.X.(*ssa.FieldAddr); ok {
						return strings.HasSuffix(fieldName(fa.X.Type(), fa.Field), "."+name)
					}
				}
				if f, ok := v.(*ssa.Field); ok {
					return strings.HasSuffix(fieldName(f.X.Type(), f.Field), "."+name)
				}
				return false
			}
			for _, sc := range callsIn(ssaIL) {
				if o := staticCalleeObj(sc.Call); o == nil || o.Name() != "checkCommentLineForCheckIgnore" {
					continue
				}
				allow, prefix := false, false
				for _, ge := range guardingEdges(sc.Instr.Block()) {
					cv, pos := condPolarity(ge.If.Cond)
					holds := ge.Branch == pos
					if fieldLoad(cv, "AllowCommentIgnores") && holds {
						allow = true
					}
					if bo, ok := cv.(*ssa.BinOp); ok && (fieldLoad(bo.X, "CommentIgnorePrefix") || fieldLoad(bo.Y, "CommentIgnorePrefix")) {
						if (bo.Op == token.NEQ && holds) || (bo.Op == token.EQL && !holds) {
							prefix = true
						}
					}
				}
				okG = allow && prefix
			}
		}
		c.Ob(rule, "ignoreFileLocation/comment-directives-gated", call.Pos(), okG, true, "comment directives are consulted only under AllowCommentIgnores && CommentIgnorePrefix != \"\": %v", okG)
		// the rule id passed is the function's own ruleID parameter
		ruleObj := il.Info().Defs[il.Decl.Type.Params.List[1].Names[0]]
		okR := len(call.Args) == 3 && identObj(info, call.Args[2]) == ruleObj
		c.Ob(rule, "ignoreFileLocation/directive-for-this-rule", call.Pos(), okR, true, "the directive is matched against the annotation's own rule id: %v", okR)
		return true
	})
	// rule-specific ignore map is indexed by the rule id
	okIdx := false
	ruleObj := il.Info().Defs[il.Decl.Type.Params.List[1].Names[0]]
	ast.Inspect(il.Decl.Body, func(n ast.Node) bool {
		if ix, ok := n.(*ast.IndexExpr); ok {
			if sel, ok := ix.X.(*ast.SelectorExpr); ok && sel.Sel.Name == "IgnoreRuleIDToRootPaths" && identObj(info, ix.Index) == ruleObj {
				okIdx = true
			}
		}
		return true
	})
	c.Ob(rule, "ignoreFileLocation/ignore_only-indexed-by-rule", il.Decl.Pos(), okIdx, true, "ignore_only paths are looked up under the annotation's rule id: %v", okIdx)

	// (5c) whole-word directive match
	dm := p.Func("private/bufpkg/bufcheck", "checkCommentLineForCheckIgnore")
	if dm == nil {
		c.Fail(rule, "checkCommentLineForCheckIgnore", token.NoPos, "not found")
	} else {
		// undelimited iff the line parameter is used exactly once, as the subject of one strings.HasPrefix
		dinfo := dm.Info()
		lineObj := dinfo.Defs[dm.Decl.Type.Params.List[0].Names[0]]
		uses, prefixCalls := 0, 0
		ast.Inspect(dm.Decl.Body, func(n ast.Node) bool {
			if id, ok := n.(*ast.Ident); ok && dinfo.Uses[id] == lineObj {
				uses++
			}
			if call, ok := n.(*ast.CallExpr); ok {
				if fn := Callee(dinfo, call); fn != nil && calleeIs(fn, "strings", "HasPrefix") && len(call.Args) == 2 && identObj(dinfo, call.Args[0]) == lineObj {
					prefixCalls++
				}
			}
			return true
		})
		undelimited := uses == 1 && prefixCalls == 1
		// lint rule ids that are proper prefixes of other lint rule ids
		ids := map[string]bool{}
		for _, b := range t.Builders {
			if b.Type == "lint" {
				ids[b.ID] = true
			}
		}
		var pairs []string
		for _, a := range sortedKeys(ids) {
			for _, b := range sortedKeys(ids) {
				if a != b && strings.HasPrefix(b, a) {
					pairs = append(pairs, a+"<"+b)
				}
			}
		}
		ok := !undelimited || len(pairs) == 0
		c.Ob(rule, "checkCommentLineForCheckIgnore/whole-word", dm.Decl.Pos(), ok, true,
			"directive matching is a bare strings.HasPrefix on the rule id: %v; lint rule ids that are prefixes of other ids: %v (a directive naming the longer id would also suppress the shorter rule)", undelimited, pairs)
	}

	// (6) ExcludeImports
	okRead := false
	ast.Inspect(il.Decl.Body, func(n ast.Node) bool {
		if sel, ok := n.(*ast.SelectorExpr); ok && sel.Sel.Name == "ExcludeImports" && identObj(info, sel.X) == cfgObj {
			okRead = true
		}
		return true
	})
	c.Ob("EXCLUDE-IMPORTS", "ignoreFileLocation/reads", il.Decl.Pos(), okRead, false, "ignoreFileLocation reads config.ExcludeImports: %v", okRead)
	// set only from the option: every non-constant value stored into a field named ExcludeImports derives from a parameter/field named excludeImports
	bad := ""
	n := 0
	for _, f := range pk.Syntax {
		ast.Inspect(f, func(x ast.Node) bool {
			kv, ok := x.(*ast.KeyValueExpr)
			if !ok {
				return true
			}
			id, ok := kv.Key.(*ast.Ident)
			if !ok || id.Name != "ExcludeImports" {
				return true
			}
			n++
			if tv, ok := info.Types[kv.Value]; ok && tv.Value != nil {
				if tv.Value.ExactString() != "false" {
					bad = p.Pos(kv.Pos()) + ": constant true"
				}
				return true
			}
			s := exprString(kv.Value)
			if !strings.Contains(strings.ToLower(s), "excludeimports") {
				bad = p.Pos(kv.Pos()) + ": " + s
			}
			return true
		})
	}
	c.Ob("EXCLUDE-IMPORTS", "bufcheck/writers", token.NoPos, bad == "" && n >= 2, true, "%d literals set ExcludeImports, each to false or to the exclude-imports option value %s", n, bad)
}

// ruleSuppressionGuarded (shared by C06 SUPPRESSION-REMOVES and C03 SUPPRESSION-CONFIGURED): every `return true` of the
// annotation filter (an annotation is dropped) is nested in a condition that reads the configuration - with nothing
// configured, nothing is suppressed, so no breaking change or lint finding disappears on its own.
func ruleSuppressionGuarded(c *Ctx, rule string) {
	p := c.P
	il := p.Func("private/bufpkg/bufcheck", "ignoreFileLocation")
	if il == nil || il.Decl.Type.Params == nil || len(il.Decl.Type.Params.List) == 0 || len(il.Decl.Type.Params.List[0].Names) == 0 {
		c.Fail(rule, "ignoreFileLocation", token.NoPos, "not found")
		return
	}
	info := il.Info()
	cfgObj := info.Defs[il.Decl.Type.Params.List[0].Names[0]]
	nTrue := 0
	ast.Inspect(il.Decl.Body, func(n ast.Node) bool {
		r, ok := n.(*ast.ReturnStmt)
		if !ok || len(r.Results) != 2 {
			return true
		}
		tv, has := info.Types[r.Results[0]]
		if !has || tv.Value == nil || tv.Value.ExactString() != "true" {
			return true
		}
		nTrue++
		guarded := false
		for cur := p.Parent(r); cur != nil && cur != il.Decl; cur = p.Parent(cur) {
			if ifs, ok := cur.(*ast.IfStmt); ok && (usesObj(info, ifs.Cond, cfgObj) || (ifs.Init != nil && usesObj(info, ifs.Init, cfgObj))) {
				guarded = true
			}
		}
		c.Ob(rule, "ignoreFileLocation/return-true-guarded", r.Pos(), guarded, true, "`return true` is nested in a condition that reads the config (an empty config suppresses nothing): %v", guarded)
		return true
	})
	if nTrue < 4 {
		c.Fail(rule, "ignoreFileLocation/return-true-count", il.Decl.Pos(), "only %d `return true` found (expected ≥ 4)", nTrue)
	}
}
