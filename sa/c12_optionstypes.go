package main

import (
	"go/ast"
	"go/token"
	"go/types"
	"strings"

	"golang.org/x/tools/go/packages"
)

// c12OptionsTypesComplete (OPTIONS-TYPES-COMPLETE; C12, after round-4 seed C12-k): custom options are found by asking
// "which extensions extend one of the options messages?". The list of options messages is spelled out as string
// literals; descriptor.proto's own Go package is the reference: every message type of descriptorpb whose name ends in
// "Options" must be in every such list (a missing ExtensionRangeOptions makes options on `extensions 1 to 10 [...]`
// invisible to the filter: their extension, its message type and its file are dropped and the image still links).
func c12OptionsTypesComplete(c *Ctx, pk *packages.Package) {
	const rule = "OPTIONS-TYPES-COMPLETE"
	c.Rule(rule, "every list of google.protobuf.*Options names covers all options messages of descriptor.proto", 1)
	p := c.P
	var ref []string
	for _, imp := range pk.Imports {
		if imp.PkgPath != "google.golang.org/protobuf/types/descriptorpb" || imp.Types == nil {
			continue
		}
		sc := imp.Types.Scope()
		for _, name := range sc.Names() {
			tn, ok := sc.Lookup(name).(*types.TypeName)
			if !ok || !strings.HasSuffix(name, "Options") || strings.Contains(name, "_") {
				continue
			}
			if _, isStruct := tn.Type().Underlying().(*types.Struct); isStruct {
				ref = append(ref, "google.protobuf."+name)
			}
		}
	}
	if len(ref) < 8 {
		c.Fail(rule, "reference", token.NoPos, "descriptorpb not among the package's imports, or fewer than 8 options messages found (%d)", len(ref))
		return
	}
	n := 0
	for _, fr := range p.FuncsOf(pk) {
		if fr.Decl.Body == nil {
			continue
		}
		info := fr.Info()
		have := map[string]bool{}
		ast.Inspect(fr.Decl.Body, func(m ast.Node) bool {
			if bl, ok := m.(*ast.BasicLit); ok && bl.Kind == token.STRING {
				if tv, ok := info.Types[bl]; ok && tv.Value != nil {
					s := strings.Trim(tv.Value.ExactString(), `"`)
					if strings.HasPrefix(s, "google.protobuf.") && strings.HasSuffix(s, "Options") {
						have[s] = true
					}
				}
			}
			return true
		})
		if len(have) < 4 {
			continue
		}
		n++
		var missing []string
		for _, r := range ref {
			if !have[r] {
				missing = append(missing, r)
			}
		}
		c.Ob(rule, fr.ID(), fr.Decl.Pos(), len(missing) == 0, true, "%s lists %d options messages; descriptorpb has %d; missing: %v", fr.Decl.Name.Name, len(have), len(ref), missing)
	}
	if n == 0 {
		c.Fail(rule, "anchor", token.NoPos, "no list of google.protobuf.*Options names found")
	}
}
