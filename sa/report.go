package main

// Obligations, known findings, evidence files and the output contract.

import (
	"encoding/json"
	"fmt"
	"go/token"
	"os"
	"path/filepath"
	"sort"
	"strings"
	"time"
)

var verifDir = "/verif"

// Obligation is one (rule, construct) pair decided by the checker.
type Obligation struct {
	Rule       string `json:"rule"`
	Instance   string `json:"instance"`
	Pos        string `json:"pos"`
	OK         bool   `json:"ok"`
	Msg        string `json:"msg,omitempty"`
	Nontrivial bool   `json:"nontrivial"`
	Known      bool   `json:"known,omitempty"`
}

func (o Obligation) key() string { return o.Rule + "|" + o.Instance }

// Ctx collects the obligations of one property run.
type Ctx struct {
	P     *Prog
	Prop  string
	Tier  string
	Obls  []Obligation
	seen  map[string]int
	notes []string
	// rule -> minimal instance count confirmed by hand on the pinned tree
	minInst map[string]int
	rules   map[string]string // rule -> one-line description
	// counters for the evidence file
	FuncsAnalysed int
	CallSites     int
	quiet         bool
}

func NewCtx(p *Prog, prop, tier string) *Ctx {
	return &Ctx{P: p, Prop: prop, Tier: tier, seen: map[string]int{}, minInst: map[string]int{}, rules: map[string]string{}}
}

// Rule registers a rule with its description and the minimal number of instances expected.
func (c *Ctx) Rule(rule, desc string, min int) {
	c.rules[rule] = desc
	c.minInst[rule] = min
}

// Ob records an obligation. Instances must be line-free; duplicates get a #n suffix in order of position.
func (c *Ctx) Ob(rule, instance string, pos token.Pos, ok bool, nontrivial bool, format string, args ...any) {
	if _, known := c.rules[rule]; !known {
		panic("unregistered rule " + rule)
	}
	msg := fmt.Sprintf(format, args...)
	k := rule + "|" + instance
	c.seen[k]++
	if n := c.seen[k]; n > 1 {
		instance = fmt.Sprintf("%s#%d", instance, n)
	}
	ps := "-"
	if c.P != nil {
		ps = c.P.Pos(pos)
	}
	c.Obls = append(c.Obls, Obligation{Rule: rule, Instance: instance, Pos: ps, OK: ok, Msg: msg, Nontrivial: nontrivial})
}

// Fail records an undecided / anchor-lost obligation (undecided = failed).
func (c *Ctx) Fail(rule, instance string, pos token.Pos, format string, args ...any) {
	c.Ob(rule, instance, pos, false, false, format, args...)
}

func (c *Ctx) Note(format string, args ...any) {
	c.notes = append(c.notes, fmt.Sprintf(format, args...))
}

// ---- known findings -----------------------------------------------------------------------

type KnownFinding struct {
	Property string `json:"property"`
	Rule     string `json:"rule"`
	Instance string `json:"instance"`
	What     string `json:"what"`
	Status   string `json:"status"` // "known" or "fixed: property=<id> <commit> <what failed>"
}

func loadKnownFindings() ([]KnownFinding, error) {
	b, err := os.ReadFile(filepath.Join(verifDir, "known_findings.json"))
	if err != nil {
		if os.IsNotExist(err) {
			return nil, nil
		}
		return nil, err
	}
	var out struct {
		Findings []KnownFinding `json:"findings"`
	}
	if err := json.Unmarshal(b, &out); err != nil {
		return nil, err
	}
	return out.Findings, nil
}

// ---- finishing ----------------------------------------------------------------------------

type ruleStat struct {
	Rule       string `json:"rule"`
	Desc       string `json:"description"`
	Instances  int    `json:"instances"`
	Discharged int    `json:"discharged"`
	Min        int    `json:"min_instances"`
}

// Finish applies instance floors and known findings, prints the report, writes the evidence
// file and returns the process exit code.
func (c *Ctx) Finish(start time.Time, explanation string, assumptions []string, replayOnly *replayFile) int {
	// instance floors: a rule matching fewer sites than confirmed by hand never passes silently
	count := map[string]int{}
	for _, o := range c.Obls {
		count[o.Rule]++
	}
	for _, r := range sortedKeys(c.rules) {
		if count[r] < c.minInst[r] {
			c.Obls = append(c.Obls, Obligation{Rule: r, Instance: "instance-floor", Pos: "-", OK: false,
				Msg: fmt.Sprintf("rule matched %d instances, fewer than the %d confirmed by hand on the pinned tree (anchor lost or code moved: undecided = failed)", count[r], c.minInst[r])})
			count[r]++
		}
	}
	known, err := loadKnownFindings()
	if err != nil {
		fmt.Printf("cannot read known_findings.json: %v\n", err)
		return 2
	}
	knownSet := map[string]KnownFinding{}
	for _, k := range known {
		if k.Property == c.Prop && k.Status == "known" {
			knownSet[k.Rule+"|"+k.Instance] = k
		}
	}
	sort.SliceStable(c.Obls, func(i, j int) bool {
		if c.Obls[i].Rule != c.Obls[j].Rule {
			return c.Obls[i].Rule < c.Obls[j].Rule
		}
		return c.Obls[i].Instance < c.Obls[j].Instance
	})
	stats := map[string]*ruleStat{}
	for _, r := range sortedKeys(c.rules) {
		stats[r] = &ruleStat{Rule: r, Desc: c.rules[r], Min: c.minInst[r]}
	}
	var violations []Obligation
	discharged, nontrivial := 0, 0
	distinct := map[string]bool{}
	for i := range c.Obls {
		o := &c.Obls[i]
		st := stats[o.Rule]
		st.Instances++
		if o.OK {
			st.Discharged++
			discharged++
			if o.Nontrivial && !distinct[o.key()] {
				distinct[o.key()] = true
				nontrivial++
			}
			continue
		}
		if kf, ok := knownSet[o.key()]; ok {
			o.Known = true
			fmt.Printf("KNOWN-FINDING: property=%s %s [%s %s at %s]\n", c.Prop, kf.What, o.Rule, o.Instance, o.Pos)
			continue
		}
		violations = append(violations, *o)
	}
	if !c.quiet {
		for _, r := range sortedKeys(stats) {
			st := stats[r]
			fmt.Printf("rule=%s instances=%d discharged=%d min=%d  # %s\n", st.Rule, st.Instances, st.Discharged, st.Min, st.Desc)
		}
		for _, n := range c.notes {
			fmt.Printf("note: %s\n", n)
		}
	}
	exit := 0
	if replayOnly != nil {
		found := false
		for _, o := range c.Obls {
			if o.Rule == replayOnly.Rule && o.Instance == replayOnly.Instance {
				found = true
				state := "HOLDS"
				if !o.OK {
					state = "FAILS"
				}
				fmt.Printf("replay: %s: %s: %s: %s: %s\n", o.Pos, o.Rule, o.Instance, state, o.Msg)
				if !o.OK && !o.Known {
					exit = 1
				}
			}
		}
		if !found {
			fmt.Printf("replay: obligation %s / %s no longer exists on this tree\n", replayOnly.Rule, replayOnly.Instance)
		}
		return exit
	}
	replayDir := filepath.Join(verifDir, "evidence", "replay")
	if len(violations) > 0 {
		_ = os.MkdirAll(replayDir, 0o755)
	}
	for i, v := range violations {
		rp := filepath.Join(replayDir, fmt.Sprintf("%s-%d.json", c.Prop, i+1))
		b, _ := json.MarshalIndent(replayFile{Property: c.Prop, Rule: v.Rule, Instance: v.Instance, Pos: v.Pos, Msg: v.Msg}, "", " ")
		_ = os.WriteFile(rp, b, 0o644)
		fmt.Printf("%s: %s: %s: %s\n", v.Pos, v.Rule, v.Instance, v.Msg)
		fmt.Printf("VIOLATION property=%s replay=%s\n", c.Prop, rp)
		exit = 1
	}
	if exit == 0 {
		fmt.Printf("OK property=%s obligations=%d discharged=%d\n", c.Prop, len(c.Obls), discharged)
	}
	// evidence
	var samples []Obligation
	perRule := map[string]int{}
	for _, o := range c.Obls {
		if perRule[o.Rule] < 4 || !o.OK {
			perRule[o.Rule]++
			samples = append(samples, o)
		}
	}
	if len(samples) > 120 {
		samples = samples[:120]
	}
	var rs []ruleStat
	for _, r := range sortedKeys(stats) {
		rs = append(rs, *stats[r])
	}
	npk := 0
	if c.P != nil {
		npk = len(c.P.Pkgs)
	}
	ev := map[string]any{
		"property_id": c.Prop,
		"tier":        c.Tier,
		"seed":        seedFromEnv(),
		"level":       "other",
		"coverage": map[string]any{
			"explanation":         explanation,
			"obligations":         len(c.Obls),
			"discharged":          discharged,
			"evaluations":         len(c.Obls),
			"distinct_nontrivial": nontrivial,
			"rule":                "one obligation per (rule, code construct) enumerated from the type-checked source of /repo on this run; non-trivial = discharged by a path/dataflow/table argument rather than by mere presence; distinct = distinct (rule, instance) keys",
			"samples":             samples,
			"checker_cmd":         fmt.Sprintf("bin/check %s %s", c.Prop, c.Tier),
			"trusted_base":        []string{"go/types, go/cfg, go/ssa of golang.org/x/tools v0.29.0", "Go spec evaluation order", "stated models of library functions (filepath.Clean, errors.Join, sort.*, sync.RWMutex)"},
			"rules":               rs,
			"packages_loaded":     npk,
			"functions_analysed":  c.FuncsAnalysed,
			"call_sites":          c.CallSites,
			"known_findings":      countKnown(c.Obls),
			"notes":               c.notes,
			"exhaustive":          false,
		},
		"assumptions": assumptions,
		"wall_s":      time.Since(start).Seconds(),
		"violations":  len(violations),
	}
	b, _ := json.MarshalIndent(ev, "", " ")
	_ = os.MkdirAll(filepath.Join(verifDir, "evidence"), 0o755)
	if err := os.WriteFile(filepath.Join(verifDir, "evidence", c.Prop+".json"), append(b, '\n'), 0o644); err != nil {
		fmt.Printf("cannot write evidence: %v\n", err)
		return 2
	}
	return exit
}

func countKnown(obls []Obligation) int {
	n := 0
	for _, o := range obls {
		if o.Known {
			n++
		}
	}
	return n
}

type replayFile struct {
	Property string `json:"property"`
	Rule     string `json:"rule"`
	Instance string `json:"instance"`
	Pos      string `json:"pos,omitempty"`
	Msg      string `json:"msg,omitempty"`
}

func seedFromEnv() int {
	s := os.Getenv("VERIF_SEED")
	n := 0
	for _, ch := range s {
		if ch < '0' || ch > '9' {
			return 0
		}
		n = n*10 + int(ch-'0')
		if n > 1<<30 {
			break
		}
	}
	return n
}

func short(s string, n int) string {
	s = strings.Join(strings.Fields(s), " ")
	if len(s) > n {
		return s[:n] + "…"
	}
	return s
}
