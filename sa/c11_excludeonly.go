package main

import (
	"fmt"
	"go/token"
	"go/types"
	"strings"

	"golang.org/x/tools/go/packages"
	"golang.org/x/tools/go/ssa"
)

// c11PromotionNeedsPath (PROMOTION-NEEDS-PATH; C11, after round-5 seed C11-b): "build with --path/--exclude-path, lint
// or breaking against the image gives the same result as against the sources". In the sources, an exclude path takes
// files out of the targets; it never turns a dependency's file (or a well-known type) into a target. The image-level
// filter keeps a set of paths that become non-imports of the result (the set handed to the function that adds the
// imports back). A file enters that set either because a --path value selected it (the guard of the insertion depends
// on the include-path parameter through more than its length) or because it already is a non-import (the insertion is
// on the false edge of its IsImport()). With only --exclude-path given, the second is the only reason there is.
func c11PromotionNeedsPath(c *Ctx, pk *packages.Package) {
	const rule = "PROMOTION-NEEDS-PATH"
	c.Rule(rule, "the image path filter makes a file a non-import only if a --path selects it or it is one already", 2)
	p := c.P
	n := 0
	for _, sf := range p.SSAFuncsOf([]*packages.Package{pk}) {
		// the filter: a function with two []string parameters, one of them the excludes, that hands a local map to a
		// same-package function together with the image
		var include *ssa.Parameter
		nStr := 0
		for _, prm := range sf.Params {
			if sl, ok := prm.Type().Underlying().(*types.Slice); ok {
				if b, ok := sl.Elem().Underlying().(*types.Basic); ok && b.Kind() == types.String {
					nStr++
					if !strings.Contains(strings.ToLower(prm.Name()), "exclude") {
						include = prm
					}
				}
			}
		}
		if nStr != 2 || include == nil || len(sf.Params) == 0 || !strings.HasSuffix(namedPath(sf.Params[0].Type()), "bufimage.Image") {
			continue
		}
		sets := map[ssa.Value]bool{}
		for _, call := range callsIn(sf) {
			callee := call.Call.StaticCallee()
			if callee == nil || callee.Pkg != sf.Pkg || len(call.Call.Args) < 2 {
				continue
			}
			for _, a := range call.Call.Args {
				if mm, ok := stripConv(a).(*ssa.MakeMap); ok {
					for _, r := range returnsOf(sf) {
						if len(r.Results) > 0 && dependsOnValue(r.Results[0], call.Value) {
							sets[mm] = true
						}
					}
				}
			}
		}
		if len(sets) == 0 {
			continue
		}
		k := 0
		for _, b := range sf.Blocks {
			for _, ins := range b.Instrs {
				mu, ok := ins.(*ssa.MapUpdate)
				if !ok || !sets[stripConv(mu.Map)] {
					continue
				}
				n++
				k++
				selected, nonImport := false, false
				for _, ge := range guardingEdges(b) {
					cv, pos := condPolarity(ge.If.Cond)
					// already a non-import: the false edge of <file>.IsImport()
					if cl, ok := stripConv(cv).(*ssa.Call); ok && cl.Call.IsInvoke() && cl.Call.Method.Name() == "IsImport" {
						if ge.Branch != pos {
							nonImport = true
						}
						continue
					}
					if x, _, isNilCmp := nilCompare(cv); isNilCmp && isErrorType(x.Type()) {
						continue // "the arguments were valid" is not a selection
					}
					sliceBack(ge.If.Cond, func(x ssa.Value) bool {
						if cl, ok := x.(*ssa.Call); ok && isBuiltinCall(&cl.Call, "len") && len(cl.Call.Args) == 1 {
							if _, isParam := stripConv(cl.Call.Args[0]).(*ssa.Parameter); isParam {
								return false // how many paths were given says nothing about this file
							}
						}
						if x == ssa.Value(include) {
							selected = true
						}
						return true
					})
				}
				c.Ob(rule, fmt.Sprintf("%s/insert#%d", ssaFuncName(sf), k), mu.Pos(), selected || nonImport, true, "the file becomes a non-import of the filtered image because a --path value selects it (%v) or because it is a non-import already (%v)", selected, nonImport)
			}
		}
	}
	if n == 0 {
		c.Fail(rule, "anchor", token.NoPos, "no insertion into the non-import set of the image path filter found")
	}
}
