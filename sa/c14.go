package main

// C14 — all bucket implementations and combinators behave as one path→bytes map (narrow structural part).

import (
	"go/ast"
	"go/token"
	"go/types"
	"golang.org/x/tools/go/ssa"
	"strings"

	"golang.org/x/tools/go/packages"
)

func init() {
	register(&propCheck{
		ID: "C14",
		Explanation: "Narrow structural conditions of the bucket model: (1) lockset — every access to the memory bucket's object map holds its RWMutex (writes exclusively), and the map is " +
			"written only when a WriteObjectCloser is closed (objects become visible on Close) and by Delete/DeleteAll; (2) prefix tests are path-wise — inside the storage packages no " +
			"strings.HasPrefix/HasSuffix/Contains is applied to a path/prefix parameter or to a value derived from it, and every Walk/DeleteAll prefix filter goes through " +
			"normalpath.EqualsOrContainsPath; (3) sibling agreement on 'not exist' — every *fs.PathError built in the storage packages for a missing object carries fs.ErrNotExist, so " +
			"storage.IsNotExist agrees across backends; (4) the union bucket reports, rather than hides, a path with two owners (Walk callback and lookup both build " +
			"ErrExistsMultipleLocations unless overlay), and the overlay returns the first delegate in index order; (5) the prefix mapper pair: MapPath joins the prefix, UnmapFullPath " +
			"guards with EqualsOrContainsPath and then takes Rel of the same prefix; the chain mapper applies its list in opposite orders for the two directions; (6) the memory " +
			"bucket's Walk visits sorted paths (R-MAPORDER instance). NOT decided: equivalence to the model after arbitrary histories; agreement of backends on the same history.",
		Assumptions: []string{"normalpath.EqualsOrContainsPath walks up directories (decided by reading; its loop is not re-verified here)"},
		Run:         runC14,
	})
}

// string-prefix uses on paths that are not containment tests
var c14StringPrefixAllowed = map[string]string{
	"private/pkg/storage.getDiffPathForObjectInfo": "label decoration of diff output (the a/ b/ display prefixes of external paths), not bucket containment",
	"private/pkg/storage.getDiffPathForNotFound":   "label decoration of diff output, not bucket containment",
}

// base-name filters that are not bucket visibility decisions
var c14NameFilterAllowed = map[string]string{
	"private/pkg/storage/storagearchive.isAppleExtendedAttributesFile": "macOS tar/zip `._x` resource-fork entries are skipped when unpacking an archive: documented compromise of the archive reader, not of a bucket",
}

func runC14(c *Ctx) {
	p := c.P
	c.Rule("LOCKSET", "the memory bucket's object map is accessed under its lock and published only on Close", 5)
	c.Rule("PATHWISE-PREFIX", "prefix containment is decided path-wise, never by string prefix", 4)
	c.Rule("NOT-EXIST-AGREES", "every backend reports a missing object with an error wrapping fs.ErrNotExist", 6)
	c.Rule("UNION-DUPLICATES", "a union bucket reports a path present in two members; an overlay prefers the first", 3)
	c.Rule("MAPPER-PAIR", "MapPath and UnmapFullPath are built as inverses on the mapped subtree", 3)
	c.Rule("MEM-WALK-SORTED", "the memory bucket walks its objects in sorted path order", 1)
	pkMem := p.Pkg("private/pkg/storage/storagemem")
	pkSt := p.Pkg("private/pkg/storage")
	if pkMem == nil || pkSt == nil {
		c.Fail("LOCKSET", "anchor", token.NoPos, "storage packages not found")
		return
	}
	// the members of the memory bucket are found by type: its mutex, and its path -> object map
	memLock, memMap := "lock", "pathToImmutableObject"
	if o := pkMem.Types.Scope().Lookup("bucket"); o != nil {
		if st, ok := o.Type().Underlying().(*types.Struct); ok {
			for i := 0; i < st.NumFields(); i++ {
				f := st.Field(i)
				switch ft := f.Type().Underlying().(type) {
				case *types.Map:
					if b, ok := ft.Key().Underlying().(*types.Basic); ok && b.Kind() == types.String {
						memMap = f.Name()
					}
				default:
					if np := namedPath(f.Type()); np == "sync.RWMutex" || np == "sync.Mutex" {
						memLock = f.Name()
					}
				}
			}
		}
	}
	ruleLockset(c, "LOCKSET", pkMem, "bucket", memLock)
	ruleOneCriticalSection(c, "LOCKSET", pkMem, "bucket", memLock)
	// writers of the map across the package: Close of writeObjectCloser, Delete, DeleteAll
	writers := map[string]bool{}
	for _, f := range pkMem.Syntax {
		ast.Inspect(f, func(n ast.Node) bool {
			var target ast.Expr
			switch x := n.(type) {
			case *ast.AssignStmt:
				if len(x.Lhs) == 1 {
					if ix, ok := x.Lhs[0].(*ast.IndexExpr); ok {
						target = ix.X
					}
				}
			case *ast.CallExpr:
				if id, ok := x.Fun.(*ast.Ident); ok && id.Name == "delete" && len(x.Args) == 2 {
					target = x.Args[0]
				}
			}
			if target == nil {
				return true
			}
			if se, ok := target.(*ast.SelectorExpr); ok && se.Sel.Name == memMap {
				if fd := p.EnclosingFuncDecl(n); fd != nil {
					writers[declName(fd)] = true
				}
			}
			return true
		})
	}
	want := map[string]bool{"writeObjectCloser.Close": true, "bucket.Delete": true, "bucket.DeleteAll": true}
	okW := len(writers) > 0
	for w := range writers {
		if !want[w] {
			okW = false
		}
	}
	c.Ob("LOCKSET", "storagemem/map-writers", token.NoPos, okW && writers["writeObjectCloser.Close"], true, "the object map is written by %v (want only Close of a write object, Delete and DeleteAll)", sortedKeys(writers))
	// the store in Close holds the bucket lock
	if cl := p.Func("private/pkg/storage/storagemem", "writeObjectCloser.Close"); cl != nil {
		info := cl.Info()
		g := p.CFGOf(cl.Decl.Body, info)
		var lock, store ast.Node
		ast.Inspect(cl.Decl.Body, func(n ast.Node) bool {
			switch x := n.(type) {
			case *ast.CallExpr:
				if sel, ok := x.Fun.(*ast.SelectorExpr); ok && sel.Sel.Name == "Lock" && c14IsMemLock(info, sel.X, memLock) {
					lock = x
				}
			case *ast.AssignStmt:
				if len(x.Lhs) == 1 {
					if ix, ok := x.Lhs[0].(*ast.IndexExpr); ok && strings.HasSuffix(exprString(ix.X), memMap) {
						store = x
					}
				}
			}
			return true
		})
		ok := lock != nil && store != nil && g.Dominates(lock, store)
		c.Ob("LOCKSET", "writeObjectCloser.Close/publish-under-lock", cl.Decl.Pos(), ok, true, "the object is published under the bucket's exclusive lock: %v", ok)
		// keyed by the path captured at Put (a field of the closer), which Put validated
		keyOK := false
		if as, ok := store.(*ast.AssignStmt); ok {
			if ix, ok := as.Lhs[0].(*ast.IndexExpr); ok {
				if se, ok := ix.Index.(*ast.SelectorExpr); ok && se.Sel.Name == "path" {
					keyOK = true
				}
			}
		}
		c.Ob("LOCKSET", "writeObjectCloser.Close/key", cl.Decl.Pos(), keyOK, true, "the key is the path captured (validated) at Put: %v", keyOK)
	} else {
		c.Fail("LOCKSET", "writeObjectCloser.Close", token.NoPos, "not found")
	}

	// (2) path-wise prefix tests
	storagePkgs := []*packages.Package{pkSt, pkMem}
	for _, rel := range []string{"private/pkg/storage/storageos", "private/pkg/storage/storageutil", "private/pkg/storage/storagearchive", "private/pkg/filepathext"} {
		if q := p.Pkg(rel); q != nil {
			storagePkgs = append(storagePkgs, q)
		}
	}
	nPrefixFilters := 0
	for _, q := range storagePkgs {
		qinfo := q.TypesInfo
		for _, fr := range p.FuncsOf(q) {
			// path-ish parameters
			pathParams := map[types.Object]bool{}
			for _, fld := range fr.Decl.Type.Params.List {
				for _, nm := range fld.Names {
					ln := strings.ToLower(nm.Name)
					if (strings.Contains(ln, "path") || strings.Contains(ln, "prefix")) && qinfo.Defs[nm] != nil {
						if b, ok := qinfo.Defs[nm].Type().Underlying().(*types.Basic); ok && b.Kind() == types.String {
							pathParams[qinfo.Defs[nm]] = true
						}
					}
				}
			}
			ast.Inspect(fr.Decl.Body, func(n ast.Node) bool {
				call, ok := n.(*ast.CallExpr)
				if !ok {
					return true
				}
				fn := Callee(qinfo, call)
				if fn == nil || fn.Pkg() == nil {
					return true
				}
				if fn.Pkg().Path() == "strings" && (fn.Name() == "HasPrefix" || fn.Name() == "HasSuffix" || fn.Name() == "Contains") && len(call.Args) == 2 {
					uses := false
					for o := range pathParams {
						if usesObj(qinfo, call.Args[0], o) || usesObj(qinfo, call.Args[1], o) {
							uses = true
						}
					}
					// values derived from ObjectInfo.Path()/ExternalPath() count as paths too
					if strings.Contains(exprString(call.Args[0]), "Path()") {
						uses = true
					}
					if uses {
						if why := c14StringPrefixAllowed[fr.ID()]; why != "" {
							c.Ob("PATHWISE-PREFIX", fr.ID()+"/strings."+fn.Name(), call.Pos(), true, false, "reviewed exception: %s", why)
						} else {
							c.Ob("PATHWISE-PREFIX", fr.ID()+"/strings."+fn.Name(), call.Pos(), false, true, "strings.%s applied to a path/prefix: `a/bc` would count as lying under prefix `a/b`", fn.Name())
						}
					}
				}
				// name-based visibility filters (added after seeded change C14-c): an object is visible iff it exists;
				// hiding entries by the spelling of their base name makes Walk disagree with Get/Stat
				if fn.Pkg().Path() == "strings" && (fn.Name() == "HasPrefix" || fn.Name() == "HasSuffix" || fn.Name() == "Contains" || fn.Name() == "EqualFold") && len(call.Args) == 2 {
					onName := false
					ast.Inspect(call.Args[0], func(m ast.Node) bool {
						if nc, ok := m.(*ast.CallExpr); ok && len(nc.Args) == 0 {
							if sel, ok := nc.Fun.(*ast.SelectorExpr); ok && sel.Sel.Name == "Name" {
								if np := namedPath(qinfo.TypeOf(sel.X)); np == "io/fs.FileInfo" || np == "io/fs.DirEntry" || np == "os.FileInfo" || np == "os.DirEntry" {
									onName = true
								}
							}
						}
						return true
					})
					if onName {
						if why := c14NameFilterAllowed[fr.ID()]; why != "" {
							c.Ob("PATHWISE-PREFIX", fr.ID()+"/name-filter", call.Pos(), true, false, "reviewed exception: %s", why)
						} else {
							c.Ob("PATHWISE-PREFIX", fr.ID()+"/name-filter", call.Pos(), false, true, "strings.%s on a directory entry's base name decides whether an object is visible: Walk would skip objects that Get and Stat return", fn.Name())
						}
					}
				}
				if calleeIs(fn, "private/pkg/normalpath", "EqualsOrContainsPath") {
					nPrefixFilters++
					c.Ob("PATHWISE-PREFIX", fr.ID()+"/EqualsOrContainsPath", call.Pos(), true, false, "prefix containment through normalpath.EqualsOrContainsPath")
				}
				return true
			})
		}
	}
	if nPrefixFilters < 3 {
		c.Fail("PATHWISE-PREFIX", "filters", token.NoPos, "only %d path-wise prefix filters found in the storage packages", nPrefixFilters)
	}
	// the mem bucket's Walk and DeleteAll each filter with EqualsOrContainsPath(prefix, path)
	for _, m := range []string{"bucket.Walk", "bucket.DeleteAll"} {
		fr := p.Func("private/pkg/storage/storagemem", m)
		if fr == nil {
			c.Fail("PATHWISE-PREFIX", "storagemem."+m, token.NoPos, "not found")
			continue
		}
		ok := false
		ast.Inspect(fr.Decl.Body, func(n ast.Node) bool {
			if call, isCall := n.(*ast.CallExpr); isCall {
				if fn := Callee(fr.Info(), call); fn != nil && calleeIs(fn, "private/pkg/normalpath", "EqualsOrContainsPath") && len(call.Args) == 3 {
					// first arg is the (validated) prefix variable, second the stored path
					if strings.Contains(strings.ToLower(exprString(call.Args[0])), "prefix") && strings.Contains(strings.ToLower(exprString(call.Args[1])), "path") {
						ok = true
					}
				}
			}
			return true
		})
		c.Ob("PATHWISE-PREFIX", "storagemem."+m+"/filter", fr.Decl.Pos(), ok, true, "objects are selected by EqualsOrContainsPath(prefix, path): %v", ok)
	}

	// (3) not-exist agreement: every fs.PathError literal in storage packages has Err: fs.ErrNotExist (or a variable for pass-through)
	nPE := 0
	for _, q := range storagePkgs {
		qinfo := q.TypesInfo
		for _, f := range q.Syntax {
			ast.Inspect(f, func(n ast.Node) bool {
				cl, ok := n.(*ast.CompositeLit)
				if !ok || namedPath(qinfo.TypeOf(cl)) != "io/fs.PathError" {
					return true
				}
				nPE++
				okE := false
				for _, el := range cl.Elts {
					if kv, ok := el.(*ast.KeyValueExpr); ok {
						if id, ok := kv.Key.(*ast.Ident); ok && id.Name == "Err" {
							if exprString(kv.Value) == "fs.ErrNotExist" {
								okE = true
							}
						}
					}
				}
				fd := p.EnclosingFuncDecl(cl)
				name := "?"
				if fd != nil {
					name = relPkg(q.PkgPath) + "." + declName(fd)
				}
				c.Ob("NOT-EXIST-AGREES", name, cl.Pos(), okE, true, "the *fs.PathError built here carries fs.ErrNotExist: %v", okE)
				return true
			})
		}
	}
	if nPE < 6 {
		c.Fail("NOT-EXIST-AGREES", "count", token.NoPos, "only %d fs.PathError literals found", nPE)
	}

	// (4) union duplicates
	if lk := p.Func("private/pkg/storage", "multiReadBucket.getObjectInfoAndDelegateIndex"); lk != nil {
		info := lk.Info()
		okDup, okFirst := false, false
		ast.Inspect(lk.Decl.Body, func(n ast.Node) bool {
			switch x := n.(type) {
			case *ast.CaseClause:
				if x.List == nil {
					for _, st := range x.Body {
						if r, ok := st.(*ast.ReturnStmt); ok && len(r.Results) == 3 && strings.Contains(exprString(r.Results[2]), "NewErrExistsMultipleLocations") {
							okDup = true
						}
					}
				}
			case *ast.IfStmt:
				if strings.HasSuffix(exprString(x.Cond), ".overlay") {
					for _, st := range x.Body.List {
						if r, ok := st.(*ast.ReturnStmt); ok && len(r.Results) == 3 && isNilIdent(info, r.Results[2]) {
							// inside the range over delegates in index order
							for cur := p.Parent(x); cur != nil && cur != lk.Decl; cur = p.Parent(cur) {
								if rs, ok := cur.(*ast.RangeStmt); ok {
									if _, isSlice := info.TypeOf(rs.X).Underlying().(*types.Slice); isSlice {
										okFirst = true
									}
								}
							}
						}
					}
				}
			}
			return true
		})
		c.Ob("UNION-DUPLICATES", "multiReadBucket.getObjectInfoAndDelegateIndex/two-owners-error", lk.Decl.Pos(), okDup, true, "two or more owners yield ErrExistsMultipleLocations: %v", okDup)
		c.Ob("UNION-DUPLICATES", "multiReadBucket.getObjectInfoAndDelegateIndex/overlay-first", lk.Decl.Pos(), okFirst, true, "with overlay the first delegate (slice order) that has the path wins: %v", okFirst)
	} else {
		c.Fail("UNION-DUPLICATES", "getObjectInfoAndDelegateIndex", token.NoPos, "not found")
	}
	if wk := p.Func("private/pkg/storage", "multiReadBucket.Walk"); wk != nil {
		// decided on SSA over Walk, its closures and helpers: with L the comma-ok lookup of the walked path in the
		// seen map, the caller's callback runs only on L's absent edge, and on L's present edge the walk returns the
		// multiple-locations error unless the overlay flag is set
		okW := false
		if wsf := p.SSAFunc(wk.Obj); wsf != nil {
			cbOnAbsent, errOnPresent := false, false
			lookupEdge := func(b *ssa.BasicBlock, present bool) bool {
				for _, ge := range guardingEdges(b) {
					cv, pos := condPolarity(ge.If.Cond)
					ex, ok := cv.(*ssa.Extract)
					if !ok || ex.Index != 1 {
						continue
					}
					lk, ok := ex.Tuple.(*ssa.Lookup)
					if !ok || !lk.CommaOk {
						continue
					}
					if (ge.Branch == pos) == present {
						return true
					}
				}
				return false
			}
			overlayFalse := func(b *ssa.BasicBlock) bool {
				for _, ge := range guardingEdges(b) {
					cv, pos := condPolarity(ge.If.Cond)
					if u, ok := cv.(*ssa.UnOp); ok && u.Op == token.MUL {
						if fa, ok := u.X.(*ssa.FieldAddr); ok {
							if st, ok := fa.X.Type().Underlying().(*types.Pointer).Elem().Underlying().(*types.Struct); ok && st.Field(fa.Field).Name() == "overlay" && ge.Branch != pos {
								return true
							}
						}
					}
				}
				return false
			}
			for _, f := range reachSSAWithValues(wsf, 3) {
				for _, call := range callsIn(f) {
					// the caller's callback: a dynamic call of a func value taking the ObjectInfo
					if !call.Call.IsInvoke() && call.Call.StaticCallee() == nil {
						if _, isBuiltin := call.Call.Value.(*ssa.Builtin); !isBuiltin && lookupEdge(call.Instr.Block(), false) {
							cbOnAbsent = true
						}
					}
					if fn := staticCalleeObj(call.Call); fn != nil && fn.Name() == "NewErrExistsMultipleLocations" {
						if lookupEdge(call.Instr.Block(), true) && overlayFalse(call.Instr.Block()) {
							errOnPresent = true
						}
					}
				}
			}
			// and on the present edge nothing but the overlay flag lets the walk go on silently
			overlayTrue := func(b *ssa.BasicBlock) bool {
				for _, ge := range guardingEdges(b) {
					cv, pos := condPolarity(ge.If.Cond)
					if u, ok := cv.(*ssa.UnOp); ok && u.Op == token.MUL {
						if fa, ok := u.X.(*ssa.FieldAddr); ok {
							if st, ok := fa.X.Type().Underlying().(*types.Pointer).Elem().Underlying().(*types.Struct); ok && st.Field(fa.Field).Name() == "overlay" && ge.Branch == pos {
								return true
							}
						}
					}
				}
				return false
			}
			silentOnlyOverlay := true
			for _, f := range reachSSAWithValues(wsf, 3) {
				for _, r := range returnsOf(f) {
					if len(r.Results) == 1 && isNilConst(r.Results[0]) && lookupEdge(r.Block(), true) && !overlayTrue(r.Block()) {
						silentOnlyOverlay = false
					}
				}
			}
			okW = cbOnAbsent && errOnPresent && silentOnlyOverlay
		}
		c.Ob("UNION-DUPLICATES", "multiReadBucket.Walk/seen-twice", wk.Decl.Pos(), okW, true, "a path walked from a second member is an error unless overlay, where it is skipped: %v", okW)
	}

	// (5) mapper pair
	if mp, um := p.Func("private/pkg/storage", "prefixMapper.MapPath"), p.Func("private/pkg/storage", "prefixMapper.UnmapFullPath"); mp != nil && um != nil {
		// the prefix is identified by type, not by name: the string field of the receiver that MapPath joins in front
		recvField := func(fr *FuncRef, e ast.Expr) *types.Var {
			sel, ok := ast.Unparen(e).(*ast.SelectorExpr)
			if !ok || fr.Decl.Recv == nil || len(fr.Decl.Recv.List[0].Names) == 0 {
				return nil
			}
			if identObj(fr.Info(), sel.X) != fr.Info().Defs[fr.Decl.Recv.List[0].Names[0]] {
				return nil
			}
			v, _ := fr.Info().Uses[sel.Sel].(*types.Var)
			if v == nil || !v.IsField() {
				return nil
			}
			return v
		}
		var prefixField *types.Var
		ast.Inspect(mp.Decl.Body, func(n ast.Node) bool {
			if call, ok := n.(*ast.CallExpr); ok {
				if fn := Callee(mp.Info(), call); fn != nil && calleeIs(fn, "private/pkg/normalpath", "Join") && len(call.Args) == 2 {
					if f := recvField(mp, call.Args[0]); f != nil {
						prefixField = f
					}
				}
			}
			return true
		})
		c.Ob("MAPPER-PAIR", "prefixMapper.MapPath", mp.Decl.Pos(), prefixField != nil, true, "MapPath = normalpath.Join(<prefix field of the receiver>, path): %v", prefixField != nil)
		g := p.CFGOf(um.Decl.Body, um.Info())
		var guard, rel ast.Node
		ast.Inspect(um.Decl.Body, func(n ast.Node) bool {
			if call, ok := n.(*ast.CallExpr); ok && len(call.Args) >= 1 {
				if fn := Callee(um.Info(), call); fn != nil {
					f := recvField(um, call.Args[0])
					if calleeIs(fn, "private/pkg/normalpath", "EqualsOrContainsPath") && f != nil && f == prefixField {
						guard = call
					}
					if calleeIs(fn, "private/pkg/normalpath", "Rel") && f != nil && f == prefixField {
						rel = call
					}
				}
			}
			return true
		})
		okU := guard != nil && rel != nil && g.Dominates(guard, rel)
		c.Ob("MAPPER-PAIR", "prefixMapper.UnmapFullPath", um.Decl.Pos(), okU, true, "UnmapFullPath tests EqualsOrContainsPath(prefix, full) and then returns Rel(prefix, full) with the same prefix field MapPath joins: %v", okU)
	} else {
		c.Fail("MAPPER-PAIR", "prefixMapper", token.NoPos, "not found")
	}
	if um := p.Func("private/pkg/storage", "chainMapper.UnmapFullPath"); um != nil {
		// map: some mapping method of chainMapper walks the list with a descending index; unmap: range (ascending)
		desc, asc := false, false
		var where token.Pos
		// the mapping methods of chainMapper and the package functions they hand the mapper list to
		var mapFns []*FuncRef
		seenMapFn := map[*ast.FuncDecl]bool{}
		for _, fr := range p.FuncsOf(pkSt) {
			if recvTypeName(fr.Decl) != "chainMapper" || fr.Decl.Body == nil || strings.HasPrefix(fr.Decl.Name.Name, "Unmap") {
				continue
			}
			mapFns = append(mapFns, fr)
			seenMapFn[fr.Decl] = true
			ast.Inspect(fr.Decl.Body, func(n ast.Node) bool {
				if call, ok := n.(*ast.CallExpr); ok {
					if fn := Callee(fr.Info(), call); fn != nil && fn.Pkg() == pkSt.Types {
						if h := p.DeclOf(fn); h != nil && h.Decl.Body != nil && h.Decl.Recv == nil && !seenMapFn[h.Decl] {
							seenMapFn[h.Decl] = true
							mapFns = append(mapFns, h)
						}
					}
				}
				return true
			})
		}
		for _, fr := range mapFns {
			ast.Inspect(fr.Decl.Body, func(n ast.Node) bool {
				if fs, ok := n.(*ast.ForStmt); ok && fs.Post != nil {
					if inc, ok := fs.Post.(*ast.IncDecStmt); ok && inc.Tok == token.DEC {
						desc = true
						where = fr.Decl.Pos()
					}
				}
				// `for _, m := range slices.Backward(list)` is the same walk
				if rs, ok := n.(*ast.RangeStmt); ok {
					if call, ok := ast.Unparen(rs.X).(*ast.CallExpr); ok {
						if fn := Callee(fr.Info(), call); fn != nil && calleeIs(fn, "slices", "Backward") {
							desc = true
							where = fr.Decl.Pos()
						}
					}
				}
				return true
			})
		}
		ast.Inspect(um.Decl.Body, func(n ast.Node) bool {
			if rs, ok := n.(*ast.RangeStmt); ok {
				if _, isSlice := um.Info().TypeOf(rs.X).Underlying().(*types.Slice); isSlice {
					asc = true
				}
			}
			return true
		})
		c.Ob("MAPPER-PAIR", "chainMapper/opposite-orders", where, desc && asc, true, "mapping walks the mapper list from last to first (%v) and unmapping from first to last (%v)", desc, asc)
	} else {
		c.Fail("MAPPER-PAIR", "chainMapper", token.NoPos, "chainMapper.UnmapFullPath not found")
	}

	// (6) mem walk sorted
	if wk := p.Func("private/pkg/storage/storagemem", "bucket.Walk"); wk != nil {
		info := wk.Info()
		g := p.CFGOf(wk.Decl.Body, info)
		var sortCall, cb ast.Node
		cbObj := info.Defs[wk.Decl.Type.Params.List[2].Names[0]]
		ast.Inspect(wk.Decl.Body, func(n ast.Node) bool {
			if call, ok := n.(*ast.CallExpr); ok {
				if fn := Callee(info, call); fn != nil && callSorts(p, fn, 2) {
					sortCall = call
				}
				if identObj(info, call.Fun) == cbObj {
					cb = call
				}
			}
			return true
		})
		ok := sortCall != nil && cb != nil && g.Dominates(sortCall, cb)
		// the callback is invoked inside a range over the sorted slice, not over the map
		inMap := false
		if cb != nil {
			for cur := p.Parent(cb); cur != nil && cur != wk.Decl; cur = p.Parent(cur) {
				if rs, ok := cur.(*ast.RangeStmt); ok {
					if _, isMap := info.TypeOf(rs.X).Underlying().(*types.Map); isMap {
						inMap = true
					}
				}
			}
		}
		c.Ob("MEM-WALK-SORTED", "storagemem.bucket.Walk", wk.Decl.Pos(), ok && !inMap, true, "the callback runs inside a loop over the sorted path slice (sort dominates it; not inside a map range): %v", ok && !inMap)
	}
	var stPkgs []*packages.Package
	for _, rel := range []string{"private/pkg/storage", "private/pkg/storage/storagemem", "private/pkg/storage/storageos"} {
		if q := p.Pkg(rel); q != nil {
			stPkgs = append(stPkgs, q)
		}
	}
	c14PrefixNotPath(c, stPkgs)
	c14CloseOnce(c, stPkgs)
	c11ArchiveLastWins(c)
	c13ViewWrapsArgument(c)
	c13PathPrefixByString(c)
	c13NormalizeAlwaysCleans(c)
	c14DiskValidateFirst(c)
	c14SymlinkFullyResolved(c)
	c13UntrustedNames(c)
	ruleDelegateErr(c, "DELEGATE-ERR", stPkgs)
	if q := c.P.Pkg("private/pkg/storage"); q != nil {
		c14MatcherNamesake(c, q)
		c14WrappersStateless(c, q)
	}
	ruleOpenTruncates(c, "OPEN-TRUNCATES")
	// a failed put must not change the map: the disk bucket's atomic writer (shared with C15)
	c15AtomicWriter(c)
	// "equivalent spellings of a path denote the same object": every bucket operation works on the sanitised
	// spelling - the raw parameter reaches no map key, mapper, matcher or file-system call (shared with C13)
	c13MustValidate(c)
	c13AbsValid(c, "R-ABSVALID")
}

// ruleOneCriticalSection (added after seeded change C14-b): in every method of typeName, all accesses to the
// receiver's map fields happen in one critical section — no explicit (non-deferred) Unlock/RUnlock of lockField
// lies on a path between two of them. A method that snapshots the keys, releases the lock and looks the keys up
// again acts on a stale snapshot: a concurrent Delete makes Walk fail or skip, i.e. the bucket stops behaving like
// a map observed at one instant.
func ruleOneCriticalSection(c *Ctx, rule string, pk *packages.Package, typeName, lockField string) {
	p := c.P
	info := pk.TypesInfo
	for _, fr := range p.FuncsOf(pk) {
		if recvTypeName(fr.Decl) != typeName || fr.Decl.Recv == nil || len(fr.Decl.Recv.List[0].Names) == 0 || fr.Decl.Body == nil {
			continue
		}
		recv := info.Defs[fr.Decl.Recv.List[0].Names[0]]
		var accesses, unlocks []ast.Node
		ast.Inspect(fr.Decl.Body, func(x ast.Node) bool {
			switch n := x.(type) {
			case *ast.CallExpr:
				if sel, ok := n.Fun.(*ast.SelectorExpr); ok && (sel.Sel.Name == "RUnlock" || sel.Sel.Name == "Unlock") {
					if inner, ok := sel.X.(*ast.SelectorExpr); ok && inner.Sel.Name == lockField && identObj(info, inner.X) == recv {
						if _, isDefer := p.Parent(n).(*ast.DeferStmt); !isDefer {
							unlocks = append(unlocks, n)
						}
					}
				}
			case *ast.SelectorExpr:
				if identObj(info, n.X) == recv {
					if v, ok := info.Uses[n.Sel].(*types.Var); ok && v.IsField() {
						if _, isMap := v.Type().Underlying().(*types.Map); isMap {
							accesses = append(accesses, n)
						}
					}
				}
			}
			return true
		})
		if len(accesses) < 2 {
			continue
		}
		g := p.CFGOf(fr.Decl.Body, info)
		split := ""
		for _, u := range unlocks {
			before, after := false, false
			for _, a := range accesses {
				if g.Reachable(a, u) {
					before = true
				}
				if g.Reachable(u, a) {
					after = true
				}
			}
			if before && after {
				split = p.Pos(u.Pos())
			}
		}
		c.Ob(rule, fr.ID()+"/one-critical-section", fr.Decl.Pos(), split == "", true,
			"%d accesses to the guarded map(s) in one critical section (no explicit unlock between two of them): %v %s", len(accesses), split == "", split)
	}
}

// c14PrefixNotPath (PREFIX-NOT-PATH, round 2): Walk and DeleteAll take a *prefix*, and the root ("", ".", "./") is a
// legal prefix that means "everything"; Get/Put/Delete take an object *path*, for which the root is an error. Some
// helpers of the bucket combinators are written for paths and reject the normalised root. A prefix operation that
// routes its argument through such a helper turns "clear / list the whole view" into an error (or a no-op) on that
// combinator only, so the combinator stops behaving like the plain map the other buckets implement. Decided on SSA:
// no Walk/DeleteAll method of the storage packages passes a value derived from its prefix parameter to a package
// function that returns an error on the edge where its argument equals ".".
func c14PrefixNotPath(c *Ctx, pkgs []*packages.Package) {
	const rule = "PREFIX-NOT-PATH"
	c.Rule(rule, "prefix operations (Walk, DeleteAll) never route the prefix through a helper that rejects the root", 8)
	p := c.P
	rootRejecting := map[*ssa.Function]bool{}
	for _, sf := range p.SSAFuncsOf(pkgs) {
		for _, b := range sf.Blocks {
			i := ifOf(b)
			if i == nil {
				continue
			}
			bin, ok := i.Cond.(*ssa.BinOp)
			if !ok || (bin.Op != token.EQL && bin.Op != token.NEQ) {
				continue
			}
			if !isConstString(bin.X, ".") && !isConstString(bin.Y, ".") {
				continue
			}
			succ := b.Succs[0]
			if bin.Op == token.NEQ {
				succ = b.Succs[1]
			}
			if len(succ.Instrs) == 0 {
				continue
			}
			if r, ok := succ.Instrs[len(succ.Instrs)-1].(*ssa.Return); ok && len(r.Results) > 0 {
				last := r.Results[len(r.Results)-1]
				if isErrorType(last.Type()) && !isNilConst(last) {
					rootRejecting[sf] = true
				}
			}
		}
	}
	c.Ob(rule, "root-rejecting-helpers", token.NoPos, len(rootRejecting) >= 1, false, "%d helper(s) in the storage packages reject the root path", len(rootRejecting))
	for _, sf := range p.SSAFuncsOf(pkgs) {
		if sf.Signature.Recv() == nil || (sf.Name() != "Walk" && sf.Name() != "DeleteAll") || len(sf.Params) < 3 {
			continue
		}
		// the prefix parameter: the string parameter after the context
		var prefix *ssa.Parameter
		for _, prm := range sf.Params[1:] {
			if b, ok := prm.Type().Underlying().(*types.Basic); ok && b.Kind() == types.String {
				prefix = prm
				break
			}
		}
		if prefix == nil {
			continue
		}
		var bad []string
		for _, f := range allSSAFuncs(sf) {
			for _, call := range callsIn(f) {
				callee := call.Call.StaticCallee()
				if callee == nil || !rootRejecting[callee] {
					continue
				}
				for _, a := range call.Call.Args {
					if dependsOnValue(a, prefix) {
						bad = append(bad, callee.Name())
					}
				}
			}
		}
		c.Ob(rule, ssaFuncName(sf), sf.Pos(), len(bad) == 0, true, "the prefix reaches no root-rejecting helper: %v %v", len(bad) == 0, bad)
	}
}

// c14IsMemLock: e selects the mutex member of a storagemem bucket (whatever the variable or member holding the bucket
// is called).
func c14IsMemLock(info *types.Info, e ast.Expr, lockField string) bool {
	se, ok := ast.Unparen(e).(*ast.SelectorExpr)
	if !ok || se.Sel.Name != lockField {
		return false
	}
	return strings.HasSuffix(namedPath(derefType(info.TypeOf(se.X))), "storagemem.bucket")
}
