package main

import (
	"go/ast"
	"go/token"
	"strings"
)

type categorySpec struct {
	Var          string
	ID           string
	Deprecated   bool
	Replacements []string
	Pos          token.Pos
}

// extractCategorySpecs reads the *check.CategorySpec literals of the rule-builder package.
func extractCategorySpecs(p *Prog) map[string]*categorySpec {
	out := map[string]*categorySpec{}
	pkB := p.Pkg(pkgCheckBuild)
	if pkB == nil {
		return out
	}
	info := pkB.TypesInfo
	for _, f := range pkB.Syntax {
		for _, d := range f.Decls {
			gd, ok := d.(*ast.GenDecl)
			if !ok || gd.Tok != token.VAR {
				continue
			}
			for _, sp := range gd.Specs {
				vs := sp.(*ast.ValueSpec)
				for i, nm := range vs.Names {
					if i >= len(vs.Values) {
						continue
					}
					ue, ok := vs.Values[i].(*ast.UnaryExpr)
					if !ok {
						continue
					}
					cl, ok := ue.X.(*ast.CompositeLit)
					if !ok || !strings.HasSuffix(namedPath(info.TypeOf(cl)), "check.CategorySpec") {
						continue
					}
					cs := &categorySpec{Var: nm.Name, Pos: nm.Pos()}
					for _, el := range cl.Elts {
						kv, ok := el.(*ast.KeyValueExpr)
						if !ok {
							continue
						}
						key, _ := kv.Key.(*ast.Ident)
						if key == nil {
							continue
						}
						switch key.Name {
						case "ID":
							cs.ID, _ = stringLit(info, kv.Value)
						case "Deprecated":
							if tv, ok := info.Types[kv.Value]; ok && tv.Value != nil {
								cs.Deprecated = tv.Value.ExactString() == "true"
							}
						case "ReplacementIDs":
							cs.Replacements, _ = stringList(info, kv.Value)
						}
					}
					out[cs.Var] = cs
				}
			}
		}
	}
	return out
}

// c06DeprecatedCategories (DEPRECATED-CATEGORY; C06, after round-4 seed C06-j): "deprecated IDs behave as their
// replacements" holds for a deprecated *category* only if, in every rule set that offers both, the deprecated category
// has exactly the members of the categories that replace it - `use: [DEFAULT]` must select what `use: [STANDARD]`
// selects, and likewise for except and ignore_only keyed by the category. The member sets are the literal category
// lists of the spec tables; the deprecation and its replacements are read from the CategorySpec literals.
func c06DeprecatedCategories(c *Ctx, t *checkTables) {
	const rule = "DEPRECATED-CATEGORY"
	c.Rule(rule, "a deprecated category has exactly the members of its replacement categories in every rule set that lists both", 2)
	cats := extractCategorySpecs(c.P)
	n := 0
	for _, sn := range []string{"V1Beta1Spec", "V1Spec", "V2Spec"} {
		st := t.Specs[sn]
		if st == nil {
			continue
		}
		listed := map[string]bool{} // category IDs offered by this spec
		for _, v := range st.Categories {
			if cs := cats[v]; cs != nil {
				listed[cs.ID] = true
			}
		}
		members := specCategories(st)
		for _, v := range st.Categories {
			cs := cats[v]
			if cs == nil || !cs.Deprecated || len(cs.Replacements) == 0 {
				continue
			}
			all := true
			for _, r := range cs.Replacements {
				all = all && listed[r]
			}
			if !all {
				c.Note("%s: %s lists deprecated category %s without its replacement(s) %v: nothing to compare", rule, sn, cs.ID, cs.Replacements)
				continue
			}
			want := map[string]bool{}
			for _, r := range cs.Replacements {
				for id := range members[r] {
					want[id] = true
				}
			}
			var missing, extra []string
			for _, id := range sortedKeys(want) {
				if !members[cs.ID][id] {
					missing = append(missing, id)
				}
			}
			for _, id := range sortedKeys(members[cs.ID]) {
				if !want[id] {
					extra = append(extra, id)
				}
			}
			n++
			c.Ob(rule, sn+"/"+cs.ID+"="+strings.Join(cs.Replacements, "+"), st.Pos, len(missing) == 0 && len(extra) == 0, true,
				"%s: deprecated category %s has %d members, its replacement(s) %v have %d; in the replacement only: %v, in the deprecated category only: %v",
				sn, cs.ID, len(members[cs.ID]), cs.Replacements, len(want), missing, extra)
		}
	}
	if n == 0 {
		c.Fail(rule, "anchor", token.NoPos, "no rule set lists a deprecated category together with its replacements")
	}
}
