package main

import (
	"go/token"

	"golang.org/x/tools/go/packages"
	"golang.org/x/tools/go/ssa"
)

// onceResultLost lists the (*sync.Once).Do calls in g whose function literal assigns a variable that lives only for
// this invocation of g (a local or a named result of g) which g then returns, while the Once itself outlives the
// invocation (captured, a field, a global): only the invocation that actually runs the body sees the value; every
// later one - and every concurrent one that merely waited in Do - returns the zero value.
func onceResultLost(g *ssa.Function) []ssa.Instruction {
	var out []ssa.Instruction
	for _, call := range callsIn(g) {
		o := staticCalleeObj(call.Call)
		if o == nil || o.Pkg() == nil || o.Pkg().Path() != "sync" || o.Name() != "Do" || len(call.Call.Args) != 2 {
			continue
		}
		// the Once is local to this invocation: harmless
		if al, ok := stripConv(call.Call.Args[0]).(*ssa.Alloc); ok && al.Parent() == g {
			continue
		}
		mc, ok := stripConv(call.Call.Args[1]).(*ssa.MakeClosure)
		if !ok {
			continue
		}
		h, _ := mc.Fn.(*ssa.Function)
		if h == nil {
			continue
		}
		for i, b := range mc.Bindings {
			cell, ok := b.(*ssa.Alloc)
			if !ok || cell.Parent() != g || i >= len(h.FreeVars) {
				continue
			}
			// h stores into the cell
			stored := false
			for _, hf := range allSSAFuncs(h) {
				for _, blk := range hf.Blocks {
					for _, ins := range blk.Instrs {
						if st, ok := ins.(*ssa.Store); ok && hf == h && st.Addr == ssa.Value(h.FreeVars[i]) {
							stored = true
						}
					}
				}
			}
			if !stored {
				continue
			}
			// g returns the cell's content
			for _, r := range returnsOf(g) {
				for _, res := range r.Results {
					if dependsOnValue(res, cell) {
						out = append(out, call.Instr)
					}
				}
			}
		}
	}
	// one report per Do call
	seen := map[ssa.Instruction]bool{}
	var uniq []ssa.Instruction
	for _, i := range out {
		if !seen[i] {
			seen[i] = true
			uniq = append(uniq, i)
		}
	}
	return uniq
}

// ruleOnceResultLost (ONCE-RESULT-LOST; C08 and C09, after round-4 seed C08-k): zero instances are expected; the
// self-test keeps a positive and a negative example.
func ruleOnceResultLost(c *Ctx, rule string, pkgs []*packages.Package) {
	c.Rule(rule, "a value computed inside sync.Once.Do is kept where later calls can see it, not in a variable of the first call", 0)
	p := c.P
	n, fns, dos := 0, 0, 0
	for _, sf := range p.SSAFuncsOf(pkgs) {
		for _, g := range allSSAFuncs(sf) {
			fns++
			for _, call := range callsIn(g) {
				if o := staticCalleeObj(call.Call); o != nil && o.Pkg() != nil && o.Pkg().Path() == "sync" && o.Name() == "Do" {
					dos++
				}
			}
			for _, ins := range onceResultLost(g) {
				n++
				c.Ob(rule, ssaFuncName(g)+"/once-result", ins.Pos(), false, true, "the function run by Once.Do assigns a variable of this call, which is then returned: every call but the first returns the zero value (a digest mismatch is reported once and never again)")
			}
		}
	}
	c.Ob(rule, "functions-scanned", token.NoPos, n == 0, fns > 0, "%d functions scanned, %d sync.Once.Do calls, %d losing their result", fns, dos, n)
}
