package main

import (
	"go/token"
	"strings"

	"golang.org/x/tools/go/packages"
	"golang.org/x/tools/go/ssa"
)

// c14MatcherNamesake (MATCHER-NAMESAKE; C14, after round-4 seed C14-k): the exported path matchers of the storage
// package are thin wrappers over the containment predicates of normalpath, and their names are their contract:
// MatchPathContained must not match the directory itself, MatchPathEqualOrContained must. For every exported Match…
// constructor whose matching function calls a normalpath predicate named after equality/containment, the words
// "equal" and "contain" occur in the constructor's name exactly when they occur in the predicate's name (a copy-paste
// from the neighbouring matcher makes a filter expose - or, negated, hide - the object stored at the directory's path).
func c14MatcherNamesake(c *Ctx, pk *packages.Package) {
	const rule = "MATCHER-NAMESAKE"
	c.Rule(rule, "each exported path matcher applies the normalpath predicate its name promises", 2)
	p := c.P
	n := 0
	words := func(s string) (eq, cont bool) {
		l := strings.ToLower(s)
		return strings.Contains(l, "equal"), strings.Contains(l, "contain")
	}
	for _, sf := range p.SSAFuncsOf([]*packages.Package{pk}) {
		if sf.Object() == nil || !sf.Object().Exported() || !strings.HasPrefix(sf.Name(), "Match") || sf.Signature.Recv() != nil {
			continue
		}
		// the matching function: closures of the constructor, and functions it refers to as values (a bound method
		// value `operand(dir).containsPath`, a named function), followed into the package's own code one level
		seen := map[*ssa.Function]bool{}
		var parts []*ssa.Function
		var add func(f *ssa.Function, depth int)
		add = func(f *ssa.Function, depth int) {
			if f == nil || seen[f] || f.Blocks == nil {
				return
			}
			seen[f] = true
			parts = append(parts, f)
			for _, a := range f.AnonFuncs {
				add(a, depth)
			}
			if depth == 0 {
				return
			}
			for _, b := range f.Blocks {
				for _, ins := range b.Instrs {
					for _, op := range ins.Operands(nil) {
						if op == nil || *op == nil {
							continue
						}
						switch g := (*op).(type) {
						case *ssa.Function:
							if g.Pkg == nil || g.Pkg == sf.Pkg {
								add(g, depth-1)
							}
						case *ssa.MakeClosure:
							if gf, ok := g.Fn.(*ssa.Function); ok {
								add(gf, depth-1)
							}
						}
					}
				}
			}
		}
		add(sf, 3)
		for _, f := range parts {
			for _, call := range callsIn(f) {
				o := staticCalleeObj(call.Call)
				if o == nil || o.Pkg() == nil || !strings.HasSuffix(o.Pkg().Path(), "pkg/normalpath") {
					continue
				}
				ceq, ccont := words(o.Name())
				if !ceq && !ccont {
					continue
				}
				feq, fcont := words(sf.Name())
				n++
				c.Ob(rule, "storage."+sf.Name(), call.Pos(), feq == ceq && fcont == ccont, true, "%s applies normalpath.%s: equality %v/%v, containment %v/%v (name/predicate)", sf.Name(), o.Name(), feq, ceq, fcont, ccont)
			}
		}
	}
	if n == 0 {
		c.Fail(rule, "anchor", token.NoPos, "no exported Match… constructor applying a normalpath equality/containment predicate found")
	}
}
