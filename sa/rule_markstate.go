package main

import (
	"go/token"

	"golang.org/x/tools/go/packages"
	"golang.org/x/tools/go/ssa"
)

// markBeforeStateTest lists, in a fixpoint (a loop that ranges over a map again and again, with a set made before the
// outer loop recording what was already handled), marks that are placed before a test of the element's current state:
//
//	done := map[K]struct{}{}
//	for {                                  // rounds
//	    for k, state := range table {      // state changes between rounds
//	        if _, ok := done[k]; ok { continue }
//	        done[k] = struct{}{}           // marked ...
//	        if state != ready { continue } // ... then skipped because of what it is NOW
//
// An element skipped for its state in one round is never looked at again when its state changes in a later round: the
// fixpoint stops short (a message first reached as an enclosing type and only later referenced directly never gets
// its extensions collected). The mark belongs after the state test, or where the element is actually handled.
func markBeforeStateTest(f *ssa.Function) []*ssa.MapUpdate {
	var out []*ssa.MapUpdate
	for _, h := range f.Blocks {
		if h.Comment != "rangeiter.loop" {
			continue
		}
		inner := loopBlocks(h)
		if inner == nil {
			continue
		}
		// an enclosing loop
		var outer map[*ssa.BasicBlock]bool
		for _, h0 := range f.Blocks {
			if h0 == h {
				continue
			}
			if l := loopBlocks(h0); l != nil && l[h] && !inner[h0] {
				outer = l
			}
		}
		if outer == nil {
			continue
		}
		// the range value: extract #2 of the Next in the header
		var state ssa.Value
		for _, ins := range h.Instrs {
			if nx, ok := ins.(*ssa.Next); ok && !nx.IsString {
				for _, r := range *nx.Referrers() {
					if ex, ok := r.(*ssa.Extract); ok && ex.Index == 2 {
						state = ex
					}
				}
			}
		}
		if state == nil {
			continue
		}
		for b := range inner {
			for _, ins := range b.Instrs {
				mu, ok := ins.(*ssa.MapUpdate)
				if !ok {
					continue
				}
				mm, ok := stripConv(mu.Map).(*ssa.MakeMap)
				if !ok || mm.Parent() != f || outer[mm.Block()] {
					continue // not a set that lives across the rounds
				}
				// consulted in the inner loop to skip
				consulted := false
				for _, r := range *mm.Referrers() {
					if lk, ok := r.(*ssa.Lookup); ok && inner[lk.Block()] {
						consulted = true
					}
				}
				if !consulted {
					continue
				}
				// a later test of the state in this iteration
				for tb := range inner {
					i := ifOf(tb)
					if i == nil || tb == h {
						continue
					}
					after := (tb == b && instrDominates(mu, i)) || (tb != b && b.Dominates(tb))
					if after && dependsOnValue(i.Cond, state) {
						out = append(out, mu)
					}
				}
			}
		}
	}
	return out
}

// ruleMarkBeforeStateTest (MARK-BEFORE-STATE-TEST): zero instances are expected.
func ruleMarkBeforeStateTest(c *Ctx, rule string, pkgs []*packages.Package) {
	c.Rule(rule, "in a fixpoint over a table, an element is marked handled only after the test of its current state", 0)
	p := c.P
	n, fns, loops := 0, 0, 0
	for _, sf := range p.SSAFuncsOf(pkgs) {
		for _, f := range allSSAFuncs(sf) {
			fns++
			for _, h := range f.Blocks {
				if h.Comment == "rangeiter.loop" {
					loops++
				}
			}
			seen := map[*ssa.MapUpdate]bool{}
			for _, mu := range markBeforeStateTest(f) {
				if seen[mu] {
					continue
				}
				seen[mu] = true
				n++
				c.Ob(rule, ssaFuncName(f)+"/mark", mu.Pos(), false, true, "the element is recorded in the across-rounds set before its current state (the map's value) is tested: skipped for its state now, it is never revisited when the state changes in a later round")
			}
		}
	}
	c.Ob(rule, "functions-scanned", token.NoPos, n == 0, fns > 0, "%d functions, %d map-range loops scanned, %d marks before the state test", fns, loops, n)
}
