package main

// Loading of /repo's current working tree and lookup helpers shared by all rules.

import (
	"fmt"
	"go/ast"
	"go/token"
	"go/types"
	"os"
	"path/filepath"
	"sort"
	"strings"

	"golang.org/x/tools/go/packages"
	"golang.org/x/tools/go/ssa"
	"golang.org/x/tools/go/ssa/ssautil"
	"golang.org/x/tools/go/types/typeutil"
)

const modPath = "github.com/bufbuild/buf"

var repoDir = "/repo"

// Prog is the type-checked program (all packages of the module + dependencies).
type Prog struct {
	Fset    *token.FileSet
	Pkgs    []*packages.Package          // module packages (the roots)
	ByPath  map[string]*packages.Package // every package in the import graph, by import path
	AllDeps bool                         // dependencies have syntax too (LoadAllSyntax)

	parents map[*ast.File]map[ast.Node]ast.Node
	fileOf  map[*token.File]*ast.File
	pkgOfF  map[*ast.File]*packages.Package

	ssaProg *ssa.Program
	ssaPkgs []*ssa.Package

	cfgs    map[*ast.BlockStmt]*FnCFG
	callers map[*ssa.Function][]ssaCall

	Overlay map[string][]byte

	compatTables *[2]string
}

// LoadProg loads ./... of the repository. goos/goarch may be empty (host).
func LoadProg(overlay map[string][]byte, goos string, patterns ...string) (*Prog, error) {
	if len(patterns) == 0 {
		patterns = []string{"./..."}
	}
	env := append(os.Environ(),
		"GOFLAGS=-mod=mod", "GOPROXY=off", "GOSUMDB=off", "GOTOOLCHAIN=local", "GOWORK=off")
	if goos != "" {
		env = append(env, "GOOS="+goos, "CGO_ENABLED=0")
	}
	cfg := &packages.Config{
		Mode:    packages.LoadAllSyntax,
		Dir:     repoDir,
		Env:     env,
		Tests:   false,
		Overlay: overlay,
	}
	pkgs, err := packages.Load(cfg, patterns...)
	if err != nil {
		return nil, err
	}
	p := &Prog{
		Pkgs:    pkgs,
		ByPath:  map[string]*packages.Package{},
		AllDeps: true,
		parents: map[*ast.File]map[ast.Node]ast.Node{},
		fileOf:  map[*token.File]*ast.File{},
		pkgOfF:  map[*ast.File]*packages.Package{},
		cfgs:    map[*ast.BlockStmt]*FnCFG{},
		Overlay: overlay,
	}
	var errs []string
	packages.Visit(pkgs, nil, func(pk *packages.Package) {
		p.ByPath[pk.PkgPath] = pk
		if p.Fset == nil && pk.Fset != nil {
			p.Fset = pk.Fset
		}
		if strings.HasPrefix(pk.PkgPath, modPath) {
			for _, e := range pk.Errors {
				errs = append(errs, e.Error())
			}
		}
		for _, f := range pk.Syntax {
			if tf := pk.Fset.File(f.Pos()); tf != nil {
				p.fileOf[tf] = f
			}
			p.pkgOfF[f] = pk
		}
	})
	if len(errs) > 0 {
		sort.Strings(errs)
		if len(errs) > 10 {
			errs = errs[:10]
		}
		return nil, fmt.Errorf("type-check errors in module packages (undecided = failed):\n  %s", strings.Join(errs, "\n  "))
	}
	sort.Slice(p.Pkgs, func(i, j int) bool { return p.Pkgs[i].PkgPath < p.Pkgs[j].PkgPath })
	return p, nil
}

// Pkg returns a module package by module-relative path ("private/pkg/storage") or nil.
func (p *Prog) Pkg(rel string) *packages.Package {
	if pk, ok := p.ByPath[modPath+"/"+rel]; ok {
		return pk
	}
	return p.ByPath[rel]
}

// ModulePkgs returns module packages that are rule subjects (no generated code).
func (p *Prog) ModulePkgs() []*packages.Package {
	var out []*packages.Package
	for _, pk := range p.Pkgs {
		if !strings.HasPrefix(pk.PkgPath, modPath) {
			continue
		}
		if strings.HasPrefix(pk.PkgPath, modPath+"/private/gen/") {
			continue
		}
		out = append(out, pk)
	}
	return out
}

func relPkg(path string) string {
	return strings.TrimPrefix(strings.TrimPrefix(path, modPath), "/")
}

// Pos renders a position relative to the repo root.
func (p *Prog) Pos(pos token.Pos) string {
	if !pos.IsValid() {
		return "-"
	}
	ps := p.Fset.Position(pos)
	rel, err := filepath.Rel(repoDir, ps.Filename)
	if err != nil || strings.HasPrefix(rel, "..") {
		rel = ps.Filename
	}
	return fmt.Sprintf("%s:%d", rel, ps.Line)
}

func (p *Prog) FileRel(pos token.Pos) string {
	ps := p.Fset.Position(pos)
	rel, err := filepath.Rel(repoDir, ps.Filename)
	if err != nil {
		return ps.Filename
	}
	return rel
}

func isGenerated(f *ast.File) bool {
	for _, cg := range f.Comments {
		if cg.Pos() > f.Package {
			break
		}
		for _, c := range cg.List {
			if strings.Contains(c.Text, "Code generated") && strings.Contains(c.Text, "DO NOT EDIT") {
				return true
			}
		}
	}
	return false
}

// ---- parents ------------------------------------------------------------------------------

func (p *Prog) astFile(pos token.Pos) *ast.File {
	tf := p.Fset.File(pos)
	if tf == nil {
		return nil
	}
	return p.fileOf[tf]
}

func (p *Prog) PkgOfPos(pos token.Pos) *packages.Package {
	f := p.astFile(pos)
	if f == nil {
		return nil
	}
	return p.pkgOfF[f]
}

func (p *Prog) parentMap(f *ast.File) map[ast.Node]ast.Node {
	if m, ok := p.parents[f]; ok {
		return m
	}
	m := map[ast.Node]ast.Node{}
	var stack []ast.Node
	ast.Inspect(f, func(n ast.Node) bool {
		if n == nil {
			stack = stack[:len(stack)-1]
			return true
		}
		if len(stack) > 0 {
			m[n] = stack[len(stack)-1]
		}
		stack = append(stack, n)
		return true
	})
	p.parents[f] = m
	return m
}

// Parent returns the syntactic parent of n.
func (p *Prog) Parent(n ast.Node) ast.Node {
	f := p.astFile(n.Pos())
	if f == nil {
		return nil
	}
	return p.parentMap(f)[n]
}

// EnclosingFunc returns the innermost FuncDecl or FuncLit containing n (not n itself).
func (p *Prog) EnclosingFunc(n ast.Node) ast.Node {
	for cur := p.Parent(n); cur != nil; cur = p.Parent(cur) {
		switch cur.(type) {
		case *ast.FuncDecl, *ast.FuncLit:
			return cur
		}
	}
	return nil
}

// EnclosingFuncDecl returns the FuncDecl containing n, crossing function literals.
func (p *Prog) EnclosingFuncDecl(n ast.Node) *ast.FuncDecl {
	for cur := ast.Node(n); cur != nil; cur = p.Parent(cur) {
		if fd, ok := cur.(*ast.FuncDecl); ok {
			return fd
		}
	}
	return nil
}

func funcBody(fn ast.Node) *ast.BlockStmt {
	switch f := fn.(type) {
	case *ast.FuncDecl:
		return f.Body
	case *ast.FuncLit:
		return f.Body
	}
	return nil
}

func funcType(fn ast.Node) *ast.FuncType {
	switch f := fn.(type) {
	case *ast.FuncDecl:
		return f.Type
	case *ast.FuncLit:
		return f.Type
	}
	return nil
}

// ---- function lookup ----------------------------------------------------------------------

// FuncRef identifies a declared function with its package.
type FuncRef struct {
	Pkg  *packages.Package
	Decl *ast.FuncDecl
	Obj  *types.Func
}

func (f *FuncRef) Info() *types.Info { return f.Pkg.TypesInfo }

// recvTypeName returns the receiver's named type name ("" for plain functions).
func recvTypeName(fd *ast.FuncDecl) string {
	if fd.Recv == nil || len(fd.Recv.List) == 0 {
		return ""
	}
	t := fd.Recv.List[0].Type
	for {
		switch x := t.(type) {
		case *ast.StarExpr:
			t = x.X
			continue
		case *ast.IndexExpr:
			t = x.X
			continue
		case *ast.IndexListExpr:
			t = x.X
			continue
		case *ast.ParenExpr:
			t = x.X
			continue
		case *ast.Ident:
			return x.Name
		}
		return ""
	}
}

// declName is "Name" or "Recv.Name".
func declName(fd *ast.FuncDecl) string {
	if r := recvTypeName(fd); r != "" {
		return r + "." + fd.Name.Name
	}
	return fd.Name.Name
}

// Func finds a function by module-relative package path and "Name" / "Recv.Name".
func (p *Prog) Func(rel, name string) *FuncRef {
	pk := p.Pkg(rel)
	if pk == nil {
		return nil
	}
	for _, f := range pk.Syntax {
		for _, d := range f.Decls {
			fd, ok := d.(*ast.FuncDecl)
			if !ok || fd.Body == nil {
				continue
			}
			if declName(fd) == name {
				obj, _ := pk.TypesInfo.Defs[fd.Name].(*types.Func)
				return &FuncRef{Pkg: pk, Decl: fd, Obj: obj}
			}
		}
	}
	return nil
}

// FuncsOf lists every function declaration with a body in pk (generated files skipped).
func (p *Prog) FuncsOf(pk *packages.Package) []*FuncRef {
	var out []*FuncRef
	for _, f := range pk.Syntax {
		if isGenerated(f) {
			continue
		}
		for _, d := range f.Decls {
			fd, ok := d.(*ast.FuncDecl)
			if !ok || fd.Body == nil {
				continue
			}
			obj, _ := pk.TypesInfo.Defs[fd.Name].(*types.Func)
			out = append(out, &FuncRef{Pkg: pk, Decl: fd, Obj: obj})
		}
	}
	return out
}

// DeclOf returns the declaration of a function object when it has syntax.
func (p *Prog) DeclOf(fn *types.Func) *FuncRef {
	if fn == nil || fn.Pkg() == nil {
		return nil
	}
	fn = fn.Origin()
	pk := p.ByPath[fn.Pkg().Path()]
	if pk == nil {
		return nil
	}
	f := p.astFile(fn.Pos())
	if f == nil {
		return nil
	}
	for _, d := range f.Decls {
		fd, ok := d.(*ast.FuncDecl)
		if ok && fd.Name.Pos() == fn.Pos() {
			return &FuncRef{Pkg: pk, Decl: fd, Obj: fn}
		}
	}
	return nil
}

// funcID is a stable, line-free identifier: "private/pkg/storage.(bucket).Get".
func funcID(fn *types.Func) string {
	if fn == nil {
		return "<nil>"
	}
	pkg := ""
	if fn.Pkg() != nil {
		pkg = relPkg(fn.Pkg().Path())
	}
	sig, _ := fn.Type().(*types.Signature)
	if sig != nil && sig.Recv() != nil {
		t := sig.Recv().Type()
		if pt, ok := t.(*types.Pointer); ok {
			t = pt.Elem()
		}
		name := t.String()
		if nt, ok := t.(*types.Named); ok {
			name = nt.Obj().Name()
		} else if i := strings.LastIndex(name, "."); i >= 0 {
			name = name[i+1:]
		}
		return fmt.Sprintf("%s.(%s).%s", pkg, name, fn.Name())
	}
	return pkg + "." + fn.Name()
}

func (f *FuncRef) ID() string {
	if f.Obj != nil {
		return funcID(f.Obj)
	}
	return relPkg(f.Pkg.PkgPath) + "." + declName(f.Decl)
}

// ---- call resolution ----------------------------------------------------------------------

// Callee resolves the static callee (function, method or interface method) of a call.
func Callee(info *types.Info, call *ast.CallExpr) *types.Func {
	if fn, ok := typeutil.Callee(info, call).(*types.Func); ok {
		return fn
	}
	return nil
}

// calleeIs reports whether fn is pkgpath.name (plain function; pkgpath may be module-relative).
func calleeIs(fn *types.Func, pkgpath, name string) bool {
	if fn == nil || fn.Pkg() == nil || fn.Name() != name {
		return false
	}
	pp := fn.Pkg().Path()
	if pp != pkgpath && pp != modPath+"/"+pkgpath {
		return false
	}
	sig := fn.Type().(*types.Signature)
	return sig.Recv() == nil
}

// methodIs reports whether fn is a method called name on a type named recv in pkgpath.
func methodIs(fn *types.Func, pkgpath, recv, name string) bool {
	if fn == nil || fn.Pkg() == nil || fn.Name() != name {
		return false
	}
	pp := fn.Pkg().Path()
	if pp != pkgpath && pp != modPath+"/"+pkgpath {
		return false
	}
	sig := fn.Type().(*types.Signature)
	if sig.Recv() == nil {
		return false
	}
	return namedName(sig.Recv().Type()) == recv
}

// namedName returns the name of a (pointer to a) named type, "" otherwise.
func namedName(t types.Type) string {
	if t == nil {
		return ""
	}
	t = types.Unalias(t)
	if pt, ok := t.(*types.Pointer); ok {
		t = types.Unalias(pt.Elem())
	}
	if nt, ok := t.(*types.Named); ok {
		return nt.Obj().Name()
	}
	return ""
}

// namedPath returns "pkgpath.Name" of a (pointer to a) named type.
func namedPath(t types.Type) string {
	if t == nil {
		return ""
	}
	t = types.Unalias(t)
	if pt, ok := t.(*types.Pointer); ok {
		t = types.Unalias(pt.Elem())
	}
	if nt, ok := t.(*types.Named); ok {
		if nt.Obj().Pkg() == nil {
			return nt.Obj().Name()
		}
		return nt.Obj().Pkg().Path() + "." + nt.Obj().Name()
	}
	return ""
}

var errorType = types.Universe.Lookup("error").Type()

func isErrorType(t types.Type) bool {
	return t != nil && types.Identical(t, errorType)
}

// lastResultIsError reports whether the signature's last result is the error type.
func lastResultIsError(sig *types.Signature) bool {
	if sig == nil || sig.Results().Len() == 0 {
		return false
	}
	return isErrorType(sig.Results().At(sig.Results().Len() - 1).Type())
}

func isNilIdent(info *types.Info, e ast.Expr) bool {
	e = ast.Unparen(e)
	id, ok := e.(*ast.Ident)
	if !ok {
		return false
	}
	_, isNil := info.Uses[id].(*types.Nil)
	return isNil
}

// usesObj reports whether the expression mentions obj.
func usesObj(info *types.Info, n ast.Node, obj types.Object) bool {
	if n == nil || obj == nil {
		return false
	}
	found := false
	ast.Inspect(n, func(x ast.Node) bool {
		if id, ok := x.(*ast.Ident); ok {
			if info.Uses[id] == obj || info.Defs[id] == obj {
				found = true
			}
		}
		return !found
	})
	return found
}

// identObj returns the object an identifier expression denotes (nil if not an identifier).
func identObj(info *types.Info, e ast.Expr) types.Object {
	id, ok := ast.Unparen(e).(*ast.Ident)
	if !ok {
		return nil
	}
	if o := info.Uses[id]; o != nil {
		return o
	}
	return info.Defs[id]
}

// inspectNoFuncLit walks n without entering nested function literals (unless n itself is one).
func inspectNoFuncLit(n ast.Node, f func(ast.Node) bool) {
	ast.Inspect(n, func(x ast.Node) bool {
		if x == nil {
			return true
		}
		if _, ok := x.(*ast.FuncLit); ok && x != n {
			return false
		}
		return f(x)
	})
}

// ---- SSA ----------------------------------------------------------------------------------

func (p *Prog) SSA() *ssa.Program {
	if p.ssaProg != nil {
		return p.ssaProg
	}
	var all []*packages.Package
	for _, pk := range p.ByPath {
		all = append(all, pk)
	}
	sort.Slice(all, func(i, j int) bool { return all[i].PkgPath < all[j].PkgPath })
	prog, pkgs := ssautil.AllPackages(all, ssa.BuilderMode(0))
	prog.Build()
	p.ssaProg = prog
	p.ssaPkgs = pkgs
	return prog
}

// SSAFunc returns the SSA function of a declared function object.
func (p *Prog) SSAFunc(fn *types.Func) *ssa.Function {
	if fn == nil {
		return nil
	}
	return p.SSA().FuncValue(fn)
}

// allSSAFuncs returns fn and its nested anonymous functions.
func allSSAFuncs(fn *ssa.Function) []*ssa.Function {
	if fn == nil {
		return nil
	}
	out := []*ssa.Function{fn}
	for _, a := range fn.AnonFuncs {
		out = append(out, allSSAFuncs(a)...)
	}
	return out
}

// ---- misc ---------------------------------------------------------------------------------

func sortedKeys[V any](m map[string]V) []string {
	out := make([]string, 0, len(m))
	for k := range m {
		out = append(out, k)
	}
	sort.Strings(out)
	return out
}

func exprString(e ast.Expr) string {
	return types.ExprString(e)
}

// recvCallOn reports whether call is `x.method(...)` where x's static type is the named type
// pkgpath.typeName (pointer or not). Works for promoted/embedded interface methods too.
func recvCallOn(info *types.Info, call *ast.CallExpr, pkgpath, typeName, method string) bool {
	sel, ok := ast.Unparen(call.Fun).(*ast.SelectorExpr)
	if !ok || sel.Sel.Name != method {
		return false
	}
	np := namedPath(info.TypeOf(sel.X))
	return np == pkgpath+"."+typeName || np == modPath+"/"+pkgpath+"."+typeName
}

// deepInspect visits the nodes of fr's body and, for every call to a function of the same package, the nodes of that
// function's body too (transitively up to depth), so that a rule looking for a construct "in F" still finds it
// after the construct was extracted into a helper of the package. visit receives the types.Info of the file the
// node belongs to.
func deepInspect(p *Prog, fr *FuncRef, depth int, visit func(n ast.Node, info *types.Info) bool) {
	seen := map[*ast.FuncDecl]bool{}
	var rec func(fr *FuncRef, d int)
	rec = func(fr *FuncRef, d int) {
		if fr == nil || fr.Decl.Body == nil || seen[fr.Decl] {
			return
		}
		seen[fr.Decl] = true
		info := fr.Info()
		ast.Inspect(fr.Decl.Body, func(n ast.Node) bool {
			if !visit(n, info) {
				return false
			}
			if call, ok := n.(*ast.CallExpr); ok && d > 0 {
				if fn := Callee(info, call); fn != nil && fn.Pkg() == fr.Pkg.Types {
					rec(p.DeclOf(fn), d-1)
				}
			}
			return true
		})
	}
	rec(fr, depth)
}
