package main

import (
	"fmt"
	"go/token"

	"golang.org/x/tools/go/packages"
	"golang.org/x/tools/go/ssa"
)

// c13NoAscend (DISK-NO-ASCEND; C13, after round-4 seed C13-k): everything the disk bucket removes, renames or
// truncates is the external path of the object it was asked about - root joined with a validated relative path - and
// never a *parent* of such a path. A clean-up that climbs with filepath.Dir "until the root" compares a path that may
// be relative to the working directory with the absolute root: for a bucket created with a relative root the loop
// walks through the root and removes it and its empty ancestors. In storageos, no argument of os.Remove, os.RemoveAll,
// os.Rename, os.Truncate or os.Chmod depends on a filepath.Dir / path.Dir call, except the temporary file's directory
// argument of CreateTemp (which creates, below the final directory, and is covered by ATOMIC-WRITER).
func c13NoAscend(c *Ctx) {
	const rule = "DISK-NO-ASCEND"
	c.Rule(rule, "the disk bucket never removes or renames a parent directory of an object's path", 2)
	p := c.P
	pk := p.Pkg("private/pkg/storage/storageos")
	if pk == nil {
		c.Fail(rule, "anchor", token.NoPos, "package storageos not found")
		return
	}
	isDir := func(cc *ssa.CallCommon) bool {
		o := staticCalleeObj(cc)
		return o != nil && o.Pkg() != nil && (o.Pkg().Path() == "path/filepath" || o.Pkg().Path() == "path" || o.Pkg().Path() == modPath+"/private/pkg/normalpath") && o.Name() == "Dir"
	}
	n := 0
	for _, sf := range p.SSAFuncsOf([]*packages.Package{pk}) {
		for _, f := range allSSAFuncs(sf) {
			k := 0
			for _, call := range callsIn(f) {
				o := staticCalleeObj(call.Call)
				if o == nil || o.Pkg() == nil || o.Pkg().Path() != "os" {
					continue
				}
				switch o.Name() {
				case "Remove", "RemoveAll", "Rename", "Truncate", "Chmod":
				default:
					continue
				}
				n++
				k++
				climbs := false
				for _, a := range call.Call.Args {
					if dependsOnCall(a, isDir) {
						climbs = true
					}
				}
				c.Ob(rule, fmt.Sprintf("%s/os.%s#%d", ssaFuncName(f), o.Name(), k), call.Pos(), !climbs, true, "os.%s operates on an object's own path, not on a directory obtained by climbing with Dir: %v", o.Name(), !climbs)
			}
		}
	}
	if n == 0 {
		c.Fail(rule, "anchor", token.NoPos, "no destructive os call found in storageos")
	}
}
