package main

import (
	"go/token"

	"golang.org/x/tools/go/packages"
	"golang.org/x/tools/go/ssa"
)

// c11ClearBeforeMerge (CLEAR-BEFORE-MERGE; C11, after round-4 seed C11-l): extensions that were read as unknown
// fields are re-parsed by unmarshalling those bytes again, merged into the same message, with the image's resolver.
// What the resolver still cannot resolve comes back as unknown fields - that is how custom options whose extension is
// not in the image (`--exclude-imports`) survive a write/read round trip. The stale copy must therefore be cleared
// *before* the merge; clearing after it throws away exactly the fields that could not be resolved. In every function
// that both clears a message's unknown fields (SetUnknown(nil)) and merge-unmarshals into it, the clearing dominates
// the unmarshal and no clearing is reachable after it.
func c11ClearBeforeMerge(c *Ctx, pk *packages.Package) {
	const rule = "CLEAR-BEFORE-MERGE"
	c.Rule(rule, "unknown fields are cleared before the bytes are merged back, never after", 1)
	p := c.P
	n := 0
	for _, sf := range p.SSAFuncsOf([]*packages.Package{pk}) {
		for _, f := range allSSAFuncs(sf) {
			var clears, merges []ssa.Instruction
			for _, call := range callsIn(f) {
				if call.Call.IsInvoke() && call.Call.Method.Name() == "SetUnknown" && len(call.Call.Args) == 1 && isNilConst(call.Call.Args[0]) {
					clears = append(clears, call.Instr)
				}
				if o := staticCalleeObj(call.Call); o != nil && o.Name() == "Unmarshal" && o.Pkg() != nil && o.Pkg().Path() == "google.golang.org/protobuf/proto" {
					merges = append(merges, call.Instr)
				}
			}
			if len(clears) == 0 || len(merges) == 0 {
				continue
			}
			n++
			ok := true
			for _, m := range merges {
				dom := false
				for _, cl := range clears {
					if instrDominates(cl, m) {
						dom = true
					}
					if instrReaches(m, cl) {
						ok = false
					}
				}
				ok = ok && dom
			}
			c.Ob(rule, ssaFuncName(f), merges[0].Pos(), ok, true, "SetUnknown(nil) precedes every merge-unmarshal into the message and none follows it: %v", ok)
		}
	}
	if n == 0 {
		c.Fail(rule, "anchor", token.NoPos, "no function that clears unknown fields and merge-unmarshals found")
	}
}
