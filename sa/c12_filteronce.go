package main

import (
	"fmt"
	"go/token"

	"golang.org/x/tools/go/packages"
	"golang.org/x/tools/go/ssa"
)

// c12FilterOnce (FILTER-ONCE; C12, after round-4 seed C12-l): including and excluding types is one computation - the
// closure of the included types is taken *without* walking into excluded ones. Two passes (include, then exclude on
// the result) keep the dependencies that only an excluded type needed, leave files without any type, and fail on an
// excluded name outside the include closure. Wherever a function of the module has both an include list and an
// exclude list at hand (it calls both WithIncludeTypes and WithExcludeTypes), each call of FilterImage gets both
// options and does not filter the output of another FilterImage pass.
func c12FilterOnce(c *Ctx) {
	const rule = "FILTER-ONCE"
	c.Rule(rule, "type inclusion and exclusion are handed to one FilterImage call together", 1)
	p := c.P
	isOpt := func(cc *ssa.CallCommon, name string) bool {
		return isFuncNamed(staticCalleeObj(cc), "private/bufpkg/bufimage/bufimageutil", "", name)
	}
	n := 0
	for _, pk := range p.ModulePkgs() {
		if relPkg(pk.PkgPath) == "private/bufpkg/bufimage/bufimageutil" {
			continue
		}
		for _, sf := range p.SSAFuncsOf([]*packages.Package{pk}) {
			for _, f := range allSSAFuncs(sf) {
				hasInc, hasExc := false, false
				for _, call := range callsIn(f) {
					hasInc = hasInc || isOpt(call.Call, "WithIncludeTypes")
					hasExc = hasExc || isOpt(call.Call, "WithExcludeTypes")
				}
				if !hasInc || !hasExc {
					continue
				}
				k := 0
				for _, call := range callsIn(f) {
					if !isOpt(call.Call, "FilterImage") {
						continue
					}
					n++
					k++
					inc, exc := false, false
					for _, a := range call.Call.Args {
						for _, e := range append(variadicElems(a), a) {
							inc = inc || dependsOnCall(e, func(cc *ssa.CallCommon) bool { return isOpt(cc, "WithIncludeTypes") })
							exc = exc || dependsOnCall(e, func(cc *ssa.CallCommon) bool { return isOpt(cc, "WithExcludeTypes") })
						}
					}
					// chained: the image handed in is itself the result of a FilterImage call (also its own, around a loop)
					chained := false
					if len(call.Call.Args) > 0 {
						isFilter := func(cc *ssa.CallCommon) bool { return isOpt(cc, "FilterImage") }
						in := stripConv(call.Call.Args[0])
						if ld, ok := in.(*ssa.UnOp); ok && ld.Op == token.MUL {
							if cell, ok := ld.X.(*ssa.Alloc); ok && cell.Referrers() != nil {
								// a variable kept in a cell (captured by a closure): only the stores that are certain to
								// precede this call count - the cell is a fresh one on every iteration of an enclosing loop
								for _, r := range *cell.Referrers() {
									if st, ok := r.(*ssa.Store); ok && st.Addr == ssa.Value(cell) && instrDominates(st, call.Instr) && dependsOnCall(st.Val, isFilter) {
										chained = true
									}
								}
								in = nil
							}
						}
						if in != nil && dependsOnCall(in, isFilter) {
							chained = true
						}
					}
					c.Ob(rule, fmt.Sprintf("%s/FilterImage#%d", ssaFuncName(f), k), call.Pos(), inc && exc && !chained, true, "this call receives the include option: %v, the exclude option: %v, and its input is not the output of another filter pass: %v", inc, exc, !chained)
				}
			}
		}
	}
	if n == 0 {
		c.Fail(rule, "anchor", token.NoPos, "no function that builds both type options and calls FilterImage found")
	}
}
