package main

// C19 — credentials are only sent to the registry they were configured for.

import (
	"go/ast"
	"go/token"
	"go/types"
	"sort"
	"strings"

	"golang.org/x/tools/go/packages"
	"golang.org/x/tools/go/ssa"
)

func init() {
	register(&propCheck{
		ID: "C19",
		Explanation: "Decides the code-shape conditions of non-leakage: (1) the Authorization header constant is referenced, and a header named \"Authorization\" is set, only inside " +
			"bufconnect.NewAuthorizationInterceptorProvider in product code (bufcurl/bufstudioagent forward user-supplied headers and are listed); (2) the value passed to " +
			"TokenProvider.RemoteToken is the provider closure's own address parameter, and connectclient.Make hands the un-mapped address parameter to the auth interceptor " +
			"provider and appends the interceptor for that client only (SSA value identity); (3) every implementation of TokenProvider uses its address parameter only as a " +
			"map key, an ==/!= operand or the name argument of the netrc lookup — never in prefix/suffix/contains/fold/regexp matching or slicing; the single-token provider " +
			"ignores the address by documented design; (4) the first provider yielding a non-empty token wins: the header Set is followed by a break and cannot be reached again " +
			"within one request; (5) the token parsers return a nil provider with every non-nil error and publish the address→token map only after the loop over all entries; " +
			"(6) the netrc lookup tries the exact machine name, then only \"default\". NOT decided: HTTP-level behaviour (redirects, proxies).",
		Assumptions: []string{"the netrc library's Machine(name) is an exact-match lookup"},
		Run:         runC19,
	})
}

func runC19(c *Ctx) {
	p := c.P
	c.Rule("HEADER-WRITER", "only the authorization interceptor writes the Authorization header", 1)
	c.Rule("SAME-ADDRESS", "the token is looked up for, and attached to, the address the client was made for", 3)
	c.Rule("EXACT-MATCH", "token providers match the address exactly", 3)
	c.Rule("FIRST-WINS", "the first configured source yielding a token wins, once", 1)
	c.Rule("PARSE-ALL-OR-NOTHING", "malformed token strings are rejected, not partially applied", 4)
	c.Rule("NETRC-LOOKUP", "netrc lookup: exact machine, then default only", 1)

	pkC := p.Pkg("private/bufpkg/bufconnect")
	if pkC == nil {
		c.Fail("HEADER-WRITER", "anchor", token.NoPos, "bufconnect not found")
		return
	}
	hdr := pkC.Types.Scope().Lookup("AuthenticationHeader")
	// (1) references of the constant + literal "Authorization" in Header.Set/Add calls
	allowedForward := map[string]string{
		"private/buf/bufcurl":              "buf curl forwards headers the user typed on the command line",
		"private/buf/bufstudioagent":       "studio agent forwards the browser's headers to the target the user chose",
		"private/buf/cmd/buf/command/curl": "buf curl: user-supplied headers / reflection credentials chosen by the user",
	}
	refs := 0
	for _, pk := range p.ModulePkgs() {
		rel := relPkg(pk.PkgPath)
		info := pk.TypesInfo
		for id, obj := range info.Uses {
			if obj != hdr {
				continue
			}
			refs++
			fd := p.EnclosingFuncDecl(id)
			name := rel
			if fd != nil {
				name = rel + "." + declName(fd)
			}
			ok := name == "private/bufpkg/bufconnect.NewAuthorizationInterceptorProvider"
			if !ok && fd != nil && rel == "private/bufpkg/bufconnect" && !fd.Name.IsExported() {
				// an unexported helper of the interceptor provider: every caller is the provider (or another such helper)
				if root := p.Func("private/bufpkg/bufconnect", "NewAuthorizationInterceptorProvider"); root != nil && root.Obj != nil {
					inReach := map[*ssa.Function]bool{}
					for _, f := range reachSSA(p.SSAFunc(root.Obj), 2) {
						inReach[f] = true
					}
					if fo, isFn := info.Defs[fd.Name].(*types.Func); isFn {
						if hf := p.SSAFunc(fo); hf != nil && inReach[hf] {
							all := true
							for _, cs := range p.callersIndex()[hf] {
								if !inReach[cs.Instr.Parent()] {
									all = false
								}
							}
							ok = all
						}
					}
				}
			}
			c.Ob("HEADER-WRITER", name+"/const", id.Pos(), ok, false, "reference to bufconnect.AuthenticationHeader in %s", name)
		}
		for _, f := range pk.Syntax {
			if isGenerated(f) {
				continue
			}
			ast.Inspect(f, func(n ast.Node) bool {
				call, ok := n.(*ast.CallExpr)
				if !ok || len(call.Args) < 2 {
					return true
				}
				fn := Callee(info, call)
				if fn == nil || !(methodIs(fn, "net/http", "Header", "Set") || methodIs(fn, "net/http", "Header", "Add")) {
					return true
				}
				s, isLit := stringLit(info, call.Args[0])
				if !isLit || !strings.EqualFold(s, "authorization") {
					return true
				}
				if identObj(info, call.Args[0]) == hdr {
					return true // counted above
				}
				fd := p.EnclosingFuncDecl(call)
				name := rel
				if fd != nil {
					name = rel + "." + declName(fd)
				}
				why := ""
				for pre, r := range allowedForward {
					if strings.HasPrefix(rel, pre) {
						why = r
					}
				}
				c.Ob("HEADER-WRITER", name+"/literal", call.Pos(), why != "", false, "sets header %q by literal: %s", s, map[bool]string{true: why, false: "not a reviewed forwarder"}[why != ""])
				return true
			})
		}
	}
	if refs == 0 {
		c.Fail("HEADER-WRITER", "references", token.NoPos, "AuthenticationHeader is never referenced")
	}

	// (2) same address
	prov := p.Func("private/bufpkg/bufconnect", "NewAuthorizationInterceptorProvider")
	if prov == nil {
		c.Fail("SAME-ADDRESS", "NewAuthorizationInterceptorProvider", token.NoPos, "not found")
		return
	}
	sf := p.SSAFunc(prov.Obj)
	var addrClosure *ssa.Function
	for _, a := range sf.AnonFuncs {
		if len(a.Params) == 1 && a.Params[0].Type().String() == "string" {
			addrClosure = a
		}
	}
	if addrClosure == nil {
		c.Fail("SAME-ADDRESS", "provider-closure", prov.Decl.Pos(), "no func(address string) closure found")
		return
	}
	nRT := 0
	var setCall ssa.Instruction
	isRT := func(cc *ssa.CallCommon) bool { return cc.IsInvoke() && cc.Method.Name() == "RemoteToken" }
	// the interceptor and the helpers it calls (an extracted "first provider with a token" helper is followed)
	reach := reachSSA(addrClosure, 2)
	var rtCalls []ssaCall
	for _, f := range reach {
		for _, call := range callsIn(f) {
			if isRT(call.Call) {
				rtCalls = append(rtCalls, call)
			}
		}
	}
	for _, call := range rtCalls {
		nRT++
		origins := p.Origins(call.Call.Args[0], 2)
		// the argument must be (a load of) the captured address parameter: its only origin, resolving free variables
		// through their closure bindings and helper parameters through their call sites, is parameter 0 of the closure
		want := "param:" + ssaFuncName(addrClosure) + "#0"
		ok := len(origins) == 1 && origins[0] == want
		c.Ob("SAME-ADDRESS", "interceptor/RemoteToken-argument", call.Pos(), ok, true, "RemoteToken is asked for the provider closure's own address parameter: %v (origins %v)", ok, origins)
		// (4) first wins: once a provider returned a non-empty token no further provider is asked — from the
		// non-empty edge of the test on the result, the RemoteToken call is not reachable again
		v, _ := call.Instr.(ssa.Value)
		asked, nonEmptyTested := false, false
		if v != nil {
			for _, b := range call.Instr.Parent().Blocks {
				ifi := ifOf(b)
				if ifi == nil {
					continue
				}
				bo, ok := ifi.Cond.(*ssa.BinOp)
				if !ok || (bo.Op != token.NEQ && bo.Op != token.EQL) {
					continue
				}
				cst, isC := bo.Y.(*ssa.Const)
				if !isC || cst.Value == nil || cst.Value.ExactString() != `""` || !dependsOnValue(bo.X, v) {
					continue
				}
				nonEmptyTested = true
				succ := b.Succs[0]
				if bo.Op == token.EQL {
					succ = b.Succs[1]
				}
				if len(succ.Instrs) > 0 && (succ.Instrs[0] == call.Instr || instrReaches(succ.Instrs[0], call.Instr)) {
					asked = true
				}
			}
		}
		c.Ob("FIRST-WINS", "interceptor/first-non-empty-stops", call.Pos(), nonEmptyTested && !asked, true,
			"the RemoteToken result is tested against \"\" (%v) and no further provider is asked on the non-empty edge (%v)", nonEmptyTested, !asked)
	}
	for _, f := range reach {
		for _, call := range callsIn(f) {
			if fn := staticCalleeObj(call.Call); fn != nil && methodIs(fn, "net/http", "Header", "Set") {
				if len(call.Call.Args) < 2 || !dependsOnCallDeep(call.Call.Args[len(call.Call.Args)-1], isRT) {
					continue // another header (user agent, version …)
				}
				setCall = call.Instr
				c.Ob("SAME-ADDRESS", "interceptor/header-value", call.Pos(), true, true, "the Authorization header value is built from the RemoteToken result (traced through helper returns)")
				again := instrReaches(call.Instr, call.Instr)
				c.Ob("FIRST-WINS", "interceptor/set-once", call.Pos(), !again, true, "the header Set is not reachable from itself: %v", !again)
			}
		}
	}
	// only-non-empty: every RemoteToken result that can reach the header passed a `!= ""` test (obligation above:
	// nonEmptyTested) — the token reaches Set only through that edge or through a return guarded by it
	c.Ob("FIRST-WINS", "interceptor/non-empty-token", prov.Decl.Pos(), nRT > 0 && setCall != nil, true, "a header Set fed by RemoteToken exists (%v) and each RemoteToken result is tested for emptiness before use", setCall != nil)
	if nRT == 0 || setCall == nil {
		c.Fail("SAME-ADDRESS", "interceptor", prov.Decl.Pos(), "RemoteToken call or Header.Set not found in the interceptor")
	}
	// connectclient.Make - decided on SSA over Make and the functions of its package it calls (the body may be split
	// into methods of Config)
	c19MakeSameAddress(c)

	// (3) exact match in every TokenProvider implementation
	var tpIface *types.Interface
	if obj := pkC.Types.Scope().Lookup("TokenProvider"); obj != nil {
		tpIface, _ = obj.Type().Underlying().(*types.Interface)
	}
	if tpIface == nil {
		c.Fail("EXACT-MATCH", "TokenProvider", token.NoPos, "interface not found")
		return
	}
	nImpl := 0
	for _, pk := range p.ModulePkgs() {
		scope := pk.Types.Scope()
		for _, name := range scope.Names() {
			tn, ok := scope.Lookup(name).(*types.TypeName)
			if !ok {
				continue
			}
			nt, ok := tn.Type().(*types.Named)
			if !ok {
				continue
			}
			if _, isI := nt.Underlying().(*types.Interface); isI {
				continue
			}
			if !types.Implements(nt, tpIface) && !types.Implements(types.NewPointer(nt), tpIface) {
				continue
			}
			nImpl++
			c19ExactMatch(c, pk, nt)
		}
	}
	if nImpl < 3 {
		c.Fail("EXACT-MATCH", "implementations", token.NoPos, "only %d TokenProvider implementations found", nImpl)
	}

	c19NoHeaderForwarding(c)
	c19OneNetrcFile(c)
	// (5) parsers
	if q := p.Pkg("private/bufpkg/bufconnect"); q != nil {
		c19SplitAsIs(c, q)
	}
	for _, name := range []string{"newTokenProviderFromString", "newSingleTokenProvider", "newMultipleTokenProvider"} {
		fr := p.Func("private/bufpkg/bufconnect", name)
		if fr == nil {
			c.Fail("PARSE-ALL-OR-NOTHING", name, token.NoPos, "not found")
			continue
		}
		info := fr.Info()
		ok, n := true, 0
		inspectNoFuncLit(fr.Decl.Body, func(x ast.Node) bool {
			r, isRet := x.(*ast.ReturnStmt)
			if !isRet || len(r.Results) != 2 {
				return true
			}
			if classifyReturn(info, r) == retNonNil {
				n++
				if !isNilIdent(info, r.Results[0]) {
					ok = false
				}
			}
			return true
		})
		c.Ob("PARSE-ALL-OR-NOTHING", name+"/error-returns-nil-provider", fr.Decl.Pos(), ok, true, "%d error returns, each with a nil provider: %v", n, ok)
	}
	if fr := p.Func("private/bufpkg/bufconnect", "newMultipleTokenProvider"); fr != nil {
		info := fr.Info()
		g := p.CFGOf(fr.Decl.Body, info)
		// the composite literal carrying the map is built after the range loop: not inside it
		var loop *ast.RangeStmt
		var lit *ast.CompositeLit
		ast.Inspect(fr.Decl.Body, func(n ast.Node) bool {
			switch x := n.(type) {
			case *ast.RangeStmt:
				if loop == nil {
					loop = x
				}
			case *ast.CompositeLit:
				if namedName(info.TypeOf(x)) == "multipleTokenProvider" {
					lit = x
				}
			}
			return true
		})
		ok := loop != nil && lit != nil && !containsNode(loop, lit) && lit.Pos() > loop.End()
		_ = g
		c.Ob("PARSE-ALL-OR-NOTHING", "newMultipleTokenProvider/publish-after-loop", fr.Decl.Pos(), ok, true, "the provider holding the address→token map is constructed only after the loop over all entries: %v", ok)
		// duplicate addresses rejected
		dup := false
		ast.Inspect(fr.Decl.Body, func(n ast.Node) bool {
			ifs, isIf := n.(*ast.IfStmt)
			if !isIf || ifs.Init == nil {
				return true
			}
			if as, isAs := ifs.Init.(*ast.AssignStmt); isAs && len(as.Rhs) == 1 {
				if _, isIdx := as.Rhs[0].(*ast.IndexExpr); isIdx && len(ifs.Body.List) > 0 {
					if r, isRet := ifs.Body.List[0].(*ast.ReturnStmt); isRet && classifyReturn(info, r) == retNonNil {
						dup = true
					}
				}
			}
			return true
		})
		// exactly one '@' per entry (added after seeded change C19-a): with two, either part would swallow the other
		// entry (`t1@h1t2@h2` after a forgotten comma) and a token would be sent to a host it was not configured for.
		// Accepted idioms: Split(x,"@") with a `len(parts) != 2` rejection; Count(x,"@") != 1 rejection; Cut/Index with a
		// Contains(part,"@") rejection of both parts.
		oneAt, how := false, "no idiom recognised"
		// the entry parser may live in a helper of the package (`splitRemoteToken`): its body is read as well
		bodies := []*ast.BlockStmt{fr.Decl.Body}
		ast.Inspect(fr.Decl.Body, func(n ast.Node) bool {
			if call, ok := n.(*ast.CallExpr); ok {
				if fn := Callee(info, call); fn != nil && fn.Pkg() == fr.Pkg.Types {
					if hf := p.Func(relPkg(fr.Pkg.PkgPath), fn.Name()); hf != nil && hf.Decl.Body != nil && hf != fr {
						bodies = append(bodies, hf.Decl.Body)
					}
				}
			}
			return true
		})
		for _, body := range bodies {
			if oneAt {
				break
			}
			var splitVar types.Object
			ast.Inspect(body, func(n ast.Node) bool {
				if as, ok := n.(*ast.AssignStmt); ok && len(as.Lhs) == 1 && len(as.Rhs) == 1 {
					if call, ok := ast.Unparen(as.Rhs[0]).(*ast.CallExpr); ok {
						if fn := Callee(info, call); fn != nil && fn.Pkg() != nil && fn.Pkg().Path() == "strings" && fn.Name() == "Split" && len(call.Args) == 2 {
							if s, ok := stringLit(info, call.Args[1]); ok && s == "@" {
								splitVar = identObj(info, as.Lhs[0])
							}
						}
					}
				}
				return true
			})
			ast.Inspect(body, func(n ast.Node) bool {
				ifs, ok := n.(*ast.IfStmt)
				if !ok || len(ifs.Body.List) == 0 {
					return true
				}
				r, isRet := ifs.Body.List[len(ifs.Body.List)-1].(*ast.ReturnStmt)
				if !isRet || classifyReturn(info, r) != retNonNil {
					return true
				}
				be, ok := ast.Unparen(ifs.Cond).(*ast.BinaryExpr)
				if !ok || be.Op != token.NEQ {
					return true
				}
				call, ok := ast.Unparen(be.X).(*ast.CallExpr)
				if !ok {
					return true
				}
				tv := info.Types[be.Y]
				if id, ok := call.Fun.(*ast.Ident); ok && id.Name == "len" && len(call.Args) == 1 && splitVar != nil && identObj(info, call.Args[0]) == splitVar && tv.Value != nil && tv.Value.ExactString() == "2" {
					oneAt, how = true, "strings.Split(entry, \"@\") and len(parts) != 2 is an error"
				}
				if fn := Callee(info, call); fn != nil && fn.Pkg() != nil && fn.Pkg().Path() == "strings" && fn.Name() == "Count" && len(call.Args) == 2 && tv.Value != nil && tv.Value.ExactString() == "1" {
					if s, ok := stringLit(info, call.Args[1]); ok && s == "@" {
						oneAt, how = true, "strings.Count(entry, \"@\") != 1 is an error"
					}
				}
				return true
			})
			if !oneAt {
				// Cut / Index idiom: every string stored as key or value is rejected when it contains "@"
				rejects := 0
				ast.Inspect(body, func(n ast.Node) bool {
					ifs, ok := n.(*ast.IfStmt)
					if !ok || len(ifs.Body.List) == 0 {
						return true
					}
					if r, isRet := ifs.Body.List[len(ifs.Body.List)-1].(*ast.ReturnStmt); !isRet || classifyReturn(info, r) != retNonNil {
						return true
					}
					for _, t := range splitOr(ifs.Cond) {
						if call, ok := ast.Unparen(t).(*ast.CallExpr); ok && len(call.Args) == 2 {
							if fn := Callee(info, call); fn != nil && fn.Pkg() != nil && fn.Pkg().Path() == "strings" && (fn.Name() == "Contains" || fn.Name() == "ContainsRune") {
								if s, ok := stringLit(info, call.Args[1]); ok && s == "@" {
									rejects++
								}
							}
						}
					}
					return true
				})
				if rejects >= 2 {
					oneAt, how = true, "both parts are rejected when they contain \"@\""
				}
				// strings.Cut splits at the FIRST "@": the part before it cannot contain one, so rejecting the part
				// after it is enough
				if !oneAt {
					var afterObj types.Object
					ast.Inspect(body, func(n ast.Node) bool {
						if as, ok := n.(*ast.AssignStmt); ok && len(as.Lhs) == 3 && len(as.Rhs) == 1 {
							if call, ok := ast.Unparen(as.Rhs[0]).(*ast.CallExpr); ok && len(call.Args) == 2 {
								if fn := Callee(info, call); fn != nil && fn.Pkg() != nil && fn.Pkg().Path() == "strings" && fn.Name() == "Cut" {
									if s, ok := stringLit(info, call.Args[1]); ok && s == "@" {
										afterObj = identObj(info, as.Lhs[1])
									}
								}
							}
						}
						return true
					})
					if afterObj != nil {
						ast.Inspect(body, func(n ast.Node) bool {
							ifs, ok := n.(*ast.IfStmt)
							if !ok || len(ifs.Body.List) == 0 {
								return true
							}
							if r, isRet := ifs.Body.List[len(ifs.Body.List)-1].(*ast.ReturnStmt); !isRet || classifyReturn(info, r) != retNonNil {
								return true
							}
							for _, t := range splitOr(ifs.Cond) {
								if call, ok := ast.Unparen(t).(*ast.CallExpr); ok && len(call.Args) == 2 && identObj(info, call.Args[0]) == afterObj {
									if fn := Callee(info, call); fn != nil && fn.Pkg() != nil && fn.Pkg().Path() == "strings" && (fn.Name() == "Contains" || fn.Name() == "ContainsRune") {
										if s, ok := stringLit(info, call.Args[1]); ok && s == "@" {
											oneAt, how = true, "strings.Cut at the first \"@\" and the part after it is rejected when it contains another"
										}
									}
								}
							}
							return true
						})
					}
				}
			}
		}
		c.Ob("PARSE-ALL-OR-NOTHING", "newMultipleTokenProvider/exactly-one-at", fr.Decl.Pos(), oneAt, true, "an entry with more than one '@' is rejected: %s", how)
		c.Ob("PARSE-ALL-OR-NOTHING", "newMultipleTokenProvider/duplicate-address-rejected", fr.Decl.Pos(), dup, true, "a repeated address is an error (first source wins deterministically instead of last-writer-wins): %v", dup)
	}

	// (6) netrc
	if fr := p.Func("private/pkg/netrc", "GetMachineForNameAndFilePath"); fr != nil {
		// on SSA, over the function and the package helpers it calls: the library lookups are Machine(<the name that
		// was asked for>) and Machine("default"), in that order, and nothing else
		var args []string
		okArgs := true
		root := p.SSAFunc(fr.Obj)
		var fromRootName func(v ssa.Value, depth int) bool
		fromRootName = func(v ssa.Value, depth int) bool {
			v = stripConv(v)
			prm, ok := v.(*ssa.Parameter)
			if !ok {
				return false
			}
			if prm.Parent() == root {
				return len(root.Params) > 0 && prm == root.Params[0]
			}
			if depth == 0 {
				return false
			}
			fn := prm.Parent()
			callers := p.callersIndex()[fn]
			if len(callers) == 0 {
				return false
			}
			for i, q := range fn.Params {
				if q != prm {
					continue
				}
				for _, cs := range callers {
					if i >= len(cs.Call.Args) || !fromRootName(cs.Call.Args[i], depth-1) {
						return false
					}
				}
				return true
			}
			return false
		}
		var nameCall, defaultCall ssa.Instruction
		if root != nil {
			for _, f := range reachSSA(root, 2) {
				if f.Pkg != root.Pkg {
					continue
				}
				for _, call := range callsIn(f) {
					fn := staticCalleeObj(call.Call)
					if fn == nil || fn.Name() != "Machine" || len(call.Call.Args) != 2 {
						continue
					}
					arg := call.Call.Args[1]
					switch {
					case fromRootName(arg, 2):
						args = append(args, "name")
						nameCall = call.Instr
					case isConstString(arg, "default"):
						args = append(args, "default")
						defaultCall = call.Instr
					default:
						okArgs = false
						args = append(args, arg.String())
					}
				}
			}
		}
		sort.Strings(args)
		ok := okArgs && len(args) == 2 && args[0] == "default" && args[1] == "name"
		if ok && nameCall.Parent() == defaultCall.Parent() && !instrDominates(nameCall, defaultCall) {
			ok = false
		}
		c.Ob("NETRC-LOOKUP", "netrc.GetMachineForNameAndFilePath", fr.Decl.Pos(), ok, true, "machine lookups in order: %v (want the exact name, then \"default\")", args)
	} else {
		c.Fail("NETRC-LOOKUP", "netrc.GetMachineForNameAndFilePath", token.NoPos, "not found")
	}
	c19ProviderStateless(c)
	c19SourceOrder(c)
	{
		var cp []*packages.Package
		for _, rel := range []string{"private/pkg/connectclient", "private/bufpkg/bufconnect", "private/buf/bufcli", "private/pkg/netrc"} {
			if q := c.P.Pkg(rel); q != nil {
				cp = append(cp, q)
			}
		}
		ruleSharedAppend(c, "SHARED-APPEND", cp)
		c.Rule("R-ERRUSE", "error results are consumed in the packages that build the authenticated client", 20)
		ruleErrUse(c, "R-ERRUSE", cp, func(string) (bool, string) { return true, "" }, c15AllowedErrUse)
	}
}

// c19ExactMatch inspects the uses of RemoteToken's address parameter in one implementation.
func c19ExactMatch(c *Ctx, pk *packages.Package, nt *types.Named) {
	p := c.P
	var m *types.Func
	for i := 0; i < nt.NumMethods(); i++ {
		if nt.Method(i).Name() == "RemoteToken" {
			m = nt.Method(i)
		}
	}
	inst := relPkg(pk.PkgPath) + "." + nt.Obj().Name() + ".RemoteToken"
	if m == nil {
		c.Ob("EXACT-MATCH", inst, nt.Obj().Pos(), true, false, "RemoteToken is promoted from an embedded provider")
		return
	}
	fr := p.DeclOf(m)
	if fr == nil {
		c.Fail("EXACT-MATCH", inst, m.Pos(), "no body")
		return
	}
	info := fr.Info()
	params := fr.Decl.Type.Params.List
	if len(params) != 1 || len(params[0].Names) == 0 || params[0].Names[0].Name == "_" {
		c.Ob("EXACT-MATCH", inst, fr.Decl.Pos(), true, false, "the address parameter is unnamed: it cannot influence the result (single-token / nop provider, host-less by design)")
		return
	}
	addr := info.Defs[params[0].Names[0]]
	var uses []string
	bad := ""
	ast.Inspect(fr.Decl.Body, func(n ast.Node) bool {
		id, ok := n.(*ast.Ident)
		if !ok || info.Uses[id] != addr {
			return true
		}
		par := p.Parent(id)
		switch x := par.(type) {
		case *ast.IndexExpr:
			if x.Index == ast.Expr(id) {
				if _, isMap := info.TypeOf(x.X).Underlying().(*types.Map); isMap {
					uses = append(uses, "map key")
					return true
				}
			}
			bad = "indexing/slicing of the address"
		case *ast.BinaryExpr:
			if x.Op == token.EQL || x.Op == token.NEQ {
				uses = append(uses, "==")
				return true
			}
			bad = "operator " + x.Op.String()
		case *ast.CallExpr:
			callee := Callee(info, x)
			name := "dynamic call " + exprString(x.Fun)
			if callee != nil {
				name = funcIDFull(callee)
			}
			switch {
			case callee != nil && callee.Pkg() != nil && !strings.HasPrefix(callee.Pkg().Path(), modPath) && callee.Pkg().Path() != "fmt" && callee.Pkg().Path() != "log/slog" && callee.Pkg().Path() != "errors":
				// strings, regexp, path, net (SplitHostPort), net/url, ...: the address is taken apart or rewritten
				// before the lookup, so the match is no longer on the address as given
				bad = "passed to " + name + " (non-exact matching)"
			case strings.Contains(strings.ToLower(exprString(x.Fun)), "getmachineforname"):
				uses = append(uses, "netrc machine name")
			default:
				uses = append(uses, "argument of "+name)
			}
		case *ast.SliceExpr:
			bad = "slicing of the address"
		default:
			uses = append(uses, "other")
		}
		return true
	})
	if len(uses) == 0 && bad == "" {
		c.Ob("EXACT-MATCH", inst, fr.Decl.Pos(), true, false, "the address parameter is not used (host-less provider by design)")
		return
	}
	c.Ob("EXACT-MATCH", inst, fr.Decl.Pos(), bad == "", true, "address parameter uses: %v %s", uses, bad)
}

func splitOr(e ast.Expr) []ast.Expr {
	e = ast.Unparen(e)
	if be, ok := e.(*ast.BinaryExpr); ok && be.Op == token.LOR {
		return append(splitOr(be.X), splitOr(be.Y)...)
	}
	return []ast.Expr{e}
}

// c19MakeSameAddress: the interceptor that attaches the token is obtained from the provider with the address the
// client is being made for, before that address is mapped (scheme prefix), on every Make call, and it is that result
// which is appended to the interceptors of this client.
func c19MakeSameAddress(c *Ctx) {
	p := c.P
	mk := p.Func("private/pkg/connectclient", "Make")
	if mk == nil {
		c.Fail("SAME-ADDRESS", "connectclient.Make", token.NoPos, "not found")
		return
	}
	smk := p.SSAFunc(mk.Obj)
	if smk == nil {
		c.Fail("SAME-ADDRESS", "connectclient.Make", mk.Decl.Pos(), "no SSA body")
		return
	}
	isFieldCall := func(cc *ssa.CallCommon, field string) bool {
		if cc.IsInvoke() || cc.StaticCallee() != nil {
			return false
		}
		u, ok := cc.Value.(*ssa.UnOp)
		if !ok || u.Op != token.MUL {
			return false
		}
		fa, ok := u.X.(*ssa.FieldAddr)
		if !ok || !strings.Contains(fieldName(fa.X.Type(), fa.Field), "connectclient.Config.") {
			return false
		}
		// the two function-valued members of Config are told apart by their types, not their names: the address
		// mapper is func(string) string, the interceptor provider is func(string) <interceptor>
		sig, ok := u.Type().Underlying().(*types.Signature)
		if !ok || sig.Params().Len() != 1 || sig.Results().Len() != 1 {
			return false
		}
		if pb, ok := sig.Params().At(0).Type().Underlying().(*types.Basic); !ok || pb.Kind() != types.String {
			return false
		}
		rb, resIsString := sig.Results().At(0).Type().Underlying().(*types.Basic)
		resIsString = resIsString && rb.Kind() == types.String
		switch field {
		case "addressMapper":
			return resIsString
		case "authInterceptorProvider":
			return !resIsString
		}
		return false
	}
	var addr *ssa.Parameter
	for _, prm := range smk.Params {
		if b, ok := prm.Type().Underlying().(*types.Basic); ok && b.Kind() == types.String {
			addr = prm
		}
	}
	var parts []*ssa.Function
	for _, f := range reachSSA(smk, 2) {
		if f.Pkg != nil && f.Pkg == smk.Pkg {
			parts = append(parts, f)
		}
	}
	var prov *ssa.Call
	var provFn *ssa.Function
	for _, f := range parts {
		for _, call := range callsIn(f) {
			if cv, ok := call.Instr.(*ssa.Call); ok && isFieldCall(&cv.Call, "authInterceptorProvider") && len(cv.Call.Args) == 1 {
				prov, provFn = cv, f
			}
		}
	}
	if prov == nil || addr == nil {
		c.Fail("SAME-ADDRESS", "connectclient.Make/provider-argument", mk.Decl.Pos(), "no call of Config.authInterceptorProvider reachable from Make (or Make has no address parameter)")
		return
	}
	// the argument is Make's own address parameter, unmapped: traced up through the parameters of package helpers
	isMapped := func(v ssa.Value) bool {
		return dependsOnCall(v, func(cc *ssa.CallCommon) bool { return isFieldCall(cc, "addressMapper") })
	}
	var fromAddr func(v ssa.Value, f *ssa.Function, depth int) bool
	fromAddr = func(v ssa.Value, f *ssa.Function, depth int) bool {
		if isMapped(v) {
			return false
		}
		if f == smk {
			return dependsOnValue(v, addr)
		}
		if depth == 0 {
			return false
		}
		for i, prm := range f.Params {
			if !dependsOnValue(v, prm) {
				continue
			}
			callers := p.callersIndex()[f]
			if len(callers) == 0 {
				return false
			}
			for _, cs := range callers {
				if i >= len(cs.Call.Args) || !fromAddr(cs.Call.Args[i], cs.Instr.Parent(), depth-1) {
					return false
				}
			}
			return true
		}
		return false
	}
	okArg := fromAddr(prov.Call.Args[0], provFn, 2)
	c.Ob("SAME-ADDRESS", "connectclient.Make/provider-argument", prov.Pos(), okArg, true,
		"authInterceptorProvider receives Make's own address parameter, not the mapped address: %v", okArg)
	// per call: not deferred into a closure, nothing stored into the shared Config, the result is what is appended
	inLit := provFn.Parent() != nil
	var cfgStores []string
	appendedOK := false
	for _, f := range parts {
		for _, g := range allSSAFuncs(f) {
			for _, b := range g.Blocks {
				for _, ins := range b.Instrs {
					switch t := ins.(type) {
					case *ssa.Store:
						if fa, ok := t.Addr.(*ssa.FieldAddr); ok && strings.Contains(fieldName(fa.X.Type(), fa.Field), "connectclient.Config.") {
							cfgStores = append(cfgStores, fieldName(fa.X.Type(), fa.Field))
						}
					case *ssa.Call:
						if isBuiltinCall(&t.Call, "append") && len(t.Call.Args) == 2 {
							for _, e := range append(variadicElems(t.Call.Args[1]), t.Call.Args[1]) {
								if dependsOnValue(e, prov) {
									appendedOK = true
								}
							}
						}
					}
				}
			}
		}
	}
	c.Ob("SAME-ADDRESS", "connectclient.Make/per-call-interceptor", prov.Pos(), !inLit && len(cfgStores) == 0 && appendedOK, true,
		"the auth interceptor is built on every Make call for that call's address: provider call outside any closure=%v, stores into the shared Config=%v, its result is what is appended to the interceptors=%v", !inLit, cfgStores, appendedOK)
}
