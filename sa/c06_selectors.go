package main

import (
	"fmt"
	"go/token"
	"go/types"
	"strings"

	"golang.org/x/tools/go/packages"
	"golang.org/x/tools/go/ssa"
)

// c06SelectorsIndependent (SELECTORS-INDEPENDENT; C06, after round-4 seed C06-l): use, except, ignore and ignore_only
// compose set-theoretically only if each is stored as given (normalised), independently of the others. In the
// constructors of the check configuration (functions of bufconfig that take a map[string][]string and return a
// *checkConfig) the rule demands, on SSA:
//
//	(a) every value stored into a map that is built there (the new ignore_only table) depends on exactly one of the
//	    selector parameters - the ignore_only parameter - and on no other ("prune what the global ignore already
//	    covers" makes adding an `ignore` entry re-enable a rule elsewhere);
//	(b) that store is conditional on nothing but error checks: every key of the input reaches the output;
//	(c) each selector argument handed on to the next constructor (or stored in the struct) depends on exactly one
//	    selector parameter.
func c06SelectorsIndependent(c *Ctx) {
	const rule = "SELECTORS-INDEPENDENT"
	c.Rule(rule, "use, except, ignore and ignore_only are stored independently of each other, and every ignore_only key is kept", 5)
	p := c.P
	pk := p.Pkg("private/bufpkg/bufconfig")
	if pk == nil {
		c.Fail(rule, "anchor", token.NoPos, "bufconfig not found")
		return
	}
	isSelector := func(t types.Type) bool {
		switch u := t.Underlying().(type) {
		case *types.Slice:
			b, ok := u.Elem().Underlying().(*types.Basic)
			return ok && b.Kind() == types.String
		case *types.Map:
			s, ok := u.Elem().Underlying().(*types.Slice)
			if !ok {
				return false
			}
			b, ok := s.Elem().Underlying().(*types.Basic)
			return ok && b.Kind() == types.String
		}
		return false
	}
	found := 0
	for _, sf := range p.SSAFuncsOf([]*packages.Package{pk}) {
		res := sf.Signature.Results()
		if res.Len() == 0 || !strings.HasSuffix(namedPath(res.At(0).Type()), "bufconfig.checkConfig") {
			continue
		}
		var sels []*ssa.Parameter
		hasMap := false
		for _, prm := range sf.Params {
			if isSelector(prm.Type()) {
				sels = append(sels, prm)
				if _, ok := prm.Type().Underlying().(*types.Map); ok {
					hasMap = true
				}
			}
		}
		if !hasMap || len(sels) < 3 {
			continue
		}
		found++
		depsOf := func(v ssa.Value) []string {
			var out []string
			for _, s := range sels {
				if dependsOnValue(v, s) {
					out = append(out, s.Name())
				}
			}
			return out
		}
		name := ssaFuncName(sf)
		// (a), (b): stores into maps made here
		for _, f := range allSSAFuncs(sf) {
			for _, b := range f.Blocks {
				for _, ins := range b.Instrs {
					mu, ok := ins.(*ssa.MapUpdate)
					if !ok {
						continue
					}
					if _, made := stripConv(mu.Map).(*ssa.MakeMap); !made {
						continue
					}
					if !isSelector(mu.Map.Type()) {
						continue
					}
					deps := depsOf(mu.Value)
					c.Ob(rule, name+"/table-value", mu.Pos(), len(deps) == 1, true, "the list stored per rule depends on the selector parameter(s) %v (wanted: exactly the ignore_only table)", deps)
					cond := ""
					for _, ge := range guardingEdges(b) {
						cv, _ := condPolarity(ge.If.Cond)
						if _, _, isNilCmp := nilCompare(cv); isNilCmp {
							continue // err != nil
						}
						if _, isNext := stripConv(cv).(*ssa.Extract); isNext {
							continue // the range loop's own `ok`
						}
						cond = cv.String()
						if bo, ok := cv.(*ssa.BinOp); ok {
							cond = bo.X.String() + " " + bo.Op.String() + " " + bo.Y.String()
						}
					}
					c.Ob(rule, name+"/table-every-key", mu.Pos(), cond == "", true, "the store happens for every key of the input (guarded by nothing but error checks and the loop): %q", cond)
				}
			}
		}
		// (c): selector arguments handed on, or stored into the struct
		for _, call := range callsIn(sf) {
			callee := call.Call.StaticCallee()
			if callee == nil || callee.Signature.Results().Len() == 0 || !strings.HasSuffix(namedPath(callee.Signature.Results().At(0).Type()), "bufconfig.checkConfig") {
				continue
			}
			for i, a := range call.Call.Args {
				if !isSelector(a.Type()) || isNilConst(a) {
					continue
				}
				deps := depsOf(a)
				c.Ob(rule, fmt.Sprintf("%s/hands-on#%d", name, i), call.Pos(), len(deps) == 1, true, "selector argument %d of %s depends on the selector parameter(s) %v (wanted: exactly one)", i, callee.Name(), deps)
			}
		}
		for _, b := range sf.Blocks {
			for _, ins := range b.Instrs {
				st, ok := ins.(*ssa.Store)
				if !ok {
					continue
				}
				fa, ok := st.Addr.(*ssa.FieldAddr)
				if !ok || !isSelector(st.Val.Type()) || isNilConst(st.Val) {
					continue
				}
				deps := depsOf(st.Val)
				fn := fieldName(fa.X.Type(), fa.Field)
				c.Ob(rule, name+"/field-"+fn[strings.LastIndex(fn, ".")+1:], st.Pos(), len(deps) == 1, true, "field %s depends on the selector parameter(s) %v (wanted: exactly one)", fn, deps)
			}
		}
	}
	if found == 0 {
		c.Fail(rule, "anchor", token.NoPos, "no constructor of checkConfig taking the selector lists found")
	}
}
