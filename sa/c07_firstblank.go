package main

import (
	"fmt"
	"go/ast"
	"go/token"
	"go/types"
	"strings"

	"golang.org/x/tools/go/packages"
)

// c07FirstOutputNoBlank (BLANK-AFTER-OUTPUT; C07, written after F30): formatting is idempotent only if no blank line
// is ever the first thing written. A blank line that the formatter emits because the *input* had more than one newline
// before a token (newlineCount(LeadingWhitespace()) > 1, leadingCommentsContainBlankLine) is re-read, on the next pass,
// as the leading whitespace of the same token - now with exactly one newline, so the second pass drops it: for an
// input that starts with two or more empty lines, format(format(x)) != format(x). Most sites of the formatter guard
// such an emission with `f.previousNode != nil`; the rule holds every site to that belief. For each call f.P("")
// whose enclosing conditions consult the input's newlines, one of the following must hold:
//
//	(a) an enclosing condition (or a local boolean it uses) reads f.previousNode or f.lastWritten - the formatter's
//	    own record of "something has been written";
//	(b) the call is dominated, within its function, by a call that writes (a formatter method whose name starts with
//	    write/Write, or P with a non-empty argument).
func c07FirstOutputNoBlank(c *Ctx, pk *packages.Package) {
	const rule = "BLANK-AFTER-OUTPUT"
	c.Rule(rule, "a blank line prompted by the input's own empty lines is never the first thing written", 3)
	p := c.P
	info := pk.TypesInfo
	// functions that look at the input's newlines: they call LeadingWhitespace (directly or through a package function)
	looksAtNewlines := map[*types.Func]bool{}
	for round := 0; round < 3; round++ {
		for _, fr := range p.FuncsOf(pk) {
			if fr.Decl.Body == nil || looksAtNewlines[fr.Obj] {
				continue
			}
			ast.Inspect(fr.Decl.Body, func(n ast.Node) bool {
				if call, ok := n.(*ast.CallExpr); ok {
					if fn := Callee(info, call); fn != nil && (fn.Name() == "LeadingWhitespace" || looksAtNewlines[fn]) {
						// only boolean/int helpers count as "looking", not the writers themselves
						if sig, ok := fr.Obj.Type().(*types.Signature); ok && sig.Results().Len() == 1 {
							if b, ok := sig.Results().At(0).Type().Underlying().(*types.Basic); ok && b.Info()&(types.IsBoolean|types.IsInteger) != 0 {
								looksAtNewlines[fr.Obj] = true
							}
						}
					}
				}
				return true
			})
		}
	}
	n := 0
	for _, fr := range p.FuncsOf(pk) {
		if fr.Decl.Body == nil || fr.Decl.Recv == nil {
			continue
		}
		// local definitions, for conditions spelled through a variable
		defs := map[types.Object]ast.Expr{}
		ast.Inspect(fr.Decl.Body, func(m ast.Node) bool {
			switch s := m.(type) {
			case *ast.AssignStmt:
				if len(s.Lhs) == len(s.Rhs) {
					for i, l := range s.Lhs {
						if o := identObj(info, l); o != nil {
							defs[o] = s.Rhs[i]
						}
					}
				}
			case *ast.ValueSpec:
				for i, nm := range s.Names {
					if i < len(s.Values) {
						defs[info.Defs[nm]] = s.Values[i]
					}
				}
			}
			return true
		})
		var mentions func(e ast.Node, depth int) (newlines, started bool)
		mentions = func(e ast.Node, depth int) (newlines, started bool) {
			ast.Inspect(e, func(m ast.Node) bool {
				switch x := m.(type) {
				case *ast.CallExpr:
					if fn := Callee(info, x); fn != nil && (fn.Name() == "LeadingWhitespace" || looksAtNewlines[fn]) {
						newlines = true
					}
				case *ast.SelectorExpr:
					if x.Sel.Name == "previousNode" || x.Sel.Name == "lastWritten" {
						if _, isField := info.Uses[x.Sel].(*types.Var); isField {
							// only a comparison against nil/0 says "something was written"; isOpenBrace(f.previousNode) does not
							if be, ok := p.Parent(x).(*ast.BinaryExpr); ok && (be.Op == token.NEQ || be.Op == token.EQL) {
								started = true
							}
						}
					}
				case *ast.Ident:
					if d, ok := defs[info.Uses[x]]; ok && depth > 0 {
						nl, st := mentions(d, depth-1)
						newlines, started = newlines || nl, started || st
					}
				}
				return true
			})
			return
		}
		g := p.CFGOf(fr.Decl.Body, info)
		var writes []ast.Node
		var blanks []*ast.CallExpr
		ast.Inspect(fr.Decl.Body, func(m ast.Node) bool {
			if _, ok := m.(*ast.FuncLit); ok {
				return false
			}
			call, ok := m.(*ast.CallExpr)
			if !ok {
				return true
			}
			sel, ok := call.Fun.(*ast.SelectorExpr)
			if !ok {
				return true
			}
			if s := info.Selections[sel]; s == nil || s.Kind() != types.MethodVal || !strings.HasSuffix(namedPath(s.Recv()), "bufformat.formatter") {
				return true
			}
			name := sel.Sel.Name
			switch {
			case name == "P" && len(call.Args) == 1:
				if tv, ok := info.Types[call.Args[0]]; ok && tv.Value != nil && tv.Value.ExactString() == `""` {
					blanks = append(blanks, call)
				} else {
					writes = append(writes, call)
				}
			case strings.HasPrefix(name, "write") || strings.HasPrefix(name, "Write"):
				writes = append(writes, call)
			}
			return true
		})
		k := 0
		for _, bl := range blanks {
			newlines, started := false, false
			for cur := p.Parent(bl); cur != nil && cur != ast.Node(fr.Decl); cur = p.Parent(cur) {
				if ifs, ok := cur.(*ast.IfStmt); ok && !containsNode(ifs.Cond, bl) {
					nl, st := mentions(ifs.Cond, 3)
					newlines, started = newlines || nl, started || st
				}
			}
			if !newlines {
				continue
			}
			n++
			k++
			afterWrite := false
			for _, w := range writes {
				if w != ast.Node(bl) && g.Dominates(w, bl) {
					afterWrite = true
				}
			}
			c.Ob(rule, fmt.Sprintf("%s/blank#%d", fr.ID(), k), bl.Pos(), started || afterWrite, true,
				"this blank line is emitted because the input had empty lines here; it cannot be the first output: guarded by previousNode/lastWritten %v, preceded by a write in this function %v", started, afterWrite)
		}
	}
	if n == 0 {
		c.Fail(rule, "anchor", token.NoPos, "no blank-line emission prompted by input newlines found in bufformat")
	}
}
