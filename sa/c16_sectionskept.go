package main

import (
	"fmt"
	"go/token"
	"go/types"
	"sort"

	"golang.org/x/tools/go/packages"
	"golang.org/x/tools/go/ssa"
)

// c16SectionsKept (SECTIONS-KEPT; C16, after round-4 seed C16-l): a configuration file is read by unmarshalling it into
// an external struct and handing the parsed sections to a constructor. If, for one external struct, the constructor is
// called in two places and a slice parameter receives a value derived from that struct in one place but the nil
// constant in the other, the second place forgets a section the file may well contain: an early "no deps, nothing
// pinned" return reads a plugin-only buf.lock as empty, and writing it back loses every plugin pin.
func c16SectionsKept(c *Ctx, pk *packages.Package) {
	const rule = "SECTIONS-KEPT"
	c.Rule(rule, "every constructor call fed from one external struct receives all the sections that any of them receives", 2)
	p := c.P
	n := 0
	for _, sf := range p.SSAFuncsOf([]*packages.Package{pk}) {
		// external structs: local struct allocs that are filled by an unmarshal (their address is passed to a call)
		for _, b := range sf.Blocks {
			for _, ins := range b.Instrs {
				al, ok := ins.(*ssa.Alloc)
				if !ok {
					continue
				}
				st, ok := al.Type().Underlying().(*types.Pointer).Elem().Underlying().(*types.Struct)
				if !ok || st.NumFields() < 2 {
					continue
				}
				// constructor calls (same package, returning a pointer/interface + error) with an argument derived from al
				byCallee := map[*ssa.Function][]ssaCall{}
				for _, call := range callsIn(sf) {
					g := call.Call.StaticCallee()
					if g == nil || g.Pkg == nil || g.Pkg.Pkg != pk.Types || g.Signature.Results().Len() == 0 {
						continue
					}
					derived := false
					for _, a := range call.Call.Args {
						if _, isSlice := a.Type().Underlying().(*types.Slice); isSlice && dependsOnValue(a, al) {
							derived = true
						}
					}
					if derived {
						byCallee[g] = append(byCallee[g], call)
					}
				}
				var callees []*ssa.Function
				for g := range byCallee {
					callees = append(callees, g)
				}
				sort.Slice(callees, func(i, j int) bool { return callees[i].Name() < callees[j].Name() })
				for _, g := range callees {
					calls := byCallee[g]
					// all calls of g in sf that lie in the region where al is live: approximated by "dominated by al's block"
					var all []ssaCall
					for _, call := range callsIn(sf) {
						if call.Call.StaticCallee() == g && al.Block().Dominates(call.Instr.Block()) {
							all = append(all, call)
						}
					}
					if len(all) < 1 {
						continue
					}
					// parameters that receive a value derived from al in some call
					fed := map[int]bool{}
					for _, call := range calls {
						for i, a := range call.Call.Args {
							if _, isSlice := a.Type().Underlying().(*types.Slice); isSlice && dependsOnValue(a, al) {
								fed[i] = true
							}
						}
					}
					for k, call := range all {
						var dropped []int
						for i := range fed {
							if i < len(call.Call.Args) && isNilConst(call.Call.Args[i]) {
								dropped = append(dropped, i)
							}
						}
						sort.Ints(dropped)
						n++
						c.Ob(rule, fmt.Sprintf("%s/%s(%s)#%d", ssaFuncName(sf), g.Name(), al.Comment, k+1), call.Pos(), len(dropped) == 0, true,
							"this %s call, fed from %s, passes nil for parameter(s) %v that another call fills from the same struct", g.Name(), al.Comment, dropped)
					}
				}
			}
		}
	}
	if n == 0 {
		c.Fail(rule, "anchor", token.NoPos, "no constructor call fed from an external struct found")
	}
}
