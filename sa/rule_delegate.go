package main

import (
	"go/token"

	"golang.org/x/tools/go/packages"
)

// ruleDelegateErr (DELEGATE-ERR; C01, C10, C14 - after round-4 seed C01-j): zero instances are expected.
func ruleDelegateErr(c *Ctx, rule string, pkgs []*packages.Package) {
	c.Rule(rule, "a delegate's failure is never read as \"this delegate does not have the path\": its error is inspected or returned", 0)
	p := c.P
	n, fns := 0, 0
	for _, sf := range p.SSAFuncsOf(pkgs) {
		for _, f := range allSSAFuncs(sf) {
			fns++
			for _, ins := range delegateErrDropped(f) {
				n++
				c.Ob(rule, ssaFuncName(f)+"/delegate-error-dropped", ins.Pos(), false, true, "the error of this call on one of the receiver's delegates is only compared with nil and the non-nil case carries on: an I/O or verification failure is treated like not-found")
			}
		}
	}
	c.Ob(rule, "functions-scanned", token.NoPos, n == 0, fns > 0, "%d functions scanned, %d delegate errors dropped", fns, n)
}
