package main

import (
	"fmt"
	"go/token"
	"go/types"

	"golang.org/x/tools/go/packages"
	"golang.org/x/tools/go/ssa"
)

// c04InnerMapPerKey (INNER-MAP-PER-KEY; C04 and C03, after round-5 seed C04-n): the two-level indexes (package →
// nested name → element) are filled file by file. The inner map an element is filed under must be the one that
// belongs to *this* element's package - looked up (or created) for the current key on every pass. A variable that
// holds "the inner map" across iterations and is re-assigned only when a package is seen for the first time files the
// elements of a later file of an already-seen package under whatever package came last: they go missing from their own
// package and PACKAGE_*_NO_DELETE reports a deletion that never happened, depending on the order the files arrive in.
// On SSA: where a function (or a closure it runs per file) stores into a map-of-maps' inner map that it reads from a
// captured cell or a loop-carried variable, every store into that cell inside the loop is unconditional or the cell
// also receives the looked-up map on the other edge - a cell assigned on the absent edge only is stale on the present
// edge.
func c04InnerMapPerKey(c *Ctx, rule string, pk *packages.Package) {
	c.Rule(rule, "the inner map an element is filed under is (re)bound for the current key on every pass", 0)
	p := c.P
	n, checked := 0, 0
	for _, sf := range p.SSAFuncsOf([]*packages.Package{pk}) {
		if len(sf.AnonFuncs) == 0 {
			continue
		}
		for _, b := range sf.Blocks {
			for _, ins := range b.Instrs {
				cell, ok := ins.(*ssa.Alloc)
				if !ok {
					continue
				}
				mt, ok := cell.Type().Underlying().(*types.Pointer).Elem().Underlying().(*types.Map)
				if !ok {
					continue
				}
				_ = mt
				// captured by a closure that stores into the map it loads from the cell
				writesThrough := false
				for _, a := range allSSAFuncs(sf) {
					if a == sf {
						continue
					}
					for _, ab := range a.Blocks {
						for _, ai := range ab.Instrs {
							mu, ok := ai.(*ssa.MapUpdate)
							if !ok {
								continue
							}
							if ld, ok := stripConv(mu.Map).(*ssa.UnOp); ok && ld.Op == token.MUL {
								if fv, ok := ld.X.(*ssa.FreeVar); ok && freeVarBinding(fv) == ssa.Value(cell) {
									writesThrough = true
								}
							}
						}
					}
				}
				if !writesThrough {
					continue
				}
				// stores into the cell inside a loop of sf
				var stores []*ssa.Store
				if cell.Referrers() != nil {
					for _, r := range *cell.Referrers() {
						if st, ok := r.(*ssa.Store); ok && st.Addr == ssa.Value(cell) {
							stores = append(stores, st)
						}
					}
				}
				var inLoop []*ssa.Store
				var loop map[*ssa.BasicBlock]bool
				for _, st := range stores {
					for _, h := range sf.Blocks {
						if l := loopBlocks(h); l != nil && l[st.Block()] {
							inLoop = append(inLoop, st)
							if loop == nil || len(l) < len(loop) {
								loop = l
							}
						}
					}
				}
				if len(inLoop) == 0 {
					continue // bound once, outside any loop: a single inner map for everything (not this idiom)
				}
				checked++
				// every iteration rebinds: some store's block dominates every back edge source of the loop
				rebinds := false
				for _, st := range inLoop {
					all := true
					for blk := range loop {
						for _, s := range blk.Succs {
							if loop[s] && s.Dominates(blk) && !st.Block().Dominates(blk) {
								all = false // blk -> s is a back edge not dominated by the store
							}
						}
					}
					if all {
						rebinds = true
					}
				}
				// or: stores on both edges of one test (present: the looked-up map; absent: a fresh one)
				if !rebinds && len(inLoop) >= 2 {
					for _, s1 := range inLoop {
						for _, s2 := range inLoop {
							if s1 == s2 {
								continue
							}
							for _, g1 := range guardingEdges(s1.Block()) {
								for _, g2 := range guardingEdges(s2.Block()) {
									if g1.If == g2.If && g1.Branch != g2.Branch {
										rebinds = true
									}
								}
							}
						}
					}
				}
				if !rebinds {
					n++
				}
				c.Ob(rule, fmt.Sprintf("%s/%s", ssaFuncName(sf), cell.Comment), cell.Pos(), rebinds, true, "the captured inner map %s is rebound on every pass of the loop that files elements through it: %v", cell.Comment, rebinds)
			}
		}
	}
	c.Ob(rule, "cells-checked", token.NoPos, n == 0, true, "%d inner-map variables shared between a filing loop and its closure checked, %d stale on some pass", checked, n)
}
