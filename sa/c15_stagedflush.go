package main

import (
	"go/token"
	"strings"

	"golang.org/x/tools/go/packages"
)

// c15StagedUntilFlush (STAGED-UNTIL-FLUSH; C15 and C17, after round-5 seed C15-c): generated files are staged in memory
// and reach the disk only when every plugin has succeeded - that is what makes "readers see either the previous content
// or the complete new content" true for a generation that fails half way: the previous archive is still there. In the
// OS response writer, the code that runs while responses are being added (the methods themselves) creates, truncates,
// renames or removes no file: os.Create/OpenFile/WriteFile/Rename/Remove/RemoveAll/Truncate appear only inside the
// closures the writer queues for its Close (function literals), or in Close itself. Stat and MkdirAll are fine: a
// directory that already exists is not output.
func c15StagedUntilFlush(c *Ctx) {
	const rule = "STAGED-UNTIL-FLUSH"
	c.Rule(rule, "the OS response writer touches output files only in the closures it runs at Close", 2)
	p := c.P
	pk := p.Pkg("private/bufpkg/bufprotoplugin/bufprotopluginos")
	if pk == nil {
		c.Fail(rule, "anchor", token.NoPos, "bufprotopluginos not found")
		return
	}
	destructive := map[string]bool{"Create": true, "OpenFile": true, "WriteFile": true, "Rename": true, "Remove": true, "RemoveAll": true, "Truncate": true, "CreateTemp": true}
	n, inClosures := 0, 0
	for _, sf := range p.SSAFuncsOf([]*packages.Package{pk}) {
		if sf.Signature.Recv() == nil || !strings.HasSuffix(namedPath(derefType(sf.Signature.Recv().Type())), "bufprotopluginos.responseWriter") {
			continue
		}
		before := n
		for _, f := range allSSAFuncs(sf) {
			for _, call := range callsIn(f) {
				o := staticCalleeObj(call.Call)
				if o == nil || o.Pkg() == nil || o.Pkg().Path() != "os" || !destructive[o.Name()] {
					continue
				}
				if f.Parent() != nil || sf.Name() == "Close" {
					inClosures++
					continue
				}
				n++
				c.Ob(rule, ssaFuncName(f)+"/os."+o.Name(), call.Pos(), false, true, "os.%s runs while responses are still being staged: a generation that fails later has already replaced or created the output", o.Name())
			}
		}
		if sf.Name() != "Close" && n == before {
			c.Ob(rule, ssaFuncName(sf)+"/stages-only", sf.Pos(), true, true, "no file is created, truncated, renamed or removed outside the queued closures")
		}
	}
	c.Ob(rule, "flush-closures", token.NoPos, inClosures > 0, true, "%d file-creating call(s) found in queued closures / Close; %d outside", inClosures, n)
}
