package main

import (
	"go/token"
	"sort"
	"strings"

	"golang.org/x/tools/go/packages"
	"golang.org/x/tools/go/ssa"
)

// c15StagedUntilFlush (STAGED-UNTIL-FLUSH; C15 and C17, after round-5 seed C15-c): generated files are staged in memory
// and reach the disk only when every plugin has succeeded - that is what makes "readers see either the previous content
// or the complete new content" true for a generation that fails half way: the previous archive is still there. In the
// OS response writer, the code that runs while responses are being added (the methods themselves) creates, truncates,
// renames or removes no file: os.Create/OpenFile/WriteFile/Rename/Remove/RemoveAll/Truncate appear only inside the
// closures the writer queues for its Close (function literals), or in Close itself. Stat and MkdirAll are fine: a
// directory that already exists is not output.
func c15StagedUntilFlush(c *Ctx) {
	const rule = "STAGED-UNTIL-FLUSH"
	c.Rule(rule, "the OS response writer touches output files only in the closures it runs at Close", 2)
	p := c.P
	pk := p.Pkg("private/bufpkg/bufprotoplugin/bufprotopluginos")
	if pk == nil {
		c.Fail(rule, "anchor", token.NoPos, "bufprotopluginos not found")
		return
	}
	destructive := map[string]bool{"Create": true, "OpenFile": true, "WriteFile": true, "Rename": true, "Remove": true, "RemoveAll": true, "Truncate": true, "CreateTemp": true}
	isWriter := func(f *ssa.Function) bool {
		return f.Signature.Recv() != nil && strings.HasSuffix(namedPath(derefType(f.Signature.Recv().Type())), "bufprotopluginos.responseWriter")
	}
	// staging code: the writer's methods other than Close and what they call in the package - but not the bodies of
	// the function literals they queue, which run at Close. Flush code: Close, the queued literals, and what those call.
	stage, flush := map[*ssa.Function]bool{}, map[*ssa.Function]bool{}
	var walk func(f *ssa.Function, set map[*ssa.Function]bool)
	walk = func(f *ssa.Function, set map[*ssa.Function]bool) {
		if f == nil || set[f] || len(f.Blocks) == 0 {
			return
		}
		set[f] = true
		for _, call := range callsIn(f) {
			if sc := call.Call.StaticCallee(); sc != nil && sc.Pkg != nil && sc.Pkg.Pkg == pk.Types {
				walk(sc, set)
			} else if sc != nil && sc.Parent() != nil && sc.Parent().Pkg != nil && sc.Parent().Pkg.Pkg == pk.Types {
				walk(sc, set) // a literal called on the spot
			}
		}
	}
	var literals []*ssa.Function
	for _, sf := range p.SSAFuncsOf([]*packages.Package{pk}) {
		if isWriter(sf) && sf.Name() != "Close" {
			walk(sf, stage)
		}
	}
	for f := range stage {
		literals = append(literals, f.AnonFuncs...)
	}
	for _, sf := range p.SSAFuncsOf([]*packages.Package{pk}) {
		if isWriter(sf) && sf.Name() == "Close" {
			walk(sf, flush)
		}
	}
	for _, l := range literals {
		if !stage[l] {
			walk(l, flush)
		}
	}
	n, inFlush := 0, 0
	count := func(f *ssa.Function) []ssaCall {
		var out []ssaCall
		for _, call := range callsIn(f) {
			if o := staticCalleeObj(call.Call); o != nil && o.Pkg() != nil && o.Pkg().Path() == "os" && destructive[o.Name()] {
				out = append(out, call)
			}
		}
		return out
	}
	var stageFns []*ssa.Function
	for f := range stage {
		stageFns = append(stageFns, f)
	}
	sort.Slice(stageFns, func(i, j int) bool { return ssaFuncName(stageFns[i]) < ssaFuncName(stageFns[j]) })
	for _, f := range stageFns {
		calls := count(f)
		for _, call := range calls {
			n++
			c.Ob(rule, ssaFuncName(f)+"/os."+staticCalleeObj(call.Call).Name(), call.Pos(), false, true, "os.%s runs while responses are still being staged: a generation that fails later has already replaced or created the output", staticCalleeObj(call.Call).Name())
		}
		if len(calls) == 0 && f.Parent() == nil && isWriter(f) {
			c.Ob(rule, ssaFuncName(f)+"/stages-only", f.Pos(), true, true, "no file is created, truncated, renamed or removed outside the queued closures")
		}
	}
	for f := range flush {
		if !stage[f] {
			inFlush += len(count(f))
		}
	}
	c.Ob(rule, "flush-closures", token.NoPos, inFlush > 0, true, "%d file-creating call(s) found in the code that runs at Close (queued literals and what they call); %d in staging code", inFlush, n)
}
