package main

// C01 — an image is the exact, closed, ordered compilation of the targeted files (structural part).

import (
	"fmt"
	"go/ast"
	"go/token"
	"go/types"
	"strings"

	"golang.org/x/tools/go/packages"
	"golang.org/x/tools/go/ssa"
)

func init() {
	register(&propCheck{
		ID: "C01",
		Explanation: "Structural necessary conditions of closure, order and flags of a built image: (1) R-POSTORDER — every self-recursive closure walk of bufimage (getImageFilesRec, " +
			"orderImageFilesRec, addFileWithImports, the ls-files closure) tests and sets its seen-mark before recursing and emits the current file only after the loop over its " +
			"imports, with no recursion reachable afterwards; (2) the files handed to the DFS are the result of checkAndSortFiles, which appends only inside a range over the path " +
			"slice; (3) the isImport argument of NewImageFile is the negated comma-ok of a lookup in a set filled only with Path() of the sorted target files; (4) newImage rejects a " +
			"duplicate path and two commits of one module (check-then-insert, error on the found edge); (5) the built-in WKT copy is consulted only after the workspace lookup failed " +
			"with fs.ErrNotExist; (6) lockset — every access to the accessor handler's maps holds its RWMutex (writes exclusively); (7) compiler errors are converted with the " +
			"external-path resolver and buildImage returns the build error before touching the files; (8) the path part of the target-file decision, evaluated over the 16 " +
			"assignments of (targets empty, excludes empty, in targets, in excludes), equals (Tempty ∨ inT) ∧ ¬(¬Eempty ∧ inE), behind the !IsTarget early return. " +
			"NOT decided: that descriptors equal what the Protobuf compiler produces (delegated to protocompile), the proto-file-reference targeting branch, warning→index values.",
		Assumptions: []string{"protocompile returns linked file descriptors whose Imports() are the file's imports in declaration order"},
		Run:         runC01,
	})
}

func runC01(c *Ctx) {
	c01RecordAll(c)
	{
		// module-wide: any field-by-field copy in the module (modules, module read buckets, image files, configs)
		pkgs := c.P.ModulePkgs()
		ruleCopyCtorComplete(c, "COPY-COMPLETE", pkgs, 2)
		c01KeyByFullName(c)
		c01WarningsAllFiles(c)
		ruleClosureFollowsAll(c, "CLOSURE-FOLLOWS-ALL")
		var dp []*packages.Package
		for _, rel := range []string{"private/bufpkg/bufmodule", "private/bufpkg/bufimage", "private/pkg/storage"} {
			if q := c.P.Pkg(rel); q != nil {
				dp = append(dp, q)
			}
		}
		ruleDelegateErr(c, "DELEGATE-ERR", dp)
		{
			var tp []*packages.Package
			for _, rel := range []string{"private/bufpkg/bufmodule", "private/buf/bufworkspace", "private/buf/buftarget", "private/bufpkg/bufimage"} {
				if q := c.P.Pkg(rel); q != nil {
					tp = append(tp, q)
				}
			}
			ruleTargetPathsByComponent(c, "PATHS-BY-COMPONENT", tp)
			ruleWithFlagNoop(c, "WITH-FLAG-NOOP", tp, 1)
			c01TargetWalkTargeted(c)
			c01ExcludesKeptWhole(c)
		}
		if q := c.P.Pkg("private/bufpkg/bufmodule"); q != nil {
			c01RetargetIndependent(c, q)
		}
	}
	p := c.P
	c.Rule("R-POSTORDER", "closure walks mark before recursing and emit a file after all of its imports", 3)
	c.Rule("RESORT", "compiled files are put back into target-path order before the walk", 2)
	c.Rule("IMPORT-FLAG", "a file is marked import iff it is not one of the targeted paths", 2)
	c.Rule("DUP-VALIDATION", "an image holds each path once and one commit per module", 2)
	c.Rule("LOCKSET", "the parser accessor handler's maps are accessed under its lock", 8)
	c.Rule("DIAG-PATH", "compile errors are reported with the user's path and stop the build", 3)
	c.Rule("TARGET-TABLE", "the path/exclude-path target decision has the documented truth table", 2)
	pk := p.Pkg("private/bufpkg/bufimage")
	if pk == nil {
		c.Fail("R-POSTORDER", "anchor", token.NoPos, "bufimage not found")
		return
	}
	rulePostorder(c, "R-POSTORDER", pk)

	// (2) re-sort
	if bi := p.Func("private/bufpkg/bufimage", "buildImage"); bi != nil {
		sf := p.SSAFunc(bi.Obj)
		ok := false
		for _, call := range callsIn(sf) {
			if fn := staticCalleeObj(call.Call); fn != nil && fn.Name() == "getImage" && fn.Pkg() == pk.Types {
				for _, a := range call.Call.Args {
					if ex, isEx := a.(*ssa.Extract); isEx && ex.Index == 0 {
						if src, isCall := ex.Tuple.(*ssa.Call); isCall {
							if sfn := staticCalleeObj(&src.Call); sfn != nil && sfn.Name() == "checkAndSortFiles" {
								ok = true
							}
						}
					}
				}
			}
		}
		c.Ob("RESORT", "buildImage/getImage-argument", bi.Decl.Pos(), ok, true, "getImage receives the first result of checkAndSortFiles: %v", ok)
		// build error returned before Files is used
		info := bi.Info()
		g := p.CFGOf(bi.Decl.Body, info)
		var errTest, filesUse ast.Node
		ast.Inspect(bi.Decl.Body, func(n ast.Node) bool {
			switch x := n.(type) {
			case *ast.IfStmt:
				// the error member of the build result (by type, whatever it is called) compared with nil
				if be, ok := ast.Unparen(x.Cond).(*ast.BinaryExpr); ok && be.Op == token.NEQ && isNilIdent(info, be.Y) {
					if se, ok := ast.Unparen(be.X).(*ast.SelectorExpr); ok && namedName(info.TypeOf(se.X)) == "buildResult" && isErrorType(info.TypeOf(se)) {
						errTest = x.Cond
					}
				}
			case *ast.SelectorExpr:
				// the files member: the slice-typed one
				if namedName(info.TypeOf(x.X)) == "buildResult" && filesUse == nil {
					if _, isSlice := info.TypeOf(x).Underlying().(*types.Slice); isSlice {
						filesUse = x
					}
				}
			}
			return true
		})
		okErr := errTest != nil && filesUse != nil && g.Dominates(errTest, filesUse)
		c.Ob("DIAG-PATH", "buildImage/error-before-files", bi.Decl.Pos(), okErr, true, "buildResult.Err is tested (and returned) before buildResult.Files is used: %v", okErr)
	} else {
		c.Fail("RESORT", "buildImage", token.NoPos, "not found")
	}
	if cs := p.Func("private/bufpkg/bufimage", "checkAndSortFiles"); cs != nil {
		info := cs.Info()
		// the returned slice is appended to only inside a range over a slice parameter
		okAll, n := true, 0
		ast.Inspect(cs.Decl.Body, func(x ast.Node) bool {
			as, ok := x.(*ast.AssignStmt)
			if !ok || len(as.Rhs) != 1 {
				return true
			}
			call, ok := as.Rhs[0].(*ast.CallExpr)
			if !ok {
				return true
			}
			if id, ok := call.Fun.(*ast.Ident); !ok || id.Name != "append" {
				return true
			}
			n++
			inSliceRange := false
			for cur := p.Parent(as); cur != nil && cur != cs.Decl; cur = p.Parent(cur) {
				if rs, ok := cur.(*ast.RangeStmt); ok {
					if _, isSlice := info.TypeOf(rs.X).Underlying().(*types.Slice); isSlice {
						if o := identObj(info, rs.X); o != nil {
							// a parameter of string slice type (the target paths)
							if sl, ok := o.Type().Underlying().(*types.Slice); ok && sl.Elem().String() == "string" {
								inSliceRange = true
							}
						}
					} else {
						okAll = false
					}
				}
			}
			if !inSliceRange {
				okAll = false
			}
			return true
		})
		c.Ob("RESORT", "checkAndSortFiles/order-source", cs.Decl.Pos(), okAll && n > 0, true, "the result is appended to only inside a range over the path slice (never a map): %v", okAll && n > 0)
	} else {
		c.Fail("RESORT", "checkAndSortFiles", token.NoPos, "not found")
	}

	// (3) import flag — decided on SSA and by data flow, not by the names of the bookkeeping variables: the function
	// that builds image files passes NewImageFile an isImport value that is the negated comma-ok of a lookup of the
	// path in one of its own map parameters; its outermost caller passes for that parameter a local set whose only
	// insertions are keyed by Path() of the elements of a parameter (the sorted target files)
	c01ImportFlag(c)

	// (4) newImage: both indexes are check-then-insert (decided on SSA, whatever the shape of the if/else)
	if ni := p.Func("private/bufpkg/bufimage", "newImage"); ni != nil {
		res := ssaCheckThenInsert(p.SSAFunc(ni.Obj))
		nPath, nCommit := 0, 0
		for _, r := range res {
			mt, _ := r.Map.Type().Underlying().(*types.Map)
			if mt == nil {
				if pt, ok := r.Map.Type().Underlying().(*types.Pointer); ok {
					mt, _ = pt.Elem().Underlying().(*types.Map)
				}
			}
			if mt == nil || r.Stores == 0 {
				continue
			}
			ok := r.ErrOnFound && r.StoreOnAbsent && !r.StoreOnFound
			if namedName(mt.Elem()) == "ImageFile" {
				nPath++
				c.Ob("DUP-VALIDATION", "newImage/duplicate-path", ni.Decl.Pos(), ok, true, "path index: a path already present returns an error (%v); it is inserted only when absent (%v) and never overwritten (%v)", r.ErrOnFound, r.StoreOnAbsent, !r.StoreOnFound)
			} else if _, isStruct := mt.Elem().Underlying().(*types.Struct); isStruct {
				nCommit++
				c.Ob("DUP-VALIDATION", "newImage/one-commit-per-module", ni.Decl.Pos(), ok, true, "module index: a module already seen can return an error (different commit) (%v); a new name is recorded only when absent (%v) and never overwritten (%v)", r.ErrOnFound, r.StoreOnAbsent, !r.StoreOnFound)
			}
		}
		if nPath != 1 || nCommit != 1 {
			c.Fail("DUP-VALIDATION", "newImage/indexes", ni.Decl.Pos(), "expected one path index and one module index with comma-ok lookups, found %d and %d", nPath, nCommit)
		}
	} else {
		c.Fail("DUP-VALIDATION", "newImage", token.NoPos, "not found")
	}

	// (5) WKT fallback
	c01WktFallback(c, "WKT-FALLBACK")

	// (6) lockset
	ruleLockset(c, "LOCKSET", pk, "parserAccessorHandler", "lock")

	// (7) external path resolver
	if gb := p.Func("private/bufpkg/bufimage", "getBuildResult"); gb != nil {
		info := gb.Info()
		n, okAll := 0, true
		// every conversion of a compiler error in the package (getBuildResult or a helper it was split into)
		var bodies []ast.Node
		for _, fr := range p.FuncsOf(p.Pkg("private/bufpkg/bufimage")) {
			if fr.Decl.Body != nil {
				bodies = append(bodies, fr.Decl.Body)
			}
		}
		inspectAll := func(f func(ast.Node) bool) {
			for _, b := range bodies {
				ast.Inspect(b, f)
			}
		}
		inspectAll(func(x ast.Node) bool {
			call, ok := x.(*ast.CallExpr)
			if !ok {
				return true
			}
			fn := Callee(info, call)
			if fn == nil || fn.Pkg() == nil || !strings.HasPrefix(fn.Name(), "FileAnnotation") || !strings.HasSuffix(fn.Pkg().Path(), "bufprotocompile") {
				return true
			}
			n++
			has := false
			for _, a := range call.Args {
				if c2, ok := a.(*ast.CallExpr); ok {
					if f2 := Callee(info, c2); f2 != nil && f2.Name() == "WithExternalPathResolver" && len(c2.Args) == 1 && strings.HasSuffix(exprString(c2.Args[0]), ".ExternalPath") {
						has = true
					}
				}
			}
			if !has {
				okAll = false
			}
			return true
		})
		c.Ob("DIAG-PATH", "getBuildResult/external-path-resolver", gb.Decl.Pos(), okAll && n >= 2, true, "%d compiler-error conversions, each with WithExternalPathResolver(parserAccessorHandler.ExternalPath): %v", n, okAll)
		// failed results carry a non-nil error
		okNil := true
		inspectAll(func(x ast.Node) bool {
			call, ok := x.(*ast.CallExpr)
			if !ok {
				return true
			}
			if fn := Callee(info, call); fn != nil && fn.Name() == "newFailedBuildResult" && len(call.Args) == 1 && isNilIdent(info, call.Args[0]) {
				okNil = false
			}
			return true
		})
		c.Ob("DIAG-PATH", "getBuildResult/failed-result-has-error", gb.Decl.Pos(), okNil, true, "newFailedBuildResult is never given a nil error: %v", okNil)
	} else {
		c.Fail("DIAG-PATH", "getBuildResult", token.NoPos, "not found")
	}

	c01TargetTable(c)
	c01Extra(c)
}

func identObjName(info *types.Info, e ast.Expr) string {
	if o := identObj(info, e); o != nil {
		return o.Name()
	}
	return ""
}

// rulePostorder: for every self-recursive function with a "seen" map parameter in the package.
func rulePostorder(c *Ctx, rule string, pk *packages.Package) {
	p := c.P
	info := pk.TypesInfo
	for _, fr := range p.FuncsOf(pk) {
		if fr.Obj == nil {
			continue
		}
		var selfCalls []*ast.CallExpr
		ast.Inspect(fr.Decl.Body, func(n ast.Node) bool {
			if call, ok := n.(*ast.CallExpr); ok && Callee(info, call) == fr.Obj {
				selfCalls = append(selfCalls, call)
			}
			return true
		})
		if len(selfCalls) == 0 {
			continue
		}
		// a set-typed parameter (map[string]struct{} / map[string]bool) used as a seen set: tested and stored in the body
		var seen types.Object
		var test, mark ast.Node
		for _, fld := range fr.Decl.Type.Params.List {
			for _, nm := range fld.Names {
				obj := info.Defs[nm]
				if obj == nil {
					continue
				}
				if _, isMap := obj.Type().Underlying().(*types.Map); !isMap {
					continue
				}
				var t, m ast.Node
				ast.Inspect(fr.Decl.Body, func(n ast.Node) bool {
					switch x := n.(type) {
					case *ast.IfStmt:
						if as, ok := x.Init.(*ast.AssignStmt); ok && len(as.Rhs) == 1 {
							if ix, ok := as.Rhs[0].(*ast.IndexExpr); ok && identObj(info, ix.X) == obj {
								// the found edge returns
								for _, st := range x.Body.List {
									if _, ok := st.(*ast.ReturnStmt); ok && t == nil {
										t = x.Cond
									}
								}
							}
						}
					case *ast.AssignStmt:
						if len(x.Lhs) == 1 {
							if ix, ok := x.Lhs[0].(*ast.IndexExpr); ok && identObj(info, ix.X) == obj && m == nil {
								m = x
							}
						}
					}
					return true
				})
				if t != nil && m != nil {
					seen, test, mark = obj, t, m
				}
			}
		}
		if seen == nil {
			continue // not a seen-set DFS (other recursions are not subjects)
		}
		c.FuncsAnalysed++
		g := p.CFGOf(fr.Decl.Body, info)
		inst := fr.ID()
		// (a) test and mark dominate every recursion
		okMark := true
		for _, sc := range selfCalls {
			if !g.Dominates(test, sc) || !g.Dominates(mark, sc) {
				okMark = false
			}
		}
		c.Ob(rule, inst+"/mark-before-recursion", fr.Decl.Pos(), okMark, true, "the seen test (returning when found) and the seen mark dominate all %d recursive calls: %v", len(selfCalls), okMark)
		// (b) emission of the current element: an append whose appended value is not the recursion's result,
		// lying after the recursion with no recursion reachable afterwards
		var emits []ast.Node
		ast.Inspect(fr.Decl.Body, func(n ast.Node) bool {
			call, ok := n.(*ast.CallExpr)
			if !ok {
				return true
			}
			if id, ok := call.Fun.(*ast.Ident); ok && id.Name == "append" {
				if _, isB := info.Uses[id].(*types.Builtin); isB && len(call.Args) >= 2 {
					// skip appends of index bookkeeping (int32 lists)
					if sl, ok := info.TypeOf(call.Args[0]).Underlying().(*types.Slice); ok {
						if b, ok := sl.Elem().Underlying().(*types.Basic); ok && b.Info()&types.IsNumeric != 0 {
							return true
						}
					}
					emits = append(emits, call)
				}
			}
			return true
		})
		if len(emits) == 0 {
			c.Ob(rule, inst+"/post-order", fr.Decl.Pos(), true, false, "no emission inside the recursion (the walk only marks)")
			continue
		}
		okPost := true
		desc := ""
		for _, e := range emits {
			for _, sc := range selfCalls {
				if g.Reachable(e, sc) {
					okPost = false
					desc = "a recursive call is reachable after the file was emitted (a file could precede its own imports)"
				}
			}
			reached := false
			for _, sc := range selfCalls {
				if g.Reachable(sc, e) {
					reached = true
				}
			}
			if !reached {
				okPost = false
				desc = "the emission does not follow the recursion"
			}
			// not inside the loop that recurses
			for cur := p.Parent(e); cur != nil && cur != fr.Decl; cur = p.Parent(cur) {
				switch cur.(type) {
				case *ast.ForStmt, *ast.RangeStmt:
					for _, sc := range selfCalls {
						if containsNode(cur, sc) {
							okPost = false
							desc = "the emission is inside the loop over imports"
						}
					}
				}
			}
		}
		c.Ob(rule, inst+"/post-order", fr.Decl.Pos(), okPost, true, "the current file is emitted after the loop over its imports and nothing recurses afterwards: %v %s", okPost, desc)
	}
}

// ruleLockset: every access to a map field of the struct type inside its methods holds the named lock field.
func ruleLockset(c *Ctx, rule string, pk *packages.Package, typeName, lockField string) {
	p := c.P
	info := pk.TypesInfo
	n := 0
	for _, fr := range p.FuncsOf(pk) {
		if recvTypeName(fr.Decl) != typeName {
			continue
		}
		if fr.Decl.Recv == nil || len(fr.Decl.Recv.List[0].Names) == 0 {
			continue
		}
		recv := info.Defs[fr.Decl.Recv.List[0].Names[0]]
		g := p.CFGOf(fr.Decl.Body, info)
		var rlocks, wlocks, unlocks []ast.Node
		ast.Inspect(fr.Decl.Body, func(x ast.Node) bool {
			call, ok := x.(*ast.CallExpr)
			if !ok {
				return true
			}
			sel, ok := call.Fun.(*ast.SelectorExpr)
			if !ok {
				return true
			}
			inner, ok := sel.X.(*ast.SelectorExpr)
			if !ok || inner.Sel.Name != lockField || identObj(info, inner.X) != recv {
				return true
			}
			deferred := false
			if _, isDefer := p.Parent(call).(*ast.DeferStmt); isDefer {
				deferred = true
			}
			switch sel.Sel.Name {
			case "RLock":
				rlocks = append(rlocks, call)
			case "Lock":
				wlocks = append(wlocks, call)
			case "RUnlock", "Unlock":
				if !deferred {
					unlocks = append(unlocks, call)
				}
			}
			return true
		})
		ast.Inspect(fr.Decl.Body, func(x ast.Node) bool {
			se, ok := x.(*ast.SelectorExpr)
			if !ok || identObj(info, se.X) != recv {
				return true
			}
			v, ok := info.Uses[se.Sel].(*types.Var)
			if !ok || !v.IsField() {
				return true
			}
			if _, isMap := v.Type().Underlying().(*types.Map); !isMap {
				return true
			}
			n++
			write := false
			switch par := p.Parent(se).(type) {
			case *ast.IndexExpr:
				if as, ok := p.Parent(par).(*ast.AssignStmt); ok {
					for _, l := range as.Lhs {
						if l == ast.Expr(par) {
							write = true
						}
					}
				}
			case *ast.CallExpr:
				if id, ok := par.Fun.(*ast.Ident); ok && id.Name == "delete" {
					write = true
				}
			case *ast.AssignStmt:
				for _, l := range par.Lhs {
					if l == ast.Expr(se) {
						write = true
					}
				}
			}
			need := append([]ast.Node{}, wlocks...)
			if !write {
				need = append(need, rlocks...)
			}
			held := false
			for _, l := range need {
				if !g.Dominates(l, se) {
					continue
				}
				released := false
				for _, u := range unlocks {
					if g.Dominates(l, u) && g.Dominates(u, se) {
						released = true
					}
				}
				if !released {
					held = true
				}
			}
			kind := "read"
			if write {
				kind = "write"
			}
			c.Ob(rule, fr.ID()+"/"+v.Name()+"/"+kind, se.Pos(), held, true, "%s of %s.%s holds %s: %v", kind, typeName, v.Name(), map[bool]string{true: "the exclusive lock", false: "the shared or exclusive lock"}[write], held)
			return true
		})
	}
	if n == 0 {
		c.Fail(rule, typeName, token.NoPos, "no map-field access found in methods of %s", typeName)
	}
}

// c01TargetTable evaluates the tagless switch of getIsTargetFileForPathUncached.
func c01TargetTable(c *Ctx) {
	p := c.P
	const rule = "TARGET-TABLE"
	fr := p.Func("private/bufpkg/bufmodule", "moduleReadBucket.getIsTargetFileForPathUncached")
	if fr == nil {
		c.Fail(rule, "anchor", token.NoPos, "getIsTargetFileForPathUncached not found")
		return
	}
	// early return false under !module.IsTarget() as first statement
	first := false
	if len(fr.Decl.Body.List) > 0 {
		if ifs, ok := fr.Decl.Body.List[0].(*ast.IfStmt); ok && strings.HasPrefix(exprString(ifs.Cond), "!") && strings.HasSuffix(exprString(ifs.Cond), "IsTarget()") {
			for _, st := range ifs.Body.List {
				if r, ok := st.(*ast.ReturnStmt); ok && len(r.Results) == 2 && exprString(r.Results[0]) == "false" {
					first = true
				}
			}
		}
	}
	c.Ob(rule, "getIsTargetFileForPathUncached/non-target-module-first", fr.Decl.Pos(), first, true, "files of non-target modules are never targets: the !IsTarget() test is the first statement and returns false: %v", first)
	// the decision over the path/exclude-path maps, wherever it lives (in this function or in a helper of the
	// package it calls), in whatever control-flow shape: located as the statement list that holds the
	// MapHasEqualOrContainingPath calls, evaluated from its first statement that consults the maps
	var stmts []ast.Stmt
	var dinfo *types.Info
	var dpos token.Pos
	isMapPred := func(info *types.Info, n ast.Node) bool {
		hit := false
		ast.Inspect(n, func(m ast.Node) bool {
			if call, ok := m.(*ast.CallExpr); ok {
				if fn := Callee(info, call); fn != nil && fn.Name() == "MapHasEqualOrContainingPath" {
					hit = true
				}
			}
			return true
		})
		return hit
	}
	deepInspect(p, fr, 2, func(n ast.Node, info *types.Info) bool {
		var list []ast.Stmt
		switch b := n.(type) {
		case *ast.BlockStmt:
			list = b.List
		default:
			return true
		}
		// the list must contain the predicates, and no single element of it may contain all of them unless it is
		// the decision statement itself (a switch/if): choose the outermost list whose statements hold them
		cnt := 0
		for _, st := range list {
			if isMapPred(info, st) {
				cnt++
			}
		}
		if cnt == 0 || stmts != nil {
			return true
		}
		if cnt == 1 {
			// the only statement that consults the maps is an `if <mode test> { … }` whose condition is not about the maps
			// (`if b.protoFileTargetPath == "" { <the decision> }`): the decision is the body, found when the walk gets there
			for _, st := range list {
				if ifs, ok := st.(*ast.IfStmt); ok && isMapPred(info, st) && ifs.Else == nil && !isMapPred(info, ifs.Cond) &&
					!strings.Contains(strings.ToLower(nodeStringAny(p, ifs.Cond)), "pathmap") && (ifs.Init == nil || !strings.Contains(strings.ToLower(nodeStringAny(p, ifs.Init)), "pathmap")) {
					return true
				}
			}
		}
		// skip leading statements that do not consult the maps at all
		first := -1
		for i, st := range list {
			if first < 0 && (isMapPred(info, st) || strings.Contains(strings.ToLower(nodeStringAny(p, st)), "pathmap")) {
				first = i
			}
		}
		if first < 0 {
			return true
		}
		// the enclosing statements before `first` must not be part of the decision (they return on their own)
		stmts, dinfo, dpos = list[first:], info, list[first].Pos()
		return true
	})
	if stmts == nil {
		c.Fail(rule, "getIsTargetFileForPathUncached/decision", fr.Decl.Pos(), "no statement list using MapHasEqualOrContainingPath found in the function or its helpers: cannot extract the truth table")
		return
	}
	type env struct{ tEmpty, eEmpty, inT, inE bool }
	isExclude := func(e ast.Expr) (bool, bool) {
		s := strings.ToLower(exprString(e))
		if !strings.Contains(s, "pathmap") {
			return false, false
		}
		return strings.Contains(s, "exclude"), true
	}
	bad := ""
	n := 0
	for i := 0; i < 16 && bad == ""; i++ {
		v := env{i&1 != 0, i&2 != 0, i&4 != 0, i&8 != 0}
		if (v.tEmpty && v.inT) || (v.eEmpty && v.inE) {
			continue
		}
		n++
		atom := func(e ast.Expr) (tri, bool) {
			switch x := ast.Unparen(e).(type) {
			case *ast.BinaryExpr:
				if call, ok := ast.Unparen(x.X).(*ast.CallExpr); ok && len(call.Args) == 1 && constIntIs(dinfo, x.Y, 0) {
					if id, ok := call.Fun.(*ast.Ident); ok && id.Name == "len" {
						if ex, known := isExclude(call.Args[0]); known {
							empty := v.tEmpty
							if ex {
								empty = v.eEmpty
							}
							switch x.Op {
							case token.EQL:
								return triOf(empty), true
							case token.NEQ, token.GTR:
								return triOf(!empty), true
							}
						}
					}
				}
			case *ast.CallExpr:
				if fn := Callee(dinfo, x); fn != nil && fn.Name() == "MapHasEqualOrContainingPath" && len(x.Args) == 3 {
					if ex, known := isExclude(x.Args[0]); known {
						if ex {
							return triOf(v.inE && !v.eEmpty), true
						}
						return triOf(v.inT && !v.tEmpty), true
					}
				}
			}
			return triUnknown, false
		}
		e := &bfEnv{info: dinfo, atom: atom, lookup: func(ast.Expr) (tri, bool) { return triUnknown, false }, store: func(ast.Expr) (string, bool) { return "", false }, locals: map[types.Object]tri{}}
		var out bfOutcome
		e.run(stmts, &out)
		if out.Undecided != "" || !out.Returned {
			bad = fmt.Sprintf("undecided for %+v: %s", v, out.Undecided)
			break
		}
		want := (v.tEmpty || v.inT) && !(!v.eEmpty && v.inE)
		if (out.Value == triTrue) != want {
			bad = fmt.Sprintf("for targetsEmpty=%v excludesEmpty=%v inTargets=%v inExcludes=%v the code yields %v, the documented decision is %v", v.tEmpty, v.eEmpty, v.inT, v.inE, out.Value == triTrue, want)
		}
	}
	c.Ob(rule, "getIsTargetFileForPathUncached/truth-table", dpos, bad == "", true, "truth table over the %d consistent assignments of (targets empty, excludes empty, in targets, in excludes) equals (Tempty ∨ inT) ∧ ¬(¬Eempty ∧ inE) %s", n, bad)
}

func nodeStringAny(p *Prog, n ast.Node) string {
	var sb strings.Builder
	ast.Inspect(n, func(m ast.Node) bool {
		if id, ok := m.(*ast.Ident); ok {
			sb.WriteString(id.Name)
			sb.WriteString(" ")
		}
		return true
	})
	return sb.String()
}

func c01ImportFlag(c *Ctx) {
	p := c.P
	pk := p.Pkg("private/bufpkg/bufimage")
	var rec *ssa.Function
	recIdx := -1
	type directSite struct {
		caller *ssa.Function
		set    ssa.Value
	}
	var directSites []directSite
	desc := "no function of bufimage passes NewImageFile an isImport derived from a set parameter"
	for _, sf := range p.SSAFuncsOf([]*packages.Package{pk}) {
		for _, f := range allSSAFuncs(sf) {
			for _, call := range callsIn(f) {
				fn := staticCalleeObj(call.Call)
				if fn == nil || fn.Name() != "NewImageFile" || fn.Pkg() != pk.Types {
					continue
				}
				for _, a := range call.Call.Args {
					if b, isB := a.Type().Underlying().(*types.Basic); !isB || b.Kind() != types.Bool {
						continue
					}
					cond, pos := condPolarity(a)
					ex, isEx := cond.(*ssa.Extract)
					if !isEx || ex.Index != 1 || pos {
						continue
					}
					lk, isLk := ex.Tuple.(*ssa.Lookup)
					if !isLk {
						continue
					}
					if prm, isP := lk.X.(*ssa.Parameter); isP {
						for i, q := range f.Params {
							if q == prm {
								rec, recIdx = f, i
								desc = "isImport = !ok of a lookup of the path in parameter #" + fmt.Sprint(i) + " of " + f.Name()
							}
						}
					}
					// the set is a member of the walker's receiver: it is what the constructor of that struct was handed
					if u, isLoad := lk.X.(*ssa.UnOp); isLoad && u.Op == token.MUL {
						if fa, isFA := u.X.(*ssa.FieldAddr); isFA {
							if _, isP := stripConv(fa.X).(*ssa.Parameter); isP {
								for _, g0 := range p.SSAFuncsOf([]*packages.Package{pk}) {
									for _, g := range allSSAFuncs(g0) {
										for _, b := range g.Blocks {
											for _, ins := range b.Instrs {
												st, isSt := ins.(*ssa.Store)
												if !isSt {
													continue
												}
												fa2, isFA2 := st.Addr.(*ssa.FieldAddr)
												if !isFA2 || fa2.Field != fa.Field || !types.Identical(derefType(fa2.X.Type()), derefType(fa.X.Type())) {
													continue
												}
												if q, isQ := stripConv(st.Val).(*ssa.Parameter); isQ {
													for i, qq := range g.Params {
														if qq == q {
															rec, recIdx = g, i
															desc = "isImport = !ok of a lookup of the path in a member of the receiver of " + f.Name() + ", set from parameter #" + fmt.Sprint(i) + " of " + g.Name()
														}
													}
												} else if rec == nil {
													// the struct is built where the set is built: that function is the "caller"
													rec, recIdx = f, -1
													directSites = append(directSites, directSite{g, st.Val})
													desc = "isImport = !ok of a lookup of the path in a member of the receiver of " + f.Name() + ", set in " + g.Name()
												}
											}
										}
									}
								}
							}
						}
					}
					break
				}
			}
		}
	}
	c.Ob("IMPORT-FLAG", "image-file-builder/isImport", token.NoPos, rec != nil, true, "%s", desc)
	if rec == nil {
		return
	}
	// the non-recursive callers
	okW, n := true, 0
	why := ""
	sites := directSites
	if recIdx >= 0 {
		sites = nil
		for _, cs := range p.callersIndex()[rec] {
			caller := cs.Instr.Parent()
			if caller == rec || recIdx >= len(cs.Call.Args) {
				continue
			}
			sites = append(sites, directSite{caller, cs.Call.Args[recIdx]})
		}
	}
	for _, site := range sites {
		caller, rawSet := site.caller, site.set
		set := rawSet
		if u, ok := set.(*ssa.UnOp); ok && u.Op == token.MUL {
			set = u.X
		}
		for _, b := range caller.Blocks {
			for _, ins := range b.Instrs {
				mu, ok := ins.(*ssa.MapUpdate)
				if !ok {
					continue
				}
				m := mu.Map
				if u, ok := m.(*ssa.UnOp); ok && u.Op == token.MUL {
					m = u.X
				}
				if m != set && mu.Map != rawSet {
					continue
				}
				n++
				// key = x.Path() with x an element of a parameter of the caller
				kc, isCall := mu.Key.(*ssa.Call)
				if !isCall || !(kc.Call.IsInvoke() && kc.Call.Method.Name() == "Path" || staticCalleeObj(&kc.Call) != nil && staticCalleeObj(&kc.Call).Name() == "Path") {
					okW = false
					why = "a key that is not a Path() call"
					continue
				}
				fromParam := false
				var recv ssa.Value = kc.Call.Value
				if !kc.Call.IsInvoke() && len(kc.Call.Args) > 0 {
					recv = kc.Call.Args[0]
				}
				sliceBack(recv, func(x ssa.Value) bool {
					if _, isP := x.(*ssa.Parameter); isP {
						fromParam = true
					}
					return true
				})
				if !fromParam {
					okW = false
					why = "a key not derived from an element of a parameter"
				}
			}
		}
	}
	c.Ob("IMPORT-FLAG", "image-file-builder/non-import-set", token.NoPos, okW && n >= 1, true, "the set handed to the builder is filled (%d insertion(s)) only with Path() of elements of the caller's parameter (the sorted target files): %v %s", n, okW, why)
}

// c01WktFallback (WKT-FALLBACK; C01, and C10 because swallowing a duplicate-provider error here hides an ambiguity):
// the parser's file accessor consults the built-in well-known types only after the module set failed to provide the
// path, and only for a not-exist failure.
func c01WktFallback(c *Ctx, rule string) {
	c.Rule(rule, "built-in well-known types are used only when the workspace does not supply the file", 2)
	p := c.P
	if op := p.Func("private/bufpkg/bufimage", "parserAccessorHandler.Open"); op != nil {
		info := op.Info()
		g := p.CFGOf(op.Decl.Body, info)
		var getFile, wktGet, notExistTest ast.Node
		var notExistIf *ast.IfStmt
		ast.Inspect(op.Decl.Body, func(x ast.Node) bool {
			switch y := x.(type) {
			case *ast.CallExpr:
				if sel, ok := y.Fun.(*ast.SelectorExpr); ok {
					if sel.Sel.Name == "GetFile" {
						getFile = y
					}
					if sel.Sel.Name == "Get" && strings.Contains(exprString(sel.X), "datawkt") {
						wktGet = y
					}
				}
			case *ast.IfStmt:
				s := exprString(y.Cond)
				if strings.Contains(s, "errors.Is") && strings.Contains(s, "ErrNotExist") && strings.HasPrefix(s, "!") {
					notExistIf = y
					notExistTest = y.Cond
				}
			}
			return true
		})
		_ = notExistIf
		_ = notExistTest
		_ = wktGet
		_ = getFile
		// decided on SSA, looking through a helper the fallback may have been moved into: the instruction of Open that
		// touches datawkt (directly, or by calling a package function that does) lies on the failing edge of the
		// workspace lookup's error test and on the edge where errors.Is(err, fs.ErrNotExist) holds
		ok := false
		if sop := p.SSAFunc(op.Obj); sop != nil {
			touchesWKT := func(f *ssa.Function) bool {
				for _, g := range reachSSA(f, 1) {
					for _, b := range g.Blocks {
						for _, ins := range b.Instrs {
							for _, opnd := range ins.Operands(nil) {
								if opnd == nil || *opnd == nil {
									continue
								}
								if gl, isG := (*opnd).(*ssa.Global); isG && gl.Pkg != nil && strings.HasSuffix(gl.Pkg.Pkg.Path(), "gen/data/datawkt") {
									return true
								}
							}
						}
					}
				}
				return false
			}
			var sites []ssa.Instruction
			for _, b := range sop.Blocks {
				for _, ins := range b.Instrs {
					for _, opnd := range ins.Operands(nil) {
						if opnd != nil && *opnd != nil {
							if gl, isG := (*opnd).(*ssa.Global); isG && gl.Pkg != nil && strings.HasSuffix(gl.Pkg.Pkg.Path(), "gen/data/datawkt") {
								sites = append(sites, ins)
							}
						}
					}
					if cl, isCall := ins.(*ssa.Call); isCall {
						if callee := cl.Call.StaticCallee(); callee != nil && callee.Pkg == sop.Pkg && touchesWKT(callee) {
							sites = append(sites, ins)
						}
					}
				}
			}
			ok = len(sites) > 0
			for _, site := range sites {
				onErr, pastGate := false, false
				for _, ge := range guardingEdges(site.Block()) {
					cv, pos := condPolarity(ge.If.Cond)
					holds := ge.Branch == pos
					if x, trueIsNonNil, isCmp := nilCompare(cv); isCmp && isErrorType(x.Type()) && holds == trueIsNonNil {
						if dependsOnCall(x, func(cc *ssa.CallCommon) bool { return cc.IsInvoke() && cc.Method.Name() == "GetFile" }) {
							onErr = true
						}
					}
					if cl, isCall := cv.(*ssa.Call); isCall && holds {
						if eo := staticCalleeObj(&cl.Call); eo != nil && eo.Pkg() != nil && eo.Pkg().Path() == "errors" && eo.Name() == "Is" && len(cl.Call.Args) == 2 {
							if gl, isLoad := stripConv(cl.Call.Args[1]).(*ssa.UnOp); isLoad {
								if g2, isG := gl.X.(*ssa.Global); isG && g2.Name() == "ErrNotExist" {
									pastGate = true
								}
							}
						}
					}
				}
				if !onErr || !pastGate {
					ok = false
				}
			}
		}
		c.Ob(rule, "parserAccessorHandler.Open/order", op.Decl.Pos(), ok, true, "datawkt is consulted only after GetFile failed, and only past the errors.Is(err, fs.ErrNotExist) gate: %v", ok)
		// the workspace file is returned when found: a success return of moduleFile exists after the error block
		okRet := false
		for _, r := range g.Returns() {
			if len(r.Results) == 2 && isNilIdent(info, r.Results[1]) && strings.Contains(strings.ToLower(exprString(r.Results[0])), "modulefile") && !strings.Contains(strings.ToLower(exprString(r.Results[0])), "wkt") {
				okRet = true
			}
		}
		c.Ob(rule, "parserAccessorHandler.Open/workspace-wins", op.Decl.Pos(), okRet, false, "the workspace's own file is returned on the success path: %v", okRet)
	} else {
		c.Fail(rule, "parserAccessorHandler.Open", token.NoPos, "not found")
	}

}
