package main

import (
	"go/token"

	"golang.org/x/tools/go/packages"
	"golang.org/x/tools/go/ssa"
)

// errUnseenOnSuccess lists error values (results of calls) that the function does hand on along some path (returned,
// joined, wrapped) but never compares with nil, while a `return …, nil` is reachable after the call: on that path
// success is reported without anybody having looked at the error. The textbook instance is
//
//	_, err = w.Write(data)
//	if closeErr := w.Close(); err != nil { return errors.Join(err, closeErr) }
//	return nil
//
// where the condition tests the wrong variable: a failing Close - which for an atomic put is the rename - is dropped
// whenever the write itself succeeded.
func errUnseenOnSuccess(f *ssa.Function) []ssa.Instruction {
	res := f.Signature.Results()
	if res.Len() == 0 || !isErrorType(res.At(res.Len()-1).Type()) {
		return nil
	}
	var out []ssa.Instruction
	for _, b := range f.Blocks {
		for _, ins := range b.Instrs {
			var v ssa.Value
			switch t := ins.(type) {
			case *ssa.Call:
				v = t
			case *ssa.Extract:
				if _, isCall := t.Tuple.(*ssa.Call); isCall {
					v = t
				}
			}
			if v == nil || !isErrorType(v.Type()) || v.Referrers() == nil {
				continue
			}
			tested, used := false, false
			for _, r := range *v.Referrers() {
				switch t := r.(type) {
				case *ssa.DebugRef:
				case *ssa.BinOp:
					tested = true // compared with nil or with a sentinel
				case *ssa.Store:
					// packed into the argument list of a variadic call (errors.Join(err, closeErr)): handed on, not looked at
					if ia, ok := t.Addr.(*ssa.IndexAddr); ok {
						if al, ok := ia.X.(*ssa.Alloc); ok && al.Comment == "varargs" {
							break
						}
					}
					tested = true // carried in a variable: other rules (R-ERRLOOP, R-DEFER) look at those; undecided here
				case *ssa.Phi:
					tested = true
				case *ssa.Call:
					if o := staticCalleeObj(&t.Call); o != nil && o.Pkg() != nil && o.Pkg().Path() == "errors" && o.Name() != "Join" {
						tested = true // errors.Is / As / Unwrap: the error is being looked at
					}
				}
			}
			if tested {
				continue
			}
			// folded into another error that is then compared with nil (err = errors.Join(err, f.Close()); if err != nil)
			for _, bb := range f.Blocks {
				for _, in := range bb.Instrs {
					if bo, ok := in.(*ssa.BinOp); ok && (bo.Op == token.NEQ || bo.Op == token.EQL) && (isNilConst(bo.X) || isNilConst(bo.Y)) {
						x := bo.X
						if isNilConst(x) {
							x = bo.Y
						}
						if isErrorType(x.Type()) && dependsOnValue(x, v) {
							tested = true
						}
					}
				}
			}
			if tested {
				continue
			}
			// handed on: some return's error depends on it
			for _, r := range returnsOf(f) {
				if len(r.Results) > 0 && dependsOnValue(spilledResult(r, r.Results[len(r.Results)-1]), v) {
					used = true
				}
			}
			if !used {
				continue
			}
			for _, r := range returnsOf(f) {
				if len(r.Results) == 0 || r.Block() == f.Recover {
					continue
				}
				if !isNilConst(spilledResult(r, r.Results[len(r.Results)-1])) {
					continue
				}
				if r.Block() == b || blockReaches(b, r.Block()) {
					if r.Block() == b {
						// the return must come after the call
						after := false
						for _, x := range b.Instrs {
							if x == ins {
								after = true
							}
						}
						if !after {
							continue
						}
					}
					out = append(out, ins)
					break
				}
			}
		}
	}
	return out
}

// ruleErrAllPaths (R-ERRSEEN; C15, after round-4 seed C15-l): zero instances are expected.
func ruleErrAllPaths(c *Ctx, rule string, pkgs []*packages.Package) {
	c.Rule(rule, "an error that is handed on along one path is looked at before success is returned along another", 0)
	p := c.P
	n, fns := 0, 0
	for _, sf := range p.SSAFuncsOf(pkgs) {
		for _, f := range allSSAFuncs(sf) {
			fns++
			for _, ins := range errUnseenOnSuccess(f) {
				n++
				c.Ob(rule, ssaFuncName(f)+"/unseen-error", ins.Pos(), false, true, "this error is joined or returned on one path but never compared with nil, and a nil error is returned on another path after the call: a failure here is reported as success")
			}
		}
	}
	c.Ob(rule, "functions-scanned", token.NoPos, n == 0, fns > 0, "%d functions scanned, %d errors unseen on a success path", fns, n)
}
