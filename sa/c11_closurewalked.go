package main

import (
	"fmt"
	"go/token"
	"go/types"

	"golang.org/x/tools/go/packages"
	"golang.org/x/tools/go/ssa"
)

// c11ClosureAlwaysWalked (CLOSURE-ALWAYS-WALKED; C01, C11 and C17, after round-6 seeds C11-q and C17-p - two authors,
// the same "everything was selected" fast path): the functions of bufimage that build an image by walking the import
// graph recursively (imports first, then the file: the walk is what puts files in dependency order and what decides
// is_import for each) return nothing that did not come out of that walk. A success return that hands back the input
// image, or a list assembled without the walk, keeps stale import flags (a former import that is now targeted) or the
// caller's file order (alphabetical by directory instead of dependencies first).
func c11ClosureAlwaysWalked(c *Ctx) {
	const rule = "CLOSURE-ALWAYS-WALKED"
	c.Rule(rule, "an image assembled by the recursive import walk is returned only from that walk, whatever was selected", 2)
	p := c.P
	pk := p.Pkg("private/bufpkg/bufimage")
	if pk == nil {
		c.Fail(rule, "anchor", token.NoPos, "bufimage not found")
		return
	}
	funcs := p.SSAFuncsOf([]*packages.Package{pk})
	recursive := map[*ssa.Function]bool{}
	for _, f := range funcs {
		for _, call := range callsIn(f) {
			if call.Call.StaticCallee() == f {
				recursive[f] = true
			}
		}
	}
	n := 0
	for _, f := range funcs {
		if recursive[f] {
			continue
		}
		var walks []*ssa.Function
		for _, call := range callsIn(f) {
			if sc := call.Call.StaticCallee(); sc != nil && recursive[sc] && sc.Signature.Results().Len() > 0 {
				// a walk that assembles a list (recursive predicates such as "does a publicly import b" are not walks)
				if _, isSlice := sc.Signature.Results().At(0).Type().Underlying().(*types.Slice); isSlice {
					walks = append(walks, sc)
				}
			}
		}
		if len(walks) == 0 {
			continue
		}
		k := 0
		for _, r := range returnsOf(f) {
			if len(r.Results) == 0 {
				continue
			}
			if isNilConst(stripConv(r.Results[0])) {
				continue // an error return
			}
			n++
			k++
			fromWalk := dependsOnCall(r.Results[0], func(cc *ssa.CallCommon) bool { sc := cc.StaticCallee(); return sc != nil && recursive[sc] })
			c.Ob(rule, fmt.Sprintf("%s/return#%d", ssaFuncName(f), k), r.Pos(), fromWalk, true, "what %s returns comes out of the recursive walk %s: %v", f.Name(), walks[0].Name(), fromWalk)
		}
	}
	if n == 0 {
		c.Fail(rule, "anchor", token.NoPos, "no caller of a recursive import walk found in bufimage")
	}
}
