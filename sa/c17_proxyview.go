package main

import (
	"go/token"
	"strings"

	"golang.org/x/tools/go/packages"
	"golang.org/x/tools/go/ssa"
)

// c17ProxySourceView (RETENTION-VIEWS, protoc proxy; C17, after round-5 seed C17-c): a protoc built-in plugin is run by
// handing protoc a descriptor set and letting protoc build the plugin's request, runtime view and source view alike.
// protoc can strip source-retention options itself but cannot put them back: the set it is given must be the source
// view. Wherever a plugin handler builds a FileDescriptorSet from a plugin request, the files come from the request's
// AllFileDescriptorProtos (source-retention options included), never from CodeGeneratorRequest().GetProtoFile(), which
// for the files to generate is the stripped runtime view.
func c17ProxySourceView(c *Ctx) {
	const rule = "RETENTION-VIEWS"
	p := c.P
	pk := p.Pkg("private/buf/bufprotopluginexec")
	if pk == nil {
		c.Fail(rule, "protoc-proxy", token.NoPos, "bufprotopluginexec not found")
		return
	}
	n := 0
	for _, sf := range p.SSAFuncsOf([]*packages.Package{pk}) {
		for _, f := range allSSAFuncs(sf) {
			for _, b := range f.Blocks {
				for _, ins := range b.Instrs {
					st, ok := ins.(*ssa.Store)
					if !ok {
						continue
					}
					fa, ok := st.Addr.(*ssa.FieldAddr)
					if !ok || !strings.HasSuffix(fieldName(fa.X.Type(), fa.Field), "descriptorpb.FileDescriptorSet.File") {
						continue
					}
					n++
					src, stripped := false, false
					sliceBack(st.Val, func(x ssa.Value) bool {
						if cl, ok := x.(*ssa.Call); ok {
							name := calleeText(&cl.Call)
							switch name {
							case "AllFileDescriptorProtos":
								src = true
							case "GetProtoFile":
								stripped = true
							}
						}
						return true
					})
					c.Ob(rule, ssaFuncName(f)+"/descriptor-set-source-view", st.Pos(), src && !stripped, true, "the descriptor set handed to protoc is the request's AllFileDescriptorProtos (%v) and not the stripped GetProtoFile view (%v)", src, stripped)
				}
			}
		}
	}
	if n == 0 {
		c.Fail(rule, "protoc-proxy", token.NoPos, "no FileDescriptorSet built in bufprotopluginexec")
	}
}
