package main

import (
	"fmt"
	"go/token"
	"go/types"

	"golang.org/x/tools/go/ssa"
)

// c11RootsApplied (ROOTS-APPLIED; C11, after round-5 seed C11-c): module-level and image-level path selection agree
// only if a --path/--exclude-path value is turned into the path the file has inside the module - for a v1beta1 module
// with roots, relative to the root that contains it (files of `roots: [proto]` are named without the `proto/`). That
// holds for one root as for several. In the function that builds a module's targeting, every path member of the
// result (string or []string, other than a parameter passed through) is, on every path to the return, either the zero
// value or the result of the roots mapping (directly, or mapped element-wise by a closure that calls it).
func c11RootsApplied(c *Ctx) {
	const rule = "ROOTS-APPLIED"
	c.Rule(rule, "every target path of a module's targeting went through the roots mapping, however many roots there are", 2)
	p := c.P
	apply := p.Func("private/buf/bufworkspace", "applyRootsToTargetPath")
	pk := p.Pkg("private/buf/bufworkspace")
	if apply == nil || apply.Obj == nil || pk == nil {
		c.Fail(rule, "anchor", token.NoPos, "bufworkspace.applyRootsToTargetPath not found")
		return
	}
	applyFn := p.SSAFunc(apply.Obj)
	callsApply := func(f *ssa.Function) bool {
		for _, cc := range callsDeep(f) {
			if cc.Call.StaticCallee() == applyFn {
				return true
			}
		}
		return false
	}
	// is v the result of the mapping?
	var mapped func(v ssa.Value, seen map[ssa.Value]bool) (ok bool, why string)
	mapped = func(v ssa.Value, seen map[ssa.Value]bool) (bool, string) {
		v = stripConv(v)
		if seen[v] {
			return true, ""
		}
		seen[v] = true
		switch x := v.(type) {
		case *ssa.Const:
			return true, "" // nil / ""
		case *ssa.Phi:
			for _, e := range x.Edges {
				if ok, why := mapped(e, seen); !ok {
					return false, why
				}
			}
			return true, ""
		case *ssa.Extract:
			return mapped(x.Tuple, seen)
		case *ssa.Call:
			if x.Call.StaticCallee() == applyFn {
				return true, ""
			}
			// a local closure or small helper of the package wrapping the mapping: every value it returns is mapped
			if sc := x.Call.StaticCallee(); sc != nil && len(sc.Blocks) > 0 && (sc.Pkg == applyFn.Pkg || (sc.Parent() != nil && sc.Parent().Pkg == applyFn.Pkg)) && callsApply(sc) {
				all := true
				for _, r := range returnsOf(sc) {
					if len(r.Results) == 0 {
						all = false
						continue
					}
					if ok, _ := mapped(r.Results[0], seen); !ok {
						all = false
					}
				}
				if all {
					return true, ""
				}
			}
			for _, a := range x.Call.Args {
				var cf *ssa.Function
				switch t := a.(type) {
				case *ssa.MakeClosure:
					cf, _ = t.Fn.(*ssa.Function)
				case *ssa.Function:
					cf = t
				}
				if cf != nil && callsApply(cf) {
					return true, ""
				}
			}
			if o := staticCalleeObj(&x.Call); o != nil {
				return false, "result of " + funcIDFull(o)
			}
			if bi, ok := x.Call.Value.(*ssa.Builtin); ok {
				return false, "result of " + bi.Name() + " (the paths as collected, not mapped)"
			}
			return false, "result of a dynamic call"
		case *ssa.UnOp:
			if al, ok := x.X.(*ssa.Alloc); ok && x.Op == token.MUL {
				for _, st := range storesInto(al) {
					if ok, why := mapped(st, seen); !ok {
						return false, why
					}
				}
				return true, ""
			}
		}
		return false, fmt.Sprintf("%s (%T)", v.Name(), v)
	}
	n := 0
	for _, fr := range p.FuncsOf(pk) {
		if fr.Obj == nil {
			continue
		}
		sf := p.SSAFunc(fr.Obj)
		if sf == nil || !callsApply(sf) || sf == applyFn {
			continue
		}
		for _, b := range sf.Blocks {
			for _, ins := range b.Instrs {
				st, ok := ins.(*ssa.Store)
				if !ok {
					continue
				}
				fa, ok := st.Addr.(*ssa.FieldAddr)
				if !ok {
					continue
				}
				if _, isParam := stripConv(st.Val).(*ssa.Parameter); isParam {
					continue
				}
				isPath := false
				switch t := st.Val.Type().Underlying().(type) {
				case *types.Basic:
					isPath = t.Kind() == types.String
				case *types.Slice:
					if bt, ok := t.Elem().Underlying().(*types.Basic); ok && bt.Kind() == types.String {
						isPath = true
					}
				}
				if !isPath {
					continue
				}
				n++
				ok2, why := mapped(st.Val, map[ssa.Value]bool{})
				c.Ob(rule, fr.ID()+"/"+fieldName(fa.X.Type(), fa.Field), st.Pos(), ok2, true, "on every path the value is zero or the result of applyRootsToTargetPath: %v %s", ok2, why)
			}
		}
	}
	if n == 0 {
		c.Fail(rule, "anchor", token.NoPos, "no path member built by a caller of applyRootsToTargetPath found")
	}
}
