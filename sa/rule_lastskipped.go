package main

import (
	"go/ast"
	"go/token"
	"go/types"

	"golang.org/x/tools/go/packages"
)

// lastElementSkipped lists index loops `for i := …; i < len(xs)-k; i++` (k a positive constant) whose body reads xs
// only at i itself. Such a bound is what a loop over adjacent pairs needs (it reads xs[i+1]); a loop that reads one
// element per iteration and stops k short of the end leaves the last k elements unlooked at - "the last line is the
// closing line anyway" is a statement about the data, not about the loop. Not listed: loops that read another index
// (i+1, len-1 …), and functions that read xs[len(xs)-1] or slice xs elsewhere (the tail is handled on its own).
func lastElementSkipped(pk *packages.Package) (sites int, bad []*ast.ForStmt) {
	info := pk.TypesInfo
	for _, f := range pk.Syntax {
		if isGenerated(f) {
			continue
		}
		var stack []ast.Node
		ast.Inspect(f, func(n ast.Node) bool {
			if n == nil {
				stack = stack[:len(stack)-1]
				return true
			}
			stack = append(stack, n)
			fs, ok := n.(*ast.ForStmt)
			if !ok || fs.Cond == nil {
				return true
			}
			be, ok := ast.Unparen(fs.Cond).(*ast.BinaryExpr)
			if !ok || (be.Op != token.LSS && be.Op != token.LEQ) {
				return true
			}
			iObj := identObj(info, be.X)
			if iObj == nil {
				return true
			}
			// len(xs) - k
			sub, ok := ast.Unparen(be.Y).(*ast.BinaryExpr)
			if !ok || sub.Op != token.SUB {
				return true
			}
			tv, ok := info.Types[sub.Y]
			if !ok || tv.Value == nil {
				return true
			}
			lenCall, ok := ast.Unparen(sub.X).(*ast.CallExpr)
			if !ok || len(lenCall.Args) != 1 {
				return true
			}
			if id, ok := lenCall.Fun.(*ast.Ident); !ok || id.Name != "len" {
				return true
			}
			xsObj := identObj(info, lenCall.Args[0])
			if xsObj == nil {
				return true
			}
			if _, isSlice := xsObj.Type().Underlying().(*types.Slice); !isSlice {
				return true
			}
			if be.Op == token.LEQ && tv.Value.ExactString() == "1" {
				return true // i <= len-1 is i < len
			}
			sites++
			// reads of xs in the body
			onlyAtI, reads := true, 0
			ast.Inspect(fs.Body, func(m ast.Node) bool {
				switch x := m.(type) {
				case *ast.IndexExpr:
					if identObj(info, x.X) == xsObj {
						reads++
						if identObj(info, x.Index) != iObj {
							onlyAtI = false
						}
					}
				case *ast.SliceExpr:
					if identObj(info, x.X) == xsObj {
						onlyAtI = false
					}
				}
				return true
			})
			if !onlyAtI || reads == 0 {
				return true
			}
			// the tail handled elsewhere in the function
			var fn ast.Node
			for i := len(stack) - 1; i >= 0; i-- {
				switch stack[i].(type) {
				case *ast.FuncDecl, *ast.FuncLit:
					fn = stack[i]
				}
				if fn != nil {
					break
				}
			}
			tail := false
			if fn != nil {
				ast.Inspect(fn, func(m ast.Node) bool {
					if m == ast.Node(fs) {
						return false
					}
					switch x := m.(type) {
					case *ast.IndexExpr:
						if identObj(info, x.X) == xsObj {
							if b2, ok := ast.Unparen(x.Index).(*ast.BinaryExpr); ok && b2.Op == token.SUB {
								tail = true // xs[len(xs)-1]
							}
						}
					case *ast.SliceExpr:
						if identObj(info, x.X) == xsObj {
							tail = true
						}
					}
					return true
				})
			}
			if !tail {
				bad = append(bad, fs)
			}
			return true
		})
	}
	return sites, bad
}

// ruleLastElementSkipped (G-LAST-ELEMENT-SKIPPED): zero instances are expected.
func ruleLastElementSkipped(c *Ctx, rule string, pkgs []*packages.Package) {
	c.Rule(rule, "a loop that reads one element per iteration does not stop short of the end of the slice", 0)
	p := c.P
	n, sites := 0, 0
	for _, pk := range pkgs {
		s, bad := lastElementSkipped(pk)
		sites += s
		for _, fs := range bad {
			n++
			fn := "?"
			if fd := p.EnclosingFuncDecl(fs); fd != nil {
				fn = relPkg(pk.PkgPath) + "." + declName(fd)
			}
			c.Ob(rule, fn+"/"+exprString(fs.Cond), fs.Pos(), false, true, "`for …; %s; …` reads the slice only at the loop index and never looks at its last element(s); the function does not handle the tail elsewhere", exprString(fs.Cond))
		}
	}
	c.Ob(rule, "packages-scanned", token.NoPos, n == 0, len(pkgs) > 0, "%d packages scanned, %d index loops bounded by len(xs)-k, %d of them reading one element per iteration and skipping the tail", len(pkgs), sites, n)
}
