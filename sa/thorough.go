package main

// The thorough tier = the quick analysis, plus
//
//  1. SELF-CHECK: every stored seeded change of the property (/verif/seeded/<P>-*/patch.diff) that the check is
//     recorded to catch is applied *in memory* to today's source (packages.Config.Overlay: nothing is written to
//     /repo), the program is re-loaded and the property's rules are re-run; at least one obligation that holds on
//     today's tree must fail on the variant. A rule that has silently stopped biting — anchor drifted, idiom
//     recogniser over-relaxed, instance floor lowered too far — is reported as undecided (= failed) instead of
//     passing vacuously. A patch whose context no longer exists in today's source is skipped with a note.
//  2. GOOS variants: the GOOS-specific implementations that the default (linux) load never parses are loaded with
//     GOOS=windows and the rules that concern them are run on that program (C13: the windows
//     NormalizeAndValidate under R-ABSVALID; C14: the windows EqualsOrContainsPath; C19: the windows netrc lookup
//     shares the portable file, only the file name differs — checked to be so).
//
// Both are static: they analyse source (today's, or today's with a recorded edit applied in memory).

import (
	"encoding/json"
	"fmt"
	"go/ast"
	"go/token"
	"os"
	"path/filepath"
	"runtime"
	"runtime/debug"
	"sort"
	"strings"
)

type seedMeta struct {
	ID        string `json:"id"`
	Property  string `json:"property"`
	Summary   string `json:"summary"`
	Detection map[string]struct {
		Fired bool `json:"fired"`
	} `json:"detection"`
}

// applyUnifiedDiff applies a `git diff` patch to file contents held in memory. read returns the current content of
// a repository-relative path. Hunks are located by their old block (context + removed lines), searched outward
// from the recorded position, so that drifted line numbers do not matter. Returns path -> new content.
func applyUnifiedDiff(patch string, read func(rel string) ([]byte, error)) (map[string][]byte, error) {
	out := map[string][]byte{}
	lines := strings.Split(patch, "\n")
	var cur string
	var curLines []string
	flush := func() {
		if cur != "" {
			out[cur] = []byte(strings.Join(curLines, "\n"))
		}
	}
	i := 0
	for i < len(lines) {
		l := lines[i]
		switch {
		case strings.HasPrefix(l, "+++ "):
			flush()
			name := strings.TrimPrefix(l, "+++ ")
			name = strings.TrimPrefix(name, "b/")
			if name == "/dev/null" {
				return nil, fmt.Errorf("file deletion not supported")
			}
			cur = name
			b, err := read(cur)
			if err != nil {
				// new file
				curLines = nil
			} else {
				curLines = strings.Split(string(b), "\n")
			}
			i++
		case strings.HasPrefix(l, "@@ "):
			if cur == "" {
				return nil, fmt.Errorf("hunk before file header")
			}
			// @@ -a,b +c,d @@
			var a, b, c2, d int
			hdr := l
			if _, err := fmt.Sscanf(hdr, "@@ -%d,%d +%d,%d @@", &a, &b, &c2, &d); err != nil {
				if _, err := fmt.Sscanf(hdr, "@@ -%d +%d,%d @@", &a, &c2, &d); err != nil {
					if _, err := fmt.Sscanf(hdr, "@@ -%d,%d +%d @@", &a, &b, &c2); err != nil {
						_, _ = fmt.Sscanf(hdr, "@@ -%d +%d @@", &a, &c2)
					}
				}
			}
			i++
			var oldBlock, newBlock []string
			for i < len(lines) {
				h := lines[i]
				if strings.HasPrefix(h, "@@ ") || strings.HasPrefix(h, "diff --git") || strings.HasPrefix(h, "--- ") && i+1 < len(lines) && strings.HasPrefix(lines[i+1], "+++ ") {
					break
				}
				switch {
				case strings.HasPrefix(h, "+"):
					newBlock = append(newBlock, h[1:])
				case strings.HasPrefix(h, "-"):
					oldBlock = append(oldBlock, h[1:])
				case strings.HasPrefix(h, " "):
					oldBlock = append(oldBlock, h[1:])
					newBlock = append(newBlock, h[1:])
				case h == "":
					// blank context line whose leading space was stripped, or the end of the patch
					if i == len(lines)-1 {
						i++
						continue
					}
					oldBlock = append(oldBlock, "")
					newBlock = append(newBlock, "")
				case strings.HasPrefix(h, "\\"):
				}
				i++
			}
			pos := findBlock(curLines, oldBlock, a-1)
			if pos < 0 {
				return nil, fmt.Errorf("%s: hunk at line %d does not match today's source", cur, a)
			}
			repl := append(append(append([]string{}, curLines[:pos]...), newBlock...), curLines[pos+len(oldBlock):]...)
			curLines = repl
		default:
			i++
		}
	}
	flush()
	if len(out) == 0 {
		return nil, fmt.Errorf("empty patch")
	}
	return out, nil
}

func findBlock(lines, block []string, hint int) int {
	if len(block) == 0 {
		if hint < 0 {
			hint = 0
		}
		if hint > len(lines) {
			hint = len(lines)
		}
		return hint
	}
	match := func(at int) bool {
		if at < 0 || at+len(block) > len(lines) {
			return false
		}
		for k, b := range block {
			if lines[at+k] != b {
				return false
			}
		}
		return true
	}
	if hint < 0 {
		hint = 0
	}
	for d := 0; d <= len(lines)+hint; d++ {
		if match(hint + d) {
			return hint + d
		}
		if d > 0 && match(hint-d) {
			return hint - d
		}
	}
	return -1
}

// failedKeys: rule|instance of every failed obligation of a finished run (floors included).
func failedKeys(c *Ctx) map[string]string {
	out := map[string]string{}
	count := map[string]int{}
	for _, o := range c.Obls {
		count[o.Rule]++
		if !o.OK {
			out[o.key()] = o.Msg
		}
	}
	for r, min := range c.minInst {
		if count[r] < min {
			out[r+"|instance-floor"] = "fewer instances than the floor"
		}
	}
	return out
}

func runQuiet(p *Prog, pc *propCheck) (c *Ctx, panicked any) {
	c = NewCtx(p, pc.ID, "thorough")
	c.quiet = true
	func() {
		defer func() {
			panicked = recover()
			if panicked != nil && os.Getenv("BUFSA_FULL") != "" {
				debug.PrintStack()
			}
		}()
		pc.Run(c)
		genericPack(c)
	}()
	return
}

// thoroughExtras adds the self-check and GOOS-variant obligations to c (which already holds the quick result).
func thoroughExtras(c *Ctx, pc *propCheck) {
	c.Rule("SELF-CHECK", "each stored seeded change the check is recorded to catch still makes it fail when applied in memory to today's source", 2)
	base := failedKeys(c)
	seedRoot := filepath.Join(verifDir, "seeded")
	ents, _ := os.ReadDir(seedRoot)
	var ids []string
	for _, e := range ents {
		if e.IsDir() && strings.HasPrefix(e.Name(), pc.ID+"-") {
			ids = append(ids, e.Name())
		}
	}
	sort.Strings(ids)
	for _, id := range ids {
		dir := filepath.Join(seedRoot, id)
		var meta seedMeta
		if b, err := os.ReadFile(filepath.Join(dir, "meta.json")); err != nil || json.Unmarshal(b, &meta) != nil {
			c.Note("SELF-CHECK: %s: meta.json unreadable, skipped", id)
			continue
		}
		if d, ok := meta.Detection[pc.ID]; ok && !d.Fired {
			c.Note("SELF-CHECK: %s is recorded as not caught by %s (value-level; see DESIGN §13): skipped", id, pc.ID)
			continue
		}
		if _, ok := meta.Detection[pc.ID]; !ok {
			continue // caught by a different property's check only
		}
		patch, err := os.ReadFile(filepath.Join(dir, "patch.diff"))
		if err != nil {
			c.Note("SELF-CHECK: %s: no patch.diff, skipped", id)
			continue
		}
		overlayRel, err := applyUnifiedDiff(string(patch), func(rel string) ([]byte, error) { return os.ReadFile(filepath.Join(repoDir, rel)) })
		if err != nil {
			c.Note("SELF-CHECK: %s does not apply to today's source (%v): skipped (the lines it edits were rewritten since)", id, err)
			continue
		}
		overlay := map[string][]byte{}
		for rel, b := range overlayRel {
			overlay[filepath.Join(repoDir, rel)] = b
		}
		mp, err := LoadProg(overlay, "")
		if err != nil {
			c.Ob("SELF-CHECK", id, token.NoPos, false, true, "the variant does not load/type-check: %v", err)
			continue
		}
		mc, panicked := runQuiet(mp, pc)
		fired := ""
		if panicked != nil {
			fired = fmt.Sprintf("checker panicked on the variant (undecided = failed): %v", panicked)
		}
		for k, msg := range failedKeys(mc) {
			if _, already := base[k]; !already {
				fired = strings.Replace(k, "|", ": ", 1) + ": " + short(msg, 160)
				break
			}
		}
		c.Ob("SELF-CHECK", id, token.NoPos, fired != "", true, "seeded change %q applied in memory: %s", short(meta.Summary, 100),
			map[bool]string{true: "caught — " + fired, false: "NOT caught: every obligation still holds on the variant; the rule that used to catch it no longer bites"}[fired != ""])
		mp, mc = nil, nil
		runtime.GC()
	}

	// REFACTOR-SILENT: stored behaviour-preserving refactorings of this property's code (/verif/benign/<P>-*), applied in
	// memory, must not make any obligation fail that holds today
	c.Rule("REFACTOR-SILENT", "each stored behaviour-preserving refactoring of the property's code leaves every obligation discharged", 0)
	benignRoot := filepath.Join(verifDir, "benign")
	bents, _ := os.ReadDir(benignRoot)
	for _, e := range bents {
		if !e.IsDir() || !strings.HasPrefix(e.Name(), pc.ID+"-") {
			continue
		}
		patch, err := os.ReadFile(filepath.Join(benignRoot, e.Name(), "patch.diff"))
		if err != nil {
			continue
		}
		overlayRel, err := applyUnifiedDiff(string(patch), func(rel string) ([]byte, error) { return os.ReadFile(filepath.Join(repoDir, rel)) })
		if err != nil {
			c.Note("REFACTOR-SILENT: %s does not apply to today's source (%v): skipped", e.Name(), err)
			continue
		}
		overlay := map[string][]byte{}
		for rel, b := range overlayRel {
			overlay[filepath.Join(repoDir, rel)] = b
		}
		mp, err := LoadProg(overlay, "")
		if err != nil {
			c.Note("REFACTOR-SILENT: %s: variant does not load (%v): skipped", e.Name(), short(err.Error(), 120))
			continue
		}
		mc, panicked := runQuiet(mp, pc)
		var alarms []string
		if panicked != nil {
			alarms = append(alarms, fmt.Sprintf("panic: %v", panicked))
		}
		for k := range failedKeys(mc) {
			if _, already := base[k]; !already {
				alarms = append(alarms, strings.Replace(k, "|", ": ", 1))
			}
		}
		sort.Strings(alarms)
		c.Ob("REFACTOR-SILENT", e.Name(), token.NoPos, len(alarms) == 0, true, "behaviour-preserving refactoring applied in memory: new failing obligations: %v (any is a false alarm of the machinery)", alarms)
		mp, mc = nil, nil
		runtime.GC()
	}

	switch pc.ID {
	case "C13", "C14", "C19":
		thoroughWindows(c, pc)
	}
}

// thoroughWindows loads the GOOS-sensitive packages with GOOS=windows and runs the rules that concern them.
func thoroughWindows(c *Ctx, pc *propCheck) {
	c.Rule("GOOS-WINDOWS", "the windows-only implementations satisfy the same rules as the default ones", 1)
	wp, err := LoadProg(nil, "windows", "./private/pkg/normalpath/...", "./private/pkg/netrc/...")
	if err != nil {
		c.Ob("GOOS-WINDOWS", "load", token.NoPos, false, true, "GOOS=windows load of normalpath and netrc failed: %v", err)
		return
	}
	c.Ob("GOOS-WINDOWS", "load", token.NoPos, len(wp.Pkgs) >= 2, true, "%d packages loaded with GOOS=windows", len(wp.Pkgs))
	saved := c.P
	c.P = wp
	defer func() { c.P = saved }()
	switch pc.ID {
	case "C13":
		fr := wp.Func("private/pkg/normalpath", "NormalizeAndValidate")
		if fr == nil {
			c.Ob("GOOS-WINDOWS", "NormalizeAndValidate", token.NoPos, false, true, "windows NormalizeAndValidate not found")
			return
		}
		file := wp.FileRel(fr.Decl.Pos())
		c.Ob("GOOS-WINDOWS", "NormalizeAndValidate/file", fr.Decl.Pos(), strings.HasSuffix(file, "_windows.go"), true, "analysing %s", file)
		c.Rule("R-ABSVALID/windows", "no escaping or rooted class of cleaned paths (volume-rooted included) reaches the success return of the windows NormalizeAndValidate", 5)
		c13AbsValidFunc(c, "R-ABSVALID/windows", fr, true, " [windows]")
	case "C14":
		// the windows EqualsOrContainsPath decides containment path-wise: it walks up with Dir (or compares
		// components), never by strings.HasPrefix on the two paths
		fr := wp.Func("private/pkg/normalpath", "EqualsOrContainsPath")
		if fr == nil {
			c.Ob("GOOS-WINDOWS", "EqualsOrContainsPath", token.NoPos, false, true, "windows EqualsOrContainsPath not found")
			return
		}
		info := fr.Info()
		file := wp.FileRel(fr.Decl.Pos())
		stringPrefix, walksUp := false, false
		var params []string
		for _, fl := range fr.Decl.Type.Params.List {
			for _, nm := range fl.Names {
				params = append(params, nm.Name)
			}
		}
		ast.Inspect(fr.Decl.Body, func(n ast.Node) bool {
			if call, ok := n.(*ast.CallExpr); ok {
				if fn := Callee(info, call); fn != nil && fn.Pkg() != nil {
					if fn.Pkg().Path() == "strings" && (fn.Name() == "HasPrefix" || fn.Name() == "Contains") && len(call.Args) == 2 {
						// a prefix test between the two path parameters (or values derived from both) is the string-wise test
						a0, a1 := exprString(call.Args[0]), exprString(call.Args[1])
						if len(params) >= 2 && strings.Contains(a0, params[1]) && strings.Contains(a1, params[0]) {
							stringPrefix = true
						}
					}
					if fn.Name() == "Dir" || fn.Name() == "Components" || fn.Name() == "Split" {
						walksUp = true
					}
				}
			}
			return true
		})
		c.Ob("GOOS-WINDOWS", "EqualsOrContainsPath/path-wise", fr.Decl.Pos(), strings.HasSuffix(file, "_windows.go") && walksUp && !stringPrefix, true,
			"%s: walks up directories or compares components=%v, string prefix test between the two paths=%v", file, walksUp, stringPrefix)
	case "C19":
		// the lookup logic lives in the portable file; the GOOS files may only differ in the netrc file name
		pk := wp.Pkg("private/pkg/netrc")
		if pk == nil {
			c.Ob("GOOS-WINDOWS", "netrc", token.NoPos, false, true, "netrc not loaded")
			return
		}
		var extra []string
		for _, fr := range wp.FuncsOf(pk) {
			if strings.HasSuffix(wp.FileRel(fr.Decl.Pos()), "_windows.go") {
				extra = append(extra, fr.Decl.Name.Name)
			}
		}
		lookup := wp.Func("private/pkg/netrc", "GetMachineForNameAndFilePath")
		portable := lookup != nil && !strings.HasSuffix(wp.FileRel(lookup.Decl.Pos()), "_windows.go")
		c.Ob("GOOS-WINDOWS", "netrc/lookup-is-portable", token.NoPos, portable && len(extra) == 0, true,
			"the machine lookup is defined in a GOOS-independent file (%v); functions defined only for windows: %v (none expected: the windows file holds the file name constant)", portable, extra)
	}
}

// cmdOverlay: `bufsa overlay -patch f [-patch g …] [-props C01,C02|all]` applies each patch in memory to today's
// source and reports, per property, the obligations that hold today and fail on the variant. Used to run a batch of
// seeded changes (must fail somewhere) or behaviour-preserving refactorings (must fail nowhere) without touching
// /repo. Exit code 0 always; the output is for triage.
func cmdOverlay(args []string) int {
	var patches []string
	props := "all"
	for i := 0; i < len(args); i++ {
		switch args[i] {
		case "-patch":
			i++
			patches = append(patches, args[i])
		case "-props":
			i++
			props = args[i]
		}
	}
	var ids []string
	if props == "all" {
		for id := range registry {
			ids = append(ids, id)
		}
	} else {
		ids = strings.Split(props, ",")
	}
	sort.Strings(ids)
	base, err := LoadProg(nil, "")
	if err != nil {
		fmt.Printf("base load failed: %v\n", err)
		return 2
	}
	baseFailed := map[string]map[string]string{}
	for _, id := range ids {
		c, _ := runQuiet(base, registry[id])
		baseFailed[id] = failedKeys(c)
	}
	base = nil
	runtime.GC()
	for _, pf := range patches {
		b, err := os.ReadFile(pf)
		if err != nil {
			fmt.Printf("PATCH %s: unreadable: %v\n", pf, err)
			continue
		}
		ov, err := applyUnifiedDiff(string(b), func(rel string) ([]byte, error) { return os.ReadFile(filepath.Join(repoDir, rel)) })
		if err != nil {
			fmt.Printf("PATCH %s: does not apply: %v\n", pf, err)
			continue
		}
		overlay := map[string][]byte{}
		for rel, content := range ov {
			overlay[filepath.Join(repoDir, rel)] = content
		}
		mp, err := LoadProg(overlay, "")
		if err != nil {
			fmt.Printf("PATCH %s: variant does not load: %v\n", pf, short(err.Error(), 300))
			continue
		}
		total := 0
		for _, id := range ids {
			mc, panicked := runQuiet(mp, registry[id])
			if panicked != nil {
				fmt.Printf("PATCH %s: %s: PANIC %v\n", pf, id, panicked)
				total++
				continue
			}
			var keys []string
			mf := failedKeys(mc)
			for k := range mf {
				if _, already := baseFailed[id][k]; !already {
					keys = append(keys, k)
				}
			}
			sort.Strings(keys)
			for _, k := range keys {
				total++
				fmt.Printf("PATCH %s: %s: %s: %s\n", pf, id, strings.Replace(k, "|", ": ", 1), short(mf[k], overlayMsgLen()))
			}
		}
		fmt.Printf("PATCH %s: %d new failing obligation(s)\n", pf, total)
		mp = nil
		runtime.GC()
	}
	return 0
}

// overlayMsgLen: diagnostics of `overlay` are cut to 220 characters unless BUFSA_FULL is set.
func overlayMsgLen() int {
	if os.Getenv("BUFSA_FULL") != "" {
		return 4000
	}
	return 220
}
