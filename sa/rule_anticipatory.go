package main

import (
	"go/ast"
	"go/token"
	"go/types"
	"strings"

	"golang.org/x/tools/go/packages"
	"golang.org/x/tools/go/ssa"
	"golang.org/x/tools/go/types/typeutil"
)

// Three more shape rules in the spirit of §3.1, written without a seed: each states something that is wrong wherever
// it stands, is cheap to decide exactly, and has no instance in the module today.

// selfOperands lists comparisons, subtractions and two-operand calls whose two operands are the same side-effect-free
// expression: `a.t > a.t`, `keys[i] == keys[i]`, `equal(prev, prev)`, `x && x`. The second operand was meant to be the
// other element. (`x != x` on floats is the NaN test and is left alone.)
func selfOperands(pk *packages.Package) (sites int, bad []ast.Node) {
	info := pk.TypesInfo
	pure := func(e ast.Expr) bool {
		ok := true
		ast.Inspect(e, func(n ast.Node) bool {
			switch t := n.(type) {
			case *ast.CallExpr:
				// accessor chains without arguments are accepted as pure (getters); anything else is not
				if len(t.Args) != 0 {
					ok = false
				}
			case *ast.UnaryExpr:
				if t.Op == token.ARROW {
					ok = false
				}
			case *ast.BasicLit, *ast.FuncLit:
				ok = false
			}
			return ok
		})
		return ok
	}
	isFloat := func(e ast.Expr) bool {
		if t := info.TypeOf(e); t != nil {
			if b, ok := t.Underlying().(*types.Basic); ok && b.Info()&(types.IsFloat|types.IsComplex) != 0 {
				return true
			}
		}
		return false
	}
	for _, f := range pk.Syntax {
		if isGenerated(f) {
			continue
		}
		ast.Inspect(f, func(n ast.Node) bool {
			switch t := n.(type) {
			case *ast.BinaryExpr:
				switch t.Op {
				case token.EQL, token.NEQ, token.LSS, token.GTR, token.LEQ, token.GEQ, token.LAND, token.LOR, token.SUB:
				default:
					return true
				}
				sites++
				if isFloat(t.X) || !pure(t.X) {
					return true
				}
				if _, isIdentConst := info.Types[t.X]; isIdentConst && info.Types[t.X].Value != nil {
					return true // constants compared with themselves are generated/table code
				}
				if exprString(t.X) == exprString(t.Y) {
					bad = append(bad, t)
				}
			case *ast.CallExpr:
				if len(t.Args) != 2 {
					return true
				}
				fn := typeutil.StaticCallee(info, t)
				if fn == nil {
					return true
				}
				sig, _ := fn.Type().(*types.Signature)
				if sig == nil || sig.Params().Len() != 2 || sig.Variadic() || !types.Identical(sig.Params().At(0).Type(), sig.Params().At(1).Type()) || sig.Results().Len() != 1 {
					return true
				}
				// a two-operand question about a pair: equal, less, compare, contains
				if rb, ok := sig.Results().At(0).Type().Underlying().(*types.Basic); !ok || rb.Info()&(types.IsBoolean|types.IsInteger) == 0 {
					return true
				}
				sites++
				if !pure(t.Args[0]) || isFloat(t.Args[0]) {
					return true
				}
				if tv, ok := info.Types[t.Args[0]]; ok && tv.Value != nil {
					return true
				}
				if exprString(t.Args[0]) == exprString(t.Args[1]) {
					bad = append(bad, t)
				}
			}
			return true
		})
	}
	return sites, bad
}

// pureResultDropped lists calls of functions that do nothing but compute their result (package strings, bytes, path,
// path/filepath, the non-in-place functions of slices and maps, errors.Join/New, fmt.Sprint*/Errorf, and the module's
// normalpath) whose result is thrown away: `slices.Compact(xs)`, `strings.TrimSuffix(p, ".proto")`,
// `normalpath.Normalize(p)` as a statement. The caller goes on with the value it had.
func pureResultDropped(f *ssa.Function) (sites int, bad []*ssa.Call) {
	inPlace := map[string]bool{"Sort": true, "SortFunc": true, "SortStableFunc": true, "Reverse": true, "Clear": true, "Copy": true, "DeleteFunc": false}
	for _, b := range f.Blocks {
		for _, ins := range b.Instrs {
			call, ok := ins.(*ssa.Call)
			if !ok || call.Call.IsInvoke() {
				continue
			}
			o := staticCalleeObj(&call.Call)
			if o == nil || o.Pkg() == nil {
				continue
			}
			sig, _ := o.Type().(*types.Signature)
			if sig == nil || sig.Recv() != nil || sig.Results().Len() == 0 {
				continue
			}
			pure := false
			switch pp := o.Pkg().Path(); {
			case pp == "strings" || pp == "bytes" || pp == "path" || pp == "unicode" || pp == "strconv":
				pure = true
			case pp == "path/filepath":
				pure = o.Name() != "Walk" && o.Name() != "WalkDir"
			case pp == "slices" || pp == "maps":
				pure = !inPlace[o.Name()]
			case pp == "errors":
				pure = true
			case pp == "fmt":
				pure = strings.HasPrefix(o.Name(), "Sprint") || o.Name() == "Errorf"
			case strings.HasSuffix(pp, "/private/pkg/normalpath") || strings.HasSuffix(pp, "/private/pkg/slicesext") || strings.HasSuffix(pp, "/private/pkg/stringutil"):
				pure = true
			}
			if !pure {
				continue
			}
			sites++
			used := false
			if refs := call.Referrers(); refs != nil {
				for _, r := range *refs {
					if _, dbg := r.(*ssa.DebugRef); !dbg {
						used = true
					}
				}
			}
			if !used {
				bad = append(bad, call)
			}
		}
	}
	return sites, bad
}

// lockKindMismatch lists functions in which a read lock is released as a write lock or the other way round on the
// same mutex expression (`mu.RLock(); defer mu.Unlock()`): the RWMutex is corrupted at the first use.
func lockKindMismatch(pk *packages.Package) (sites int, bad []*ast.FuncDecl) {
	info := pk.TypesInfo
	for _, f := range pk.Syntax {
		if isGenerated(f) {
			continue
		}
		for _, d := range f.Decls {
			fd, ok := d.(*ast.FuncDecl)
			if !ok || fd.Body == nil {
				continue
			}
			kinds := map[string]map[string]bool{}
			ast.Inspect(fd.Body, func(n ast.Node) bool {
				call, ok := n.(*ast.CallExpr)
				if !ok || len(call.Args) != 0 {
					return true
				}
				sel, ok := call.Fun.(*ast.SelectorExpr)
				if !ok {
					return true
				}
				switch sel.Sel.Name {
				case "Lock", "Unlock", "RLock", "RUnlock":
				default:
					return true
				}
				if np := namedPath(derefType(info.TypeOf(sel.X))); np != "sync.RWMutex" {
					return true
				}
				k := exprString(sel.X)
				if kinds[k] == nil {
					kinds[k] = map[string]bool{}
				}
				kinds[k][sel.Sel.Name] = true
				return true
			})
			for _, ks := range kinds {
				sites++
				if (ks["RLock"] && ks["Unlock"] && !ks["Lock"]) || (ks["Lock"] && ks["RUnlock"] && !ks["RLock"]) {
					bad = append(bad, fd)
				}
			}
		}
	}
	return sites, bad
}

// ruleAnticipatory runs the three under the given prefix (G- in the generic pack).
func ruleAnticipatory(c *Ctx, prefix string, pkgs []*packages.Package) {
	p := c.P
	{
		rule := prefix + "SELF-OPERANDS"
		c.Rule(rule, "no comparison, subtraction or two-operand predicate is applied to an expression and itself", 0)
		n, sites := 0, 0
		for _, pk := range pkgs {
			s, bad := selfOperands(pk)
			sites += s
			for _, node := range bad {
				n++
				fn := "?"
				if fd := p.EnclosingFuncDecl(node); fd != nil {
					fn = relPkg(pk.PkgPath) + "." + declName(fd)
				}
				txt := ""
				switch t := node.(type) {
				case *ast.BinaryExpr:
					txt = exprString(t)
				case *ast.CallExpr:
					txt = exprString(t)
				}
				c.Ob(rule, fn+"/"+short(txt, 60), node.Pos(), false, true, "`%s` has the same expression on both sides: the other element was meant", short(txt, 100))
			}
		}
		c.Ob(rule, "packages-scanned", token.NoPos, n == 0, len(pkgs) > 0, "%d packages, %d two-operand sites scanned, %d with identical operands", len(pkgs), sites, n)
	}
	{
		rule := prefix + "PURE-RESULT-DROPPED"
		c.Rule(rule, "the result of a function that only computes a value is not thrown away", 0)
		n, sites := 0, 0
		for _, sf := range p.SSAFuncsOf(pkgs) {
			for _, f := range allSSAFuncs(sf) {
				s, bad := pureResultDropped(f)
				sites += s
				for _, call := range bad {
					n++
					c.Ob(rule, ssaFuncName(f)+"/"+calleeText(&call.Call), call.Pos(), false, true, "the result of %s is discarded: the call has no other effect, the caller goes on with the value it had", calleeText(&call.Call))
				}
			}
		}
		c.Ob(rule, "functions-scanned", token.NoPos, n == 0, sites > 0, "%d calls of result-only functions scanned, %d with the result discarded", sites, n)
	}
	{
		rule := prefix + "LOCK-KIND-PAIRED"
		c.Rule(rule, "a sync.RWMutex is released the way it was taken", 0)
		n, sites := 0, 0
		for _, pk := range pkgs {
			s, bad := lockKindMismatch(pk)
			sites += s
			for _, fd := range bad {
				n++
				c.Ob(rule, relPkg(pk.PkgPath)+"."+declName(fd), fd.Pos(), false, true, "%s takes an RWMutex one way and releases it the other way", declName(fd))
			}
		}
		c.Ob(rule, "packages-scanned", token.NoPos, n == 0, len(pkgs) > 0, "%d packages, %d mutex uses scanned, %d mismatched", len(pkgs), sites, n)
	}
}
