package main

import (
	"go/token"

	"golang.org/x/tools/go/packages"
	"golang.org/x/tools/go/ssa"
)

// inPlaceFilterOfParam lists appends onto `p[:0]` where p is a slice parameter of the function (or a slice read from a
// field of a parameter): the "filter in place" idiom writes the kept elements over the caller's backing array. That is
// fine for a slice the function made itself; for a slice it was handed, every other holder of that array - a struct
// copy of the same configuration section shared by several modules - sees its elements shifted and overwritten.
// Not listed: the opt-in form `var out []T; if opts.inPlace { out = p[:0] }`, where a fresh slice is the default.
func inPlaceFilterOfParam(f *ssa.Function) []*ssa.Slice {
	var out []*ssa.Slice
	for _, b := range f.Blocks {
		for _, ins := range b.Instrs {
			sl, ok := ins.(*ssa.Slice)
			if !ok || sl.Low != nil || sl.High == nil {
				continue
			}
			hc, ok := sl.High.(*ssa.Const)
			if !ok || hc.Value == nil || hc.Value.String() != "0" {
				continue
			}
			// the sliced value: a parameter, or a field of one
			from := stripConv(sl.X)
			owned := true
			switch t := from.(type) {
			case *ssa.Parameter:
				owned = false
			case *ssa.UnOp:
				if fa, ok := t.X.(*ssa.FieldAddr); ok && t.Op == token.MUL {
					if _, isParam := stripConv(fa.X).(*ssa.Parameter); isParam {
						owned = false
					}
				}
			case *ssa.Field:
				if _, isParam := stripConv(t.X).(*ssa.Parameter); isParam {
					owned = false
				}
			}
			if owned {
				continue
			}
			// appended onto (directly or through the loop φ)
			appended := false
			seen := map[ssa.Value]bool{}
			var follow func(v ssa.Value)
			follow = func(v ssa.Value) {
				if seen[v] || v.Referrers() == nil {
					return
				}
				seen[v] = true
				for _, r := range *v.Referrers() {
					switch t := r.(type) {
					case *ssa.Phi:
						follow(t)
					case *ssa.Call:
						if isBuiltinCall(&t.Call, "append") && len(t.Call.Args) > 0 && t.Call.Args[0] == v {
							appended = true
						}
					}
				}
			}
			follow(sl)
			// an opt-in: the function builds a fresh slice unless a flag asks for the in-place mode (the start of the
			// accumulation is a φ of p[:0] and nil / a made slice) - whoever sets the flag owns the consequences
			optIn := false
			if refs := sl.Referrers(); refs != nil {
				for _, r := range *refs {
					if ph, ok := r.(*ssa.Phi); ok && ph.Block() != sl.Block() {
						for _, e := range ph.Edges {
							e = stripConv(e)
							if isNilConst(e) {
								optIn = true
							}
							if _, ok := e.(*ssa.MakeSlice); ok {
								optIn = true
							}
						}
					}
				}
			}
			if optIn {
				continue
			}
			if appended {
				out = append(out, sl)
			}
		}
	}
	return out
}

func ruleInPlaceFilter(c *Ctx, rule string, pkgs []*packages.Package) {
	c.Rule(rule, "a slice handed in by the caller is not filtered in place (append onto p[:0])", 0)
	p := c.P
	n, fns := 0, 0
	for _, sf := range p.SSAFuncsOf(pkgs) {
		for _, f := range allSSAFuncs(sf) {
			fns++
			for _, sl := range inPlaceFilterOfParam(f) {
				n++
				c.Ob(rule, ssaFuncName(f)+"/"+sl.X.Name(), sl.Pos(), false, true, "elements are appended onto %s[:0], a slice the function was handed: the caller's backing array is overwritten", sl.X.Name())
			}
		}
	}
	c.Ob(rule, "functions-scanned", token.NoPos, n == 0, fns > 0, "%d functions scanned, %d in-place filters of a parameter", fns, n)
}
