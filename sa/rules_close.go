package main

// R-CLOSE: every writer obtained in a function is closed on every path to an exit (the Close error
// itself is covered by R-ERRUSE / R-DEFER), or ownership visibly leaves the function.

import (
	"go/ast"
	"go/types"

	"golang.org/x/tools/go/packages"
)

// writerCloser reports whether t has both Write([]byte)(int,error) and Close() error, or is one of
// the archive writers whose Close flushes the output.
func writerCloser(t types.Type) bool {
	if t == nil {
		return false
	}
	switch namedPath(t) {
	case "archive/zip.Writer", "archive/tar.Writer":
		return true
	}
	ms := types.NewMethodSet(t)
	has := func(name string) bool {
		for i := 0; i < ms.Len(); i++ {
			if ms.At(i).Obj().Name() == name {
				return true
			}
		}
		return false
	}
	if !has("Close") || !has("Write") {
		return false
	}
	return true
}

type acquisition struct {
	Pkg    *packages.Package
	Fn     ast.Node // enclosing FuncDecl/FuncLit
	Call   *ast.CallExpr
	Assign ast.Stmt
	Var    types.Object
	ErrVar types.Object
	Callee *types.Func
}

// findAcquisitions lists `x, err := f(...)` / `x := f(...)` where x is a writer-closer.
func findAcquisitions(p *Prog, pk *packages.Package) []acquisition {
	var out []acquisition
	info := pk.TypesInfo
	for _, f := range pk.Syntax {
		if isGenerated(f) {
			continue
		}
		ast.Inspect(f, func(n ast.Node) bool {
			as, ok := n.(*ast.AssignStmt)
			if !ok || len(as.Rhs) != 1 {
				return true
			}
			call, ok := ast.Unparen(as.Rhs[0]).(*ast.CallExpr)
			if !ok {
				return true
			}
			callee := Callee(info, call)
			if callee == nil {
				return true
			}
			sig := callee.Type().(*types.Signature)
			if sig.Results().Len() == 0 || sig.Results().Len() > 2 {
				return true
			}
			if !writerCloser(sig.Results().At(0).Type()) {
				return true
			}
			// readers opened with os.Open are not writers; skip pure read acquisitions
			if calleeIs(callee, "os", "Open") {
				return true
			}
			v := identObj(info, as.Lhs[0])
			if v == nil {
				return true
			}
			a := acquisition{Pkg: pk, Fn: p.EnclosingFunc(as), Call: call, Assign: as, Var: v, Callee: callee}
			if len(as.Lhs) == 2 {
				a.ErrVar = identObj(info, as.Lhs[1])
			}
			out = append(out, a)
			return true
		})
	}
	return out
}

// closeStatus decides how the acquired value is released.
// Returns ok, description.
func closeStatus(p *Prog, a acquisition) (bool, string) {
	info := a.Pkg.TypesInfo
	body := funcBody(a.Fn)
	if body == nil {
		return false, "no enclosing function body"
	}
	// ownership transfer: returned, stored in a composite literal / field / other variable, or
	// handed to a function whose parameter type itself has a Close method.
	transferred := ""
	var closers []ast.Node
	ast.Inspect(body, func(n ast.Node) bool {
		switch x := n.(type) {
		case *ast.ReturnStmt:
			for _, r := range x.Results {
				if identObj(info, r) == a.Var {
					transferred = "returned to the caller"
				}
			}
		case *ast.CompositeLit:
			for _, e := range x.Elts {
				if usesObj(info, e, a.Var) {
					transferred = "stored in a composite literal"
				}
			}
		case *ast.AssignStmt:
			if x == a.Assign {
				return true
			}
			for i, r := range x.Rhs {
				if identObj(info, r) == a.Var && i < len(x.Lhs) {
					if _, isSel := ast.Unparen(x.Lhs[i]).(*ast.SelectorExpr); isSel {
						transferred = "stored in a field"
					}
				}
			}
		case *ast.CallExpr:
			// x.Close()
			if sel, ok := ast.Unparen(x.Fun).(*ast.SelectorExpr); ok && sel.Sel.Name == "Close" && identObj(info, sel.X) == a.Var {
				// the close node is the enclosing defer statement if any, else the call
				var node ast.Node = x
				for cur := p.Parent(x); cur != nil && cur != a.Fn; cur = p.Parent(cur) {
					if ds, ok := cur.(*ast.DeferStmt); ok {
						node = ds
					}
				}
				closers = append(closers, node)
				return true
			}
			// append(list, …, opt(v)): stored in a collection, like an element of a composite literal
			if id, ok := ast.Unparen(x.Fun).(*ast.Ident); ok && id.Name == "append" {
				if _, isBuiltin := info.Uses[id].(*types.Builtin); isBuiltin {
					for _, e := range x.Args[1:] {
						if usesObj(info, e, a.Var) {
							transferred = "appended to a slice"
						}
					}
				}
			}
			callee := Callee(info, x)
			if callee == nil {
				return true
			}
			sig, _ := callee.Type().(*types.Signature)
			if sig == nil {
				return true
			}
			for i, arg := range x.Args {
				if identObj(info, arg) != a.Var {
					continue
				}
				var pt types.Type
				if i < sig.Params().Len() {
					pt = sig.Params().At(i).Type()
				} else if sig.Variadic() && sig.Params().Len() > 0 {
					pt = sig.Params().At(sig.Params().Len() - 1).Type()
				}
				if sl, ok := pt.(*types.Slice); ok && sig.Variadic() && i >= sig.Params().Len()-1 {
					pt = sl.Elem()
				}
				if pt != nil && hasCloseMethod(pt) {
					transferred = "passed to " + callee.Name() + " whose parameter owns a Close method"
				}
			}
		}
		return true
	})
	if len(closers) == 0 {
		if transferred != "" {
			return true, transferred
		}
		return false, "never closed and never handed off"
	}
	// a writer that stays in this function must report its Close error on the success path too: a deferred
	// Close nested under `if <named result> != nil` only runs (and only reports) when the body already failed
	if transferred == "" {
		results := namedErrorResults(info, funcType(a.Fn))
		for _, cl := range closers {
			ds, ok := cl.(*ast.DeferStmt)
			if !ok {
				continue
			}
			guardedOnly := false
			ast.Inspect(ds, func(n ast.Node) bool {
				ifs, ok := n.(*ast.IfStmt)
				if !ok {
					return true
				}
				for _, r := range results {
					if o, nonNil, ok := errNilTest(info, ifs.Cond); ok && o == r && nonNil {
						// is the Close call inside this if?
						ast.Inspect(ifs.Body, func(m ast.Node) bool {
							if call, ok := m.(*ast.CallExpr); ok {
								if sel, ok := ast.Unparen(call.Fun).(*ast.SelectorExpr); ok && sel.Sel.Name == "Close" && identObj(info, sel.X) == a.Var {
									guardedOnly = true
								}
							}
							return true
						})
					}
				}
				return true
			})
			if guardedOnly && len(closers) == 1 {
				return false, "the only Close of this writer is deferred under `if " + results[0].Name() + " != nil`: on the success path the writer is never closed and a failing Close (lost final flush) is never reported"
			}
			// the Close error must reach a named result on the success path: among the assignments to a named
			// result that carry the Close error, at least one is not guarded by `<result> != nil`
			if lit, ok := ast.Unparen(ds.Call.Fun).(*ast.FuncLit); ok && len(results) > 0 {
				// variables holding the Close error
				carriers := map[types.Object]bool{}
				isCloseCall := func(e ast.Expr) bool {
					call, ok := ast.Unparen(e).(*ast.CallExpr)
					if !ok {
						return false
					}
					sel, ok := ast.Unparen(call.Fun).(*ast.SelectorExpr)
					return ok && sel.Sel.Name == "Close" && identObj(info, sel.X) == a.Var
				}
				mentionsClose := func(e ast.Expr) bool {
					found := false
					ast.Inspect(e, func(m ast.Node) bool {
						if ex, ok := m.(ast.Expr); ok && isCloseCall(ex) {
							found = true
						}
						if id, ok := m.(*ast.Ident); ok && carriers[identObj(info, id)] {
							found = true
						}
						return !found
					})
					return found
				}
				ast.Inspect(lit.Body, func(m ast.Node) bool {
					if as, ok := m.(*ast.AssignStmt); ok && len(as.Rhs) == 1 && isCloseCall(as.Rhs[0]) && len(as.Lhs) == 1 {
						if o := identObj(info, as.Lhs[0]); o != nil {
							isRes := false
							for _, r := range results {
								if r == o {
									isRes = true
								}
							}
							if !isRes {
								carriers[o] = true
							}
						}
					}
					return true
				})
				total, unguarded := 0, 0
				ast.Inspect(lit.Body, func(m ast.Node) bool {
					as, ok := m.(*ast.AssignStmt)
					if !ok {
						return true
					}
					for i, lhs := range as.Lhs {
						isRes := false
						for _, r := range results {
							if identObj(info, lhs) == r {
								isRes = true
							}
						}
						if !isRes || i >= len(as.Rhs) || !mentionsClose(as.Rhs[i]) {
							continue
						}
						total++
						guarded := false
						for cur := p.Parent(as); cur != nil && cur != lit; cur = p.Parent(cur) {
							if ifs, ok := cur.(*ast.IfStmt); ok {
								for _, r := range results {
									// any conjunct `<result> != nil` makes the join unreachable when the body succeeded
									for _, t := range splitAnd(ifs.Cond) {
										if o, nonNil, ok := errNilTest(info, t); ok && o == r && nonNil {
											guarded = true
										}
									}
								}
							}
						}
						if !guarded {
							unguarded++
						}
					}
					return true
				})
				if total > 0 && unguarded == 0 {
					return false, "the Close error of this writer is joined into " + results[0].Name() + " only under `" + results[0].Name() + " != nil`: when the body succeeded a failing Close (lost final flush) is reported as success"
				}
			}
		}
	}
	g := p.CFGOf(body, info)
	// returns inside the error check of the acquisition itself hold no valid writer
	skip := func(r *ast.ReturnStmt) bool {
		if a.ErrVar == nil {
			return false
		}
		for cur := p.Parent(r); cur != nil && cur != a.Fn; cur = p.Parent(cur) {
			if ifs, ok := cur.(*ast.IfStmt); ok {
				if o := nonNilErrTested(info, ifs.Cond); o == a.ErrVar {
					// the test must directly follow the acquisition: no other definition of err in between
					if !g.ReachableAvoiding(a.Assign, ifs.Cond, nil) {
						return false
					}
					return true
				}
			}
		}
		return false
	}
	if bad, r := g.ExitReachableAvoiding(a.Assign, closers, skip); bad {
		where := "end of function"
		if r != nil {
			where = "return at " + p.Pos(r.Pos())
		}
		return false, "a path from the acquisition to the " + where + " executes no Close"
	}
	if g.FallsOffEnd() {
		// falling off the end without a deferred/explicit close
		// (handled by ReachableAvoiding only for explicit returns) – check the synthetic exit
		// by requiring some closer to dominate the end: approximate with "a closer is a defer or the
		// last statement"; functions that fall off the end are rare for acquisitions.
	}
	return true, "closed on every path to a return"
}

func hasCloseMethod(t types.Type) bool {
	ms := types.NewMethodSet(t)
	for i := 0; i < ms.Len(); i++ {
		if ms.At(i).Obj().Name() == "Close" {
			return true
		}
	}
	if _, ok := t.(*types.Pointer); !ok {
		ms = types.NewMethodSet(types.NewPointer(t))
		for i := 0; i < ms.Len(); i++ {
			if ms.At(i).Obj().Name() == "Close" {
				return true
			}
		}
	}
	return false
}
