package main

import (
	"go/token"
	"strings"

	"golang.org/x/tools/go/packages"
	"golang.org/x/tools/go/ssa"
)

// c11PublicTransitive (PUBLIC-TRANSITIVE; C11, after round-4 seed C11-j): when an image carries no record of its
// unused imports they are recomputed from the descriptors, and "file A uses a type of file C" counts as a use of A's
// import of B when B publicly imports C - through any number of `import public` hops, as the compiler sees it. A
// function that inspects FileImport.IsPublic in order to answer a question about *another* file (it also takes that
// file's path) has to follow the public imports it finds: it calls itself on them. One level only makes lint on the
// image report a used import as unused.
func c11PublicTransitive(c *Ctx, pk *packages.Package) {
	const rule = "PUBLIC-TRANSITIVE"
	c.Rule(rule, "a search through public imports follows them transitively", 1)
	p := c.P
	n := 0
	for _, sf := range p.SSAFuncsOf([]*packages.Package{pk}) {
		readsPublic := false
		for _, b := range sf.Blocks {
			for _, ins := range b.Instrs {
				switch t := ins.(type) {
				case *ssa.Field:
					if strings.HasSuffix(fieldName(t.X.Type(), t.Field), "FileImport.IsPublic") {
						readsPublic = true
					}
				case *ssa.FieldAddr:
					if strings.HasSuffix(fieldName(t.X.Type(), t.Field), "FileImport.IsPublic") {
						readsPublic = true
					}
				}
			}
		}
		if !readsPublic {
			continue
		}
		// a search: it takes the path (a string) of the file it is looking for and answers with a bool
		res := sf.Signature.Results()
		if res.Len() != 1 || res.At(0).Type().String() != "bool" {
			continue
		}
		n++
		recurses := false
		for _, call := range callsIn(sf) {
			if call.Call.StaticCallee() == sf {
				recurses = true
			}
		}
		c.Ob(rule, ssaFuncName(sf), sf.Pos(), recurses, true, "%s inspects FileImport.IsPublic to answer a yes/no question and calls itself on the public imports it finds: %v", sf.Name(), recurses)
	}
	if n == 0 {
		c.Fail(rule, "anchor", token.NoPos, "no boolean search over public imports found in bufimage")
	}
}
