package main

import (
	"fmt"
	"go/token"
	"go/types"

	"golang.org/x/tools/go/packages"
	"golang.org/x/tools/go/ssa"
)

// ruleSameCanonicaliser (SAME-CANONICAL; C17, after round-4 seed C17-k): a guard of the form `canon(x) == p`, where p
// is a parameter that the function takes as already prepared, means something only if every caller prepared p with
// the same canon: `--clean` refuses to delete the working directory by comparing the symlink-resolved plugin output
// with the working directory; if the caller merely filepath.Clean's the working directory, a working directory entered
// through a symlink never compares equal and the project directory itself is removed. For every comparison of a
// string parameter with the result of a package function string → (string, error), the argument at every call site of
// the comparing function must have passed through that same function.
func ruleSameCanonicaliser(c *Ctx, rule string, pk *packages.Package, min int) {
	c.Rule(rule, "a parameter compared with a canonicalised value was canonicalised the same way by every caller", min)
	p := c.P
	isString := func(t types.Type) bool {
		b, ok := t.Underlying().(*types.Basic)
		return ok && b.Kind() == types.String
	}
	canonOf := func(v ssa.Value) *ssa.Function {
		var found *ssa.Function
		sliceBack(v, func(x ssa.Value) bool {
			if cl, ok := x.(*ssa.Call); ok {
				if g := cl.Call.StaticCallee(); g != nil && g.Pkg != nil && g.Pkg.Pkg == pk.Types && g.Signature.Params().Len() == 1 && isString(g.Signature.Params().At(0).Type()) &&
					g.Signature.Results().Len() == 2 && isString(g.Signature.Results().At(0).Type()) {
					found = g
				}
			}
			return found == nil
		})
		return found
	}
	n := 0
	for _, sf := range p.SSAFuncsOf([]*packages.Package{pk}) {
		for _, b := range sf.Blocks {
			for _, ins := range b.Instrs {
				bo, ok := ins.(*ssa.BinOp)
				if !ok || (bo.Op != token.EQL && bo.Op != token.NEQ) || !isString(bo.X.Type()) {
					continue
				}
				for _, pair := range [][2]ssa.Value{{bo.X, bo.Y}, {bo.Y, bo.X}} {
					prm, ok := stripConv(pair[1]).(*ssa.Parameter)
					if !ok {
						continue
					}
					canon := canonOf(pair[0])
					if canon == nil {
						continue
					}
					idx := -1
					for i, q := range sf.Params {
						if q == prm {
							idx = i
						}
					}
					callers := p.callersIndex()[sf]
					for k, cs := range callers {
						if idx < 0 || idx >= len(cs.Call.Args) {
							continue
						}
						same := dependsOnCallUpDeep(p, cs.Call.Args[idx], func(cc *ssa.CallCommon) bool { return cc.StaticCallee() == canon }, 2)
						n++
						c.Ob(rule, fmt.Sprintf("%s(%s)/caller#%d", ssaFuncName(sf), prm.Name(), k+1), cs.Pos(), same, true,
							"%s compares %s(…) with its parameter %s; this caller prepared the argument with %s too: %v", sf.Name(), canon.Name(), prm.Name(), canon.Name(), same)
					}
				}
			}
		}
	}
	if n == 0 {
		c.Fail(rule, "anchor", token.NoPos, "no comparison of a canonicalised value with a parameter found")
	}
}
