package main

import (
	"fmt"
	"go/ast"
	"go/token"

	"golang.org/x/tools/go/packages"
)

// c07TransferOnEveryPath (TRANSFER-ON-EVERY-PATH; C07, after round-5 seed C07-m): trailing comments that the parser
// attached to a composite node (an array or message literal that is an element of a message literal) are printed only
// if the writer first hands them to a token it does write (the closing bracket): the override. Where a writer makes
// such a transfer at its top level - a statement of the function body whose effect is a call of the override setter -
// every call in that function that is handed the same token (and so writes it) must come after the transfer: moved
// below a single-element fast path that writes the bracket and returns, `codes: [404], // why` loses its comment.
func c07TransferOnEveryPath(c *Ctx, pk *packages.Package) {
	const rule = "TRANSFER-ON-EVERY-PATH"
	c.Rule(rule, "a writer hands a node's trailing comments to the closing token before any path writes that token", 2)
	p := c.P
	info := pk.TypesInfo
	if c07Setter == "" {
		c.Fail(rule, "anchor", token.NoPos, "override setter not identified")
		return
	}
	n := 0
	for _, fr := range p.FuncsOf(pk) {
		if fr.Decl.Body == nil || fr.Decl.Recv == nil {
			continue
		}
		g := p.CFGOf(fr.Decl.Body, info)
		k := 0
		for _, st := range fr.Decl.Body.List {
			has := false
			ast.Inspect(st, func(m ast.Node) bool {
				if _, isLit := m.(*ast.FuncLit); isLit {
					return false
				}
				if call, ok := m.(*ast.CallExpr); ok {
					if fn := Callee(info, call); fn != nil && fn.Name() == c07Setter && fn.Pkg() == pk.Types {
						has = true
					}
				}
				return true
			})
			if !has {
				continue
			}
			// loops that set overrides per element are a different idiom (per-element transfers inside the element loop)
			if _, isIf := st.(*ast.IfStmt); !isIf {
				if _, isExpr := st.(*ast.ExprStmt); !isExpr {
					continue
				}
			}
			// the node the comments are handed to
			var target ast.Expr
			ast.Inspect(st, func(m ast.Node) bool {
				if call, ok := m.(*ast.CallExpr); ok && target == nil {
					if fn := Callee(info, call); fn != nil && fn.Name() == c07Setter && fn.Pkg() == pk.Types && len(call.Args) == 2 {
						target = call.Args[0]
					}
				}
				return true
			})
			if target == nil {
				continue
			}
			n++
			k++
			var node ast.Node = st
			if ifs, ok := st.(*ast.IfStmt); ok {
				node = ifs.Cond
			}
			// every formatter call that is handed the same node (it writes that token) is preceded by the hand-over
			tgt := exprString(target)
			var late []string
			ast.Inspect(fr.Decl.Body, func(m ast.Node) bool {
				if _, isLit := m.(*ast.FuncLit); isLit {
					return false
				}
				call, ok := m.(*ast.CallExpr)
				if !ok || containsNode(st, call) || !isFormatterMethodCall(info, call) {
					return true
				}
				fn := Callee(info, call)
				if fn == nil || fn.Name() == c07Setter || fn.Name() == "nodeInfo" {
					return true
				}
				for _, a := range call.Args {
					if exprString(a) == tgt && !g.Dominates(node, call) {
						late = append(late, fn.Name()+" at "+p.Pos(call.Pos()))
					}
				}
				return true
			})
			c.Ob(rule, fmt.Sprintf("%s/transfer#%d", fr.ID(), k), st.Pos(), len(late) == 0, true, "every write of %s in this function comes after the hand-over of the node's trailing comments to it; writes not preceded by it: %v", tgt, late)
		}
	}
	if n == 0 {
		c.Fail(rule, "anchor", token.NoPos, "no top-level trailing-comment hand-over found in the formatter")
	}
}
