package main

// P10 — a small interprocedural taint engine on SSA: sources are function parameters, sanitizers
// cut the flow, sinks are reported. Bounded inlining depth; undecidable constructs are reported
// as "escapes" so that callers can decide (undecided = failed where it matters).

import (
	"fmt"
	"go/token"
	"go/types"

	"golang.org/x/tools/go/ssa"
)

type TaintConfig struct {
	// Sanitizer: the call's results are clean regardless of tainted arguments.
	Sanitizer func(cc *ssa.CallCommon, callee *types.Func) bool
	// Sink returns a description when a tainted argument (index in cc.Args, -1 = receiver value of an
	// invoke) reaching this call is a violation.
	// derived is true when the tainted value is not the source itself but was computed from it
	// (join, concatenation, mapping).
	Sink func(cc *ssa.CallCommon, callee *types.Func, arg int, derived bool) string
	// Identity lists propagating callees whose result is still the 'raw' value (e.g. Normalize).
	Identity func(callee *types.Func) bool
	// Propagate: for calls without analysable body, whether the results carry the taint of the args.
	Propagate func(cc *ssa.CallCommon, callee *types.Func) bool
	// MapIndexIsSink reports map lookups/updates keyed by a tainted value.
	MapIndexIsSink bool
	MaxDepth       int
}

type TaintHit struct {
	Pos   token.Pos
	Desc  string
	Chain []string // call chain from the subject function
}

type taintResult struct {
	Hits          []TaintHit
	ResultTainted bool
	ResultDerived bool
	Sanitized     int // number of sanitizer calls receiving the taint
	Delegated     []string
}

type taintRun struct {
	p     *Prog
	cfg   *TaintConfig
	memo  map[string]*taintResult
	stack map[*ssa.Function]bool
}

// TaintParams analyses fn with the given parameters tainted.
func (p *Prog) TaintParams(fn *ssa.Function, params []int, cfg *TaintConfig) *taintResult {
	r := &taintRun{p: p, cfg: cfg, memo: map[string]*taintResult{}, stack: map[*ssa.Function]bool{}}
	var seeds []ssa.Value
	for _, i := range params {
		if i < len(fn.Params) {
			seeds = append(seeds, fn.Params[i])
		}
	}
	return r.analyse(fn, seeds, cfg.MaxDepth, []string{ssaFuncName(fn)})
}

func (r *taintRun) analyse(fn *ssa.Function, seeds []ssa.Value, depth int, chain []string) *taintResult {
	return r.analyseD(fn, seeds, nil, depth, chain)
}

func (r *taintRun) analyseD(fn *ssa.Function, seeds []ssa.Value, seedDerived []bool, depth int, chain []string) *taintResult {
	res := &taintResult{}
	if fn == nil || len(fn.Blocks) == 0 {
		return res
	}
	if r.stack[fn] {
		return res
	}
	r.stack[fn] = true
	defer delete(r.stack, fn)

	tainted := map[ssa.Value]bool{}
	derived := map[ssa.Value]bool{}
	var work []ssa.Value
	addD := func(v ssa.Value, d bool) {
		if v == nil {
			return
		}
		if !tainted[v] || (d && !derived[v]) {
			tainted[v] = true
			if d {
				derived[v] = true
			}
			work = append(work, v)
		}
	}
	cur := false // derived flag of the value being processed
	add := func(v ssa.Value) { addD(v, cur) }
	for i, s := range seeds {
		addD(s, i < len(seedDerived) && seedDerived[i])
	}
	// stores into local variables (allocs): tainted stores and clean stores, for flow-sensitive loads
	taintedStores := map[*ssa.Alloc][]*ssa.Store{}
	merge := func(sub *taintResult) {
		res.Hits = append(res.Hits, sub.Hits...)
		res.Sanitized += sub.Sanitized
		res.Delegated = append(res.Delegated, sub.Delegated...)
	}
	handleCall := func(instr ssa.Instruction, cc *ssa.CallCommon, val ssa.Value, v ssa.Value) {
		callee := staticCalleeObj(cc)
		// which argument positions carry v
		var idxs []int
		for i, a := range cc.Args {
			if a == v {
				idxs = append(idxs, i)
			}
		}
		if cc.IsInvoke() && cc.Value == v {
			idxs = append(idxs, -1)
		}
		if !cc.IsInvoke() && cc.Value == v {
			// calling a tainted function value: ignore
			return
		}
		if len(idxs) == 0 {
			return
		}
		if r.cfg.Sanitizer != nil && r.cfg.Sanitizer(cc, callee) {
			res.Sanitized++
			return
		}
		for _, i := range idxs {
			if d := r.cfg.Sink(cc, callee, i, derived[v]); d != "" {
				if d[0] == '+' { // delegation marker, not a hit
					res.Delegated = append(res.Delegated, d[1:])
					continue
				}
				res.Hits = append(res.Hits, TaintHit{Pos: instr.Pos(), Desc: d, Chain: append([]string(nil), chain...)})
			}
		}
		// interprocedural step
		if sc := cc.StaticCallee(); sc != nil && len(sc.Blocks) > 0 && sc.Pkg != nil && isModulePkg(sc.Pkg.Pkg) {
			if depth > 0 {
				var sub []ssa.Value
				var subD []bool
				for _, i := range idxs {
					if i >= 0 && i < len(sc.Params) {
						sub = append(sub, sc.Params[i])
						subD = append(subD, derived[v])
					}
				}
				sr := r.analyseD(sc, sub, subD, depth-1, append(chain, ssaFuncName(sc)))
				merge(sr)
				if sr.ResultTainted && val != nil {
					addD(val, derived[v] || sr.ResultDerived)
				}
			} else {
				res.Hits = append(res.Hits, TaintHit{Pos: instr.Pos(), Desc: "inlining bound reached at " + ssaFuncName(sc) + " (undecided)", Chain: append([]string(nil), chain...)})
			}
			return
		}
		// closures called directly
		if mc, ok := cc.Value.(*ssa.MakeClosure); ok && depth > 0 {
			cf := mc.Fn.(*ssa.Function)
			var sub []ssa.Value
			for _, i := range idxs {
				if i >= 0 && i < len(cf.Params) {
					sub = append(sub, cf.Params[i])
				}
			}
			sr := r.analyse(cf, sub, depth-1, append(chain, ssaFuncName(cf)))
			merge(sr)
			if sr.ResultTainted && val != nil {
				add(val)
			}
			return
		}
		if val != nil && r.cfg.Propagate != nil && r.cfg.Propagate(cc, callee) {
			ident := r.cfg.Identity != nil && callee != nil && r.cfg.Identity(callee)
			addD(val, derived[v] || !ident)
		}
	}
	for len(work) > 0 {
		v := work[len(work)-1]
		work = work[:len(work)-1]
		cur = derived[v]
		refs := v.Referrers()
		if refs == nil {
			continue
		}
		for _, ref := range *refs {
			switch x := ref.(type) {
			case *ssa.Phi:
				add(x)
			case *ssa.BinOp:
				if x.Op == token.ADD {
					addD(x, true)
				}
			case *ssa.Convert:
				add(x)
			case *ssa.ChangeType:
				add(x)
			case *ssa.MakeInterface:
				add(x)
			case *ssa.ChangeInterface:
				add(x)
			case *ssa.Slice:
				add(x)
			case *ssa.Extract:
				add(x)
			case *ssa.Index:
				if x.X == v {
					add(x)
				}
			case *ssa.IndexAddr:
				if x.X == v {
					add(x)
				}
			case *ssa.UnOp:
				if x.Op == token.MUL && x.X == v {
					if al, ok := v.(*ssa.Alloc); ok && al.Parent() == fn {
						if allocTaintedAt(al, taintedStores[al], x) {
							add(x)
						}
					} else {
						add(x) // load through a tainted address
					}
				}
			case *ssa.Store:
				if x.Val == v {
					switch a := x.Addr.(type) {
					case *ssa.Alloc:
						taintedStores[a] = append(taintedStores[a], x)
						// re-process the alloc so that loads/closures see the new store
						tainted[a] = true
						if cur {
							derived[a] = true
						}
						work = append(work, a)
					case *ssa.IndexAddr:
						// element of a local array/slice (variadic packs)
						add(a.X)
					}
				}
			case *ssa.MakeClosure:
				// v is a binding (usually an alloc): taint the matching free variable inside the closure
				cf := x.Fn.(*ssa.Function)
				for i, b := range x.Bindings {
					if b == v && i < len(cf.FreeVars) {
						if al, ok := v.(*ssa.Alloc); ok && al.Parent() == fn && !allocTaintedAt(al, taintedStores[al], x) {
							continue
						}
						if depth > 0 {
							sr := r.analyseD(cf, []ssa.Value{cf.FreeVars[i]}, []bool{derived[v]}, depth, append(chain, ssaFuncName(cf)))
							merge(sr)
						}
					}
				}
			case *ssa.Lookup:
				if x.Index == v && r.cfg.MapIndexIsSink {
					if _, isMap := x.X.Type().Underlying().(*types.Map); isMap {
						res.Hits = append(res.Hits, TaintHit{Pos: x.Pos(), Desc: "used as a map key", Chain: append([]string(nil), chain...)})
					}
				}
				if x.X == v {
					add(x)
				}
			case *ssa.MapUpdate:
				if x.Key == v && r.cfg.MapIndexIsSink {
					res.Hits = append(res.Hits, TaintHit{Pos: x.Pos(), Desc: "used as a map key in an update", Chain: append([]string(nil), chain...)})
				}
			case *ssa.Return:
				res.ResultTainted = true
				if derived[v] {
					res.ResultDerived = true
				}
			case *ssa.Call:
				handleCall(x, &x.Call, x, v)
			case *ssa.Defer:
				handleCall(x, &x.Call, nil, v)
			case *ssa.Go:
				handleCall(x, &x.Call, nil, v)
			}
		}
	}
	return res
}

func isModulePkg(p *types.Package) bool {
	return p != nil && len(p.Path()) >= len(modPath) && p.Path()[:len(modPath)] == modPath
}

func (h TaintHit) String() string {
	return fmt.Sprintf("%s via %v", h.Desc, h.Chain)
}

// allocTaintedAt reports whether, at instruction `at`, the local variable al may still hold a value
// written by one of the tainted stores: some tainted store reaches `at` without an intervening store
// of another (clean) value into al.
func allocTaintedAt(al *ssa.Alloc, tstores []*ssa.Store, at ssa.Instruction) bool {
	if len(tstores) == 0 {
		return false
	}
	isT := map[ssa.Instruction]bool{}
	for _, s := range tstores {
		isT[s] = true
	}
	kills := map[ssa.Instruction]bool{}
	if refs := al.Referrers(); refs != nil {
		for _, r := range *refs {
			if st, ok := r.(*ssa.Store); ok && st.Addr == al && !isT[st] {
				kills[st] = true
			}
		}
	}
	for _, s := range tstores {
		if instrReachesAvoiding(s, at, kills) {
			return true
		}
	}
	return false
}

// instrReachesAvoiding: is there a path from just after `from` to `to` executing no kill instruction?
func instrReachesAvoiding(from, to ssa.Instruction, kills map[ssa.Instruction]bool) bool {
	if from.Parent() != to.Parent() {
		return true // conservative
	}
	scan := func(b *ssa.BasicBlock, start int) (reached, killed bool) {
		for i := start; i < len(b.Instrs); i++ {
			ins := b.Instrs[i]
			if ins == to {
				return true, false
			}
			if kills[ins] {
				return false, true
			}
		}
		return false, false
	}
	fb := from.Block()
	start := 0
	for i, ins := range fb.Instrs {
		if ins == from {
			start = i + 1
		}
	}
	if reached, killed := scan(fb, start); reached {
		return true
	} else if killed {
		return false
	}
	seen := map[*ssa.BasicBlock]bool{}
	work := append([]*ssa.BasicBlock(nil), fb.Succs...)
	for len(work) > 0 {
		b := work[len(work)-1]
		work = work[:len(work)-1]
		if seen[b] {
			continue
		}
		seen[b] = true
		reached, killed := scan(b, 0)
		if reached {
			return true
		}
		if killed {
			continue
		}
		work = append(work, b.Succs...)
	}
	return false
}
