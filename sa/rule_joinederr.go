package main

import (
	"fmt"
	"go/token"

	"golang.org/x/tools/go/packages"
	"golang.org/x/tools/go/ssa"
)

// ruleJoinedErrWhole (PARALLEL-ERR-WHOLE; C15 and C09, after round-4 seed C09-l): thread.Parallelize returns the join
// of every failed job's error; with cancel-on-failure the join also holds the context.Canceled of the jobs that were
// never started. errors.Is / errors.As on such a value answers "does ANY member match", so using it to decide that the
// error may be dropped ("it is only a cancellation") drops the real write failure that caused the cancellation: the
// copy reports success with files missing, and the cache marker is written over an incomplete module. For every call
// of thread.Parallelize the rule demands that (a) its error reaches a return of the calling function, and (b) no
// errors.Is / errors.As is applied to it (or to a value derived from it) in that function.
func ruleJoinedErrWhole(c *Ctx, rule string, pkgs []*packages.Package, min int) {
	c.Rule(rule, "the joined error of thread.Parallelize is returned whole, never classified by one of its members", min)
	p := c.P
	for _, sf := range p.SSAFuncsOf(pkgs) {
		for _, f := range allSSAFuncs(sf) {
			k := 0
			for _, call := range callsIn(f) {
				o := staticCalleeObj(call.Call)
				if o == nil || !isFuncNamed(o, "private/pkg/thread", "", "Parallelize") {
					continue
				}
				e, ok := call.Instr.(ssa.Value)
				if !ok {
					k++
					c.Ob(rule, fmt.Sprintf("%s/parallelize#%d", ssaFuncName(f), k), call.Pos(), false, true, "the error of thread.Parallelize is discarded (go/defer)")
					continue
				}
				k++
				returned := false
				for _, r := range returnsOf(f) {
					for _, res := range r.Results {
						if dependsOnValue(spilledResult(r, res), e) {
							returned = true
						}
					}
				}
				classified := ""
				for _, other := range callsIn(f) {
					oo := staticCalleeObj(other.Call)
					if oo == nil || oo.Pkg() == nil || oo.Pkg().Path() != "errors" || (oo.Name() != "Is" && oo.Name() != "As") || len(other.Call.Args) == 0 {
						continue
					}
					if dependsOnValue(other.Call.Args[0], e) {
						classified = p.Pos(other.Pos())
					}
				}
				c.Ob(rule, fmt.Sprintf("%s/parallelize#%d", ssaFuncName(f), k), call.Pos(), returned && classified == "", true,
					"the joined error reaches a return of the caller: %v; errors.Is/As applied to it: %q", returned, classified)
			}
		}
	}
	_ = token.NoPos
}
