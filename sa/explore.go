package main

import (
	"fmt"
	"os"
	"sort"
)

// cmdExplore prints raw rule inputs for triage while developing the tables.
var exploreExtra = map[string]func(p *Prog){}

func cmdExplore(args []string) int {
	p, err := LoadProg(nil, "")
	if err != nil {
		fmt.Println(err)
		return 2
	}
	if f, ok := exploreExtra[args[0]]; ok {
		f(p)
		return 0
	}
	switch args[0] {
	case "errs":
		var lines []string
		total := 0
		for _, f := range p.SSAFuncsOf(p.ModulePkgs()) {
			sites, n := unconsumedErrors(f)
			total += n
			for _, s := range sites {
				lines = append(lines, fmt.Sprintf("%s\t%s\t%s\t%s", p.Pos(s.Pos), s.Kind, s.Callee, ssaFuncName(s.Fn)))
			}
		}
		sort.Strings(lines)
		for _, l := range lines {
			fmt.Println(l)
		}
		fmt.Fprintln(os.Stderr, "total error-returning calls:", total, "unconsumed:", len(lines))
	case "close":
		for _, pk := range p.ModulePkgs() {
			for _, a := range findAcquisitions(p, pk) {
				ok, why := closeStatus(p, a)
				fn := ""
				if fd := p.EnclosingFuncDecl(a.Assign); fd != nil {
					fn = declName(fd)
				}
				fmt.Printf("%s\t%s.%s\t%s\t%v\t%s\n", p.Pos(a.Assign.Pos()), relPkg(pk.PkgPath), fn, funcIDFull(a.Callee), ok, why)
			}
		}
	case "maporder":
		for _, pk := range p.ModulePkgs() {
			for _, l := range findMapLoops(p, pk) {
				classifyLoop(p, l, nil)
				v, bad := l.verdict()
				extra := ""
				if v == "append" {
					for _, e := range l.Effects {
						if e.Kind == "append" && e.Obj != nil {
							ok, why := sortedBeforeUse(p, l, e.Obj, nil)
							extra += fmt.Sprintf(" [%s sorted=%v: %s]", e.Obj.Name(), ok, why)
						}
					}
				}
				fmt.Printf("%s\t%s\t%s\t%s\t%s%s\n", p.Pos(l.Range.Pos()), v, l.Key, effectSummary(l.Effects), effectSummary(bad), extra)
			}
		}
	case "swallow":
		for _, pk := range p.ModulePkgs() {
			for _, s := range findSwallows(p, pk) {
				fmt.Printf("%s\t%s\tclassified=%v\t%s\t%s\n", p.Pos(s.Ret.Pos()), s.Fn, s.Classified, s.ErrVar, short(exprString(s.If.Cond), 60))
			}
		}
	}
	return 0
}

func init() {
	exploreExtra["cats"] = func(p *Prog) {
		t := extractCheckTables(p)
		for _, sn := range []string{"V1Beta1Spec", "V1Spec", "V2Spec"} {
			st := t.Specs[sn]
			cat := map[string]map[string]bool{}
			for _, r := range st.Rows {
				if r.Builder == nil {
					continue
				}
				for _, c := range r.Categories {
					if cat[c] == nil {
						cat[c] = map[string]bool{}
					}
					cat[c][r.Builder.ID] = true
				}
			}
			chain := []string{"FILE", "PACKAGE", "WIRE_JSON", "WIRE"}
			for i := 0; i+1 < len(chain); i++ {
				var only []string
				for id := range cat[chain[i+1]] {
					if !cat[chain[i]][id] {
						only = append(only, id)
					}
				}
				sort.Strings(only)
				fmt.Println(sn, chain[i+1], "not in", chain[i], only)
			}
			for _, ch := range [][]string{{"MINIMAL", "BASIC"}, {"BASIC", "STANDARD"}, {"BASIC", "DEFAULT"}, {"MINIMAL", "DEFAULT"}} {
				var only []string
				for id := range cat[ch[0]] {
					if !cat[ch[1]][id] {
						only = append(only, id)
					}
				}
				fmt.Println(sn, ch[0], "not in", ch[1], only)
			}
			fmt.Println(sn, "categories:", sortedKeys(cat))
		}
	}
}

func init() {
	exploreExtra["fieldcov"] = func(p *Prog) {
		pk := p.Pkg("private/bufpkg/bufconfig")
		reads, writes := structFieldUses(p, pk, func(tn string) bool { return len(tn) > 8 && tn[:8] == "external" })
		types := map[string]bool{}
		for k := range reads {
			types[k[:indexByte(k, '.')]] = true
		}
		for k := range writes {
			types[k[:indexByte(k, '.')]] = true
		}
		for _, f := range allStructFields(pk, func(tn string) bool { return len(tn) > 8 && tn[:8] == "external" }) {
			fmt.Printf("%-70s reads=%d writes=%d\n", f, reads[f], writes[f])
		}
	}
}

func indexByte(s string, b byte) int {
	for i := 0; i < len(s); i++ {
		if s[i] == b {
			return i
		}
	}
	return len(s)
}

func init() {
	exploreExtra["accessorcov"] = func(p *Prog) {
		pk := p.Pkg("private/bufpkg/bufconfig")
		for _, u := range uncalledAccessors(p, pk, []string{"writeBufYAMLFile", "writeBufLockFile", "writeBufGenYAMLFile", "writeBufWorkYAMLFile"}) {
			fmt.Println(u)
		}
	}
}
