package main

import (
	"fmt"
	"os"
	"sort"
)

// cmdExplore prints raw rule inputs for triage while developing the tables.
func cmdExplore(args []string) int {
	p, err := LoadProg(nil, "")
	if err != nil {
		fmt.Println(err)
		return 2
	}
	switch args[0] {
	case "errs":
		var lines []string
		total := 0
		for _, f := range p.SSAFuncsOf(p.ModulePkgs()) {
			sites, n := unconsumedErrors(f)
			total += n
			for _, s := range sites {
				lines = append(lines, fmt.Sprintf("%s\t%s\t%s\t%s", p.Pos(s.Pos), s.Kind, s.Callee, ssaFuncName(s.Fn)))
			}
		}
		sort.Strings(lines)
		for _, l := range lines {
			fmt.Println(l)
		}
		fmt.Fprintln(os.Stderr, "total error-returning calls:", total, "unconsumed:", len(lines))
	case "close":
		for _, pk := range p.ModulePkgs() {
			for _, a := range findAcquisitions(p, pk) {
				ok, why := closeStatus(p, a)
				fn := ""
				if fd := p.EnclosingFuncDecl(a.Assign); fd != nil {
					fn = declName(fd)
				}
				fmt.Printf("%s\t%s.%s\t%s\t%v\t%s\n", p.Pos(a.Assign.Pos()), relPkg(pk.PkgPath), fn, funcIDFull(a.Callee), ok, why)
			}
		}
	case "maporder":
		for _, pk := range p.ModulePkgs() {
			for _, l := range findMapLoops(p, pk) {
				classifyLoop(p, l, nil)
				v, bad := l.verdict()
				extra := ""
				if v == "append" {
					for _, e := range l.Effects {
						if e.Kind == "append" && e.Obj != nil {
							ok, why := sortedBeforeUse(p, l, e.Obj, nil)
							extra += fmt.Sprintf(" [%s sorted=%v: %s]", e.Obj.Name(), ok, why)
						}
					}
				}
				fmt.Printf("%s\t%s\t%s\t%s\t%s%s\n", p.Pos(l.Range.Pos()), v, l.Key, effectSummary(l.Effects), effectSummary(bad), extra)
			}
		}
	case "swallow":
		for _, pk := range p.ModulePkgs() {
			for _, s := range findSwallows(p, pk) {
				fmt.Printf("%s\t%s\tclassified=%v\t%s\t%s\n", p.Pos(s.Ret.Pos()), s.Fn, s.Classified, s.ErrVar, short(exprString(s.If.Cond), 60))
			}
		}
	}
	return 0
}
