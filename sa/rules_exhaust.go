package main

// R-EXHAUST (P8): enum-typed switches and enum-keyed map literals cover every constant of the type.

import (
	"go/ast"
	"go/constant"
	"go/types"
	"sort"

	"golang.org/x/tools/go/packages"
)

// enumConstants returns the package-level constants whose type is exactly the named type t
// (declared in t's package), by name, de-duplicated by value.
func enumConstants(t types.Type) map[string]constant.Value {
	nt, ok := types.Unalias(t).(*types.Named)
	if !ok || nt.Obj().Pkg() == nil {
		return nil
	}
	if _, isBasic := nt.Underlying().(*types.Basic); !isBasic {
		return nil
	}
	out := map[string]constant.Value{}
	scope := nt.Obj().Pkg().Scope()
	for _, name := range scope.Names() {
		c, ok := scope.Lookup(name).(*types.Const)
		if !ok || !types.Identical(c.Type(), nt) {
			continue
		}
		out[name] = c.Val()
	}
	if len(out) < 2 {
		return nil
	}
	return out
}

type enumSwitch struct {
	Pkg        *packages.Package
	Switch     *ast.SwitchStmt
	Type       types.Type
	Missing    []string
	HasDefault bool
	DefaultErr bool // default clause returns / records something (non-empty body)
	Fn         string
}

// findEnumSwitches lists switches whose tag has an enum type.
func findEnumSwitches(p *Prog, pk *packages.Package) []enumSwitch {
	var out []enumSwitch
	info := pk.TypesInfo
	for _, f := range pk.Syntax {
		if isGenerated(f) {
			continue
		}
		ast.Inspect(f, func(n ast.Node) bool {
			sw, ok := n.(*ast.SwitchStmt)
			if !ok || sw.Tag == nil {
				return true
			}
			t := info.TypeOf(sw.Tag)
			consts := enumConstants(t)
			if consts == nil {
				return true
			}
			covered := map[string]bool{} // by value
			es := enumSwitch{Pkg: pk, Switch: sw, Type: t}
			for _, cl := range sw.Body.List {
				cc := cl.(*ast.CaseClause)
				if cc.List == nil {
					es.HasDefault = true
					es.DefaultErr = len(cc.Body) > 0
					continue
				}
				for _, e := range cc.List {
					if tv, ok := info.Types[e]; ok && tv.Value != nil {
						covered[tv.Value.ExactString()] = true
					}
				}
			}
			seenVal := map[string]bool{}
			for _, name := range sortedKeysConst(consts) {
				v := consts[name].ExactString()
				if covered[v] || seenVal[v] {
					seenVal[v] = true
					continue
				}
				seenVal[v] = true
				es.Missing = append(es.Missing, name)
			}
			if fd := p.EnclosingFuncDecl(sw); fd != nil {
				es.Fn = relPkg(pk.PkgPath) + "." + declName(fd)
			}
			out = append(out, es)
			return true
		})
	}
	return out
}

func sortedKeysConst(m map[string]constant.Value) []string {
	out := make([]string, 0, len(m))
	for k := range m {
		out = append(out, k)
	}
	sort.Strings(out)
	return out
}

// mapLiteralMissingKeys: for a map composite literal keyed by an enum type, the constants without a key.
func mapLiteralMissingKeys(info *types.Info, cl *ast.CompositeLit) (missing []string, total int, ok bool) {
	mt, isMap := info.TypeOf(cl).Underlying().(*types.Map)
	if !isMap {
		return nil, 0, false
	}
	consts := enumConstants(mt.Key())
	if consts == nil {
		return nil, 0, false
	}
	covered := map[string]bool{}
	for _, el := range cl.Elts {
		if kv, isKV := el.(*ast.KeyValueExpr); isKV {
			if tv, has := info.Types[kv.Key]; has && tv.Value != nil {
				covered[tv.Value.ExactString()] = true
			}
		}
	}
	seen := map[string]bool{}
	for _, name := range sortedKeysConst(consts) {
		v := consts[name].ExactString()
		if seen[v] {
			continue
		}
		seen[v] = true
		total++
		if !covered[v] {
			missing = append(missing, name)
		}
	}
	return missing, total, true
}

// pkgVarLiteral returns the composite literal initialising a package-level variable.
func pkgVarLiteral(pk *packages.Package, name string) *ast.CompositeLit {
	for _, f := range pk.Syntax {
		for _, d := range f.Decls {
			gd, ok := d.(*ast.GenDecl)
			if !ok {
				continue
			}
			for _, sp := range gd.Specs {
				vs, ok := sp.(*ast.ValueSpec)
				if !ok {
					continue
				}
				for i, nm := range vs.Names {
					if nm.Name == name && i < len(vs.Values) {
						switch v := vs.Values[i].(type) {
						case *ast.CompositeLit:
							return v
						case *ast.UnaryExpr:
							if cl, ok := v.X.(*ast.CompositeLit); ok {
								return cl
							}
						}
					}
				}
			}
		}
	}
	return nil
}
