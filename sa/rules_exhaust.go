package main

// R-EXHAUST (P8): enum-typed switches and enum-keyed map literals cover every constant of the type.

import (
	"fmt"
	"go/ast"
	"go/constant"
	"go/token"
	"go/types"
	"sort"

	"golang.org/x/tools/go/packages"
	"golang.org/x/tools/go/types/typeutil"
)

// enumConstants returns the package-level constants whose type is exactly the named type t
// (declared in t's package), by name, de-duplicated by value.
func enumConstants(t types.Type) map[string]constant.Value {
	nt, ok := types.Unalias(t).(*types.Named)
	if !ok || nt.Obj().Pkg() == nil {
		return nil
	}
	if _, isBasic := nt.Underlying().(*types.Basic); !isBasic {
		return nil
	}
	out := map[string]constant.Value{}
	scope := nt.Obj().Pkg().Scope()
	for _, name := range scope.Names() {
		c, ok := scope.Lookup(name).(*types.Const)
		if !ok || !types.Identical(c.Type(), nt) {
			continue
		}
		out[name] = c.Val()
	}
	if len(out) < 2 {
		return nil
	}
	return out
}

type enumSwitch struct {
	Pkg        *packages.Package
	Switch     *ast.SwitchStmt
	Type       types.Type
	Missing    []string
	HasDefault bool
	DefaultErr bool // default clause returns / records something (non-empty body)
	Fn         string
}

// findEnumSwitches lists switches whose tag has an enum type.
func findEnumSwitches(p *Prog, pk *packages.Package) []enumSwitch {
	var out []enumSwitch
	info := pk.TypesInfo
	for _, f := range pk.Syntax {
		if isGenerated(f) {
			continue
		}
		ast.Inspect(f, func(n ast.Node) bool {
			sw, ok := n.(*ast.SwitchStmt)
			if !ok || sw.Tag == nil {
				return true
			}
			t := info.TypeOf(sw.Tag)
			consts := enumConstants(t)
			if consts == nil {
				return true
			}
			covered := map[string]bool{} // by value
			es := enumSwitch{Pkg: pk, Switch: sw, Type: t}
			for _, cl := range sw.Body.List {
				cc := cl.(*ast.CaseClause)
				if cc.List == nil {
					es.HasDefault = true
					es.DefaultErr = len(cc.Body) > 0
					continue
				}
				for _, e := range cc.List {
					if tv, ok := info.Types[e]; ok && tv.Value != nil {
						covered[tv.Value.ExactString()] = true
					}
				}
			}
			seenVal := map[string]bool{}
			for _, name := range sortedKeysConst(consts) {
				v := consts[name].ExactString()
				if covered[v] || seenVal[v] {
					seenVal[v] = true
					continue
				}
				seenVal[v] = true
				es.Missing = append(es.Missing, name)
			}
			if fd := p.EnclosingFuncDecl(sw); fd != nil {
				es.Fn = relPkg(pk.PkgPath) + "." + declName(fd)
			}
			out = append(out, es)
			return true
		})
	}
	return out
}

func sortedKeysConst(m map[string]constant.Value) []string {
	out := make([]string, 0, len(m))
	for k := range m {
		out = append(out, k)
	}
	sort.Strings(out)
	return out
}

// mapLiteralMissingKeys: for a map composite literal keyed by an enum type, the constants without a key.
func mapLiteralMissingKeys(info *types.Info, cl *ast.CompositeLit) (missing []string, total int, ok bool) {
	mt, isMap := info.TypeOf(cl).Underlying().(*types.Map)
	if !isMap {
		return nil, 0, false
	}
	consts := enumConstants(mt.Key())
	if consts == nil {
		return nil, 0, false
	}
	covered := map[string]bool{}
	for _, el := range cl.Elts {
		if kv, isKV := el.(*ast.KeyValueExpr); isKV {
			if tv, has := info.Types[kv.Key]; has && tv.Value != nil {
				covered[tv.Value.ExactString()] = true
			}
		}
	}
	seen := map[string]bool{}
	for _, name := range sortedKeysConst(consts) {
		v := consts[name].ExactString()
		if seen[v] {
			continue
		}
		seen[v] = true
		total++
		if !covered[v] {
			missing = append(missing, name)
		}
	}
	return missing, total, true
}

// pkgVarLiteral returns the composite literal initialising a package-level variable.
func pkgVarLiteral(pk *packages.Package, name string) *ast.CompositeLit {
	for _, f := range pk.Syntax {
		for _, d := range f.Decls {
			gd, ok := d.(*ast.GenDecl)
			if !ok {
				continue
			}
			for _, sp := range gd.Specs {
				vs, ok := sp.(*ast.ValueSpec)
				if !ok {
					continue
				}
				for i, nm := range vs.Names {
					if nm.Name == name && i < len(vs.Values) {
						switch v := vs.Values[i].(type) {
						case *ast.CompositeLit:
							return v
						case *ast.UnaryExpr:
							if cl, ok := v.X.(*ast.CompositeLit); ok {
								return cl
							}
						case *ast.CallExpr:
							// a table computed from lists of groups: read as the literal it is equivalent to
							if cl := groupTableAsLiteral(pk, v); cl != nil {
								return cl
							}
						}
					}
				}
			}
		}
	}
	return nil
}

// groupTableAsLiteral reads `newTable(group1, group2, …)` / `newTable(listOfGroups)` as the map literal it computes,
// when the constructor is the plain "every member of the i-th list maps to i+c" loop: for i, g := range groups { for _,
// k := range g { m[k] = i + c } }. The lists must be literals (inline, or one package-level [][]T literal). The
// synthesized literal has the members as keys (the original expressions, so their constant values are known) and the
// group numbers as values (recorded in the package's type information so that readers find a constant).
func groupTableAsLiteral(pk *packages.Package, call *ast.CallExpr) *ast.CompositeLit {
	info := pk.TypesInfo
	fn := typeutil.StaticCallee(info, call)
	if fn == nil || fn.Pkg() != pk.Types {
		return nil
	}
	var decl *ast.FuncDecl
	for _, f := range pk.Syntax {
		for _, d := range f.Decls {
			if fd, ok := d.(*ast.FuncDecl); ok && info.Defs[fd.Name] == types.Object(fn) {
				decl = fd
			}
		}
	}
	if decl == nil || decl.Body == nil || decl.Type.Params == nil || decl.Type.Params.NumFields() != 1 {
		return nil
	}
	// the shape of the constructor
	offset, shapeOK := int64(0), false
	for _, st := range decl.Body.List {
		outer, ok := st.(*ast.RangeStmt)
		if !ok || outer.Key == nil || outer.Value == nil || len(outer.Body.List) != 1 {
			continue
		}
		inner, ok := outer.Body.List[0].(*ast.RangeStmt)
		if !ok || inner.Value == nil || len(inner.Body.List) != 1 || identObj(info, inner.X) != identObj(info, outer.Value) {
			continue
		}
		as, ok := inner.Body.List[0].(*ast.AssignStmt)
		if !ok || len(as.Lhs) != 1 || len(as.Rhs) != 1 {
			continue
		}
		ix, ok := as.Lhs[0].(*ast.IndexExpr)
		if !ok || identObj(info, ix.Index) != identObj(info, inner.Value) {
			continue
		}
		switch rhs := ast.Unparen(as.Rhs[0]).(type) {
		case *ast.Ident:
			if identObj(info, rhs) == identObj(info, outer.Key) {
				shapeOK = true
			}
		case *ast.BinaryExpr:
			if rhs.Op == token.ADD && identObj(info, rhs.X) == identObj(info, outer.Key) {
				if tv, ok := info.Types[rhs.Y]; ok && tv.Value != nil {
					if n, exact := constant.Int64Val(tv.Value); exact {
						offset, shapeOK = n, true
					}
				}
			}
		}
	}
	if !shapeOK {
		return nil
	}
	// the groups
	var groups []*ast.CompositeLit
	asGroup := func(e ast.Expr) *ast.CompositeLit {
		cl, _ := ast.Unparen(e).(*ast.CompositeLit)
		return cl
	}
	if len(call.Args) == 1 {
		if id, ok := ast.Unparen(call.Args[0]).(*ast.Ident); ok {
			if outer := pkgVarLiteral(pk, id.Name); outer != nil {
				for _, el := range outer.Elts {
					g := asGroup(el)
					if g == nil {
						return nil
					}
					groups = append(groups, g)
				}
			}
		}
	}
	if groups == nil {
		for _, a := range call.Args {
			g := asGroup(a)
			if g == nil {
				return nil
			}
			groups = append(groups, g)
		}
	}
	if len(groups) == 0 {
		return nil
	}
	out := &ast.CompositeLit{Lbrace: call.Pos(), Rbrace: call.End()}
	if tv, ok := info.Types[call]; ok {
		info.Types[out] = types.TypeAndValue{Type: tv.Type}
	}
	for i, g := range groups {
		for _, member := range g.Elts {
			if tv, ok := info.Types[member]; !ok || tv.Value == nil {
				return nil
			}
			val := &ast.BasicLit{ValuePos: member.Pos(), Kind: token.INT, Value: fmt.Sprint(int64(i) + offset)}
			info.Types[val] = types.TypeAndValue{Type: types.Typ[types.Int], Value: constant.MakeInt64(int64(i) + offset)}
			out.Elts = append(out.Elts, &ast.KeyValueExpr{Key: member, Value: val})
		}
	}
	return out
}
