package main

import (
	"fmt"
	"go/token"
	"go/types"

	"golang.org/x/tools/go/packages"
	"golang.org/x/tools/go/ssa"
)

// c01RetargetIndependent (RETARGET-FRESH; C01, after round-4 seed C01-k): "for every choice of target modules" includes
// choices made one after the other: re-targeting a module set must give each module exactly the target state the new
// choice says, whatever it was before (buf lint/breaking re-target the set once per module). Where a copy of a module
// is made with a new boolean state - a call of an unexported method of the module interface that takes a single bool
// and returns (Module, error) - the argument must not depend on the same module's current state (no accessor of the
// module that returns bool feeds it): `module.IsTarget() && listed` can only ever narrow the targets.
func c01RetargetIndependent(c *Ctx, pk *packages.Package) {
	const rule = "RETARGET-FRESH"
	c.Rule(rule, "the target state given to a re-targeted module does not depend on its previous target state", 1)
	p := c.P
	n := 0
	for _, sf := range p.SSAFuncsOf([]*packages.Package{pk}) {
		for _, f := range allSSAFuncs(sf) {
			k := 0
			for _, call := range callsIn(f) {
				if !call.Call.IsInvoke() || call.Call.Method.Exported() || len(call.Call.Args) != 1 {
					continue
				}
				sig := call.Call.Method.Type().(*types.Signature)
				if sig.Params().Len() != 1 || sig.Results().Len() != 2 || !isErrorType(sig.Results().At(1).Type()) {
					continue
				}
				if b, ok := sig.Params().At(0).Type().Underlying().(*types.Basic); !ok || b.Kind() != types.Bool {
					continue
				}
				if !types.Identical(sig.Results().At(0).Type(), call.Call.Value.Type()) {
					continue // not "a copy of the same kind of thing"
				}
				n++
				k++
				self := call.Call.Value
				var prev []string
				sliceBack(call.Call.Args[0], func(x ssa.Value) bool {
					if cl, ok := x.(*ssa.Call); ok && cl.Call.IsInvoke() && len(cl.Call.Args) == 0 && sameSSAExpr(cl.Call.Value, self, 3) {
						if rb, ok := cl.Type().Underlying().(*types.Basic); ok && rb.Kind() == types.Bool {
							prev = append(prev, cl.Call.Method.Name())
						}
					}
					return true
				})
				c.Ob(rule, fmt.Sprintf("%s/%s#%d", ssaFuncName(f), call.Call.Method.Name(), k), call.Pos(), len(prev) == 0, true,
					"the new state passed to %s is computed without consulting the module's own boolean accessors; consulted: %v", call.Call.Method.Name(), prev)
			}
		}
	}
	if n == 0 {
		c.Fail(rule, "anchor", token.NoPos, "no call of a with-bool copy method of the module interface found")
	}
}
