package main

import (
	"fmt"
	"go/token"
	"go/types"
	"strings"

	"golang.org/x/tools/go/packages"
	"golang.org/x/tools/go/ssa"
)

// c10AddNotTargetGated (ADD-NOT-TARGET-GATED; C10, after round-5 seed C10-b): "files of non-target modules enter images
// only as imports" - they do enter. A workspace module that is not targeted still has to resolve its imports, and in a
// v1 workspace its own buf.lock is where the modules it depends on are pinned. Targeting therefore decides how a
// module is flagged (an argument of AddLocalModule), never whether a module or a pin is added: in bufworkspace no
// call of ModuleSetBuilder.AddLocalModule/AddRemoteModule is control-dependent on a condition that reads a targeting
// member (isTargetModule, isTentativelyTargetModule).
func c10AddNotTargetGated(c *Ctx) {
	const rule = "ADD-NOT-TARGET-GATED"
	c.Rule(rule, "modules and buf.lock pins are added to the module set whether or not their module is targeted", 2)
	p := c.P
	pk := p.Pkg("private/buf/bufworkspace")
	if pk == nil {
		c.Fail(rule, "anchor", token.NoPos, "bufworkspace not found")
		return
	}
	n := 0
	for _, sf := range p.SSAFuncsOf([]*packages.Package{pk}) {
		for _, f := range allSSAFuncs(sf) {
			k := 0
			for _, call := range callsIn(f) {
				if !call.Call.IsInvoke() || !strings.HasSuffix(namedPath(call.Call.Value.Type()), "bufmodule.ModuleSetBuilder") {
					continue
				}
				m := call.Call.Method.Name()
				if m != "AddLocalModule" && m != "AddRemoteModule" {
					continue
				}
				n++
				k++
				var gates []string
				for _, ge := range guardingEdges(call.Instr.Block()) {
					sliceBack(ge.If.Cond, func(x ssa.Value) bool {
						var fn string
						switch t := x.(type) {
						case *ssa.FieldAddr:
							if pt, ok := t.Type().Underlying().(*types.Pointer); ok && isBoolType(pt.Elem()) {
								fn = fieldName(t.X.Type(), t.Field)
							}
						case *ssa.Field:
							if isBoolType(t.Type()) {
								fn = fieldName(t.X.Type(), t.Field)
							}
						}
						if i := strings.LastIndex(fn, "."); i >= 0 && strings.Contains(strings.ToLower(fn[i:]), "target") {
							gates = append(gates, fn)
						}
						return true
					})
				}
				gates = uniq(gates)
				c.Ob(rule, fmt.Sprintf("%s/%s#%d", ssaFuncName(f), m, k), call.Pos(), len(gates) == 0, true, "%s is reached whatever the targeting says (targeting members its guards read: %v)", m, gates)
			}
		}
	}
	if n == 0 {
		c.Fail(rule, "anchor", token.NoPos, "no ModuleSetBuilder.Add*Module call found in bufworkspace")
	}
}

func isBoolType(t types.Type) bool {
	b, ok := t.Underlying().(*types.Basic)
	return ok && b.Info()&types.IsBoolean != 0
}
