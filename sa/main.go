package main

import (
	"encoding/json"
	"flag"
	"fmt"
	"os"
	"runtime/debug"
	"sort"
	"time"
)

// propCheck is one property's checker: it records obligations into the context.
type propCheck struct {
	ID          string
	Explanation string
	Assumptions []string
	Run         func(c *Ctx)
}

var registry = map[string]*propCheck{}

func register(pc *propCheck) { registry[pc.ID] = pc }

func usage() {
	fmt.Fprintln(os.Stderr, "usage: bufsa check -property Cxx [-tier quick|thorough] [-replay file] | bufsa selftest | bufsa list")
	os.Exit(2)
}

func main() {
	if len(os.Args) < 2 {
		usage()
	}
	switch os.Args[1] {
	case "check":
		os.Exit(cmdCheck(os.Args[2:]))
	case "selftest":
		os.Exit(cmdSelftest(os.Args[2:]))
	case "overlay":
		os.Exit(cmdOverlay(os.Args[2:]))
	case "explore":
		os.Exit(cmdExplore(os.Args[2:]))
	case "list":
		var ids []string
		for id := range registry {
			ids = append(ids, id)
		}
		sort.Strings(ids)
		for _, id := range ids {
			fmt.Println(id)
		}
	default:
		usage()
	}
}

func cmdCheck(args []string) int {
	fs := flag.NewFlagSet("check", flag.ExitOnError)
	prop := fs.String("property", "", "property id")
	tier := fs.String("tier", "quick", "quick|thorough")
	replay := fs.String("replay", "", "replay file")
	repo := fs.String("repo", "/repo", "repository root")
	verif := fs.String("verif", "/verif", "verif root")
	_ = fs.Parse(args)
	repoDir, verifDir = *repo, *verif
	var rp *replayFile
	if *replay != "" {
		b, err := os.ReadFile(*replay)
		if err != nil {
			fmt.Printf("cannot read replay file: %v\n", err)
			return 2
		}
		rp = &replayFile{}
		if err := json.Unmarshal(b, rp); err != nil {
			fmt.Printf("bad replay file: %v\n", err)
			return 2
		}
		if *prop == "" {
			*prop = rp.Property
		}
	}
	pc := registry[*prop]
	if pc == nil {
		fmt.Printf("unknown property %q\n", *prop)
		return 2
	}
	start := time.Now()
	p, err := LoadProg(nil, "")
	if err != nil {
		// undecided = failed
		fmt.Printf("load failed: %v\n", err)
		c := NewCtx(nil, *prop, *tier)
		c.Rule("LOAD", "the working tree loads and type-checks", 1)
		c.Obls = append(c.Obls, Obligation{Rule: "LOAD", Instance: "packages.Load", Pos: "-", OK: false, Msg: err.Error()})
		return c.Finish(start, pc.Explanation, pc.Assumptions, rp)
	}
	c := NewCtx(p, *prop, *tier)
	c.Rule("LOAD", "the working tree loads and type-checks with >= 250 module packages", 1)
	c.Ob("LOAD", "packages.Load", 0, len(p.Pkgs) >= 250, false, "%d module packages loaded", len(p.Pkgs))
	func() {
		defer func() {
			if r := recover(); r != nil {
				c.rules["PANIC"] = "the checker itself must not panic (undecided = failed)"
				c.Obls = append(c.Obls, Obligation{Rule: "PANIC", Instance: "checker", Pos: "-", OK: false, Msg: fmt.Sprint(r)})
				if os.Getenv("BUFSA_TRACE") != "" {
					debug.PrintStack()
				}
				if os.Getenv("BUFSA_DEBUG") != "" {
					panic(r)
				}
			}
		}()
		pc.Run(c)
		genericPack(c)
		if *tier == "thorough" && rp == nil {
			thoroughExtras(c, pc)
		}
	}()
	return c.Finish(start, pc.Explanation, pc.Assumptions, rp)
}
