package main

import (
	"go/token"
	"go/types"

	"golang.org/x/tools/go/packages"
	"golang.org/x/tools/go/ssa"
)

// twinParamUnused lists named parameters that the function never reads while another parameter of exactly the same
// type is read in two or more places: the copy-paste slip where the second of two parallel blocks still names the
// first block's variable.
//
//	if includeImportsOverride != nil { includeImports = *includeImportsOverride }
//	if includeImportsOverride != nil { includeWKT    = *includeImportsOverride }   // includeWKTOverride: unused
//
// Parameters named `_`, exported methods (which may have to match an interface), function-typed twins, context
// parameters and parameters of basic type (two strings side by side are not twins) are not considered.
func twinParamUnused(f *ssa.Function) []*ssa.Parameter {
	if len(f.Blocks) == 0 || f.Parent() != nil {
		return nil
	}
	if f.Signature.Recv() != nil && (f.Object() == nil || f.Object().Exported()) {
		return nil // an exported method may have to match an interface
	}
	uses := func(p *ssa.Parameter) int {
		n := 0
		if p.Referrers() == nil {
			return 0
		}
		for _, r := range *p.Referrers() {
			if _, dbg := r.(*ssa.DebugRef); !dbg {
				n++
			}
		}
		return n
	}
	var out []*ssa.Parameter
	for _, p := range f.Params {
		if p.Name() == "_" || p.Name() == "" || uses(p) != 0 {
			continue
		}
		if _, isFunc := p.Type().Underlying().(*types.Signature); isFunc {
			continue
		}
		if namedPath(p.Type()) == "context.Context" {
			continue
		}
		if _, isBasic := p.Type().Underlying().(*types.Basic); isBasic {
			continue // two strings or two ints next to each other say nothing about each other
		}
		for _, q := range f.Params {
			if q != p && types.Identical(q.Type(), p.Type()) && uses(q) >= 2 {
				out = append(out, p)
				break
			}
		}
	}
	return out
}

// ruleTwinParam (TWIN-PARAM-UNUSED): zero instances are expected.
func ruleTwinParam(c *Ctx, rule string, pkgs []*packages.Package) {
	c.Rule(rule, "no parameter goes unread while a same-typed sibling is read twice (copy-paste of the sibling's name)", 0)
	p := c.P
	n, fns := 0, 0
	for _, sf := range p.SSAFuncsOf(pkgs) {
		fns++
		for _, prm := range twinParamUnused(sf) {
			n++
			c.Ob(rule, ssaFuncName(sf)+"/"+prm.Name(), prm.Pos(), false, true, "parameter %s of %s is never read, while a sibling of the same type is read more than once", prm.Name(), ssaFuncName(sf))
		}
	}
	c.Ob(rule, "functions-scanned", token.NoPos, n == 0, fns > 0, "%d functions scanned, %d unread parameters with a twice-read twin", fns, n)
}
