package main

import (
	"go/ast"
	"go/token"
	"go/types"
	"strings"
)

// ruleOrderMatchesIdentity (ORDER-TOTAL; C02, after round-4 seed C02-k): annotations are de-duplicated by an identity
// key and then sorted by a comparator. The printed order is a function of the *set* of annotations only if the
// comparator distinguishes everything the identity key distinguishes: two annotations that survive de-duplication but
// compare equal keep their arrival order, which depends on goroutine scheduling and plugin order. Both functions are
// found by their signatures in bufanalysis (func(FileAnnotation) string; func(FileAnnotation, FileAnnotation) int);
// every accessor of FileAnnotation (and of what those accessors return) that the identity function calls must be
// called by the comparator too.
func ruleOrderMatchesIdentity(c *Ctx, rule string) {
	c.Rule(rule, "the annotation comparator reads every accessor the identity key reads (no two distinct annotations compare equal)", 1)
	p := c.P
	pk := p.Pkg("private/bufpkg/bufanalysis")
	if pk == nil {
		c.Fail(rule, "anchor", token.NoPos, "bufanalysis not found")
		return
	}
	isFA := func(t types.Type) bool { return strings.HasSuffix(namedPath(t), "bufanalysis.FileAnnotation") }
	var ident, cmp *FuncRef
	var identCands []*FuncRef
	for _, fr := range p.FuncsOf(pk) {
		sig, ok := fr.Obj.Type().(*types.Signature)
		if !ok || sig.Recv() != nil || sig.Results().Len() != 1 || fr.Decl.Body == nil {
			continue
		}
		rb, ok := sig.Results().At(0).Type().Underlying().(*types.Basic)
		if !ok {
			continue
		}
		switch {
		case sig.Params().Len() == 1 && isFA(sig.Params().At(0).Type()) && rb.Kind() == types.String:
			ident = fr
			identCands = append(identCands, fr)
		case sig.Params().Len() == 2 && isFA(sig.Params().At(0).Type()) && isFA(sig.Params().At(1).Type()) && rb.Kind() == types.Int:
			cmp = fr
		}
	}
	if ident == nil || cmp == nil {
		c.Fail(rule, "anchor", token.NoPos, "identity function (func(FileAnnotation) string) or comparator (func(FileAnnotation, FileAnnotation) int) not found in bufanalysis")
		return
	}
	var accessorsInto func(fr *FuncRef, out map[string]bool, depth int)
	accessors := func(fr *FuncRef) map[string]bool {
		out := map[string]bool{}
		accessorsInto(fr, out, 2)
		return out
	}
	accessorsInto = func(fr *FuncRef, out map[string]bool, depth int) {
		info := fr.Info()
		ast.Inspect(fr.Decl.Body, func(n ast.Node) bool {
			call, ok := n.(*ast.CallExpr)
			if !ok {
				return true
			}
			// a helper of the same package (the FileInfo step moved into its own function): its accessors count
			if fn := Callee(info, call); fn != nil && fn.Pkg() == pk.Types && depth > 0 && fn != fr.Obj {
				if hd := p.DeclOf(fn); hd != nil && hd.Decl.Body != nil && hd.Decl.Recv == nil {
					accessorsInto(hd, out, depth-1)
				}
			}
			if len(call.Args) != 0 {
				return true
			}
			sel, ok := call.Fun.(*ast.SelectorExpr)
			if !ok {
				return true
			}
			if s := info.Selections[sel]; s != nil && s.Kind() == types.MethodVal {
				if rp := namedPath(s.Recv()); strings.Contains(rp, "bufanalysis.") {
					out[sel.Sel.Name] = true
				}
			}
			return true
		})
	}
	// the identity key is the candidate that reads the most of an annotation (small display helpers share the signature)
	for _, cand := range identCands {
		if len(accessors(cand)) > len(accessors(ident)) {
			ident = cand
		}
	}
	ia, ca := accessors(ident), accessors(cmp)
	var missing []string
	for _, a := range sortedKeys(ia) {
		if !ca[a] {
			missing = append(missing, a)
		}
	}
	c.Ob(rule, "bufanalysis/comparator-covers-identity", cmp.Decl.Pos(), len(missing) == 0 && len(ia) >= 3, true,
		"%s reads %d accessors, %s reads %d; read by the identity key but not by the comparator: %v", ident.Decl.Name.Name, len(ia), cmp.Decl.Name.Name, len(ca), missing)
}
