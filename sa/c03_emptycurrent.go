package main

import (
	"go/ast"
	"go/token"
	"go/types"
)

// c03EmptyCurrent (EMPTY-CURRENT; C03, after round-4 seed C03-k): a helper of the breaking handlers that compares a
// previous-side input against a current-side one must not take "the current side is empty" as "nothing to report":
// that is exactly the case in which everything was deleted. The rule looks, in the handler packages, for
//
//	if len(x) == 0 { return <nil/zero results> }        (also x == nil, len(x) < 1)
//
// where x is a parameter that the origin labels (P9) say carries *current* data only, in a function that has another
// data parameter that is not current-only (previous, or a plain value such as the previous range's bounds) - so the
// function relates two sides and is not a transform of one input (`collapseRanges(ranges)` returning nil for no
// ranges is fine and has no second input). Zero instances are expected; the count of functions scanned is the floor.
func c03EmptyCurrent(c *Ctx, l *labeler) {
	const rule = "EMPTY-CURRENT"
	c.Rule(rule, "no comparison helper of the breaking handlers returns \"nothing\" merely because the current side is empty", 1)
	p := c.P
	scanned, hits := 0, 0
	for _, pk := range l.pkgs {
		for _, fr := range p.FuncsOf(pk) {
			if fr.Decl.Body == nil || fr.Decl.Type.Params == nil {
				continue
			}
			info := fr.Info()
			params := map[types.Object]bool{}
			var order []types.Object
			for _, fld := range fr.Decl.Type.Params.List {
				for _, nm := range fld.Names {
					if o := info.Defs[nm]; o != nil {
						params[o] = true
						order = append(order, o)
					}
				}
			}
			if len(order) < 2 {
				continue
			}
			scanned++
			ast.Inspect(fr.Decl.Body, func(n ast.Node) bool {
				if _, ok := n.(*ast.FuncLit); ok {
					return false
				}
				ifs, ok := n.(*ast.IfStmt)
				if !ok || ifs.Init != nil {
					return true
				}
				x := emptinessTestOf(ifs.Cond)
				if x == nil {
					return true
				}
				id, ok := ast.Unparen(x).(*ast.Ident)
				if !ok {
					return true
				}
				obj := info.Uses[id]
				if obj == nil || !params[obj] || l.lab[obj] != labCur {
					return true
				}
				// the then-branch is a bare return of nil/zero values
				if len(ifs.Body.List) != 1 {
					return true
				}
				ret, ok := ifs.Body.List[0].(*ast.ReturnStmt)
				if !ok {
					return true
				}
				for _, r := range ret.Results {
					if !isZeroLiteral(info, r) {
						return true
					}
				}
				// another data parameter that is not current-only
				other := ""
				for _, o := range order {
					if o == obj {
						continue
					}
					if _, isSig := o.Type().Underlying().(*types.Signature); isSig {
						continue
					}
					if tn := namedPath(o.Type()); tn == "context.Context" {
						continue
					}
					if l.lab[o] != labCur {
						other = o.Name() + " (" + labString(l.lab[o]) + ")"
						break
					}
				}
				if other == "" {
					return true
				}
				hits++
				c.Ob(rule, fr.ID()+"/empty-"+labString(l.lab[obj])+"-returns-nothing", ifs.Pos(), false, true,
					"`%s` is current-side data; when it is empty the function returns nothing although it also takes %s: a deletion of everything goes unreported", id.Name, other)
				return true
			})
		}
	}
	c.Ob(rule, "functions-scanned", token.NoPos, hits == 0, scanned > 0, "%d functions with two or more parameters scanned in the handler packages, %d early returns on an empty current side", scanned, hits)
}

// emptinessTestOf returns x for the conditions len(x) == 0, len(x) < 1, 0 == len(x), x == nil.
func emptinessTestOf(cond ast.Expr) ast.Expr {
	b, ok := ast.Unparen(cond).(*ast.BinaryExpr)
	if !ok {
		return nil
	}
	lenArg := func(e ast.Expr) ast.Expr {
		call, ok := ast.Unparen(e).(*ast.CallExpr)
		if !ok || len(call.Args) != 1 {
			return nil
		}
		if id, ok := call.Fun.(*ast.Ident); ok && id.Name == "len" {
			return call.Args[0]
		}
		return nil
	}
	isLit := func(e ast.Expr, v string) bool {
		bl, ok := ast.Unparen(e).(*ast.BasicLit)
		return ok && bl.Value == v
	}
	isNil := func(e ast.Expr) bool {
		id, ok := ast.Unparen(e).(*ast.Ident)
		return ok && id.Name == "nil"
	}
	switch b.Op {
	case token.EQL:
		if x := lenArg(b.X); x != nil && isLit(b.Y, "0") {
			return x
		}
		if x := lenArg(b.Y); x != nil && isLit(b.X, "0") {
			return x
		}
		if isNil(b.Y) {
			return b.X
		}
		if isNil(b.X) {
			return b.Y
		}
	case token.LSS:
		if x := lenArg(b.X); x != nil && isLit(b.Y, "1") {
			return x
		}
	case token.LEQ:
		if x := lenArg(b.X); x != nil && isLit(b.Y, "0") {
			return x
		}
	}
	return nil
}

func isZeroLiteral(info *types.Info, e ast.Expr) bool {
	switch x := ast.Unparen(e).(type) {
	case *ast.Ident:
		return x.Name == "nil" || x.Name == "false"
	case *ast.BasicLit:
		return x.Value == "0" || x.Value == `""`
	case *ast.CompositeLit:
		return len(x.Elts) == 0
	}
	return false
}

// c03NoCountShortcut (NO-COUNT-SHORTCUT; C03 and C04, after round-5 seed C04-o): "the current version has at least as
// many messages as the previous one" does not mean that none was deleted - one may have been deleted and another
// added (a rename). A deletion handler must not return early on a comparison of the *sizes* of a current and a previous
// collection: MESSAGE_NO_DELETE would miss the rename while PACKAGE_MESSAGE_NO_DELETE still reports it.
func c03NoCountShortcut(c *Ctx, l *labeler, rule string) {
	c.Rule(rule, "no handler returns early on a comparison of the sizes of a current and a previous collection", 1)
	p := c.P
	scanned, hits := 0, 0
	lenArg := func(e ast.Expr) ast.Expr {
		call, ok := ast.Unparen(e).(*ast.CallExpr)
		if !ok || len(call.Args) != 1 {
			return nil
		}
		if id, ok := call.Fun.(*ast.Ident); ok && id.Name == "len" {
			return call.Args[0]
		}
		return nil
	}
	for _, pk := range l.pkgs {
		info := pk.TypesInfo
		for _, fr := range p.FuncsOf(pk) {
			if fr.Decl.Body == nil {
				continue
			}
			scanned++
			ast.Inspect(fr.Decl.Body, func(n ast.Node) bool {
				ifs, ok := n.(*ast.IfStmt)
				if !ok {
					return true
				}
				be, ok := ast.Unparen(ifs.Cond).(*ast.BinaryExpr)
				if !ok {
					return true
				}
				x, y := lenArg(be.X), lenArg(be.Y)
				if x == nil || y == nil {
					return true
				}
				lx, ly := l.L(info, x), l.L(info, y)
				if !((lx == labCur && ly == labPrev) || (lx == labPrev && ly == labCur)) {
					return true
				}
				returns := false
				for _, st := range ifs.Body.List {
					if _, isRet := st.(*ast.ReturnStmt); isRet {
						returns = true
					}
				}
				if returns {
					hits++
					c.Ob(rule, fr.ID()+"/size-comparison", ifs.Pos(), false, true, "`%s` compares the sizes of a current and a previous collection and returns: equal or larger size does not mean nothing was deleted", short(exprString(ifs.Cond), 80))
				}
				return true
			})
		}
	}
	c.Ob(rule, "functions-scanned", token.NoPos, hits == 0, scanned > 0, "%d functions scanned, %d early returns on a size comparison between versions", scanned, hits)
}
