package main

import (
	"fmt"
	"go/token"
	"go/types"
	"strings"

	"golang.org/x/tools/go/packages"
	"golang.org/x/tools/go/ssa"
)

// c11BootstrapLenient (BOOTSTRAP-LENIENT; C11, finding F33): an image in a text encoding (json, txtpb, yaml) is read in
// two passes, because custom option values can only be decoded with a resolver built from the image's own files: the
// first pass, without a resolver, must therefore *skip* what it cannot resolve. The three first-pass unmarshalers are
// siblings; each must run with "discard unknown fields" on. For every unmarshaler handed to bootstrapResolver, the
// Unmarshal method of its type stores into the DiscardUnknown member of the library's options either the constant
// true, or the negation of a receiver flag that no option at this call site sets, or a receiver flag that an option
// at this call site sets to true. (The yaml sibling stored nothing: `buf build ws -o x.yaml && buf build x.yaml`
// failed with `unknown field "[acme.v1.tag]"` for any workspace with a custom option.)
func c11BootstrapLenient(c *Ctx) {
	const rule = "BOOTSTRAP-LENIENT"
	c.Rule(rule, "the resolver-less first pass over a text-encoded image discards what it cannot resolve, in every encoding", 3)
	p := c.P
	pk := p.Pkg("private/buf/bufctl")
	pe := p.Pkg("private/pkg/protoencoding")
	if pk == nil || pe == nil {
		c.Fail(rule, "anchor", token.NoPos, "bufctl / protoencoding not found")
		return
	}
	boot := p.Func("private/buf/bufctl", "bootstrapResolver")
	if boot == nil || boot.Obj == nil {
		c.Fail(rule, "anchor", token.NoPos, "bufctl.bootstrapResolver not found")
		return
	}
	bootFn := p.SSAFunc(boot.Obj)
	// which receiver flag does an option constructor set to true?
	optionSets := func(ctor *ssa.Function) map[string]bool {
		out := map[string]bool{}
		for _, f := range allSSAFuncs(ctor) {
			for _, b := range f.Blocks {
				for _, ins := range b.Instrs {
					if st, ok := ins.(*ssa.Store); ok {
						if fa, ok := st.Addr.(*ssa.FieldAddr); ok {
							if cst, ok := st.Val.(*ssa.Const); ok && cst.Value != nil && cst.Value.String() == "true" {
								out[fieldName(fa.X.Type(), fa.Field)] = true
							}
						}
					}
				}
			}
		}
		return out
	}
	n := 0
	for _, fr := range p.FuncsOf(pk) {
		if fr.Obj == nil {
			continue
		}
		sf := p.SSAFunc(fr.Obj)
		if sf == nil {
			continue
		}
		for _, f := range allSSAFuncs(sf) {
			for _, call := range callsIn(f) {
				if call.Call.StaticCallee() != bootFn || len(call.Call.Args) == 0 {
					continue
				}
				n++
				// the constructor call
				var ctor *ssa.Call
				sliceBack(call.Call.Args[0], func(x ssa.Value) bool {
					if cl, ok := x.(*ssa.Call); ok && ctor == nil {
						if o := staticCalleeObj(&cl.Call); o != nil && o.Pkg() == pe.Types && strings.HasSuffix(o.Name(), "Unmarshaler") {
							ctor = cl
						}
					}
					return true
				})
				isCtor := func(cl *ssa.Call) bool {
					o := staticCalleeObj(&cl.Call)
					return o != nil && o.Pkg() == pe.Types && strings.HasSuffix(o.Name(), "Unmarshaler")
				}
				var ctors []*ssa.Call
				if ctor != nil {
					ctors = append(ctors, ctor)
				} else {
					// a two-pass helper that is handed the constructor as a function: `newUnmarshaler(nil)`; the
					// constructor calls are in the literals passed at every call site of the helper
					ctors = c11CtorsThroughParam(p, pk, f, call.Call.Args[0], isCtor)
				}
				if len(ctors) == 0 {
					c.Ob(rule, fmt.Sprintf("%s/first-pass#%d", ssaFuncName(f), n), call.Pos(), false, true, "the unmarshaler handed to bootstrapResolver is not a protoencoding constructor call: undecided")
					continue
				}
				for _, ctor := range ctors {
					ctorName := staticCalleeObj(&ctor.Call).Name()
					// flags set by the options at this call site
					set := map[string]bool{}
					for _, a := range ctor.Call.Args[1:] {
						sliceBack(a, func(x ssa.Value) bool {
							if cl, ok := x.(*ssa.Call); ok {
								if sc := cl.Call.StaticCallee(); sc != nil && sc.Pkg != nil && sc.Pkg.Pkg == pe.Types {
									for k := range optionSets(sc) {
										set[k] = true
									}
								}
							}
							return true
						})
					}
					// the concrete type: what the constructor (or the unexported constructor it wraps) returns
					var impl *types.Named
					for _, g := range reachSSA(ctor.Call.StaticCallee(), 1) {
						for _, r := range returnsOf(g) {
							if len(r.Results) == 0 {
								continue
							}
							v := stripConv(r.Results[0])
							if mi, ok := v.(*ssa.MakeInterface); ok {
								v = stripConv(mi.X)
							}
							if nt, ok := derefType(v.Type()).(*types.Named); ok && nt.Obj().Pkg() == pe.Types {
								if _, isStruct := nt.Underlying().(*types.Struct); isStruct {
									impl = nt
								}
							}
						}
					}
					verdict, why := false, "no store into DiscardUnknown found"
					if impl != nil {
						um := p.Func("private/pkg/protoencoding", impl.Obj().Name()+".Unmarshal")
						if um != nil && um.Obj != nil {
							for _, b := range p.SSAFunc(um.Obj).Blocks {
								for _, ins := range b.Instrs {
									st, ok := ins.(*ssa.Store)
									if !ok {
										continue
									}
									fa, ok := st.Addr.(*ssa.FieldAddr)
									if !ok || !strings.HasSuffix(fieldName(fa.X.Type(), fa.Field), ".DiscardUnknown") {
										continue
									}
									v := stripConv(st.Val)
									neg := false
									if u, ok := v.(*ssa.UnOp); ok && u.Op == token.NOT {
										neg, v = true, stripConv(u.X)
									}
									switch t := v.(type) {
									case *ssa.Const:
										val := t.Value != nil && t.Value.String() == "true"
										verdict, why = val != neg, "constant"
									case *ssa.UnOp:
										if ffa, ok := t.X.(*ssa.FieldAddr); ok && t.Op == token.MUL {
											flag := fieldName(ffa.X.Type(), ffa.Field)
											if neg {
												verdict, why = !set[flag], "negation of "+flag+", which no option here sets"
											} else {
												verdict, why = set[flag], flag+", set by an option here: "+fmt.Sprint(set[flag])
											}
										}
									}
								}
							}
						} else {
							why = "no Unmarshal method found for " + impl.Obj().Name()
						}
					} else {
						why = "concrete unmarshaler type not resolved"
					}
					c.Ob(rule, fmt.Sprintf("%s/first-pass/%s", ssaFuncName(f), ctorName), call.Pos(), verdict, true, "the first pass built by %s runs with DiscardUnknown on: %v (%s)", ctorName, verdict, why)
				}
			}
		}
	}
	// and the first pass always yields a resolver built from all files of the image: "no file has a top-level extend"
	// says nothing about extensions declared inside messages
	okRes, nRet := true, 0
	for _, r := range returnsOf(bootFn) {
		if len(r.Results) != 2 || !isNilConst(spilledResult(r, r.Results[1])) && !dependsOnCall(r.Results[0], func(cc *ssa.CallCommon) bool { return true }) {
			continue
		}
		if isNilConst(r.Results[0]) && !isNilConst(r.Results[1]) {
			continue // error return
		}
		nRet++
		if !dependsOnCall(r.Results[0], func(cc *ssa.CallCommon) bool {
			o := staticCalleeObj(cc)
			return o != nil && o.Name() == "NewResolver"
		}) {
			okRes = false
		}
	}
	c.Ob(rule, "bootstrapResolver/always-a-resolver", boot.Decl.Pos(), okRes && nRet > 0, true, "every success return of bootstrapResolver (%d) hands back protoencoding.NewResolver(<the files>): %v", nRet, okRes)
	if n == 0 {
		c.Fail(rule, "anchor", token.NoPos, "no call of bootstrapResolver found")
	}
}

// c11CtorsThroughParam: v is the result of calling a function-typed parameter of f with a nil resolver; the result lists
// the constructor calls in the function literals handed in for that parameter at every static call site of f in the
// package (nil when a call site passes something that is not a literal returning a constructor call).
func c11CtorsThroughParam(p *Prog, pk *packages.Package, f *ssa.Function, v ssa.Value, isCtor func(*ssa.Call) bool) []*ssa.Call {
	var par *ssa.Parameter
	sliceBack(v, func(x ssa.Value) bool {
		if cl, ok := x.(*ssa.Call); ok && par == nil {
			if pp, ok := stripConv(cl.Call.Value).(*ssa.Parameter); ok && pp.Parent() == f {
				if _, isSig := pp.Type().Underlying().(*types.Signature); isSig {
					par = pp
				}
			}
		}
		return true
	})
	if par == nil {
		return nil
	}
	idx := -1
	for i, fp := range f.Params {
		if fp == par {
			idx = i
		}
	}
	var out []*ssa.Call
	sites := 0
	for _, fr := range p.FuncsOf(pk) {
		if fr.Obj == nil {
			continue
		}
		for _, g := range allSSAFuncs(p.SSAFunc(fr.Obj)) {
			for _, call := range callsIn(g) {
				if call.Call.StaticCallee() != f || idx < 0 || idx >= len(call.Call.Args) {
					continue
				}
				sites++
				var lit *ssa.Function
				switch t := stripConv(call.Call.Args[idx]).(type) {
				case *ssa.MakeClosure:
					lit, _ = t.Fn.(*ssa.Function)
				case *ssa.Function:
					lit = t
				}
				if lit == nil || len(lit.Blocks) == 0 {
					return nil
				}
				found := false
				for _, r := range returnsOf(lit) {
					if len(r.Results) == 0 {
						continue
					}
					sliceBack(r.Results[0], func(x ssa.Value) bool {
						if cl, ok := x.(*ssa.Call); ok && isCtor(cl) {
							out = append(out, cl)
							found = true
						}
						return true
					})
				}
				if !found {
					return nil
				}
			}
		}
	}
	if sites == 0 {
		return nil
	}
	return out
}
