package main

// R-FIELDCOV (P13): which fields of a family of struct types are read and which are written.

import (
	"go/ast"
	"go/types"
	"sort"

	"golang.org/x/tools/go/packages"
)

// allStructFields lists "Type.Field" for the package's named struct types selected by sel.
func allStructFields(pk *packages.Package, sel func(typeName string) bool) []string {
	var out []string
	scope := pk.Types.Scope()
	for _, name := range scope.Names() {
		tn, ok := scope.Lookup(name).(*types.TypeName)
		if !ok || !sel(name) {
			continue
		}
		st, ok := tn.Type().Underlying().(*types.Struct)
		if !ok {
			continue
		}
		for i := 0; i < st.NumFields(); i++ {
			out = append(out, name+"."+st.Field(i).Name())
		}
	}
	sort.Strings(out)
	return out
}

// structFieldUses counts reads and writes of fields of the selected struct types inside the package.
// A write is an assignment target (x.F = …, x.F = append(x.F, …), x.F[k] = …) or a composite-literal key;
// every other selection is a read. Reads inside methods named isEmpty are not counted (presence tests).
func structFieldUses(p *Prog, pk *packages.Package, sel func(typeName string) bool) (reads, writes map[string]int) {
	reads, writes = map[string]int{}, map[string]int{}
	info := pk.TypesInfo
	fieldKey := func(v *types.Var) string {
		// find the owning named struct
		scope := pk.Types.Scope()
		for _, name := range scope.Names() {
			tn, ok := scope.Lookup(name).(*types.TypeName)
			if !ok || !sel(name) {
				continue
			}
			st, ok := tn.Type().Underlying().(*types.Struct)
			if !ok {
				continue
			}
			for i := 0; i < st.NumFields(); i++ {
				if st.Field(i) == v {
					return name + "." + v.Name()
				}
			}
		}
		return ""
	}
	memo := map[*types.Var]string{}
	key := func(v *types.Var) string {
		if k, ok := memo[v]; ok {
			return k
		}
		k := fieldKey(v)
		memo[v] = k
		return k
	}
	for _, f := range pk.Syntax {
		if isGenerated(f) {
			continue
		}
		written := map[*ast.SelectorExpr]bool{}
		ast.Inspect(f, func(n ast.Node) bool {
			switch x := n.(type) {
			case *ast.AssignStmt:
				for _, lhs := range x.Lhs {
					e := ast.Unparen(lhs)
					for {
						if ix, ok := e.(*ast.IndexExpr); ok {
							e = ast.Unparen(ix.X)
							continue
						}
						break
					}
					if se, ok := e.(*ast.SelectorExpr); ok {
						written[se] = true
					}
				}
			case *ast.KeyValueExpr:
				if id, ok := x.Key.(*ast.Ident); ok {
					if v, ok := info.Uses[id].(*types.Var); ok && v.IsField() {
						if k := key(v); k != "" {
							writes[k]++
						}
					}
				}
			}
			return true
		})
		ast.Inspect(f, func(n ast.Node) bool {
			if fd, ok := n.(*ast.FuncDecl); ok && fd.Name.Name == "isEmpty" {
				return false
			}
			se, ok := n.(*ast.SelectorExpr)
			if !ok {
				return true
			}
			v, ok := info.Uses[se.Sel].(*types.Var)
			if !ok || !v.IsField() {
				return true
			}
			k := key(v)
			if k == "" {
				return true
			}
			if written[se] {
				writes[k]++
				// x.F = append(x.F, …) also reads, but that is not a reader-side use
			} else {
				// a selector that is only the base of a written selector (x.Build.Excludes = …) is a path, not a read
				if par, ok := p.Parent(se).(*ast.SelectorExpr); ok && written[par] {
					writes[k]++
					return true
				}
				// argument of the self-append on the right of a write to the same field
				if call, ok := p.Parent(se).(*ast.CallExpr); ok {
					if id, ok := call.Fun.(*ast.Ident); ok && id.Name == "append" && len(call.Args) > 0 && call.Args[0] == ast.Expr(se) {
						return true
					}
				}
				reads[k]++
			}
			return true
		})
	}
	return
}

// uncalledAccessors: for every exported interface of pk whose values reach the writer closure (it is the
// static type of some expression there), the exported methods never called inside that closure.
func uncalledAccessors(p *Prog, pk *packages.Package, entries []string) []string {
	cl := newCallClosure(p, []*packages.Package{pk})
	reach := map[*types.Func]bool{}
	for _, e := range entries {
		fr := p.Func(relPkg(pk.PkgPath), e)
		if fr == nil {
			continue
		}
		for fn := range cl.reach(fr.Obj) {
			reach[fn] = true
		}
	}
	info := pk.TypesInfo
	called := map[string]bool{}    // Iface.Method
	usedIface := map[string]bool{} // interfaces whose values appear in the closure
	for fn := range reach {
		fr := cl.decls[fn]
		if fr == nil {
			continue
		}
		ast.Inspect(fr.Decl.Body, func(n ast.Node) bool {
			switch x := n.(type) {
			case *ast.SelectorExpr:
				sel, ok := info.Selections[x]
				if !ok || sel.Kind() != types.MethodVal {
					return true
				}
				recv := sel.Recv()
				if pt, ok := recv.(*types.Pointer); ok {
					recv = pt.Elem()
				}
				if nt, ok := types.Unalias(recv).(*types.Named); ok && nt.Obj().Pkg() == pk.Types {
					if _, isI := nt.Underlying().(*types.Interface); isI {
						called[nt.Obj().Name()+"."+x.Sel.Name] = true
						usedIface[nt.Obj().Name()] = true
					}
					// the call also counts for every exported interface of the package that the receiver's type
					// implements (or embeds) and that declares the method
					for _, iname := range pk.Types.Scope().Names() {
						io, ok := pk.Types.Scope().Lookup(iname).(*types.TypeName)
						if !ok || !io.Exported() {
							continue
						}
						it, ok := io.Type().Underlying().(*types.Interface)
						if !ok {
							continue
						}
						if types.Implements(nt, it) || types.Implements(types.NewPointer(nt), it) {
							for i := 0; i < it.NumMethods(); i++ {
								if it.Method(i).Name() == x.Sel.Name {
									called[iname+"."+x.Sel.Name] = true
									usedIface[iname] = true
								}
							}
						}
						// ... and for every interface that *embeds* the receiver's interface: the method is then the
						// very same object (a helper taking the embedded CheckConfig serves LintConfig and
						// BreakingConfig alike)
						for i := 0; i < it.NumMethods(); i++ {
							if it.Method(i) == sel.Obj() {
								called[iname+"."+x.Sel.Name] = true
							}
						}
					}
				}
			case ast.Expr:
				if t := info.TypeOf(x); t != nil {
					if nt, ok := types.Unalias(t).(*types.Named); ok && nt.Obj().Pkg() == pk.Types {
						if _, isI := nt.Underlying().(*types.Interface); isI {
							usedIface[nt.Obj().Name()] = true
						}
					}
				}
			}
			return true
		})
	}
	var out []string
	for name := range usedIface {
		obj := pk.Types.Scope().Lookup(name)
		it, ok := obj.Type().Underlying().(*types.Interface)
		if !ok || !obj.Exported() {
			continue
		}
		for i := 0; i < it.NumMethods(); i++ {
			m := it.Method(i)
			if !m.Exported() {
				continue
			}
			if !called[name+"."+m.Name()] {
				out = append(out, name+"."+m.Name())
			}
		}
	}
	sort.Strings(out)
	return out
}
