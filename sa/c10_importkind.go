package main

import (
	"fmt"
	"go/token"
	"go/types"
	"strings"

	"golang.org/x/tools/go/packages"
	"golang.org/x/tools/go/ssa"
)

// c10ImportKindBlind (IMPORT-KIND-BLIND; C10, after round-5 seed C10-a): "each module's reported dependencies are
// exactly the modules reachable through the import statements of its files" - all of them: `import weak` and
// `import public` are import statements, the compiler resolves them like any other, and a module reached only through
// one is a dependency. In the packages that compute file imports and module dependencies the scanner's import records
// are used for their path alone: no function reads a boolean member of fastscan.Import (IsWeak, IsPublic), so no kind
// of import can be singled out, by a Filter or by a branch, on the way to FileInfo.Imports or ModuleDeps.
func c10ImportKindBlind(c *Ctx) {
	const rule = "IMPORT-KIND-BLIND"
	c.Rule(rule, "imports are resolved by path whatever their modifier: the scanner's weak/public flags are not consulted when imports and dependencies are computed", 2)
	p := c.P
	pathReads := 0
	for _, rel := range []string{"private/bufpkg/bufmodule", "private/buf/bufworkspace"} {
		pk := p.Pkg(rel)
		if pk == nil {
			continue
		}
		for _, sf := range p.SSAFuncsOf([]*packages.Package{pk}) {
			for _, f := range allSSAFuncs(sf) {
				for _, b := range f.Blocks {
					for _, ins := range b.Instrs {
						var st types.Type
						var idx int
						switch x := ins.(type) {
						case *ssa.FieldAddr:
							st, idx = x.X.Type(), x.Field
						case *ssa.Field:
							st, idx = x.X.Type(), x.Field
						default:
							continue
						}
						fn := fieldName(st, idx)
						if !strings.Contains(fn, "fastscan.Import.") {
							continue
						}
						if pt, ok := st.Underlying().(*types.Pointer); ok {
							st = pt.Elem()
						}
						fld := st.Underlying().(*types.Struct).Field(idx)
						if bt, ok := fld.Type().Underlying().(*types.Basic); ok && bt.Info()&types.IsBoolean != 0 {
							c.Ob(rule, fmt.Sprintf("%s/reads-%s", ssaFuncName(f), fld.Name()), ins.Pos(), false, true, "%s reads %s: an import statement is being treated differently because of its modifier", ssaFuncName(f), fn)
						} else {
							pathReads++
							c.Ob(rule, fmt.Sprintf("%s/reads-%s", ssaFuncName(f), fld.Name()), ins.Pos(), true, true, "%s reads %s", ssaFuncName(f), fn)
						}
					}
				}
			}
		}
	}
	if pathReads == 0 {
		c.Fail(rule, "anchor", token.NoPos, "no read of fastscan.Import.Path found in bufmodule/bufworkspace")
	}
}
