package main

import (
	"fmt"
	"go/token"
	"go/types"
	"sort"
	"strings"

	"golang.org/x/tools/go/packages"
	"golang.org/x/tools/go/ssa"
)

// c08BytesOwned (BYTES-OWNED; C08, after round-5 seed C08-a): a digest "denotes the value it was built from" for its
// whole life: its string form is rendered once at construction and is what manifests, file sets and the b5
// digest-of-digests key and hash, while DigestEqual compares the bytes. The two stay in agreement only if nobody else
// can write those bytes. In the content-addressing packages, no []byte parameter of an exported function reaches a
// []byte field of a struct as is (through unexported helpers of the package, followed up the call chain): what is kept
// is the result of a call (a clone, a decode, a hash read-out) or a freshly made slice. A slice decoded or cloned
// inside the package (ParseDigest's hex.DecodeString result) is the package's own.
func c08BytesOwned(c *Ctx) {
	const rule = "BYTES-OWNED"
	c.Rule(rule, "byte slices kept in bufcas digest/blob values are the package's own, never an exported function's parameter as is", 1)
	p := c.P
	n := 0
	// bufcas only: bufmodule.ObjectData is by design a view of the caller's file buffer and takes part in no cached
	// rendering; shake256's digest clones on the way out instead of on the way in.
	for _, rel := range []string{"private/bufpkg/bufcas"} {
		pk := p.Pkg(rel)
		if pk == nil {
			continue
		}
		funcs := []*ssa.Function{}
		for _, sf := range p.SSAFuncsOf([]*packages.Package{pk}) {
			funcs = append(funcs, allSSAFuncs(sf)...)
		}
		// static callers inside the package
		callers := map[*ssa.Function][]ssaCall{}
		for _, f := range funcs {
			for _, call := range callsIn(f) {
				if sc := call.Call.StaticCallee(); sc != nil && sc.Pkg == f.Pkg {
					callers[sc] = append(callers[sc], call)
				}
			}
		}
		isExported := func(f *ssa.Function) bool {
			if f.Parent() != nil || f.Object() == nil {
				return false
			}
			return f.Object().Exported()
		}
		// origins of v: exported-function parameters it can be, as is
		var origins func(f *ssa.Function, v ssa.Value, depth int, seen map[ssa.Value]bool) []string
		origins = func(f *ssa.Function, v ssa.Value, depth int, seen map[ssa.Value]bool) []string {
			v = stripConv(v)
			if seen[v] {
				return nil
			}
			seen[v] = true
			switch x := v.(type) {
			case *ssa.Parameter:
				if isExported(f) {
					return []string{ssaFuncName(f) + "(" + x.Name() + ")"}
				}
				if depth == 0 {
					return nil
				}
				idx := -1
				for i, pp := range f.Params {
					if pp == x {
						idx = i
					}
				}
				var out []string
				for _, cc := range callers[f] {
					if idx >= 0 && idx < len(cc.Call.Args) {
						out = append(out, origins(cc.Instr.Parent(), cc.Call.Args[idx], depth-1, seen)...)
					}
				}
				return out
			case *ssa.Phi:
				var out []string
				for _, e := range x.Edges {
					out = append(out, origins(f, e, depth, seen)...)
				}
				return out
			case *ssa.Slice:
				return origins(f, x.X, depth, seen) // a reslice shares the backing array
			}
			return nil
		}
		for _, f := range funcs {
			for _, b := range f.Blocks {
				for _, ins := range b.Instrs {
					st, ok := ins.(*ssa.Store)
					if !ok {
						continue
					}
					fa, ok := st.Addr.(*ssa.FieldAddr)
					if !ok {
						continue
					}
					sl, ok := st.Val.Type().Underlying().(*types.Slice)
					if !ok {
						continue
					}
					if bt, ok := sl.Elem().Underlying().(*types.Basic); !ok || bt.Kind() != types.Byte && bt.Kind() != types.Uint8 {
						continue
					}
					n++
					from := uniq(origins(f, st.Val, 3, map[ssa.Value]bool{}))
					sort.Strings(from)
					fld := fieldName(fa.X.Type(), fa.Field)
					c.Ob(rule, fmt.Sprintf("%s/%s", ssaFuncName(f), strings.TrimPrefix(fld, modPath+"/")), st.Pos(), len(from) == 0, true, "the bytes kept in %s are not a parameter of an exported function as is (caller keeps write access): %v", fld, from)
				}
			}
		}
	}
	if n == 0 {
		c.Fail(rule, "anchor", token.NoPos, "no store of a byte slice into a struct field found in bufcas")
	}
}
