package main

import (
	"fmt"
	"go/token"
	"go/types"
	"strings"

	"golang.org/x/tools/go/packages"
	"golang.org/x/tools/go/ssa"
)

// c08DepsUnfiltered (DEPS-UNFILTERED; C08, after round-4 seed C08-l): the b5 construction hashes the digests of *all*
// dependencies handed in (direct and transitive; a remote module's pinned keys are the full closure). Wherever a
// []Digest is handed to the function that hashes it, the list must be a total mapping of the dependency list the
// caller received: its backward slice passes through no call that takes a predicate (a func returning bool: Filter,
// DeleteFunc, IndexFunc …) and no append that is conditional on something other than an error check. "A direct
// dependency's digest already covers its own dependencies" keeps the digest sensitive, which is why no perturbation
// test notices - but it no longer equals the published value, and a local module no longer hashes like its pushed copy.
func c08DepsUnfiltered(c *Ctx, pk *packages.Package) {
	const rule = "DEPS-UNFILTERED"
	c.Rule(rule, "the dependency digests that are hashed are a total mapping of the dependency list received", 2)
	p := c.P
	isDigestSlice := func(t types.Type) bool {
		s, ok := t.Underlying().(*types.Slice)
		return ok && strings.HasSuffix(namedPath(s.Elem()), "bufmodule.Digest")
	}
	takesPredicate := func(cc *ssa.CallCommon) string {
		for _, a := range cc.Args {
			sig, ok := a.Type().Underlying().(*types.Signature)
			if !ok || sig.Results().Len() != 1 {
				continue
			}
			if b, ok := sig.Results().At(0).Type().Underlying().(*types.Basic); ok && b.Kind() == types.Bool {
				if o := staticCalleeObj(cc); o != nil {
					return funcIDFull(o)
				}
				return "a call taking a predicate"
			}
		}
		return ""
	}
	n := 0
	for _, sf := range p.SSAFuncsOf([]*packages.Package{pk}) {
		for _, call := range callsIn(sf) {
			callee := call.Call.StaticCallee()
			if callee == nil || callee.Pkg == nil || callee.Pkg.Pkg != pk.Types {
				continue
			}
			for i, a := range call.Call.Args {
				if !isDigestSlice(a.Type()) || i >= callee.Signature.Params().Len() {
					continue
				}
				if _, isParam := stripConv(a).(*ssa.Parameter); isParam {
					continue // handed through unchanged
				}
				n++
				var bad []string
				fromList := false
				sliceBackDeep(a, func(x ssa.Value) bool {
					switch t := x.(type) {
					case *ssa.Parameter:
						if _, ok := t.Type().Underlying().(*types.Slice); ok && t.Parent() == sf {
							fromList = true
						}
					case *ssa.Call:
						if why := takesPredicate(&t.Call); why != "" {
							bad = append(bad, why)
						}
						if isBuiltinCall(&t.Call, "append") {
							for _, ge := range guardingEdges(t.Block()) {
								cv, _ := condPolarity(ge.If.Cond)
								if _, _, isNilCmp := nilCompare(cv); isNilCmp {
									continue
								}
								if _, isNext := stripConv(cv).(*ssa.Extract); isNext {
									continue
								}
								if bo, ok := cv.(*ssa.BinOp); ok {
									if _, isPhi := bo.X.(*ssa.Phi); isPhi {
										continue // loop counter test
									}
								}
								bad = append(bad, "append under a condition")
							}
						}
						if t.Call.IsInvoke() && t.Type() != nil {
							if _, ok := t.Type().Underlying().(*types.Slice); ok && len(t.Call.Args) == 0 {
								fromList = true // an accessor handing out the dependency list (ModuleDeps(), DepModuleKeys())
							}
						}
					}
					return true
				})
				c.Ob(rule, fmt.Sprintf("%s->%s", ssaFuncName(sf), callee.Name()), call.Pos(), len(bad) == 0 && fromList, true,
					"the digest list handed to %s comes from the caller's dependency list (%v) through total mappings only; selecting steps on the way: %v", callee.Name(), fromList, bad)
			}
		}
	}
	if n == 0 {
		c.Fail(rule, "anchor", token.NoPos, "no call handing a computed []Digest to a function of bufmodule found")
	}
}
