package main

// P9 — origin labels (current / previous) for the breaking-change handlers: flow-insensitive labels
// per variable, seeded at Request.ProtosourceFiles()/AgainstProtosourceFiles(), propagated through
// index builders, map index, range, accessor calls and (by join over call sites) helper parameters.

import (
	"go/ast"
	"go/types"
	"strings"

	"golang.org/x/tools/go/packages"
)

const (
	labCur  uint8 = 1
	labPrev uint8 = 2
)

func labString(l uint8) string {
	switch l {
	case 0:
		return "none"
	case labCur:
		return "current"
	case labPrev:
		return "previous"
	}
	return "mixed(current+previous)"
}

type labeler struct {
	p    *Prog
	pkgs []*packages.Package
	lab  map[types.Object]uint8
	// decl of in-scope functions
	decls map[*types.Func]*FuncRef
}

func newLabeler(p *Prog, pkgs []*packages.Package) *labeler {
	l := &labeler{p: p, pkgs: pkgs, lab: map[types.Object]uint8{}, decls: map[*types.Func]*FuncRef{}}
	for _, pk := range pkgs {
		for _, fr := range p.FuncsOf(pk) {
			if fr.Obj != nil {
				l.decls[fr.Obj] = fr
			}
		}
	}
	return l
}

func isBasicType(t types.Type) bool {
	if t == nil {
		return true
	}
	_, ok := t.Underlying().(*types.Basic)
	return ok
}

// L computes the label of an expression.
func (l *labeler) L(info *types.Info, e ast.Expr) uint8 {
	switch x := ast.Unparen(e).(type) {
	case *ast.Ident:
		return l.lab[identObj(info, x)]
	case *ast.IndexExpr:
		return l.L(info, x.X)
	case *ast.SliceExpr:
		return l.L(info, x.X)
	case *ast.StarExpr:
		return l.L(info, x.X)
	case *ast.UnaryExpr:
		return l.L(info, x.X)
	case *ast.TypeAssertExpr:
		return l.L(info, x.X)
	case *ast.SelectorExpr:
		if id, ok := x.X.(*ast.Ident); ok {
			if _, isPkg := info.Uses[id].(*types.PkgName); isPkg {
				return l.lab[info.Uses[x.Sel]]
			}
		}
		return l.L(info, x.X)
	case *ast.CallExpr:
		if sel, ok := ast.Unparen(x.Fun).(*ast.SelectorExpr); ok {
			switch sel.Sel.Name {
			case "ProtosourceFiles":
				return labCur
			case "AgainstProtosourceFiles":
				return labPrev
			}
		}
		if tv, ok := info.Types[x.Fun]; ok && tv.IsType() {
			if len(x.Args) == 1 {
				return l.L(info, x.Args[0])
			}
			return 0
		}
		var out uint8
		if sel, ok := ast.Unparen(x.Fun).(*ast.SelectorExpr); ok {
			if _, isMethod := info.Selections[sel]; isMethod {
				out |= l.L(info, sel.X)
			}
		}
		for _, a := range x.Args {
			if isBasicType(info.TypeOf(a)) {
				continue
			}
			out |= l.L(info, a)
		}
		return out
	}
	return 0
}

func (l *labeler) set(obj types.Object, v uint8) bool {
	if obj == nil || v == 0 {
		return false
	}
	if l.lab[obj]|v != l.lab[obj] {
		l.lab[obj] |= v
		return true
	}
	return false
}

// Run iterates to a fixed point.
func (l *labeler) Run(seed func()) {
	for round := 0; round < 20; round++ {
		changed := false
		if seed != nil {
			seed()
		}
		for _, pk := range l.pkgs {
			info := pk.TypesInfo
			for _, f := range pk.Syntax {
				ast.Inspect(f, func(n ast.Node) bool {
					switch x := n.(type) {
					case *ast.AssignStmt:
						if len(x.Rhs) == 1 && len(x.Lhs) > 1 {
							v := l.L(info, x.Rhs[0])
							// a helper of the handler packages that returns several values (current, previous, err): each
							// result carries the label of what the helper returns in that position, not the join of its arguments
							if call, ok := ast.Unparen(x.Rhs[0]).(*ast.CallExpr); ok {
								if fn := Callee(info, call); fn != nil {
									if fr := l.decls[fn.Origin()]; fr != nil && fr.Decl.Body != nil && fr.Decl.Type.Results != nil {
										per := l.resultLabels(fr)
										if len(per) == len(x.Lhs) {
											for i, lhs := range x.Lhs {
												o := identObj(info, lhs)
												if o != nil && isErrorType(o.Type()) {
													continue
												}
												if l.set(o, per[i]) {
													changed = true
												}
											}
											return true
										}
									}
								}
							}
							// comma-ok: only the first result carries the value
							_, isIdx := ast.Unparen(x.Rhs[0]).(*ast.IndexExpr)
							_, isTA := ast.Unparen(x.Rhs[0]).(*ast.TypeAssertExpr)
							for i, lhs := range x.Lhs {
								if (isIdx || isTA) && i > 0 {
									continue
								}
								o := identObj(info, lhs)
								if o != nil && isErrorType(o.Type()) {
									continue
								}
								if l.set(o, v) {
									changed = true
								}
							}
						} else {
							for i, lhs := range x.Lhs {
								if i < len(x.Rhs) {
									if l.set(identObj(info, lhs), l.L(info, x.Rhs[i])) {
										changed = true
									}
								}
							}
						}
					case *ast.ValueSpec:
						for i, nm := range x.Names {
							if i < len(x.Values) {
								if l.set(info.Defs[nm], l.L(info, x.Values[i])) {
									changed = true
								}
							}
						}
					case *ast.RangeStmt:
						v := l.L(info, x.X)
						if x.Key != nil {
							if l.set(identObj(info, x.Key), v) {
								changed = true
							}
						}
						if x.Value != nil {
							if l.set(identObj(info, x.Value), v) {
								changed = true
							}
						}
					case *ast.CallExpr:
						// out-parameters: a map handed to a procedure is filled from the other arguments
						if sig, ok := info.TypeOf(x.Fun).(*types.Signature); ok && (sig.Results().Len() == 0 || (sig.Results().Len() == 1 && isErrorType(sig.Results().At(0).Type()))) {
							var join uint8
							for _, a := range x.Args {
								if !isBasicType(info.TypeOf(a)) {
									if _, isMap := info.TypeOf(a).Underlying().(*types.Map); !isMap {
										join |= l.L(info, a)
									}
								}
							}
							for _, a := range x.Args {
								if _, isMap := info.TypeOf(a).Underlying().(*types.Map); isMap {
									if l.set(identObj(info, a), join) {
										changed = true
									}
								}
							}
						}
						// feed parameters of in-scope callees
						fn := Callee(info, x)
						if fn == nil {
							return true
						}
						fr := l.decls[fn.Origin()]
						if fr == nil {
							return true
						}
						// a function literal handed to a higher-order helper: its parameters carry the labels of what
						// the helper passes when it calls that parameter (`forEachDeleted(prev, cur, func(k, v) …)`:
						// the helper ranges over prev and calls f(key, value))
						if fr.Decl.Body != nil {
							pnames := []types.Object{}
							for _, fld := range fr.Decl.Type.Params.List {
								if len(fld.Names) == 0 {
									pnames = append(pnames, nil)
								}
								for _, nm := range fld.Names {
									pnames = append(pnames, fr.Info().Defs[nm])
								}
							}
							for ai, a := range x.Args {
								lit, isLit := ast.Unparen(a).(*ast.FuncLit)
								if !isLit || ai >= len(pnames) || pnames[ai] == nil || lit.Type.Params == nil {
									continue
								}
								var litParams []types.Object
								for _, fld := range lit.Type.Params.List {
									for _, nm := range fld.Names {
										litParams = append(litParams, info.Defs[nm])
									}
								}
								ast.Inspect(fr.Decl.Body, func(m ast.Node) bool {
									inner, ok := m.(*ast.CallExpr)
									if !ok {
										return true
									}
									if id, ok := ast.Unparen(inner.Fun).(*ast.Ident); !ok || fr.Info().Uses[id] != pnames[ai] {
										return true
									}
									for j, ia := range inner.Args {
										if j < len(litParams) && litParams[j] != nil {
											if l.set(litParams[j], l.L(fr.Info(), ia)) {
												changed = true
											}
										}
									}
									return true
								})
							}
						}
						idx := 0
						for _, fld := range fr.Decl.Type.Params.List {
							names := fld.Names
							if len(names) == 0 {
								idx++
								continue
							}
							for _, nm := range names {
								if _, variadic := fld.Type.(*ast.Ellipsis); variadic {
									for j := idx; j < len(x.Args); j++ {
										if l.set(fr.Info().Defs[nm], l.L(info, x.Args[j])) {
											changed = true
										}
									}
								} else if idx < len(x.Args) {
									if l.set(fr.Info().Defs[nm], l.L(info, x.Args[idx])) {
										changed = true
									}
								}
								idx++
							}
						}
					}
					return true
				})
			}
		}
		if !changed {
			return
		}
	}
}

// isAnnotationCall reports whether call adds an annotation through a response writer.
func isAnnotationCall(info *types.Info, call *ast.CallExpr) bool {
	sel, ok := ast.Unparen(call.Fun).(*ast.SelectorExpr)
	if !ok {
		return false
	}
	if sel.Sel.Name != "AddProtosourceAnnotation" && sel.Sel.Name != "AddAnnotation" {
		return false
	}
	np := namedPath(info.TypeOf(sel.X))
	return strings.HasSuffix(np, "bufcheckserverutil.ResponseWriter") || np == "buf.build/go/bufplugin/check.ResponseWriter"
}

// notFoundLoop describes `for k := range X { if _, ok := Y[k]; !ok { …annotation… } }`.
type notFoundLoop struct {
	Range *ast.RangeStmt
	If    *ast.IfStmt
	X, Y  ast.Expr
	Key   ast.Expr
	Fn    *ast.FuncDecl
}

func findNotFoundLoops(p *Prog, pk *packages.Package) []notFoundLoop {
	var out []notFoundLoop
	info := pk.TypesInfo
	for _, f := range pk.Syntax {
		ast.Inspect(f, func(n ast.Node) bool {
			rs, ok := n.(*ast.RangeStmt)
			if !ok {
				return true
			}
			if t := info.TypeOf(rs.X); t == nil {
				return true
			} else if _, isMap := t.Underlying().(*types.Map); !isMap {
				return true
			}
			for _, st := range rs.Body.List {
				ifs, ok := st.(*ast.IfStmt)
				if !ok || ifs.Init == nil {
					continue
				}
				as, ok := ifs.Init.(*ast.AssignStmt)
				if !ok || len(as.Lhs) != 2 || len(as.Rhs) != 1 {
					continue
				}
				ix, ok := ast.Unparen(as.Rhs[0]).(*ast.IndexExpr)
				if !ok {
					continue
				}
				okObj := identObj(info, as.Lhs[1])
				ue, ok := ast.Unparen(ifs.Cond).(*ast.UnaryExpr)
				if !ok || identObj(info, ue.X) != okObj || okObj == nil {
					continue
				}
				hasAnn := annotatesHere(pk, p.EnclosingFuncDecl(rs), ifs.Body)
				if !hasAnn {
					continue
				}
				out = append(out, notFoundLoop{Range: rs, If: ifs, X: rs.X, Y: ix.X, Key: ix.Index, Fn: p.EnclosingFuncDecl(rs)})
			}
			return true
		})
	}
	return out
}

// callbackSite is one invocation of an adapter's callback, possibly inside a helper of the package that received the
// callback as an argument. Frames lists, innermost first, the (call, function) pairs through which the site is
// reached: Frames[0] is the invocation itself in its own function, Frames[1] the helper call in the caller, etc.
type callbackSite struct {
	Call   *ast.CallExpr
	Info   *types.Info
	Frames []callbackFrame
}

type callbackFrame struct {
	Node ast.Node
	Decl *ast.FuncDecl
	Info *types.Info
}

// adapterCallbackSites finds every invocation of the function-typed parameter fobj of fr, following it into
// same-package helpers it is handed to.
func adapterCallbackSites(p *Prog, fr *FuncRef, fobj types.Object) []callbackSite {
	var out []callbackSite
	type work struct {
		fr     *FuncRef
		obj    types.Object
		frames []callbackFrame
	}
	seen := map[*ast.FuncDecl]bool{}
	var rec func(w work)
	rec = func(w work) {
		if w.fr == nil || w.fr.Decl.Body == nil || seen[w.fr.Decl] {
			return
		}
		seen[w.fr.Decl] = true
		info := w.fr.Info()
		ast.Inspect(w.fr.Decl.Body, func(n ast.Node) bool {
			call, ok := n.(*ast.CallExpr)
			if !ok {
				return true
			}
			if identObj(info, call.Fun) == w.obj {
				frames := append([]callbackFrame{{call, w.fr.Decl, info}}, w.frames...)
				out = append(out, callbackSite{call, info, frames})
				return true
			}
			fn := Callee(info, call)
			if fn == nil || fn.Pkg() != w.fr.Pkg.Types {
				return true
			}
			for ai, a := range call.Args {
				if identObj(info, a) != w.obj {
					continue
				}
				h := p.DeclOf(fn)
				if h == nil || h.Decl.Type.Params == nil {
					continue
				}
				idx := 0
				for _, fl := range h.Decl.Type.Params.List {
					for _, nm := range fl.Names {
						if idx == ai {
							frames := append([]callbackFrame{{call, w.fr.Decl, info}}, w.frames...)
							rec(work{h, h.Info().Defs[nm], frames})
						}
						idx++
					}
				}
			}
			return true
		})
	}
	rec(work{fr, fobj, nil})
	return out
}

// resultLabels computes, for a function with several results, the label of each result position: the join over its
// return statements of the label of the expression returned there, and of the named result variable if there is one.
func (l *labeler) resultLabels(fr *FuncRef) []uint8 {
	info := fr.Info()
	var names []types.Object
	n := 0
	for _, fld := range fr.Decl.Type.Results.List {
		if len(fld.Names) == 0 {
			n++
			names = append(names, nil)
			continue
		}
		for _, nm := range fld.Names {
			n++
			names = append(names, info.Defs[nm])
		}
	}
	out := make([]uint8, n)
	for i, o := range names {
		if o != nil {
			out[i] |= l.lab[o]
		}
	}
	inspectNoFuncLit(fr.Decl.Body, func(m ast.Node) bool {
		if r, ok := m.(*ast.ReturnStmt); ok && len(r.Results) == n {
			for i, e := range r.Results {
				out[i] |= l.L(info, e)
			}
		}
		return true
	})
	return out
}

// annotatesHere: body adds an annotation, directly or by calling a callback parameter of the enclosing function for
// which every call site of that function hands in a function literal that adds one (a higher-order helper such as
// `forEachDeleted(prev, cur, func(k, v) error { …AddAnnotation… })`).
func annotatesHere(pk *packages.Package, fd *ast.FuncDecl, body ast.Node) bool {
	info := pk.TypesInfo
	has := false
	ast.Inspect(body, func(m ast.Node) bool {
		call, ok := m.(*ast.CallExpr)
		if !ok || has {
			return !has
		}
		if isAnnotationCall(info, call) {
			has = true
			return false
		}
		if lits := paramCallbackLiterals(pk, fd, call.Fun); len(lits) > 0 {
			all := true
			for _, cb := range lits {
				ann := false
				ast.Inspect(cb.lit.Body, func(k ast.Node) bool {
					if c2, ok := k.(*ast.CallExpr); ok && isAnnotationCall(info, c2) {
						ann = true
					}
					return !ann
				})
				if !ann {
					all = false
				}
			}
			if all {
				has = true
			}
		}
		return !has
	})
	return has
}
