package main

// C18 — managed mode rewrites only what it governs.

import (
	"fmt"
	"go/ast"
	"go/token"
	"go/types"
	"reflect"
	"strconv"
	"strings"

	"golang.org/x/tools/go/packages"
)

func init() {
	register(&propCheck{
		ID: "C18",
		Explanation: "Frame condition and pairing of managed mode, from the code of bufimagemodify: (1) effect whitelist — every assignment through a descriptorpb message in " +
			"bufimagemodify(+internal) targets a FileOptions field that some modifier governs, FieldOptions.Jstype, a nil Options pointer being replaced by an empty literal, " +
			"or SourceCodeInfo.Location; no reflective mutator (proto.Merge/Reset/SetExtension/ClearExtension, protoreflect Set/Clear/Mutable) is referenced; (2) path↔field " +
			"agreement — for each modifier call the getter, setter and is-set closures name one FileOptions field F, the source-location path passed alongside is {8, n} with n " +
			"the protobuf field number of F (read from the generated struct tag), and the bufconfig.FileOption constant passed names F; (3) every bufconfig.FileOption that is " +
			"not a prefix/suffix helper has a modifier and every modifier is in Modify's list; (4) R-PAIR — in each generic modifier the setter call and sweeper.Mark lie on " +
			"exactly the same paths; (5) skips — modifier calls lie behind the Enabled() early return and on the false edge of datawkt.Exists; in the file-option modifier the " +
			"setter is unreachable from the disabled edge and the value is the override when one exists; (6) last matching override wins (no break in the override loops). " +
			"NOT decided: the default-value formulas (java_package derivation etc.).",
		Assumptions: []string{"generated descriptorpb struct tags carry the protobuf field numbers"},
		Run:         runC18,
	})
}

// protobufFieldNumber parses `protobuf:"bytes,1,opt,name=java_package"`.
func protobufFieldNumber(tag string) (int, string, bool) {
	v, ok := reflect.StructTag(tag).Lookup("protobuf")
	if !ok {
		return 0, "", false
	}
	parts := strings.Split(v, ",")
	if len(parts) < 2 {
		return 0, "", false
	}
	n, err := strconv.Atoi(parts[1])
	if err != nil {
		return 0, "", false
	}
	name := ""
	for _, p := range parts {
		if strings.HasPrefix(p, "name=") {
			name = strings.TrimPrefix(p, "name=")
		}
	}
	return n, name, true
}

// descriptorFieldNumbers maps Go field name → protobuf number for a descriptorpb message.
func descriptorFieldNumbers(p *Prog, typeName string) map[string]int {
	pk := p.ByPath["google.golang.org/protobuf/types/descriptorpb"]
	if pk == nil {
		return nil
	}
	obj := pk.Types.Scope().Lookup(typeName)
	if obj == nil {
		return nil
	}
	st, ok := obj.Type().Underlying().(*types.Struct)
	if !ok {
		return nil
	}
	out := map[string]int{}
	for i := 0; i < st.NumFields(); i++ {
		if n, _, ok := protobufFieldNumber(st.Tag(i)); ok {
			out[st.Field(i).Name()] = n
		}
	}
	return out
}

func runC18(c *Ctx) {
	p := c.P
	c.Rule("EFFECT-WHITELIST", "bufimagemodify stores only into governed option fields, fresh Options literals and source-info locations", 10)
	c.Rule("PATH-FIELD", "each modifier's closures, source path and option constant name the same FileOptions field", 11)
	c.Rule("GOVERNED-SET", "every governed option has a modifier and every modifier runs in Modify", 10)
	c.Rule("SET-MARK-PAIR", "an option is marked for source-info removal iff it was rewritten", 3)
	c.Rule("SKIPS", "disabled configs, well-known types and disable rules prevent the rewrite; overrides beat defaults; last override wins", 6)

	pk := p.Pkg("private/bufpkg/bufimage/bufimagemodify")
	pkI := p.Pkg("private/bufpkg/bufimage/bufimagemodify/internal")
	if pk == nil || pkI == nil {
		c.Fail("EFFECT-WHITELIST", "anchor", token.NoPos, "bufimagemodify packages not found")
		return
	}
	c18DFA(c)
	c18PathScope(c, pk)
	c18V1ExceptPairing(c)
	c18DisableScope(c, pk)
	c18DisableAnyMatch(c, pk)
	c18PrefixSuffixIndependent(c, pk)
	c18EnabledAsGiven(c)
	c18SweepScansAll(c, pkI)
	c18PerVisitState(c, pk)
	c18AccumulatorCarry(c, pk)
	ruleKeyInjective(c, "KEY-INJECTIVE", "private/bufpkg/bufimage/bufimagemodify/internal")
	if q := c.P.Pkg("private/bufpkg/bufimage/bufimagemodify/internal"); q != nil {
		ruleSortedInvariant(c, "SORTED-INVARIANT", []*packages.Package{q}, 2)
	}
	c16TablesInverse(c)
	info := pk.TypesInfo
	fileOptNums := descriptorFieldNumbers(p, "FileOptions")
	fieldOptNums := descriptorFieldNumbers(p, "FieldOptions")
	if len(fileOptNums) < 15 || len(fieldOptNums) < 5 {
		c.Fail("PATH-FIELD", "descriptorpb-tags", token.NoPos, "could not read protobuf struct tags of descriptorpb.FileOptions/FieldOptions")
		return
	}

	// (2) modifier calls
	governed := map[string]bool{}     // FileOptions Go field names governed by some modifier
	optConstUsed := map[string]bool{} // bufconfig.FileOptionX constants passed as the value option
	modifierFuncs := map[string]bool{}
	for _, fr := range p.FuncsOf(pk) {
		ast.Inspect(fr.Decl.Body, func(n ast.Node) bool {
			call, ok := n.(*ast.CallExpr)
			if !ok {
				return true
			}
			fn := Callee(info, call)
			if fn == nil || fn.Pkg() != pk.Types || (fn.Name() != "modifyStringOption" && fn.Name() != "modifyFileOption") {
				return true
			}
			modifierFuncs[fr.Decl.Name.Name] = true
			fields := map[string]int{}
			var pathVar types.Object
			var consts []string
			for _, a := range call.Args {
				switch x := ast.Unparen(a).(type) {
				case *ast.FuncLit:
					ast.Inspect(x.Body, func(m ast.Node) bool {
						switch y := m.(type) {
						case *ast.SelectorExpr:
							if namedPath(info.TypeOf(y.X)) != "google.golang.org/protobuf/types/descriptorpb.FileOptions" {
								return true
							}
							name := y.Sel.Name
							if strings.HasPrefix(name, "Get") {
								name = strings.TrimPrefix(name, "Get")
							}
							if _, isField := fileOptNums[name]; isField {
								fields[name]++
							}
						}
						return true
					})
				case *ast.SelectorExpr:
					// (*descriptorpb.FileOptions).GetFoo handed over instead of a closure
					if tv, ok := info.Types[x.X]; ok && tv.IsType() && namedPath(tv.Type) == "google.golang.org/protobuf/types/descriptorpb.FileOptions" {
						name := strings.TrimPrefix(x.Sel.Name, "Get")
						if _, isField := fileOptNums[name]; isField {
							fields[name]++
						}
					}
					if cst, ok := info.Uses[x.Sel].(*types.Const); ok && namedName(cst.Type()) == "FileOption" {
						consts = append(consts, cst.Name())
					}
				case *ast.Ident:
					if v, ok := info.Uses[x].(*types.Var); ok && v.Pkg() == pk.Types && v.Parent() == pk.Types.Scope() {
						if sl, ok := v.Type().(*types.Slice); ok && sl.Elem().String() == "int32" {
							pathVar = v
						}
					}
				}
			}
			inst := fr.Decl.Name.Name
			if len(fields) != 1 {
				c.Ob("PATH-FIELD", inst+"/closures-one-field", call.Pos(), false, true, "getter/setter/is-set closures mention FileOptions fields %v (want exactly one)", fields)
				return true
			}
			var F string
			for k := range fields {
				F = k
			}
			governed[F] = true
			c.Ob("PATH-FIELD", inst+"/closures-one-field", call.Pos(), fields[F] >= 2, true, "all accessors handed over (getter, setter, is-set; closures or method expressions) read/write FileOptions.%s (%d mentions)", F, fields[F])
			// path
			var path []string
			if pathVar != nil {
				if cl := pkgVarLiteral(pk, pathVar.Name()); cl != nil {
					for _, e := range cl.Elts {
						if tv, ok := info.Types[e]; ok && tv.Value != nil {
							path = append(path, tv.Value.ExactString())
						}
					}
				}
			}
			want := []string{"8", strconv.Itoa(fileOptNums[F])}
			okPath := len(path) == 2 && path[0] == want[0] && path[1] == want[1]
			c.Ob("PATH-FIELD", inst+"/source-path", call.Pos(), okPath, true, "source-location path %v equals {8 (FileDescriptorProto.options), %d (FileOptions.%s)}: %v", path, fileOptNums[F], F, okPath)
			// constant
			okConst := len(consts) >= 1 && normID(strings.TrimPrefix(consts[0], "FileOption")) == normID(F)
			if len(consts) >= 1 {
				optConstUsed[consts[0]] = true
				for _, extra := range consts[1:] {
					optConstUsed[extra] = true
				}
			}
			c.Ob("PATH-FIELD", inst+"/option-constant", call.Pos(), okConst, true, "value option constant %v names FileOptions.%s: %v", consts, F, okConst)
			return true
		})
	}

	// (1) effect whitelist
	for _, q := range []*packages.Package{pk, pkI} {
		qinfo := q.TypesInfo
		for _, f := range q.Syntax {
			if isGenerated(f) {
				continue
			}
			ast.Inspect(f, func(n ast.Node) bool {
				as, ok := n.(*ast.AssignStmt)
				if !ok {
					return true
				}
				for i, lhs := range as.Lhs {
					se, ok := ast.Unparen(lhs).(*ast.SelectorExpr)
					if !ok {
						continue
					}
					owner := namedPath(qinfo.TypeOf(se.X))
					if !strings.HasPrefix(owner, "google.golang.org/protobuf/types/descriptorpb.") {
						continue
					}
					msg := strings.TrimPrefix(owner, "google.golang.org/protobuf/types/descriptorpb.")
					fd := p.EnclosingFuncDecl(as)
					fname := "?"
					if fd != nil {
						fname = fd.Name.Name
					}
					inst := fname + "/" + msg + "." + se.Sel.Name
					okA, why := false, ""
					switch {
					case msg == "FileOptions" && governed[se.Sel.Name]:
						okA, why = true, "governed file option (has a modifier)"
					case msg == "FieldOptions" && se.Sel.Name == "Jstype":
						okA, why = true, "governed field option js_type"
					case (msg == "FileDescriptorProto" || msg == "FieldDescriptorProto") && se.Sel.Name == "Options":
						// must be a fresh empty literal under an == nil test
						if i < len(as.Rhs) {
							if ue, ok := as.Rhs[i].(*ast.UnaryExpr); ok {
								if cl, ok := ue.X.(*ast.CompositeLit); ok && len(cl.Elts) == 0 {
									for cur := p.Parent(as); cur != nil; cur = p.Parent(cur) {
										if ifs, ok := cur.(*ast.IfStmt); ok && strings.Contains(exprString(ifs.Cond), exprString(se)+" == nil") {
											okA, why = true, "nil Options replaced by an empty message"
										}
									}
								}
							}
						}
					case msg == "SourceCodeInfo" && se.Sel.Name == "Location":
						okA, why = true, "source-info sweep"
					}
					if !okA {
						why = "store into a descriptor field that managed mode does not govern"
					}
					c.Ob("EFFECT-WHITELIST", inst, as.Pos(), okA, true, "%s = …: %s", exprString(se), why)
				}
				return true
			})
		}
		for id, obj := range qinfo.Uses {
			if obj.Pkg() == nil {
				continue
			}
			full := obj.Pkg().Path() + "." + obj.Name()
			switch full {
			case "google.golang.org/protobuf/proto.Merge", "google.golang.org/protobuf/proto.Reset", "google.golang.org/protobuf/proto.SetExtension", "google.golang.org/protobuf/proto.ClearExtension":
				c.Ob("EFFECT-WHITELIST", "reflective/"+obj.Name(), id.Pos(), false, true, "reflective mutator %s referenced in bufimagemodify: the frame condition can no longer be read off the assignments", full)
			}
			if fn, ok := obj.(*types.Func); ok && namedPath(recvOf(fn)) == "google.golang.org/protobuf/reflect/protoreflect.Message" {
				switch fn.Name() {
				case "Set", "Clear", "Mutable", "SetUnknown":
					c.Ob("EFFECT-WHITELIST", "reflective/Message."+fn.Name(), id.Pos(), false, true, "protoreflect.Message.%s referenced in bufimagemodify", fn.Name())
				}
			}
		}
	}

	// (3) governed set
	pkCfg := p.Pkg("private/bufpkg/bufconfig")
	if pkCfg != nil {
		if obj := pkCfg.Types.Scope().Lookup("FileOption"); obj != nil {
			for name := range enumConstants(obj.Type()) {
				if name == "FileOptionUnspecified" {
					continue
				}
				helper := strings.HasSuffix(name, "Prefix") && name != "FileOptionObjcClassPrefix" || strings.HasSuffix(name, "Suffix")
				if name == "FileOptionSwiftPrefix" || name == "FileOptionPhpClassPrefix" {
					helper = false
				}
				ok := optConstUsed[name]
				msg := "has a modifier"
				if helper {
					msg = "prefix/suffix helper consumed by a value modifier"
				}
				c.Ob("GOVERNED-SET", "bufconfig."+name, obj.Pos(), ok, false, "%s: %v", msg, ok)
			}
		}
	}
	if mf := p.Func("private/bufpkg/bufimage/bufimagemodify", "Modify"); mf != nil {
		listed := map[string]bool{}
		ast.Inspect(mf.Decl.Body, func(n ast.Node) bool {
			if id, ok := n.(*ast.Ident); ok {
				if fn, ok := info.Uses[id].(*types.Func); ok && fn.Pkg() == pk.Types {
					listed[fn.Name()] = true
				}
			}
			return true
		})
		modifierFuncs["modifyJsType"] = true
		for _, m := range sortedKeys(modifierFuncs) {
			c.Ob("GOVERNED-SET", "Modify/"+m, mf.Decl.Pos(), listed[m], true, "modifier %s is in Modify's list: %v", m, listed[m])
		}
	} else {
		c.Fail("GOVERNED-SET", "Modify", token.NoPos, "not found")
	}

	// (4) set ⇔ mark, (5) precedence
	for _, gname := range []string{"modifyFileOption", "modifyStringOption"} {
		fr := p.Func("private/bufpkg/bufimage/bufimagemodify", gname)
		if fr == nil {
			c.Fail("SET-MARK-PAIR", gname, token.NoPos, "not found")
			continue
		}
		ginfo := fr.Info()
		g := p.CFGOf(fr.Decl.Body, ginfo)
		var sets, marks, disables []ast.Node
		var setParam types.Object
		idx := 0
		for _, fld := range fr.Decl.Type.Params.List {
			for _, nm := range fld.Names {
				if nm.Name == "setOptionFunc" || (idx >= 6 && strings.HasPrefix(nm.Name, "set")) {
					setParam = ginfo.Defs[nm]
				}
				idx++
			}
		}
		ast.Inspect(fr.Decl.Body, func(n ast.Node) bool {
			call, ok := n.(*ast.CallExpr)
			if !ok {
				return true
			}
			if setParam != nil && identObj(ginfo, call.Fun) == setParam {
				sets = append(sets, call)
			}
			if sel, ok := call.Fun.(*ast.SelectorExpr); ok && sel.Sel.Name == "Mark" && namedName(ginfo.TypeOf(sel.X)) == "MarkSweeper" {
				marks = append(marks, call)
			}
			if fn := Callee(ginfo, call); fn != nil && fn.Name() == "isFileOptionDisabledForFile" {
				disables = append(disables, call)
			}
			return true
		})
		// the tail "compare, set, Mark" may live in a helper of the package that is handed the setter: the pairing is then
		// decided inside the helper, and the helper call stands for both the set and the Mark in this function
		helperPaired := false
		if len(sets) == 0 && len(marks) == 0 {
			ast.Inspect(fr.Decl.Body, func(n ast.Node) bool {
				call, ok := n.(*ast.CallExpr)
				if !ok || helperPaired {
					return true
				}
				fn := Callee(ginfo, call)
				if fn == nil || fn.Pkg() != pk.Types {
					return true
				}
				passesSetter := false
				for _, a := range call.Args {
					if setParam != nil && identObj(ginfo, a) == setParam {
						passesSetter = true
					}
				}
				hd := p.DeclOf(fn)
				if !passesSetter || hd == nil || hd.Decl.Body == nil {
					return true
				}
				hinfo := hd.Info()
				hg := p.CFGOf(hd.Decl.Body, hinfo)
				var hsets, hmarks []ast.Node
				ast.Inspect(hd.Decl.Body, func(m ast.Node) bool {
					hc, ok := m.(*ast.CallExpr)
					if !ok {
						return true
					}
					if id, ok := hc.Fun.(*ast.Ident); ok {
						if v, isVar := hinfo.Uses[id].(*types.Var); isVar {
							if sig, isSig := v.Type().Underlying().(*types.Signature); isSig && sig.Results().Len() == 0 && sig.Params().Len() == 2 {
								hsets = append(hsets, hc)
							}
						}
					}
					if sel, ok := hc.Fun.(*ast.SelectorExpr); ok && sel.Sel.Name == "Mark" && namedName(hinfo.TypeOf(sel.X)) == "MarkSweeper" {
						hmarks = append(hmarks, hc)
					}
					return true
				})
				if len(hsets) == 1 && len(hmarks) == 1 && hg.Dominates(hsets[0], hmarks[0]) && !hg.ReachableAvoiding(nil, hmarks[0], hsets) {
					if bad, _ := hg.ExitReachableAvoiding(hsets[0], hmarks, nil); !bad {
						helperPaired = true
						sets, marks = []ast.Node{call}, []ast.Node{call}
					}
				}
				return true
			})
		}
		ok := len(sets) == 1 && len(marks) == 1
		if ok && !helperPaired {
			// no exit between them, and each dominates / is dominated
			if !g.Dominates(sets[0], marks[0]) {
				ok = false
			}
			if bad, _ := g.ExitReachableAvoiding(sets[0], marks, nil); bad {
				ok = false
			}
			// mark not reachable without set
			if g.ReachableAvoiding(nil, marks[0], sets) {
				ok = false
			}
		}
		c.Ob("SET-MARK-PAIR", gname, fr.Decl.Pos(), ok, true, "%d setter call(s) and %d Mark call(s); every path has both or neither: %v", len(sets), len(marks), ok)
		if gname == "modifyFileOption" {
			okDis := len(disables) == 1 && len(sets) == 1
			if okDis {
				ifs, _ := p.Parent(disables[0]).(*ast.IfStmt)
				if ifs == nil || len(ifs.Body.List) == 0 {
					okDis = false
				} else if g.Reachable(ifs.Body.List[0], sets[0]) {
					okDis = false
				}
			}
			c.Ob("SKIPS", gname+"/disable-blocks-set", fr.Decl.Pos(), okDis, true, "the setter is unreachable from the true edge of isFileOptionDisabledForFile: %v", okDis)
			// override wins: `if override != nil { value = *override }` dominates the setter
			okOv := false
			ast.Inspect(fr.Decl.Body, func(n ast.Node) bool {
				ifs, ok := n.(*ast.IfStmt)
				if !ok {
					return true
				}
				if o, nonNil, ok := errNilTestAny(ginfo, ifs.Cond); ok && nonNil && o != nil && strings.Contains(strings.ToLower(o.Name()), "override") {
					for _, st := range ifs.Body.List {
						if as, ok := st.(*ast.AssignStmt); ok && len(as.Rhs) == 1 && usesObj(ginfo, as.Rhs[0], o) && len(sets) == 1 && g.Dominates(ifs.Cond, sets[0]) {
							okOv = true
						}
					}
				}
				return true
			})
			c.Ob("SKIPS", gname+"/override-before-default", fr.Decl.Pos(), okOv, true, "a non-nil override replaces the default before the setter runs: %v", okOv)
		}
	}
	// jstype walker: field store ⇔ Mark (when a path exists)
	if js := p.Func("private/bufpkg/bufimage/bufimagemodify", "modifyJsType"); js != nil {
		jinfo := js.Info()
		okPair := false
		// the walker's callback: a literal inside modifyJsType, or a function / method of the package it was moved to
		var bodies []*ast.BlockStmt
		ast.Inspect(js.Decl.Body, func(n ast.Node) bool {
			if lit, ok := n.(*ast.FuncLit); ok {
				bodies = append(bodies, lit.Body)
			}
			return true
		})
		for _, fr := range p.FuncsOf(js.Pkg) {
			if fr.Decl.Body != nil && fr.Decl != js.Decl {
				bodies = append(bodies, fr.Decl.Body)
			}
		}
		for _, litBody := range bodies {
			lit := struct{ Body *ast.BlockStmt }{litBody}
			func() bool {
				var store, mark ast.Node
				ast.Inspect(lit.Body, func(m ast.Node) bool {
					switch x := m.(type) {
					case *ast.AssignStmt:
						if se, ok := x.Lhs[0].(*ast.SelectorExpr); ok && se.Sel.Name == "Jstype" {
							store = x
						}
					case *ast.CallExpr:
						if sel, ok := x.Fun.(*ast.SelectorExpr); ok && sel.Sel.Name == "Mark" {
							mark = x
						}
					}
					return true
				})
				if store == nil || mark == nil {
					return true
				}
				g := p.CFGOf(lit.Body, jinfo)
				if g.Dominates(store, mark) && !g.ReachableAvoiding(nil, mark, []ast.Node{store}) {
					okPair = true
				}
				return true
			}()
		}
		c.Ob("SET-MARK-PAIR", "modifyJsType", js.Decl.Pos(), okPair, true, "the js_type store dominates the Mark and Mark is unreachable without it: %v", okPair)
		// path suffix = field number of FieldOptions.Jstype, prefixed by 8 (FieldDescriptorProto.options)
		if cl := pkgVarLiteral(pk, "jsTypeSubPath"); cl != nil {
			var path []string
			for _, e := range cl.Elts {
				if tv, ok := info.Types[e]; ok && tv.Value != nil {
					path = append(path, tv.Value.ExactString())
				}
			}
			fdNums := descriptorFieldNumbers(p, "FieldDescriptorProto")
			want := []string{strconv.Itoa(fdNums["Options"]), strconv.Itoa(fieldOptNums["Jstype"])}
			ok := len(path) == 2 && path[0] == want[0] && path[1] == want[1]
			c.Ob("PATH-FIELD", "modifyJsType/source-path", cl.Pos(), ok, true, "jsTypeSubPath %v equals {%s (FieldDescriptorProto.options), %s (FieldOptions.jstype)}: %v", path, want[0], want[1], ok)
		} else {
			c.Fail("PATH-FIELD", "modifyJsType/source-path", js.Decl.Pos(), "jsTypeSubPath literal not found")
		}
		// last override wins: the override loop has no break/return-on-first-match
		okLast := true
		ast.Inspect(js.Decl.Body, func(n ast.Node) bool {
			rs, ok := n.(*ast.RangeStmt)
			if !ok || !strings.Contains(strings.ToLower(exprString(rs.X)), "override") {
				return true
			}
			ast.Inspect(rs.Body, func(m ast.Node) bool {
				if b, ok := m.(*ast.BranchStmt); ok && b.Tok == token.BREAK {
					okLast = false
				}
				return true
			})
			return true
		})
		c.Ob("SKIPS", "modifyJsType/last-override-wins", js.Decl.Pos(), okLast, true, "the override loop has no break: later matching rules overwrite earlier ones: %v", okLast)
	}
	// overrideFromConfig / stringOverrideFromConfig: no break in the loop over overrides
	for _, name := range []string{"overrideFromConfig", "stringOverrideFromConfig"} {
		fr := p.Func("private/bufpkg/bufimage/bufimagemodify", name)
		if fr == nil {
			c.Fail("SKIPS", name, token.NoPos, "not found")
			continue
		}
		okLast, loops := true, 0
		ast.Inspect(fr.Decl.Body, func(n ast.Node) bool {
			rs, ok := n.(*ast.RangeStmt)
			if !ok {
				return true
			}
			loops++
			ast.Inspect(rs.Body, func(m ast.Node) bool {
				if b, ok := m.(*ast.BranchStmt); ok && b.Tok == token.BREAK {
					okLast = false
				}
				return true
			})
			return true
		})
		c.Ob("SKIPS", name+"/last-override-wins", fr.Decl.Pos(), okLast && loops > 0, true, "%d loop(s) over override rules, none left early: %v", loops, okLast)
	}
	// modifyImage: Enabled() early return and WKT skip
	if mi := p.Func("private/bufpkg/bufimage/bufimagemodify", "modifyImage"); mi != nil {
		minfo := mi.Info()
		g := p.CFGOf(mi.Decl.Body, minfo)
		var enabled, wkt, modcall, sweep ast.Node
		ast.Inspect(mi.Decl.Body, func(n ast.Node) bool {
			call, ok := n.(*ast.CallExpr)
			if !ok {
				return true
			}
			if sel, ok := call.Fun.(*ast.SelectorExpr); ok {
				switch sel.Sel.Name {
				case "Enabled":
					enabled = call
				case "Exists":
					wkt = call
				case "Sweep":
					sweep = call
				}
			}
			if id, ok := call.Fun.(*ast.Ident); ok {
				if v, ok := minfo.Uses[id].(*types.Var); ok {
					if _, isSig := v.Type().Underlying().(*types.Signature); isSig {
						modcall = call
					}
				}
			}
			return true
		})
		ok := enabled != nil && wkt != nil && modcall != nil
		desc := ""
		if ok {
			// Enabled(): `if !config.Enabled() { return nil }` dominating everything
			ifs, _ := p.Parent(p.Parent(enabled)).(*ast.IfStmt)
			if ifs == nil {
				ifs, _ = p.Parent(enabled).(*ast.IfStmt)
			}
			if ifs == nil || !g.Dominates(enabled, modcall) || len(ifs.Body.List) == 0 || g.Reachable(ifs.Body.List[0], modcall) {
				ok, desc = false, "modifiers reachable when the config is disabled"
			}
			wifs, _ := p.Parent(wkt).(*ast.IfStmt)
			if wifs == nil || len(wifs.Body.List) == 0 {
				ok, desc = false, "well-known-type test is not an if"
			} else if _, isCont := wifs.Body.List[0].(*ast.BranchStmt); !isCont || !g.Dominates(wkt, modcall) {
				ok, desc = false, "well-known-type files are not skipped before the modifiers"
			}
		}
		c.Ob("SKIPS", "modifyImage/enabled-and-wkt", mi.Decl.Pos(), ok, true, "modifiers run only when config.Enabled() and not for datawkt.Exists(path) files %s", desc)
		c.Ob("SKIPS", "modifyImage/sweep-after", mi.Decl.Pos(), sweep != nil && modcall != nil && !g.Reachable(sweep, modcall), true, "source info is swept once, after all modifiers")
	} else {
		c.Fail("SKIPS", "modifyImage", token.NoPos, "not found")
	}
	_ = fmt.Sprint
}

// errNilTestAny is errNilTest without the error-type restriction.
func errNilTestAny(info *types.Info, cond ast.Expr) (types.Object, bool, bool) {
	return errNilTest(info, cond)
}

// c18PathScope (PATH-SCOPE, added after seeded change C18-b): a disable or override rule scoped to a path applies to
// that file or directory, decided path-wise: fileMatchConfig tests normalpath.EqualsOrContainsPath(rule path, file
// path) and nothing in the package compares a file path by string prefix (`foo` would also govern `foobar/x.proto`).
func c18PathScope(c *Ctx, pk *packages.Package) {
	const rule = "PATH-SCOPE"
	c.Rule(rule, "path-scoped rules match path-wise (EqualsOrContainsPath), never by string prefix", 2)
	p := c.P
	info := pk.TypesInfo
	fm := p.Func("private/bufpkg/bufimage/bufimagemodify", "fileMatchConfig")
	if fm == nil {
		c.Fail(rule, "fileMatchConfig", token.NoPos, "not found")
		return
	}
	var reqPath types.Object
	for _, fl := range fm.Decl.Type.Params.List {
		for _, nm := range fl.Names {
			if nm.Name == "requiredPath" {
				reqPath = info.Defs[nm]
			}
		}
	}
	okCall := false
	ast.Inspect(fm.Decl.Body, func(n ast.Node) bool {
		call, ok := n.(*ast.CallExpr)
		if !ok {
			return true
		}
		if fn := Callee(info, call); fn != nil && calleeIs(fn, "private/pkg/normalpath", "EqualsOrContainsPath") && len(call.Args) >= 2 {
			if identObj(info, call.Args[0]) == reqPath && reqPath != nil && strings.HasSuffix(exprString(call.Args[1]), ".Path()") {
				// and it is a negated guard of `return false`
				if ue, ok := p.Parent(call).(*ast.UnaryExpr); ok && ue.Op == token.NOT {
					okCall = true
				}
			}
		}
		return true
	})
	c.Ob(rule, "fileMatchConfig/path-wise", fm.Decl.Pos(), okCall, true, "a file is rejected when !EqualsOrContainsPath(requiredPath, imageFile.Path()): %v", okCall)
	n := 0
	for _, fr := range p.FuncsOf(pk) {
		if fr.Decl.Body == nil {
			continue
		}
		ast.Inspect(fr.Decl.Body, func(x ast.Node) bool {
			call, ok := x.(*ast.CallExpr)
			if !ok || len(call.Args) != 2 {
				return true
			}
			fn := Callee(info, call)
			if fn == nil || fn.Pkg() == nil || fn.Pkg().Path() != "strings" || (fn.Name() != "HasPrefix" && fn.Name() != "HasSuffix" && fn.Name() != "Contains") {
				return true
			}
			if strings.Contains(exprString(call.Args[0]), "Path()") || strings.Contains(strings.ToLower(exprString(call.Args[1])), "path") {
				n++
				c.Ob(rule, fr.ID()+"/strings."+fn.Name(), call.Pos(), false, true, "strings.%s(%s, %s) decides a path scope by string prefix", fn.Name(), exprString(call.Args[0]), exprString(call.Args[1]))
			}
			return true
		})
	}
	c.Ob(rule, "no-string-prefix-on-paths", token.NoPos, n == 0, true, "%d string-prefix tests on file paths in bufimagemodify", n)
}

// c18V1ExceptPairing (V1-EXCEPT-PAIRING, round 2): a v1 managed-mode section `<option>: {except: [...], override:
// {...}}` is translated by one helper call into disable rules (from except) and override rules (from override). The
// two FileOption constants of each call must describe the section they are given: the override constant is
// FileOption<Section>, and the except constant is the *whole* option that section governs - the same constant, or, for
// a *_prefix section, the constant without "Prefix" when the option exists (java_package_prefix's except disables
// java_package). A slip turns an `except` into a prefix-only disable that an override (or the default) for the full
// option still beats: the excepted module's files are modified although the user exempted them.
func c18V1ExceptPairing(c *Ctx) {
	const rule = "V1-EXCEPT-PAIRING"
	c.Rule(rule, "each v1 except/override section is translated with the FileOption constants of that section", 6)
	p := c.P
	pk := p.Pkg("private/bufpkg/bufconfig")
	if pk == nil {
		c.Fail(rule, "anchor", token.NoPos, "bufconfig not found")
		return
	}
	info := pk.TypesInfo
	constName := func(e ast.Expr) string {
		if id := lastIdent(e); id != nil {
			if cst, ok := info.Uses[id].(*types.Const); ok {
				return cst.Name()
			}
		}
		return ""
	}
	for _, fr := range p.FuncsOf(pk) {
		if fr.Decl.Body == nil {
			continue
		}
		ast.Inspect(fr.Decl.Body, func(n ast.Node) bool {
			call, ok := n.(*ast.CallExpr)
			if !ok || len(call.Args) != 4 {
				return true
			}
			fn := Callee(info, call)
			if fn == nil || fn.Pkg() != pk.Types {
				return true
			}
			// shape: (FileOption, X.Except, FileOption, X.Override)
			s1, ok1 := ast.Unparen(call.Args[1]).(*ast.SelectorExpr)
			s3, ok3 := ast.Unparen(call.Args[3]).(*ast.SelectorExpr)
			if !ok1 || !ok3 || s1.Sel.Name != "Except" || s3.Sel.Name != "Override" {
				return true
			}
			exc, ovr := constName(call.Args[0]), constName(call.Args[2])
			// the section: the external field the Except/Override holder was read from
			section := ""
			if holder := identObj(info, s1.X); holder != nil && holder == identObj(info, s3.X) {
				ast.Inspect(fr.Decl.Body, func(m ast.Node) bool {
					as, ok := m.(*ast.AssignStmt)
					if ok && len(as.Lhs) == 1 && len(as.Rhs) == 1 && identObj(info, as.Lhs[0]) == holder {
						if sel, ok := ast.Unparen(as.Rhs[0]).(*ast.SelectorExpr); ok {
							section = sel.Sel.Name
						}
					}
					return true
				})
			}
			if section == "" {
				c.Ob(rule, fr.Decl.Name.Name+"/"+exprString(call.Args[1]), call.Pos(), false, true, "the section behind %s could not be identified", exprString(call.Args[1]))
				return true
			}
			wantOvr := "FileOption" + section
			wantExc := wantOvr
			if strings.HasSuffix(wantOvr, "Prefix") {
				if _, ok := pk.Types.Scope().Lookup(strings.TrimSuffix(wantOvr, "Prefix")).(*types.Const); ok {
					wantExc = strings.TrimSuffix(wantOvr, "Prefix")
				}
			}
			ok = exc == wantExc && ovr == wantOvr
			c.Ob(rule, fr.Decl.Name.Name+"/"+section, call.Pos(), ok, true, "section %s: except -> %s (want %s), override -> %s (want %s)", section, exc, wantExc, ovr, wantOvr)
			return true
		})
	}
}

// c18DisableScope (DISABLE-SCOPE, round 2): a managed-mode disable rule may name a file option, a field option, or
// neither (then it disables everything for the files it matches). Each consumer of GenerateManagedConfig.Disables() in
// bufimagemodify decides whether a rule applies to the option it is about to modify; the decision is extracted from the
// syntax and evaluated (bfeval: never run) for every combination of
//
//	rule.FileOption  ∈ {unspecified, the option being modified, another option}
//	rule.FieldOption ∈ {unspecified, the option being modified, another option}
//	fileMatchConfig  ∈ {true, false}
//
// and compared with the scope table: a file-option modifier obeys a rule iff the rule names no field option, names this
// file option or none, and matches the file; a field-option modifier obeys a rule iff it names this field option, or
// names nothing at all, and matches the file. In particular a rule that disables only a *file* option never exempts a
// file from a *field* option override, and vice versa.
func c18DisableScope(c *Ctx, pk *packages.Package) {
	const rule = "DISABLE-SCOPE"
	c.Rule(rule, "every consumer of the disable rules applies a rule exactly to the options it is scoped to", 2)
	p := c.P
	info := pk.TypesInfo
	isDisablesCall := func(e ast.Expr) bool {
		call, ok := ast.Unparen(e).(*ast.CallExpr)
		if !ok {
			return false
		}
		sel, ok := ast.Unparen(call.Fun).(*ast.SelectorExpr)
		return ok && sel.Sel.Name == "Disables" && len(call.Args) == 0
	}
	states := []string{"unspecified", "this", "other"}
	evalAll := func(inst string, pos token.Pos, side string, run func(atom func(ast.Expr) (tri, bool)) bfOutcome) {
		var diffs []string
		n := 0
		for _, fileSt := range states {
			for _, fieldSt := range states {
				for _, match := range []bool{true, false} {
					atom := func(e ast.Expr) (tri, bool) {
						e = ast.Unparen(e)
						if call, ok := e.(*ast.CallExpr); ok {
							if fn := Callee(info, call); fn != nil && fn.Name() == "fileMatchConfig" {
								return triOf(match), true
							}
							return triUnknown, false
						}
						bin, ok := e.(*ast.BinaryExpr)
						if !ok || (bin.Op != token.EQL && bin.Op != token.NEQ) {
							return triUnknown, false
						}
						acc, other := bin.X, bin.Y
						if _, isCall := ast.Unparen(acc).(*ast.CallExpr); !isCall {
							acc, other = other, acc
						}
						call, ok := ast.Unparen(acc).(*ast.CallExpr)
						if !ok {
							return triUnknown, false
						}
						sel, ok := ast.Unparen(call.Fun).(*ast.SelectorExpr)
						if !ok {
							return triUnknown, false
						}
						st := ""
						switch sel.Sel.Name {
						case "FileOption":
							st = fileSt
						case "FieldOption":
							st = fieldSt
						default:
							return triUnknown, false
						}
						// what is it compared with: the Unspecified constant, or the option being modified
						cmp := "this"
						if id := lastIdent(other); id != nil {
							if cst, ok := info.Uses[id].(*types.Const); ok && strings.HasSuffix(cst.Name(), "Unspecified") {
								cmp = "unspecified"
							}
						}
						eq := st == cmp
						if bin.Op == token.NEQ {
							eq = !eq
						}
						return triOf(eq), true
					}
					out := run(atom)
					n++
					want := false
					switch side {
					case "file":
						want = fieldSt == "unspecified" && fileSt != "other" && match
					case "field":
						want = (fieldSt == "this" || (fieldSt == "unspecified" && fileSt == "unspecified")) && match
					}
					got := "undecided: " + out.Undecided
					if out.Undecided == "" {
						got = fmt.Sprint(out.Value == triTrue)
					}
					if got != fmt.Sprint(want) {
						diffs = append(diffs, fmt.Sprintf("file=%s field=%s match=%v: applies=%s want %v", fileSt, fieldSt, match, got, want))
					}
				}
			}
		}
		c.Ob(rule, inst, pos, len(diffs) == 0, true, "%s-option consumer evaluated on %d rule shapes; deviations from the scope table: %v", side, n, diffs)
	}
	// predicates extracted into package helpers are evaluated through their bodies
	bfInline = func(call *ast.CallExpr) (*ast.FuncDecl, *types.Info) {
		fn := Callee(info, call)
		if fn == nil || fn.Pkg() != pk.Types || fn.Name() == "fileMatchConfig" {
			return nil, nil
		}
		if d := p.DeclOf(fn); d != nil && d.Decl.Body != nil {
			return d.Decl, d.Info()
		}
		return nil, nil
	}
	defer func() { bfInline = nil }()
	found := 0
	for _, fr := range p.FuncsOf(pk) {
		if fr.Decl.Body == nil {
			continue
		}
		ast.Inspect(fr.Decl.Body, func(n ast.Node) bool {
			switch x := n.(type) {
			case *ast.RangeStmt:
				src := ast.Expr(x.X)
				// `all := config.Disables(); for _, d := range all`
				if o := identObj(info, src); o != nil {
					ast.Inspect(fr.Decl.Body, func(m ast.Node) bool {
						if as, ok := m.(*ast.AssignStmt); ok && len(as.Lhs) == 1 && len(as.Rhs) == 1 && identObj(info, as.Lhs[0]) == o {
							src = as.Rhs[0]
						}
						return true
					})
				}
				if !isDisablesCall(src) {
					return true
				}
				found++
				// which kind of option does this consumer decide for? the one it compares with something other
				// than the Unspecified constant (a loop that filters into a slice qualifies an element by appending it)
				side := "file"
				deepInspect(p, &FuncRef{Pkg: pk, Decl: &ast.FuncDecl{Name: fr.Decl.Name, Type: fr.Decl.Type, Body: x.Body}}, 2, func(m ast.Node, _ *types.Info) bool {
					if be, ok := m.(*ast.BinaryExpr); ok && (be.Op == token.EQL || be.Op == token.NEQ) {
						for _, pair := range [][2]ast.Expr{{be.X, be.Y}, {be.Y, be.X}} {
							if call, ok := ast.Unparen(pair[0]).(*ast.CallExpr); ok {
								if sel, ok := ast.Unparen(call.Fun).(*ast.SelectorExpr); ok && sel.Sel.Name == "FieldOption" {
									if id := lastIdent(pair[1]); id != nil {
										if cst, ok := info.Uses[id].(*types.Const); ok && !strings.HasSuffix(cst.Name(), "Unspecified") {
											side = "field"
										}
									}
								}
							}
						}
					}
					return true
				})
				bfOnAssign = func(as *ast.AssignStmt) (bool, tri) {
					if len(as.Rhs) == 1 {
						if call, ok := ast.Unparen(as.Rhs[0]).(*ast.CallExpr); ok && exprString(call.Fun) == "append" {
							return true, triTrue
						}
					}
					return false, triUnknown
				}
				evalAll(fr.Decl.Name.Name+"/range-disables", x.Pos(), side, func(atom func(ast.Expr) (tri, bool)) bfOutcome {
					return bfEvalLoopBody(info, x.Body, triFalse, atom)
				})
				bfOnAssign = nil
			case *ast.CallExpr:
				if len(x.Args) != 2 || !isDisablesCall(x.Args[0]) {
					return true
				}
				var flBody *ast.BlockStmt
				if fl, ok := ast.Unparen(x.Args[1]).(*ast.FuncLit); ok {
					flBody = fl.Body
				} else if id := lastIdent(x.Args[1]); id != nil {
					if fn, ok := info.Uses[id].(*types.Func); ok {
						if d := p.DeclOf(fn); d != nil {
							flBody = d.Decl.Body
						}
					}
				}
				if flBody == nil {
					return true
				}
				found++
				evalAll(fr.Decl.Name.Name+"/filter-disables", x.Pos(), "field", func(atom func(ast.Expr) (tri, bool)) bfOutcome {
					return bfEvalFunc(info, flBody, atom, func(ast.Expr) (tri, bool) { return triUnknown, false }, func(ast.Expr) (string, bool) { return "", false })
				})
			}
			return true
		})
	}
	if found < 2 {
		c.Fail(rule, "consumers", token.NoPos, "only %d consumer(s) of Disables() found in bufimagemodify (expected the file-option predicate and the field-option filter)", found)
	}
}
