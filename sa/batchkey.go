package main

import (
	"go/ast"
	"go/token"
	"go/types"
	"sort"
	"strings"
)

// batchKeyRule (BATCH-KEY, round 2; shared by C12 and C17): `buf generate` groups plugins that can share one filtered
// image under a key and then builds the image once per group from the group's first plugin. That is only right when
// the key determines everything that is read from that representative:
//   - every field of the key literal is computed from the plugin-config accessor of the same name (includeTypes from
//     IncludeTypes(), excludeTypes from ExcludeTypes(), ...): a copy-paste slip merges plugins whose filters differ,
//     and all but the first of them receive an image filtered for somebody else;
//   - every accessor the grouping function calls on the representative is part of the key.
//
// The key function is found through the grouping call (slicesext.ToIndexedValuesMap(configs, keyFn)), the
// representative as a variable initialised from element [0] of a group.
func batchKeyRule(c *Ctx, rule string) {
	c.Rule(rule, "the plugin batching key is built from the namesake accessors and covers what is read from a group's representative", 5)
	p := c.P
	pk := p.Pkg("private/buf/bufgen")
	if pk == nil {
		c.Fail(rule, "anchor", token.NoPos, "package bufgen not found")
		return
	}
	info := pk.TypesInfo
	var keyFn *FuncRef
	var groupFn *FuncRef
	for _, fr := range p.FuncsOf(pk) {
		if fr.Decl.Body == nil {
			continue
		}
		ast.Inspect(fr.Decl.Body, func(n ast.Node) bool {
			call, ok := n.(*ast.CallExpr)
			if !ok || len(call.Args) != 2 {
				return true
			}
			if fn := Callee(info, call); fn == nil || fn.Name() != "ToIndexedValuesMap" {
				return true
			}
			if kf, ok := info.Uses[lastIdent(call.Args[1])].(*types.Func); ok {
				if d := p.DeclOf(kf); d != nil {
					keyFn, groupFn = d, fr
				}
			}
			return true
		})
	}
	if keyFn == nil {
		c.Fail(rule, "key-function", token.NoPos, "no slicesext.ToIndexedValuesMap(configs, keyFn) grouping found in bufgen")
		return
	}
	if keyFn.Decl.Type.Params == nil || len(keyFn.Decl.Type.Params.List) != 1 || len(keyFn.Decl.Type.Params.List[0].Names) != 1 {
		c.Fail(rule, "key-function", keyFn.Decl.Pos(), "%s does not take exactly one plugin config", keyFn.Decl.Name.Name)
		return
	}
	param := info.Defs[keyFn.Decl.Type.Params.List[0].Names[0]]
	// locals of the key function that hold an accessor result (`includeTypes := cfg.IncludeTypes()`)
	localFrom := map[types.Object]ast.Expr{}
	ast.Inspect(keyFn.Decl.Body, func(n ast.Node) bool {
		if as, ok := n.(*ast.AssignStmt); ok && len(as.Lhs) == len(as.Rhs) {
			for i, l := range as.Lhs {
				if o := identObj(info, l); o != nil {
					if _, dup := localFrom[o]; dup {
						localFrom[o] = nil // assigned more than once: not followed
					} else {
						localFrom[o] = as.Rhs[i]
					}
				}
			}
		}
		return true
	})
	var accessorsOn func(e ast.Node, recv func(types.Object) bool) []string
	accessorsOn = func(e ast.Node, recv func(types.Object) bool) []string {
		set := map[string]bool{}
		ast.Inspect(e, func(n ast.Node) bool {
			switch x := n.(type) {
			case *ast.CallExpr:
				sel, ok := ast.Unparen(x.Fun).(*ast.SelectorExpr)
				if !ok {
					return true
				}
				if id, ok := ast.Unparen(sel.X).(*ast.Ident); ok && recv(info.Uses[id]) {
					set[sel.Sel.Name] = true
				}
			case *ast.Ident:
				if o := info.Uses[x]; o != nil {
					if rhs := localFrom[o]; rhs != nil && rhs != e {
						for _, a := range accessorsOn(rhs, recv) {
							set[a] = true
						}
					}
				}
			}
			return true
		})
		return sortedKeys(set)
	}
	keyAccessors := map[string]bool{}
	nLit := 0
	ast.Inspect(keyFn.Decl.Body, func(n ast.Node) bool {
		lit, ok := n.(*ast.CompositeLit)
		if !ok {
			return true
		}
		if _, isStruct := info.TypeOf(lit).Underlying().(*types.Struct); !isStruct {
			return true
		}
		nLit++
		for _, el := range lit.Elts {
			kv, ok := el.(*ast.KeyValueExpr)
			if !ok {
				c.Ob(rule, "key/positional", el.Pos(), false, true, "the key literal is not keyed by field name")
				continue
			}
			field := kv.Key.(*ast.Ident).Name
			acc := accessorsOn(kv.Value, func(o types.Object) bool { return o != nil && o == param })
			ok = len(acc) == 1 && strings.EqualFold(acc[0], field)
			for _, a := range acc {
				keyAccessors[a] = true
			}
			c.Ob(rule, "key/"+field, kv.Pos(), ok, true, "key field %s is computed from the plugin config's %v (want exactly its namesake accessor)", field, acc)
		}
		return true
	})
	if nLit != 1 {
		c.Fail(rule, "key/literal", keyFn.Decl.Pos(), "%d struct literals in %s (want the one key literal)", nLit, keyFn.Decl.Name.Name)
	}
	// the representative of a group
	reps := map[types.Object]bool{}
	ast.Inspect(groupFn.Decl.Body, func(n ast.Node) bool {
		as, ok := n.(*ast.AssignStmt)
		if !ok || len(as.Lhs) != 1 || len(as.Rhs) != 1 {
			return true
		}
		e := ast.Unparen(as.Rhs[0])
		if sel, ok := e.(*ast.SelectorExpr); ok {
			e = ast.Unparen(sel.X)
		}
		ix, ok := e.(*ast.IndexExpr)
		if !ok {
			return true
		}
		if tv, ok := info.Types[ix.Index]; !ok || tv.Value == nil || tv.Value.ExactString() != "0" {
			return true
		}
		if o := identObj(info, as.Lhs[0]); o != nil && namedName(o.Type()) == "GeneratePluginConfig" {
			reps[o] = true
		}
		return true
	})
	if len(reps) == 0 {
		c.Fail(rule, "representative", groupFn.Decl.Pos(), "no group representative (x := group[0].Value of type GeneratePluginConfig) found in %s", groupFn.Decl.Name.Name)
		return
	}
	used := accessorsOn(groupFn.Decl.Body, func(o types.Object) bool { return o != nil && reps[o] })
	sort.Strings(used)
	for _, a := range used {
		c.Ob(rule, "representative/"+a, groupFn.Decl.Pos(), keyAccessors[a], true, "%s() is read from the group's first plugin only; part of the key: %v", a, keyAccessors[a])
	}
}

func lastIdent(e ast.Expr) *ast.Ident {
	switch x := ast.Unparen(e).(type) {
	case *ast.Ident:
		return x
	case *ast.SelectorExpr:
		return x.Sel
	}
	return nil
}
