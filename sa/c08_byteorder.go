package main

import (
	"fmt"
	"go/token"
	"go/types"
	"strings"

	"golang.org/x/tools/go/packages"
	"golang.org/x/tools/go/ssa"
)

// c08ByteOrder (BYTE-ORDER; C08, after round-4 seed C08-j): the published digest construction sorts the manifest by
// path and the dependency digests by their text - plain byte order of the strings. A comparator that transforms its
// keys first (splits them into components, folds case, normalises separators) yields a different order for some inputs
// ("a/x" vs "a-b": '/' sorts after '-') and therefore a different digest than every other implementation of the
// construction, while still being a perfectly valid, deterministic order that no round-trip test notices. For every
// comparator handed to a sort in the digest packages the rule demands that the values compared come from the elements
// through accessor calls only (methods without arguments), compared by <, >, strings.Compare or cmp.Compare.
func c08ByteOrder(c *Ctx, pkgs []*packages.Package) {
	const rule = "BYTE-ORDER"
	c.Rule(rule, "sort comparators of the digest packages compare the raw key strings (accessor results), not a transformation of them", 2)
	p := c.P
	isSortWithFunc := func(fn *types.Func) bool {
		if fn == nil || fn.Pkg() == nil {
			return false
		}
		switch fn.Pkg().Path() {
		case "sort":
			return fn.Name() == "Slice" || fn.Name() == "SliceStable"
		case "slices":
			return fn.Name() == "SortFunc" || fn.Name() == "SortStableFunc"
		}
		return false
	}
	n := 0
	for _, sf := range p.SSAFuncsOf(pkgs) {
		for _, f := range allSSAFuncs(sf) {
			k := 0
			for _, call := range callsIn(f) {
				if !isSortWithFunc(staticCalleeObj(call.Call)) || len(call.Call.Args) < 2 {
					continue
				}
				var cmp *ssa.Function
				switch v := stripConv(call.Call.Args[1]).(type) {
				case *ssa.MakeClosure:
					cmp, _ = v.Fn.(*ssa.Function)
				case *ssa.Function:
					cmp = v
				}
				if cmp == nil || cmp.Blocks == nil {
					continue
				}
				n++
				k++
				var bad []string
				for _, r := range returnsOf(cmp) {
					for _, res := range r.Results {
						sliceBackDeep(res, func(x ssa.Value) bool {
							cl, ok := x.(*ssa.Call)
							if !ok {
								return true
							}
							if cl.Call.IsInvoke() {
								if len(cl.Call.Args) > 0 {
									bad = append(bad, cl.Call.Method.Name())
								}
								return true
							}
							o := staticCalleeObj(&cl.Call)
							if o == nil {
								if _, isBuiltin := cl.Call.Value.(*ssa.Builtin); !isBuiltin {
									bad = append(bad, "dynamic call")
								}
								return true
							}
							if o.Pkg() != nil && (o.Pkg().Path() == "strings" || o.Pkg().Path() == "cmp" || o.Pkg().Path() == "bytes") && o.Name() == "Compare" {
								return true
							}
							sig := o.Type().(*types.Signature)
							if sig.Recv() != nil && sig.Params().Len() == 0 {
								return true // accessor
							}
							if o.Pkg() != nil && strings.HasPrefix(o.Pkg().Path(), modPath) && sig.Params().Len() <= 1 && sig.Recv() == nil && len(cl.Call.Args) == 1 {
								// a module helper taking the element: looked through by sliceBackDeep
								return true
							}
							bad = append(bad, funcIDFull(o))
							return true
						})
					}
				}
				c.Ob(rule, fmt.Sprintf("%s/comparator#%d", ssaFuncName(f), k), call.Pos(), len(bad) == 0, true, "the comparator compares accessor results directly; transformations applied to the keys first: %v", bad)
			}
		}
	}
	if n == 0 {
		c.Fail(rule, "anchor", token.NoPos, "no sort with a comparator found in the digest packages")
	}
}
