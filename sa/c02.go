package main

// C02 — outputs are deterministic and independent of scheduling and enumeration order.

import (
	"fmt"
	"go/ast"
	"go/token"
	"go/types"
	"regexp"
	"strings"

	"golang.org/x/tools/go/packages"
)

func init() {
	register(&propCheck{
		ID: "C02",
		Explanation: "Order-nondeterminism in Go has few sources and all are syntactically visible; this check enumerates them on every run: " +
			"(1) R-MAPORDER classifies the effects of every `range` over a map in the product packages (callees resolved, local closures inlined): " +
			"commutative effects (map/set stores, deletes, counters, constant stores, lazy initialisation, per-key appends, order-absorbing sinks) discharge; " +
			"appends to a slice discharge only if every path from the loop to the next use of the slice passes a sort of it (CFG) or the use is a frozen sorting " +
			"consumer; find-any returns, last-writer-wins stores, writes and effectful calls must be in the frozen triage table (one reason per loop, reasons " +
			"checked where they can be: prefix-free literal tables, single-element guards); anything else is an 'unreviewed order-sensitive iteration'; " +
			"(2) the map-order sources slicesext.MapKeysToSlice/MapValuesToSlice/maps.Keys/Values are treated the same way at each call site; " +
			"(3) R-GOAGG: in every function that runs jobs through thread.Parallelize, writes of job closures to shared variables are index-addressed, atomic, or " +
			"appended under one mutex and sorted after the barrier; (4) wire/JSON/text/YAML marshalling entry points are referenced only inside protoencoding, the " +
			"wire marshaler sets Deterministic: true and detrand is disabled at init; (5) no math/rand, time.Now or multi-way select in packages feeding outputs, " +
			"outside a frozen allow-list; (6) thread.globalParallelism is accessed under its RWMutex. NOT decided: byte equality across runs, nondeterminism " +
			"inside dependencies (protocompile's own scheduling; only the re-sort of its results is checked, under C01).",
		Assumptions: []string{
			"annotations are sorted and de-duplicated before printing (obligation of C20/C06)",
			"queries (calls whose value is consumed by an expression) have no order-dependent side effects",
		},
		Run: runC02,
	})
}

// packages that do not feed the outputs the property names (listed in the evidence, not failed)
var c02OutOfScope = []string{
	"private/buf/bufcurl", "private/buf/buflsp", "private/buf/bufstudioagent", "private/bufpkg/bufstyle", "private/buf/bufwkt/cmd",
	"private/pkg/storage/storagetesting", "private/pkg/bandeps", "private/pkg/prototesting", "private/bufpkg/bufcheck/internal/cmd",
	"private/buf/cmd/buf/command/curl", "private/buf/cmd/buf/command/alpha/protoc", "private/bufpkg/bufremoteplugin", "cmd/",
	"private/bufpkg/bufplugin/bufpluginapi", "private/bufpkg/bufpolicy", "private/pkg/oauth2", "private/pkg/licenseheader",
	"private/buf/cmd/buf/command/beta", "private/buf/cmd/buf/command/registry", "private/pkg/git/cmd", "private/pkg/bufstyle",
	"private/pkg/storage/cmd", "private/pkg/spdx/cmd", "private/pkg/licenseheader/cmd", "private/buf/cmd/buf/command/plugin", "private/buf/cmd/buf/command/policy",
}

func c02InScope(rel string) bool {
	for _, o := range c02OutOfScope {
		if strings.HasPrefix(rel, o) {
			return false
		}
	}
	return true
}

// order-absorbing sinks: calls whose effects are insensitive to the order in which they happen.
func c02Absorbing(fn *types.Func) bool {
	id := funcIDFull(fn)
	switch id {
	case "(private/bufpkg/bufcheck/bufcheckserver/internal/bufcheckserverutil.ResponseWriter).AddProtosourceAnnotation",
		"(buf.build/go/bufplugin/check.ResponseWriter).AddAnnotation":
		// annotations are sorted (check.CompareAnnotations) by multiClient.Check and again sorted and
		// de-duplicated by bufanalysis.NewFileAnnotationSet; both are obligations (C02 SORT-CONSUMERS, C20)
		return true
	case "(*private/bufpkg/bufmodule.protoFileTracker).trackFile", "(*private/bufpkg/bufmodule.protoFileTracker).trackModule",
		"(*private/bufpkg/bufimage/bufimageutil.transitiveClosure).addImport":
		// set insertions
		return true
	case "(*private/bufpkg/bufimage/bufimageutil.transitiveClosure).excludeType",
		"(*private/bufpkg/bufimage/bufimageutil.transitiveClosure).includeType":
		// reviewed as a property of the callee, so that it holds wherever the roots are iterated: excludeType only
		// inserts inclusionModeExcluded marks into the closure's element map (set union) or fails, conflicting marks
		// are errors either way; includeType marks elements in the closure maps, marks only escalate
		// (enclosing -> explicit) and imports are a set, so the fixed point does not depend on the order of the roots
		return true
	}
	return false
}

type triage struct {
	class  string // "reason", "prefix-free", "single-element", "finding"
	reason string
}

// Frozen triage table: every order-sensitive iteration that is acceptable, with its reason.
var c02Triage = map[string]triage{
	"private/buf/buffetch/internal.getGitSchemeAndPath/range map[string]private/buf/buffetch/internal.GitScheme#1": {"prefix-free",
		"find-any over a literal prefix table: at most one prefix can match when no key is a prefix of another (checked)"},
	"private/buf/buffetch/internal.newSingleRef/range map[string]private/buf/buffetch/internal.FileScheme#1": {"prefix-free",
		"find-any over a literal prefix table (checked prefix-free)"},
	"private/bufpkg/bufconfig.getDeprecatedDigestTypeForExternalDigest/range map[string]string#1": {"prefix-free",
		"find-any over the literal digest-prefix table (checked prefix-free on the values)"},
	"private/bufpkg/bufconfig.getZeroOrSingleValueForMap/range map[K]V#1": {"single-element",
		"a dominating `len(m) > 1` guard returns first, so the loop sees at most one element (checked)"},
	"private/buf/buffetch/internal.refParser.getRawRef/range map[string]string#1": {"reason",
		"switch on the (unique) option key: each arm stores into its own field of rawRef, so at most one iteration writes a given field; error-choice otherwise"},
	"private/buf/bufmigrate.migrator.migrate/range map[string]private/bufpkg/bufconfig.BufGenYAMLFile#1": {"reason",
		"writes one object per distinct map key (the path); the resulting bucket state does not depend on the order"},
	"private/buf/bufmigrate.migrator.getOriginalAndAddedFileBuckets/range map[string]struct{}#1": {"reason",
		"copies one object per distinct key into an in-memory bucket; state independent of order"},
	"private/buf/bufmigrate.migrator.getOriginalAndAddedFileBuckets/range map[string]private/bufpkg/bufconfig.BufGenYAMLFile#1": {"reason",
		"one object per distinct key copied/written into in-memory buckets; the deferred closes are joined (errors.Join text order is the only effect, error path)"},
	"private/bufpkg/bufcheck.getCategoryIDToRuleIDs/range map[string][]string#1": {"reason",
		"inverted index whose per-category rule-id lists are only consumed as sets (inserted into maps) by transformRuleOrCategoryID*ToRuleIDs"},
	"private/bufpkg/bufcheck/bufcheckserver/internal/buflintvalidate.checkCEL/range map[string][]int#1": {"reason",
		"the inlined closure only adds annotations through the order-absorbing response writer"},
	"private/bufpkg/bufmodule/bufmoduleapi.moduleDataProvider.getCommitIDToUniversalProtoContentForRegistryAndIndexedModuleKeys/range map[github.com/google/uuid.UUID]private/pkg/slicesext.Indexed[private/bufpkg/bufmodule.ModuleKey]#1": {"reason",
		"emits deprecation warnings to the logger only (stderr diagnostics, not an output named by the property)"},
	"private/bufpkg/bufprotosource.mapToSortedFiles/range map[string]map[string]private/bufpkg/bufprotosource.File#1": {"reason",
		"SortFiles sorts the slice built for this key in place before it is stored under the key"},
	"private/bufpkg/bufremoteplugin.DotnetTargetFrameworkToString/range map[string]private/gen/proto/go/buf/alpha/registry/v1alpha1.DotnetTargetFramework#1": {"reason",
		"reverse lookup in a literal table whose values are distinct enum constants"},
	"private/pkg/app.envContainer.ForEachEnv/range map[string]string#1": {"reason",
		"callback enumeration API documented as unordered; callers build maps/sets (environment)"},
	"private/pkg/refcount.Map.Range/range map[K]*private/pkg/refcount.counted[V]#1": {"reason",
		"iterator API (iter.Seq2) over a concurrent map, used by the LSP only"},
	"private/bufpkg/bufimage/bufimageutil.transitiveClosure.addExtensions/range map[private/bufpkg/bufimage/bufimageutil.namedDescriptor]private/bufpkg/bufimage/bufimageutil.closureInclusionMode#1": {"finding",
		"F9: ranges over t.elements while addElement inserts into it: which newly explicit messages get their extensions collected depends on map iteration order"},
	"private/bufpkg/bufcheck/bufcheckserver/internal/bufcheckserverhandle.getImportCycleIfExists/range map[string][]private/bufpkg/bufprotosource.FileImport#1": {"finding",
		"F11: returns the first import cycle found in map order; with several cycles through one package the reported cycle differs run to run"},
}

// slices filled in map order whose consumers are order-insensitive or sort; keyed by loop key + "/" + slice name
var c02AppendTriage = map[string]string{
	"private/buf/buffetch/internal.getSingleRef/range map[string]string#1/invalidKeys":                                                                                                    "only used to build the invalid-keys error (error text)",
	"private/buf/bufgen.generator.execPlugins/range map[private/buf/bufgen.pluginConfigKeyForImage][]private/pkg/slicesext.Indexed[private/bufpkg/bufconfig.GeneratePluginConfig]#1/jobs": "job list for thread.Parallelize; every job stores its result at the plugin's own index (responses[index])",
	"private/buf/bufworkspace.getMappedModuleBucketAndModuleTargeting/range map[string][]string#1/rootBuckets":                                                                            "v1beta1 multi-root union bucket: a path present under two roots is an error (ErrExistsMultipleLocations) whatever the order, and enumerations are re-sorted by AllPaths/Walk consumers",
	"private/bufpkg/bufcheck/bufcheckserver/internal/bufcheckserverhandle.handleLintRPCRequestResponseUnique/range map[string]private/bufpkg/bufprotosource.Method#3/requestMethods":      "only iterated to add annotations (order-absorbing sink)",
	"private/bufpkg/bufcheck/bufcheckserver/internal/bufcheckserverhandle.handleLintRPCRequestResponseUnique/range map[string]private/bufpkg/bufprotosource.Method#3/responseMethods":     "only iterated to add annotations (order-absorbing sink)",
	"private/bufpkg/bufmodule.selectRemoteAddedModuleForOpaqueIDIgnoreTargeting/range map[github.com/google/uuid.UUID][]*private/bufpkg/bufmodule.addedModule#1/uniqueAddedModules":       "arg-max consumer: the module with the latest commit create time is selected; ties would need equal create times of distinct commits",
	"private/pkg/slicesext.MapKeysToSlice/range map[K]V#1/s":                                                                                  "documented unordered helper: every call site is an obligation of MAPORDER-SOURCE",
	"private/pkg/slicesext.MapValuesToSlice/range map[K]V#1/s":                                                                                "documented unordered helper: every call site is an obligation of MAPORDER-SOURCE",
	"private/buf/bufmigrate.migrator.buildBufYAMLAndBufLockFiles/range map[string][]private/bufpkg/bufparse.Ref#2/resolvedDeclaredRefs":       "handed to bufconfig.NewBufYAMLFile, which sorts the dependency refs (SORT-CONSUMERS obligation)",
	"private/buf/bufmigrate.migrator.buildBufYAMLAndBufLockFiles/range map[string][]private/bufpkg/bufmodule.ModuleKey#2/resolvedLockEntries": "handed to upgradeModuleKeysToB5 / bufconfig.NewBufLockFile, which sorts the keys (SORT-CONSUMERS obligation)",
}

// consumers that sort (or index-sort) the slice they receive; each is itself an obligation: its body must sort.
var c02SortConsumers = map[string]string{
	"private/pkg/slicesext.IndexedToSortedValues":     "sorts by the original index",
	"private/pkg/slicesext.ToUniqueSorted":            "sorts and de-duplicates",
	"private/bufpkg/bufcas.NewManifest":               "newManifest sorts file nodes by path",
	"private/bufpkg/bufanalysis.NewFileAnnotationSet": "newFileAnnotationSet sorts and de-duplicates",
	"private/bufpkg/bufprotosource.SortFiles":         "sorts in place by path",
	"private/bufpkg/bufconfig.NewBufYAMLFile":         "newBufYAMLFile sorts module configs (stable) and dependency refs",
	"private/bufpkg/bufconfig.NewBufLockFile":         "newBufLockFile sorts dependency keys",
	"slices.Sorted":     "standard library: collects and sorts",
	"slices.SortedFunc": "standard library: collects and sorts",
}

func c02ConsumerSorts(fn *types.Func, arg int) string {
	return c02SortConsumers[funcIDFull(fn)]
}

func runC02(c *Ctx) {
	c02EnumOrder(c)
	c02BoundedAppend(c, c.P.ModulePkgs())
	c02NamePromisesSort(c)
	c02WalkOrderSorted(c)
	p := c.P
	bindModuleSortFunc(p)
	c.Rule("R-MAPORDER", "every iteration over a map in product code has order-insensitive effects, sorts what it appends before use, or is in the reasoned triage table", 110)
	c.Rule("TRIAGE-REASON", "reasons of triage entries that can be checked are checked (prefix-free literal tables, single-element guards)", 4)
	c.Rule("MAPORDER-SOURCE", "slices born in map order (MapKeysToSlice, MapValuesToSlice, maps.Keys/Values) are sorted before use or consumed order-insensitively", 10)
	c.Rule("SORT-CONSUMERS", "every function relied upon as a sorting consumer does sort", 6)
	c.Rule("R-GOAGG", "job closures run by thread.Parallelize write shared state only index-addressed, atomically, or under a mutex followed by a sort after the barrier", 5)
	c.Rule("DET-ENCODER", "protobuf marshalling entry points are used only inside protoencoding; wire marshalling is Deterministic; detrand is disabled", 4)
	c.Rule("ENTROPY", "no math/rand, time.Now or multi-way select in output-producing packages outside the frozen allow-list", 1)
	c.Rule("LOCKSET", "thread.globalParallelism is read under RLock/Lock and written under Lock", 2)
	c.Rule("INPUT-ORDER", "values hashed into a digest do not depend on the order in which modules were listed", 1)
	ruleOrderMatchesIdentity(c, "ORDER-TOTAL")
	ruleArgmax(c, "ARGMAX", p.ModulePkgs(), 2)
	c02CancelGated(c, "CANCEL-GATED")
	c02ImageListsSorted(c)
	c09CtxErrRecorded(c)
	ruleIndexedReturn(c, "INDEXED-RETURN-SORTED", c.P.ModulePkgs())
	if q := p.Pkg("private/bufpkg/bufmodule"); q != nil {
		ruleFilteredPreferred(c, "TARGETS-PREFERRED", q, 1)
	}
	ruleSortCoversAppended(c, "SORT-COVERS-APPENDED", p.ModulePkgs(), 1)

	usedTriage := map[string]bool{}
	usedAppend := map[string]bool{}
	outScope := 0
	for _, pk := range p.ModulePkgs() {
		rel := relPkg(pk.PkgPath)
		if !c02InScope(rel) {
			outScope += len(findMapLoops(p, pk))
			continue
		}
		ruleMapOrderPkg(c, "R-MAPORDER", pk, usedTriage, usedAppend)
	}
	c.Note("R-MAPORDER: %d map iterations in out-of-scope packages (c02OutOfScope) were counted, not classified", outScope)
	for k := range c02Triage {
		if !usedTriage[k] {
			c.Note("R-MAPORDER: triage entry no longer matches a loop (stale): %s", k)
		}
	}

	ruleDepDigestsSorted(c, "INPUT-ORDER")
	c02Sources(c)
	c02SortConsumersCheck(c)
	c02GoAgg(c)
	c02Encoders(c)
	c02Entropy(c)
	c02Lockset(c)
}

// c02HandlerCallback: a dynamic call of a function-typed parameter/variable whose signature takes a
// check ResponseWriter: the rule-handler callbacks, whose observable effects are annotations or an error.
func c02HandlerCallback(l *mapLoop, e loopEffect) bool {
	info := l.Pkg.TypesInfo
	found := false
	// the call may sit in the loop body or in a helper of the package that was classified in place
	var root ast.Node = l.Range.Body
	if e.Pos < l.Range.Body.Pos() || e.Pos > l.Range.Body.End() {
		for _, f := range l.Pkg.Syntax {
			if f.Pos() <= e.Pos && e.Pos <= f.End() {
				root = f
			}
		}
	}
	ast.Inspect(root, func(n ast.Node) bool {
		call, ok := n.(*ast.CallExpr)
		if !ok || call.Pos() != e.Pos {
			return true
		}
		t := info.TypeOf(call.Fun)
		if t == nil {
			return true
		}
		sig, ok := t.Underlying().(*types.Signature)
		if !ok {
			return true
		}
		for i := 0; i < sig.Params().Len(); i++ {
			np := namedPath(sig.Params().At(i).Type())
			if strings.HasSuffix(np, "bufcheckserverutil.ResponseWriter") || np == "buf.build/go/bufplugin/check.ResponseWriter" {
				found = true
			}
		}
		return true
	})
	return found
}

// c02CheckReason verifies the checkable triage reasons.
func c02CheckReason(c *Ctx, l *mapLoop, t triage) {
	info := l.Pkg.TypesInfo
	switch t.class {
	case "prefix-free":
		// the ranged expression is a package-level map with a literal initialiser; the variable used in
		// strings.HasPrefix(x, <key|value>) must range over a prefix-free set
		obj := identObj(info, l.Range.X)
		var lit *ast.CompositeLit
		if obj != nil {
			for _, f := range l.Pkg.Syntax {
				ast.Inspect(f, func(n ast.Node) bool {
					vs, ok := n.(*ast.ValueSpec)
					if !ok {
						return true
					}
					for i, nm := range vs.Names {
						if info.Defs[nm] == obj && i < len(vs.Values) {
							lit, _ = vs.Values[i].(*ast.CompositeLit)
						}
					}
					return true
				})
			}
		}
		if lit == nil {
			c.Ob("TRIAGE-REASON", l.Key, l.Range.Pos(), false, true, "the ranged map is not a package-level literal table: prefix-freeness cannot be decided")
			return
		}
		// which loop variable feeds HasPrefix's second argument?
		useKey := true
		ast.Inspect(l.Range.Body, func(n ast.Node) bool {
			if call, ok := n.(*ast.CallExpr); ok {
				if fn := Callee(info, call); fn != nil && calleeIs(fn, "strings", "HasPrefix") && len(call.Args) == 2 {
					if l.Range.Value != nil && identObj(info, call.Args[1]) == identObj(info, l.Range.Value) {
						useKey = false
					}
				}
			}
			return true
		})
		var strs []string
		for _, el := range lit.Elts {
			kv, ok := el.(*ast.KeyValueExpr)
			if !ok {
				continue
			}
			e := kv.Key
			if !useKey {
				e = kv.Value
			}
			if tv, ok := info.Types[e]; ok && tv.Value != nil {
				var s string
				fmt.Sscanf(tv.Value.ExactString(), "%q", &s)
				strs = append(strs, s)
			}
		}
		bad := ""
		for i, a := range strs {
			for j, b := range strs {
				if i != j && strings.HasPrefix(b, a) {
					bad = fmt.Sprintf("%q is a prefix of %q", a, b)
				}
			}
		}
		c.Ob("TRIAGE-REASON", l.Key, lit.Pos(), bad == "" && len(strs) == len(lit.Elts) && len(strs) > 0, true, "%d literal prefixes, prefix-free: %v %s", len(strs), bad == "", bad)
	case "single-element":
		// a dominating `len(m) > 1` (or >= 2) test whose true branch returns
		g := c.P.CFGOf(funcBody(l.Fn), info)
		ok := false
		ast.Inspect(funcBody(l.Fn), func(n ast.Node) bool {
			ifs, isIf := n.(*ast.IfStmt)
			if !isIf {
				return true
			}
			be, isBin := ast.Unparen(ifs.Cond).(*ast.BinaryExpr)
			if !isBin || be.Op != token.GTR || !constIntIs(info, be.Y, 1) {
				return true
			}
			call, isCall := ast.Unparen(be.X).(*ast.CallExpr)
			if !isCall || len(call.Args) != 1 || exprString(call.Args[0]) != exprString(l.Range.X) {
				return true
			}
			returns := false
			for _, st := range ifs.Body.List {
				if _, isRet := st.(*ast.ReturnStmt); isRet {
					returns = true
				}
			}
			if returns && g.Dominates(ifs.Cond, l.Range.X) {
				ok = true
			}
			return true
		})
		c.Ob("TRIAGE-REASON", l.Key, l.Range.Pos(), ok, true, "a dominating `len(m) > 1` guard returns before the loop: %v", ok)
	}
}

// ---- (2) map-order sources -----------------------------------------------------------------------------

func isMapOrderSource(fn *types.Func) bool {
	switch funcIDFull(fn) {
	case "private/pkg/slicesext.MapKeysToSlice", "private/pkg/slicesext.MapValuesToSlice", "maps.Keys", "maps.Values":
		return true
	}
	return false
}

var c02SourceTriage = map[string]string{
	"private/bufpkg/bufcheck.newRulesConfig/MapKeysToSlice":                                                                                     "ids only feed transformRuleOrCategoryIDsToRuleIDs-style set construction (error text order only)",
	"private/bufpkg/bufmodule.moduleSet.getModuleForFilePathUncached/MapValuesToSlice":                                                          "only used to build the duplicate-path error",
	"private/bufpkg/bufmodule/bufmoduleapi.moduleDataProvider.getCommitIDToUniversalProtoContentForRegistryAndIndexedModuleKeys/MapKeysToSlice": "commit ids of a batched registry request; the response is re-keyed by commit id",
	"private/bufpkg/bufmodule/bufmoduleapi.commitProvider.getIndexedCommitsForRegistryAndIndexedModuleKeys/MapKeysToSlice":                      "commit ids of a batched registry request; results are re-indexed and IndexedToSortedValues sorts",
	"private/bufpkg/bufmodule/bufmoduleapi.commitProvider.getIndexedCommitsForRegistryAndIndexedCommitKeys/MapKeysToSlice":                      "commit ids of a batched registry request; results are re-indexed and IndexedToSortedValues sorts",
	"private/buf/bufmigrate.migrator.buildBufYAMLAndBufLockFiles/MapValuesToSlice":                                                              "per-dependency candidate lists: resolved ones have length 1; unresolved ones are sorted by resolvedDeclaredAndLockedDependencies (sort.Slice in its loops)",
	"private/buf/bufmigrate.resolvedDeclaredAndLockedDependencies/MapValuesToSlice":                                                             "result handed to NewBufYAMLFile which sorts refs",
	"private/buf/bufworkspace.getMappedModuleBucketAndModuleTargeting/MapKeysToSlice":                                                           "v1beta1 roots handed to newModuleTargeting: config validation forbids overlapping roots, so at most one root contains any path",
	"private/buf/cmd/buf/command/breaking.getExternalPathsForImages/MapKeysToSlice":                                                             "external paths returned to a caller that builds a set of paths to exclude",
}

func c02Sources(c *Ctx) {
	p := c.P
	for _, pk := range p.ModulePkgs() {
		rel := relPkg(pk.PkgPath)
		if !c02InScope(rel) || rel == "private/pkg/slicesext" {
			continue
		}
		info := pk.TypesInfo
		for _, f := range pk.Syntax {
			if isGenerated(f) {
				continue
			}
			ast.Inspect(f, func(n ast.Node) bool {
				call, ok := n.(*ast.CallExpr)
				if !ok {
					return true
				}
				fn := Callee(info, call)
				if fn == nil || !isMapOrderSource(fn) {
					return true
				}
				c.CallSites++
				fd := p.EnclosingFuncDecl(call)
				fname := rel + ".<init>"
				if fd != nil {
					fname = rel + "." + declName(fd)
				}
				inst := fname + "/" + fn.Name()
				// (a) direct argument of a sorting consumer
				if par, ok := p.Parent(call).(*ast.CallExpr); ok {
					if pc := Callee(info, par); pc != nil && (c02ConsumerSorts(pc, 0) != "" || sortingCallOnExpr(pc)) {
						c.Ob("MAPORDER-SOURCE", inst, call.Pos(), true, true, "result goes straight into %s", funcIDFull(pc))
						return true
					}
				}
				// (b) assigned to a local that is sorted before use
				if as, ok := p.Parent(call).(*ast.AssignStmt); ok && len(as.Lhs) == 1 {
					if obj := identObj(info, as.Lhs[0]); obj != nil {
						l := &mapLoop{Pkg: pk, Fn: p.EnclosingFunc(call), Range: &ast.RangeStmt{For: as.Pos(), X: call, Body: &ast.BlockStmt{Lbrace: as.Pos(), Rbrace: as.End()}}}
						if okS, why := sortedBeforeUse(p, l, obj, c02ConsumerSorts); okS {
							c.Ob("MAPORDER-SOURCE", inst, call.Pos(), true, true, "%s := %s(…): %s", obj.Name(), fn.Name(), why)
							return true
						}
					}
				}
				if r, ok := c02SourceTriage[inst]; ok {
					c.Ob("MAPORDER-SOURCE", inst, call.Pos(), true, true, "map-ordered slice, reviewed: %s", r)
					return true
				}
				c.Ob("MAPORDER-SOURCE", inst, call.Pos(), false, true, "unreviewed: the result of %s is in map order and is neither sorted before use nor handed to a sorting consumer", fn.Name())
				return true
			})
		}
	}
}

func sortingCallOnExpr(fn *types.Func) bool {
	if fn.Pkg() == nil {
		return false
	}
	switch fn.Pkg().Path() + "." + fn.Name() {
	case "slices.Sorted", "slices.SortedFunc", "slices.SortedStableFunc":
		return true
	}
	return false
}

func c02SortConsumersCheck(c *Ctx) {
	p := c.P
	for _, id := range sortedKeys(c02SortConsumers) {
		if !strings.HasPrefix(id, "private/") {
			continue
		}
		i := strings.LastIndex(id, ".")
		fr := p.Func(id[:i], id[i+1:])
		if fr == nil {
			c.Fail("SORT-CONSUMERS", id, token.NoPos, "sorting consumer not found")
			continue
		}
		// the function, or a same-package function it calls directly, contains a sort call
		has := func(body ast.Node, info *types.Info) bool {
			found := false
			ast.Inspect(body, func(n ast.Node) bool {
				if call, ok := n.(*ast.CallExpr); ok {
					if fn := Callee(info, call); fn != nil && fn.Pkg() != nil {
						switch fn.Pkg().Path() {
						case "sort", "slices":
							if strings.HasPrefix(fn.Name(), "Sort") || fn.Name() == "Strings" || fn.Name() == "Slice" || fn.Name() == "SliceStable" || fn.Name() == "Stable" {
								found = true
							}
						}
					}
				}
				return !found
			})
			return found
		}
		var deep func(fr *FuncRef, depth int) bool
		deep = func(fr *FuncRef, depth int) bool {
			if has(fr.Decl.Body, fr.Info()) {
				return true
			}
			if depth == 0 {
				return false
			}
			found := false
			ast.Inspect(fr.Decl.Body, func(n ast.Node) bool {
				if call, isCall := n.(*ast.CallExpr); isCall {
					if fn := Callee(fr.Info(), call); fn != nil && fn.Pkg() != nil && fn.Pkg().Path() == fr.Pkg.PkgPath {
						if d := p.DeclOf(fn); d != nil && d.Decl.Body != nil && deep(d, depth-1) {
							found = true
						}
					}
				}
				return !found
			})
			return found
		}
		ok := deep(fr, 3)
		c.Ob("SORT-CONSUMERS", id, fr.Decl.Pos(), ok, true, "%s: sort call present in the function or its direct same-package callees (depth 3): %v", c02SortConsumers[id], ok)
	}
}

// ---- (3) R-GOAGG ----------------------------------------------------------------------------------------

func c02GoAgg(c *Ctx) {
	sites := goAggRule(c, "R-GOAGG", c02InScope)
	if sites < 5 {
		c.Fail("R-GOAGG", "site-count", token.NoPos, "only %d functions call thread.Parallelize (expected ≥ 5)", sites)
	}
}

// goAggRule applies R-GOAGG to every function calling thread.Parallelize in the selected packages.
func goAggRule(c *Ctx, rule string, inScope func(rel string) bool) int {
	p := c.P
	sites := 0
	for _, pk := range p.ModulePkgs() {
		rel := relPkg(pk.PkgPath)
		if !inScope(rel) {
			continue
		}
		info := pk.TypesInfo
		for _, fr := range p.FuncsOf(pk) {
			var par *ast.CallExpr
			ast.Inspect(fr.Decl.Body, func(n ast.Node) bool {
				if call, ok := n.(*ast.CallExpr); ok {
					if fn := Callee(info, call); fn != nil && calleeIs(fn, "private/pkg/thread", "Parallelize") {
						par = call
					}
				}
				return true
			})
			if par == nil {
				continue
			}
			sites++
			// job literals: func(context.Context) error literals in this function
			nJobs := 0
			ast.Inspect(fr.Decl.Body, func(n ast.Node) bool {
				lit, ok := n.(*ast.FuncLit)
				if !ok {
					return true
				}
				sig, _ := info.TypeOf(lit).(*types.Signature)
				if sig == nil || sig.Params().Len() != 1 || sig.Results().Len() != 1 || !isErrorType(sig.Results().At(0).Type()) || namedPath(sig.Params().At(0).Type()) != "context.Context" {
					return true
				}
				nJobs++
				c02CheckJob(c, rule, pk, fr, lit, par)
				return false
			})
			if nJobs == 0 {
				c.Ob(rule, fr.ID()+"/jobs", par.Pos(), true, false, "jobs are not literals of this function (built elsewhere)")
			}
			// index-addressed job tables cover the whole work list: jobs := make([]…, len(W)) and `for i, x := range W { jobs[i] = … }`
			ast.Inspect(fr.Decl.Body, func(n ast.Node) bool {
				rs, ok := n.(*ast.RangeStmt)
				if !ok || rs.Key == nil {
					return true
				}
				for _, st := range rs.Body.List {
					as, ok := st.(*ast.AssignStmt)
					if !ok || len(as.Lhs) != 1 {
						continue
					}
					ix, ok := as.Lhs[0].(*ast.IndexExpr)
					if !ok || identObj(info, ix.Index) != identObj(info, rs.Key) {
						continue
					}
					if _, isLit := as.Rhs[0].(*ast.FuncLit); !isLit {
						continue
					}
					jobsObj := identObj(info, ix.X)
					// definition of the jobs table
					sized := ""
					ast.Inspect(fr.Decl.Body, func(m ast.Node) bool {
						a2, ok := m.(*ast.AssignStmt)
						if !ok || len(a2.Lhs) != 1 || identObj(info, a2.Lhs[0]) != jobsObj || len(a2.Rhs) != 1 {
							return true
						}
						if mk, ok := a2.Rhs[0].(*ast.CallExpr); ok && len(mk.Args) >= 2 {
							if id, ok := mk.Fun.(*ast.Ident); ok && id.Name == "make" {
								sized = exprString(mk.Args[1])
							}
						}
						return true
					})
					want := "len(" + exprString(rs.X) + ")"
					c.Ob(rule, fr.ID()+"/jobs-cover-work", rs.Pos(), sized == want, true,
						"the job table is make(…, %s) and is filled by ranging over %s: every work item gets a job iff the size is %s", sized, exprString(rs.X), want)
				}
				return true
			})
		}
	}
	return sites
}

func c02CheckJob(c *Ctx, rule string, pk *packages.Package, fr *FuncRef, lit *ast.FuncLit, par *ast.CallExpr) {
	p := c.P
	info := pk.TypesInfo
	outer := func(obj types.Object) bool {
		return obj != nil && (obj.Pos() < lit.Pos() || obj.Pos() >= lit.End()) && obj.Parent() != nil && obj.Parent() != obj.Pkg().Scope() && obj.Pkg() == pk.Types
	}
	g := p.CFGOf(lit.Body, info)
	var locks, unlocks []ast.Node
	ast.Inspect(lit.Body, func(n ast.Node) bool {
		if call, ok := n.(*ast.CallExpr); ok {
			if fn := Callee(info, call); fn != nil {
				if methodIs(fn, "sync", "Mutex", "Lock") || methodIs(fn, "sync", "RWMutex", "Lock") {
					locks = append(locks, call)
				}
				if methodIs(fn, "sync", "Mutex", "Unlock") || methodIs(fn, "sync", "RWMutex", "Unlock") {
					unlocks = append(unlocks, call)
				}
			}
		}
		return true
	})
	writes := 0
	inspectNoFuncLit(lit.Body, func(n ast.Node) bool {
		as, ok := n.(*ast.AssignStmt)
		if !ok || as.Tok == token.DEFINE {
			return true
		}
		for i, lhs := range as.Lhs {
			var root types.Object
			indexStore := false
			switch x := ast.Unparen(lhs).(type) {
			case *ast.Ident:
				root = identObj(info, x)
			case *ast.IndexExpr:
				root = identObj(info, x.X)
				indexStore = true
			default:
				continue
			}
			if !outer(root) {
				continue
			}
			if _, isVar := root.(*types.Var); !isVar {
				continue
			}
			// named results of the literal itself are not shared
			shared := true
			if lit.Type.Results != nil {
				for _, f := range lit.Type.Results.List {
					for _, nm := range f.Names {
						if info.Defs[nm] == root {
							shared = false
						}
					}
				}
			}
			if !shared {
				continue
			}
			writes++
			inst := fr.ID() + "/job-write/" + root.Name()
			if indexStore {
				if _, isMap := info.TypeOf(ast.Unparen(lhs).(*ast.IndexExpr).X).Underlying().(*types.Map); !isMap {
					c.Ob(rule, inst, as.Pos(), true, true, "index-addressed store into shared slice %s (each job owns its slot)", root.Name())
					continue
				}
			}
			locked := false
			for _, l := range locks {
				if g.Dominates(l, as) {
					locked = true
				}
			}
			if locked {
				if bad, _ := g.ExitReachableAvoiding(as, unlocks, nil); bad || len(unlocks) == 0 {
					locked = false
				}
			}
			if !locked {
				c.Ob(rule, inst, as.Pos(), false, true, "job closure writes shared variable %s without holding a mutex (data race / schedule-dependent result)", root.Name())
				continue
			}
			// the mutex must be one object shared by all jobs: not declared inside a loop that also creates the job
			sharedLock := true
			for _, l := range locks {
				call := l.(*ast.CallExpr)
				if sel, ok := call.Fun.(*ast.SelectorExpr); ok {
					if mo := identObj(info, sel.X); mo != nil {
						for cur := p.Parent(lit); cur != nil && cur != fr.Decl; cur = p.Parent(cur) {
							switch cur.(type) {
							case *ast.ForStmt, *ast.RangeStmt:
								if mo.Pos() >= cur.Pos() && mo.Pos() < cur.End() {
									sharedLock = false
								}
							}
						}
					}
				}
			}
			if !sharedLock {
				c.Ob(rule, inst, as.Pos(), false, true, "the mutex guarding %s is declared inside the loop that creates the jobs: every job locks its own mutex and the shared write is unprotected", root.Name())
				continue
			}
			// appended under lock: must be sorted after the barrier
			isAppend := false
			if i < len(as.Rhs) {
				if call, ok := as.Rhs[i].(*ast.CallExpr); ok {
					if id, ok := call.Fun.(*ast.Ident); ok && id.Name == "append" {
						isAppend = true
					}
				}
			}
			if !isAppend {
				c.Ob(rule, inst, as.Pos(), true, true, "store into shared %s under a mutex (map/set insertion)", root.Name())
				continue
			}
			l := &mapLoop{Pkg: pk, Fn: fr.Decl, Range: &ast.RangeStmt{For: par.Pos(), X: par, Body: &ast.BlockStmt{Lbrace: par.Pos(), Rbrace: par.End()}}}
			// uses before the barrier (inside job literals, declarations) are not order-revealing
			ok, why := sortedAfterBarrier(p, l, root, par)
			c.Ob(rule, inst, as.Pos(), ok, true, "appended under a mutex in schedule order; after the Parallelize barrier: %s", why)
		}
		return true
	})
	if writes == 0 {
		c.Ob(rule, fr.ID()+"/job-no-shared-write", lit.Pos(), true, false, "job closure writes no shared variable directly")
	}
}

// sortedAfterBarrier: every use of obj after the barrier call is a sort, a sorting consumer, or follows a sort.
func sortedAfterBarrier(p *Prog, l *mapLoop, obj types.Object, barrier *ast.CallExpr) (bool, string) {
	info := l.Pkg.TypesInfo
	body := funcBody(l.Fn)
	g := p.CFGOf(body, info)
	var sorts []ast.Node
	inspectNoFuncLit(body, func(n ast.Node) bool {
		if call, ok := n.(*ast.CallExpr); ok && sortingCallOn(info, call, obj) {
			sorts = append(sorts, call)
		}
		return true
	})
	bad := ""
	n := 0
	inspectNoFuncLit(body, func(x ast.Node) bool {
		id, ok := x.(*ast.Ident)
		if !ok || info.Uses[id] != obj || id.Pos() < barrier.End() {
			return true
		}
		for _, s := range sorts {
			if containsNode(s, id) {
				return true
			}
		}
		if call, ok := p.Parent(id).(*ast.CallExpr); ok {
			if callee := Callee(info, call); callee != nil && c02ConsumerSorts(callee, 0) != "" {
				n++
				return true
			}
		}
		n++
		if g.ReachableAvoiding(barrier, id, sorts) {
			bad = p.Pos(id.Pos())
		}
		return true
	})
	if bad != "" {
		return false, "use at " + bad + " is reachable from the barrier without a sort of " + obj.Name()
	}
	return true, fmt.Sprintf("%d later use(s), each a sorting consumer or preceded by a sort of %s", n, obj.Name())
}

// ---- (4) deterministic encoders -----------------------------------------------------------------------------

func c02Encoders(c *Ctx) {
	p := c.P
	allowed := map[string]string{
		"private/pkg/protoencoding": "the encoding package itself",
	}
	banned := map[string]bool{
		"google.golang.org/protobuf/proto.Marshal": true, "google.golang.org/protobuf/proto.MarshalOptions": true,
		"google.golang.org/protobuf/encoding/protojson.Marshal": true, "google.golang.org/protobuf/encoding/protojson.MarshalOptions": true,
		"google.golang.org/protobuf/encoding/protojson.Format":  true,
		"google.golang.org/protobuf/encoding/prototext.Marshal": true, "google.golang.org/protobuf/encoding/prototext.MarshalOptions": true,
		"google.golang.org/protobuf/encoding/prototext.Format": true,
		"buf.build/go/protoyaml.Marshal":                       true, "buf.build/go/protoyaml.MarshalOptions": true,
	}
	refs := 0
	for _, pk := range p.ModulePkgs() {
		rel := relPkg(pk.PkgPath)
		if !c02InScope(rel) {
			continue
		}
		for id, obj := range pk.TypesInfo.Uses {
			if obj.Pkg() == nil {
				continue
			}
			full := obj.Pkg().Path() + "." + obj.Name()
			if !banned[full] {
				continue
			}
			if f := p.astFile(id.Pos()); f != nil && isGenerated(f) {
				continue
			}
			refs++
			_, ok := allowed[rel]
			fd := p.EnclosingFuncDecl(id)
			fn := rel
			if fd != nil {
				fn = rel + "." + declName(fd)
			}
			c.Ob("DET-ENCODER", fn+"/"+obj.Name(), id.Pos(), ok, false, "reference to %s %s", full, map[bool]string{true: "inside protoencoding", false: "outside protoencoding: output bytes would not go through the deterministic marshalers"}[ok])
		}
	}
	if refs == 0 {
		c.Fail("DET-ENCODER", "references", token.NoPos, "no marshalling entry point referenced at all (anchor lost)")
	}
	// Deterministic: true in the wire marshaler
	pk := p.Pkg("private/pkg/protoencoding")
	if pk == nil {
		c.Fail("DET-ENCODER", "protoencoding", token.NoPos, "package not found")
		return
	}
	det := 0
	for _, f := range pk.Syntax {
		ast.Inspect(f, func(n ast.Node) bool {
			cl, ok := n.(*ast.CompositeLit)
			if !ok || namedPath(pk.TypesInfo.TypeOf(cl)) != "google.golang.org/protobuf/proto.MarshalOptions" {
				return true
			}
			okD := false
			for _, el := range cl.Elts {
				if kv, ok := el.(*ast.KeyValueExpr); ok {
					if id, ok := kv.Key.(*ast.Ident); ok && id.Name == "Deterministic" {
						if tv, ok := pk.TypesInfo.Types[kv.Value]; ok && tv.Value != nil && tv.Value.ExactString() == "true" {
							okD = true
						}
					}
				}
			}
			det++
			fd := p.EnclosingFuncDecl(cl)
			name := "?"
			if fd != nil {
				name = declName(fd)
			}
			// an internal re-parse buffer: the function that marshals - or the package function that calls it - unmarshals
			// again (proto.UnmarshalOptions.Unmarshal); the bytes are consumed there and never emitted
			var reparsesD func(decl *ast.FuncDecl, depth int) bool
			reparsesD = func(decl *ast.FuncDecl, depth int) bool {
				hit := false
				if decl == nil || decl.Body == nil {
					return false
				}
				ast.Inspect(decl.Body, func(m ast.Node) bool {
					if call, ok := m.(*ast.CallExpr); ok {
						if fn := Callee(pk.TypesInfo, call); fn != nil && fn.Name() == "Unmarshal" && fn.Pkg() != nil && fn.Pkg().Path() == "google.golang.org/protobuf/proto" {
							hit = true
						} else if fn != nil && fn.Pkg() == pk.Types && depth > 0 && !hit {
							// the unmarshalling half moved into a helper of the package
							if h := p.DeclOf(fn); h != nil && h.Decl != decl && reparsesD(h.Decl, depth-1) {
								hit = true
							}
						}
					}
					return true
				})
				return hit
			}
			reparses := func(decl *ast.FuncDecl) bool { return reparsesD(decl, 1) }
			internal := reparses(fd)
			if !internal && fd != nil {
				if self, ok := pk.TypesInfo.Defs[fd.Name].(*types.Func); ok {
					for _, other := range p.FuncsOf(pk) {
						if other.Decl.Body == nil || other.Decl == fd || !reparses(other.Decl) {
							continue
						}
						ast.Inspect(other.Decl.Body, func(m ast.Node) bool {
							if call, ok := m.(*ast.CallExpr); ok && Callee(pk.TypesInfo, call) == self {
								internal = true
							}
							return true
						})
					}
				}
			}
			if internal {
				name = "reparse"
				// reviewed: the bytes are unmarshalled again two statements later and never leave the function
				c.Ob("DET-ENCODER", "protoencoding."+name+"/MarshalOptions.internal", cl.Pos(), true, false, "internal re-parse buffer: bytes are consumed by Unmarshal in the same function, not emitted")
				return true
			}
			c.Ob("DET-ENCODER", "protoencoding."+name+"/MarshalOptions.Deterministic", cl.Pos(), okD, true, "proto.MarshalOptions literal sets Deterministic: true: %v", okD)
			return true
		})
	}
	if det == 0 {
		c.Fail("DET-ENCODER", "MarshalOptions", token.NoPos, "no proto.MarshalOptions literal in protoencoding")
	}
	// detrand disabled at init through the linkname
	okInit := false
	for _, f := range pk.Syntax {
		hasLink := false
		for _, cg := range f.Comments {
			for _, cm := range cg.List {
				if strings.HasPrefix(cm.Text, "//go:linkname") && strings.Contains(cm.Text, "google.golang.org/protobuf/internal/detrand.Disable") {
					hasLink = true
				}
			}
		}
		if !hasLink {
			continue
		}
		for _, d := range f.Decls {
			fd, ok := d.(*ast.FuncDecl)
			if !ok || fd.Name.Name != "init" || fd.Body == nil {
				continue
			}
			ast.Inspect(fd.Body, func(n ast.Node) bool {
				if call, ok := n.(*ast.CallExpr); ok {
					if fn := Callee(pk.TypesInfo, call); fn != nil && fn.Pkg() == pk.Types && p.DeclOf(fn) != nil && p.DeclOf(fn).Decl.Body == nil {
						okInit = true
					} else if id, ok := call.Fun.(*ast.Ident); ok {
						if o, ok := pk.TypesInfo.Uses[id].(*types.Func); ok && o.Pkg() == pk.Types {
							okInit = true
						}
					}
				}
				return true
			})
		}
	}
	c.Ob("DET-ENCODER", "protoencoding.init/detrand.Disable", token.NoPos, okInit, true, "a file of protoencoding links google.golang.org/protobuf/internal/detrand.Disable and calls it from init: %v", okInit)
}

// ---- (5) entropy ---------------------------------------------------------------------------------------------

var c02EntropyAllowed = map[string]string{
	"private/pkg/thread":                        "Parallelize's documented select between ctx.Done and the semaphore; precedence is re-checked",
	"private/pkg/tmp":                           "temporary names",
	"private/pkg/filelock":                      "lock retry timing",
	"private/pkg/slogapp":                       "logging",
	"private/pkg/slogext":                       "profiling log lines",
	"private/pkg/app/appext":                    "timeout handling",
	"private/pkg/netrc":                         "none",
	"private/pkg/uuidutil":                      "UUID v7 generation for new commits (not part of build/lint/format outputs)",
	"private/pkg/interrupt":                     "signal handling",
	"private/pkg/execext":                       "process wait",
	"private/pkg/git":                           "clone timing",
	"private/pkg/transport":                     "http",
	"private/pkg/cert":                          "tls",
	"private/pkg/wasm":                          "plugin runtime timing logs",
	"private/pkg/pluginrpcutil":                 "plugin runtime",
	"private/bufpkg/bufmodule/bufmoduleapi":     "registry client",
	"private/bufpkg/bufmodule/bufmoduletesting": "test helper: synthetic commit times",
	"private/bufpkg/bufplugin":                  "registry/plugin runtime",
	"private/bufpkg/bufregistryapi":             "registry client",
	"private/buf/bufctl":                        "profiling debug log",
	"private/buf/bufcli":                        "cache / login flows",
	"private/buf/bufprotopluginexec":            "process execution",
	"private/buf/bufapp":                        "version check",
	"private/buf/cmd/buf/command/mod":           "deprecated mod commands: init timestamps in templates",
	"private/buf/cmd/buf/command/push":          "push: create time from git metadata",
	"private/buf/cmd/buf/command/generate":      "none",
	"private/bufpkg/bufconnect":                 "auth",
	"private/pkg/connectclient":                 "rpc",
	"private/pkg/httpauth":                      "auth",
	"private/pkg/observabilityzap":              "logging",
	"private/pkg/verbose":                       "logging",
	"private/bufpkg/bufcheck/bufcheckserver/internal/buflintvalidate": "CEL environment construction (time types), not wall clock",
	"private/bufpkg/bufcheck": "wasm plugin run-time logging",
}

func c02Entropy(c *Ctx) {
	p := c.P
	n := 0
	for _, pk := range p.ModulePkgs() {
		rel := relPkg(pk.PkgPath)
		if !c02InScope(rel) {
			continue
		}
		allowedWhy := ""
		for k, v := range c02EntropyAllowed {
			if rel == k || strings.HasPrefix(rel, k+"/") {
				allowedWhy = v
			}
		}
		var hits []string
		var pos token.Pos
		for id, obj := range pk.TypesInfo.Uses {
			if obj.Pkg() == nil {
				continue
			}
			if f := p.astFile(id.Pos()); f != nil && isGenerated(f) {
				continue
			}
			switch obj.Pkg().Path() {
			case "math/rand", "math/rand/v2", "crypto/rand":
				hits = append(hits, obj.Pkg().Path()+"."+obj.Name())
				pos = id.Pos()
			case "time":
				if obj.Name() == "Now" || obj.Name() == "Since" {
					hits = append(hits, "time."+obj.Name())
					pos = id.Pos()
				}
			case "os":
				if obj.Name() == "Getpid" {
					hits = append(hits, "os.Getpid")
					pos = id.Pos()
				}
			}
		}
		for _, f := range pk.Syntax {
			if isGenerated(f) {
				continue
			}
			ast.Inspect(f, func(x ast.Node) bool {
				if sel, ok := x.(*ast.SelectStmt); ok {
					cases := 0
					for _, cl := range sel.Body.List {
						if cc := cl.(*ast.CommClause); cc.Comm != nil {
							cases++
						}
					}
					if cases >= 2 {
						hits = append(hits, "select with ≥2 communication cases")
						pos = sel.Pos()
					}
				}
				return true
			})
		}
		if len(hits) == 0 {
			continue
		}
		n++
		hits = uniq(hits)
		if allowedWhy != "" {
			c.Ob("ENTROPY", rel, pos, true, false, "%v — allowed: %s", hits, allowedWhy)
		} else {
			c.Ob("ENTROPY", rel, pos, false, true, "unreviewed entropy source in an output-producing package: %v", hits)
		}
	}
	if n == 0 {
		c.Fail("ENTROPY", "scan", token.NoPos, "scan found no entropy reference at all (scan broken)")
	}
}

// ---- (6) lockset for thread.globalParallelism ---------------------------------------------------------------------

func c02Lockset(c *Ctx) {
	p := c.P
	pk := p.Pkg("private/pkg/thread")
	if pk == nil {
		c.Fail("LOCKSET", "thread", token.NoPos, "package not found")
		return
	}
	info := pk.TypesInfo
	obj := pk.Types.Scope().Lookup("globalParallelism")
	if obj == nil {
		c.Fail("LOCKSET", "globalParallelism", token.NoPos, "variable not found")
		return
	}
	for _, fr := range p.FuncsOf(pk) {
		g := p.CFGOf(fr.Decl.Body, info)
		var rlocks, wlocks, unlocks []ast.Node
		ast.Inspect(fr.Decl.Body, func(n ast.Node) bool {
			if call, ok := n.(*ast.CallExpr); ok {
				if fn := Callee(info, call); fn != nil {
					switch {
					case methodIs(fn, "sync", "RWMutex", "RLock"):
						rlocks = append(rlocks, call)
					case methodIs(fn, "sync", "RWMutex", "Lock"):
						wlocks = append(wlocks, call)
					case methodIs(fn, "sync", "RWMutex", "RUnlock"), methodIs(fn, "sync", "RWMutex", "Unlock"):
						unlocks = append(unlocks, call)
					}
				}
			}
			return true
		})
		ast.Inspect(fr.Decl.Body, func(n ast.Node) bool {
			id, ok := n.(*ast.Ident)
			if !ok || info.Uses[id] != obj {
				return true
			}
			write := false
			if as, ok := p.Parent(id).(*ast.AssignStmt); ok {
				for _, l := range as.Lhs {
					if l == ast.Expr(id) {
						write = true
					}
				}
			}
			need := append([]ast.Node{}, wlocks...)
			if !write {
				need = append(need, rlocks...)
			}
			held := false
			for _, l := range need {
				// lock dominates the access and no unlock lies between
				if g.Dominates(l, id) && !g.ReachableAvoiding(l, id, nil) == false {
					between := false
					for _, u := range unlocks {
						if g.Dominates(l, u) && g.Dominates(u, id) {
							between = true
						}
					}
					if !between {
						held = true
					}
				}
			}
			kind := "read"
			if write {
				kind = "write"
			}
			c.Ob("LOCKSET", fr.ID()+"/"+kind, id.Pos(), held, true, "%s of globalParallelism holds the %s lock: %v", kind, map[bool]string{true: "exclusive", false: "shared or exclusive"}[write], held)
			return true
		})
	}
}

// ruleMapOrderPkg classifies every map iteration of one package (the body of R-MAPORDER; shared with properties whose
// behaviour depends on the same loops, e.g. the image path filter for C11).
func ruleMapOrderPkg(c *Ctx, rule string, pk *packages.Package, usedTriage, usedAppend map[string]bool) {
	p := c.P
	bindModuleSortFunc(p)
	for _, l := range findMapLoops(p, pk) {
		c.FuncsAnalysed++
		classifyLoop(p, l, func(fn *types.Func) bool { return c02Absorbing(fn) })
		// handler callbacks invoked by the rule adapters
		for i, e := range l.Effects {
			if e.Kind == "effect-call" && strings.HasPrefix(e.Detail, "dynamic ") && c02HandlerCallback(l, e) {
				l.Effects[i].Kind = "absorbing-call"
			}
		}
		v, bad := l.verdict()
		switch v {
		case "commutative":
			c.Ob(rule, l.Key, l.Range.Pos(), true, len(l.Effects) > 0, "commutative effects only: %s", effectSummary(l.Effects))
		case "error-choice":
			c.Ob(rule, l.Key, l.Range.Pos(), true, true, "commutative effects plus early non-nil error return (which error is reported may depend on order: stated limitation): %s", effectSummary(l.Effects))
		case "append":
			seen := map[types.Object]bool{}
			for _, e := range l.Effects {
				if e.Kind != "append" || e.Obj == nil || seen[e.Obj] {
					continue
				}
				seen[e.Obj] = true
				inst := l.Key + "/" + e.Obj.Name()
				ok, why := sortedBeforeUse(p, l, e.Obj, c02ConsumerSorts)
				if !ok {
					if r, key, has := lookupAppendTriage(inst); has {
						usedAppend[key] = true
						c.Ob(rule, inst, e.Pos, true, true, "slice filled in map order, reviewed: %s", r)
						continue
					}
				}
				c.Ob(rule, inst, e.Pos, ok, true, "slice %s is appended to in map order: %s", e.Obj.Name(), why)
			}
		default:
			if t, ok := c02Triage[l.Key]; ok {
				usedTriage[l.Key] = true
				if t.class == "finding" {
					c.Ob(rule, l.Key, l.Range.Pos(), false, true, "%s", t.reason)
				} else {
					c.Ob(rule, l.Key, l.Range.Pos(), true, true, "order-sensitive effects (%s), reviewed: %s", effectSummary(bad), t.reason)
					c02CheckReason(c, l, t)
				}
				continue
			}
			e := bad[0]
			c.Ob(rule, l.Key, e.Pos, false, true, "unreviewed order-sensitive iteration over %s: %s (%s)", exprString(l.Range.X), effectSummary(bad), e.Detail)
		}
	}
}

// bindModuleSortFunc (re)binds the memoised "is this module function an in-place sorter" oracle to the program being
// checked: a binding left over from another loaded variant would consult the wrong syntax (and keep it alive).
var moduleSortProg *Prog

func bindModuleSortFunc(p *Prog) {
	if moduleSortProg == p && moduleSortFunc != nil {
		return
	}
	moduleSortProg = p
	memo := map[*types.Func]bool{}
	moduleSortFunc = func(fn *types.Func) bool {
		if v, ok := memo[fn]; ok {
			return v
		}
		v := inPlaceSorter(p, fn)
		memo[fn] = v
		return v
	}
}

var reLoopOrdinal = regexp.MustCompile(`#\d+/`)

// lookupAppendTriage finds the reviewed entry for a slice filled in map order. The ordinal of the loop among the
// function's loops over that map type is part of the key only to tell loops apart; when a function is restructured
// the ordinal may shift, so an entry for the same function, map type and slice under another ordinal is the same
// review (the slice name and the function identify what was reviewed).
func lookupAppendTriage(inst string) (reason, key string, ok bool) {
	if r, has := c02AppendTriage[inst]; has {
		return r, inst, true
	}
	norm := reLoopOrdinal.ReplaceAllString(inst, "#*/")
	for _, k := range sortedKeys(c02AppendTriage) {
		if reLoopOrdinal.ReplaceAllString(k, "#*/") == norm {
			return c02AppendTriage[k], k, true
		}
	}
	return "", "", false
}
