package main

// Rules added after independently seeded changes showed what the first round of rules missed.
// Each is a structural necessary condition of its property, attached to the property's checker.

import (
	"go/ast"
	"go/token"
	"go/types"
	"strings"

	"golang.org/x/tools/go/packages"
	"golang.org/x/tools/go/ssa"
)

// ---- C10 ---------------------------------------------------------------------------------------------------------

func c10Extra(c *Ctx) {
	p := c.P
	pk := p.Pkg("private/bufpkg/bufmodule")
	info := pk.TypesInfo
	c.Rule("OWNER-LOOP", "all owners of an import path are counted before deciding (no early exit from the owner loop)", 1)
	c.Rule("CLOSURE-COMPLETE", "the ls-files walk follows the imports of every file it marks", 1)
	ruleArgmax(c, "ARGMAX", []*packages.Package{pk}, 1)
	ruleLoopAccum(c, "LOOP-ACCUM", c.P.ModulePkgs())
	c10ForeignNotFound(c, pk)
	c10BuilderRecords(c, pk)
	c10ImportKindBlind(c)
	c10AddNotTargetGated(c)
	c10c11TargetPaths(c)
	c10NodeAlwaysConsidered(c)
	c10TrackerTracksAll(c)
	ruleFilteredPreferred(c, "TARGETS-PREFERRED", pk, 1)
	ruleDelegateErr(c, "DELEGATE-ERR", []*packages.Package{pk})
	// (b) owner loop
	if fr := p.Func("private/bufpkg/bufmodule", "moduleSet.getModuleForFilePathUncached"); fr != nil {
		ok, found := true, false
		ast.Inspect(fr.Decl.Body, func(x ast.Node) bool {
			rs, isRange := x.(*ast.RangeStmt)
			if !isRange {
				return true
			}
			src := exprString(rs.X)
			if o := identObj(info, rs.X); o != nil {
				// a local holding the module list
				ast.Inspect(fr.Decl.Body, func(m ast.Node) bool {
					if as, ok := m.(*ast.AssignStmt); ok && len(as.Lhs) == 1 && len(as.Rhs) == 1 && identObj(info, as.Lhs[0]) == o {
						src = exprString(as.Rhs[0])
					}
					return true
				})
			}
			if !strings.HasSuffix(src, "Modules()") {
				return true
			}
			found = true
			ast.Inspect(rs.Body, func(m ast.Node) bool {
				switch y := m.(type) {
				case *ast.BranchStmt:
					if y.Tok == token.BREAK || y.Tok == token.GOTO {
						ok = false
					}
				case *ast.ReturnStmt:
					// only error returns (non-nil error) may leave the loop
					if classifyReturn(info, y) == retNil {
						ok = false
					}
				}
				return true
			})
			return true
		})
		c.Ob("OWNER-LOOP", "getModuleForFilePathUncached", fr.Decl.Pos(), ok && found, true, "the loop over all modules has no break and no successful return: every owner of the path is counted: %v", ok && found)
	} else {
		c.Fail("OWNER-LOOP", "getModuleForFilePathUncached", token.NoPos, "not found")
	}
	// (c) ls-files closure
	if pkI := p.Pkg("private/bufpkg/bufimage"); pkI != nil {
		if fr := c10LsClosureRec(p); fr != nil {
			iinfo := fr.Info()
			g := p.CFGOf(fr.Decl.Body, iinfo)
			var mark ast.Node
			var loopX []ast.Node
			ast.Inspect(fr.Decl.Body, func(x ast.Node) bool {
				switch y := x.(type) {
				case *ast.AssignStmt:
					if len(y.Lhs) == 1 && mark == nil {
						if ix, ok := y.Lhs[0].(*ast.IndexExpr); ok {
							if _, isMap := iinfo.TypeOf(ix.X).Underlying().(*types.Map); isMap {
								mark = y
							}
						}
					}
				case *ast.RangeStmt:
					has := false
					ast.Inspect(y.Body, func(m ast.Node) bool {
						if call, ok := m.(*ast.CallExpr); ok && Callee(iinfo, call) == fr.Obj {
							has = true
						}
						return true
					})
					if has {
						loopX = append(loopX, y.X)
					}
				}
				return true
			})
			ok := mark != nil && len(loopX) > 0
			if ok {
				for _, r := range g.Returns() {
					if classifyReturn(iinfo, r) != retNil {
						continue
					}
					if g.ReachableAvoiding(mark, r, loopX) {
						ok = false
					}
				}
			}
			c.Ob("CLOSURE-COMPLETE", "ls-closure-rec", fr.Decl.Pos(), ok, true, "once a file is marked, every successful exit passes the loop over its imports (no file is listed without its imports being followed): %v", ok)
		}
	}
}

// ---- C01 ---------------------------------------------------------------------------------------------------------

func c01Extra(c *Ctx) {
	p := c.P
	c.Rule("EMPTY-PACKAGE", "a file without a package never pulls other package-less files into the targets", 1)
	c.Rule("EXTERNAL-PATH-RESOLVER", "every diagnostic conversion maps paths to the path the user gave", 3)
	// the function is found by what it does (it returns `a.PackageName == b.PackageName`), wherever that branch lives
	nCmp := 0
	if pkM := p.Pkg("private/bufpkg/bufmodule"); pkM != nil {
		for _, fr := range p.FuncsOf(pkM) {
			if fr.Decl.Body == nil {
				continue
			}
			info := fr.Info()
			var cmp *ast.ReturnStmt
			var guards []ast.Node
			ast.Inspect(fr.Decl.Body, func(x ast.Node) bool {
				switch y := x.(type) {
				case *ast.ReturnStmt:
					if len(y.Results) >= 1 {
						if be, ok := ast.Unparen(y.Results[0]).(*ast.BinaryExpr); ok && be.Op == token.EQL && strings.HasSuffix(exprString(be.X), ".PackageName") && strings.HasSuffix(exprString(be.Y), ".PackageName") {
							cmp = y
						}
					}
				case *ast.IfStmt:
					if be, ok := ast.Unparen(y.Cond).(*ast.BinaryExpr); ok && be.Op == token.EQL && strings.HasSuffix(exprString(be.X), ".PackageName") {
						if s, isLit := stringLit(info, be.Y); isLit && s == "" {
							for _, st := range y.Body.List {
								if r, ok := st.(*ast.ReturnStmt); ok && len(r.Results) >= 1 && exprString(r.Results[0]) == "false" {
									guards = append(guards, y.Cond)
								}
							}
						}
					}
				}
				return true
			})
			if cmp == nil {
				continue
			}
			nCmp++
			g := p.CFGOf(fr.Decl.Body, info)
			dom := false
			for _, gd := range guards {
				if g.Dominates(gd, cmp) {
					dom = true
				}
			}
			c.Ob("EMPTY-PACKAGE", "package-equality", fr.Decl.Pos(), dom, true, "in %s the package-name equality that adds package files is dominated by a `PackageName == \"\"` → false test: %v", fr.Decl.Name.Name, dom)
		}
	}
	if nCmp == 0 {
		c.Fail("EMPTY-PACKAGE", "package-equality", token.NoPos, "no function of bufmodule returns a PackageName equality any more: undecided")
	}
	n := 0
	for _, pk := range p.ModulePkgs() {
		info := pk.TypesInfo
		for _, f := range pk.Syntax {
			ast.Inspect(f, func(x ast.Node) bool {
				call, ok := x.(*ast.CallExpr)
				if !ok || len(call.Args) != 1 {
					return true
				}
				fn := Callee(info, call)
				if fn == nil || fn.Name() != "WithExternalPathResolver" || fn.Pkg() == nil || !strings.HasSuffix(fn.Pkg().Path(), "bufprotocompile") {
					return true
				}
				n++
				ok = false
				switch a := ast.Unparen(call.Args[0]).(type) {
				case *ast.SelectorExpr:
					ok = a.Sel.Name == "ExternalPath"
				case *ast.FuncLit:
					okAll, ext := true, 0
					var param types.Object
					if len(a.Type.Params.List) == 1 && len(a.Type.Params.List[0].Names) == 1 {
						param = info.Defs[a.Type.Params.List[0].Names[0]]
					}
					ast.Inspect(a.Body, func(m ast.Node) bool {
						if r, isRet := m.(*ast.ReturnStmt); isRet && len(r.Results) == 1 {
							if c2, isCall := ast.Unparen(r.Results[0]).(*ast.CallExpr); isCall {
								if sel, isSel := c2.Fun.(*ast.SelectorExpr); isSel && sel.Sel.Name == "ExternalPath" {
									ext++
									return true
								}
							}
							// identity fallback (the path itself when nothing better is known)
							if param != nil && identObj(info, r.Results[0]) == param {
								return true
							}
							okAll = false
						}
						return true
					})
					ok = okAll && ext > 0
				}
				fd := p.EnclosingFuncDecl(call)
				name := relPkg(pk.PkgPath)
				if fd != nil {
					name += "." + declName(fd)
				}
				c.Ob("EXTERNAL-PATH-RESOLVER", name, call.Pos(), ok, true, "the resolver handed to bufprotocompile yields ExternalPath(): %v", ok)
				return true
			})
		}
	}
	if n < 3 {
		c.Fail("EXTERNAL-PATH-RESOLVER", "count", token.NoPos, "only %d resolver sites found", n)
	}
}

// ---- C20 ---------------------------------------------------------------------------------------------------------

func c20Extra(c *Ctx) {
	p := c.P
	c.Rule("ERRORS-AS", "annotation sets are recognised with errors.As, never by a direct type assertion (they arrive wrapped)", 4)
	// (instances: the escaping helpers of bufanalysis, and - in c20Encoded - every escaper application in the
	// github-actions printer, so that inlining the helpers does not empty the rule)
	nAs := 0
	for _, pk := range p.ModulePkgs() {
		rel := relPkg(pk.PkgPath)
		if !strings.HasPrefix(rel, "private/buf/") && !strings.HasPrefix(rel, "private/bufpkg/") {
			continue
		}
		info := pk.TypesInfo
		for _, f := range pk.Syntax {
			if isGenerated(f) {
				continue
			}
			ast.Inspect(f, func(x ast.Node) bool {
				switch y := x.(type) {
				case *ast.TypeAssertExpr:
					if y.Type == nil {
						return true
					}
					if strings.HasSuffix(namedPath(info.TypeOf(y.Type)), "bufanalysis.FileAnnotationSet") && isErrorType(info.TypeOf(y.X)) {
						fd := p.EnclosingFuncDecl(y)
						name := rel
						if fd != nil {
							name += "." + declName(fd)
						}
						c.Ob("ERRORS-AS", name+"/type-assertion", y.Pos(), false, true, "an error is type-asserted to FileAnnotationSet: a wrapped or joined annotation set is not recognised, so it is printed as an operational error (exit 1 instead of 100)")
					}
				case *ast.CallExpr:
					if fn := Callee(info, y); fn != nil && calleeIs(fn, "errors", "As") && len(y.Args) == 2 {
						if ue, ok := y.Args[1].(*ast.UnaryExpr); ok {
							if strings.HasSuffix(namedPath(info.TypeOf(ue.X)), "bufanalysis.FileAnnotationSet") {
								nAs++
								fd := p.EnclosingFuncDecl(y)
								name := rel
								if fd != nil {
									name += "." + declName(fd)
								}
								c.Ob("ERRORS-AS", name+"/errors.As", y.Pos(), true, false, "annotation set recognised through errors.As")
							}
						}
					}
				}
				return true
			})
		}
	}
	if nAs < 4 {
		c.Fail("ERRORS-AS", "count", token.NoPos, "only %d errors.As(…, *FileAnnotationSet) sites", nAs)
	}
	pk := p.Pkg("private/bufpkg/bufanalysis")
	if pk == nil {
		return
	}
	info := pk.TypesInfo
	for _, fr := range p.FuncsOf(pk) {
		if !strings.HasPrefix(strings.ToLower(fr.Decl.Name.Name), "escapegithubactions") {
			continue
		}
		// single pass through a package-level strings.Replacer whose first pair is "%", or a chain with "%" innermost
		ok, desc := false, "no recognised escaping idiom"
		ast.Inspect(fr.Decl.Body, func(x ast.Node) bool {
			call, isCall := x.(*ast.CallExpr)
			if !isCall {
				return true
			}
			sel, isSel := call.Fun.(*ast.SelectorExpr)
			if !isSel {
				return true
			}
			if sel.Sel.Name == "Replace" && namedPath(info.TypeOf(sel.X)) == "strings.Replacer" {
				// find the replacer literal
				if obj := identObj(info, sel.X); obj != nil {
					for _, f := range pk.Syntax {
						ast.Inspect(f, func(m ast.Node) bool {
							vs, isVS := m.(*ast.ValueSpec)
							if !isVS {
								return true
							}
							for i, nm := range vs.Names {
								if info.Defs[nm] == obj && i < len(vs.Values) {
									if nc, isNC := vs.Values[i].(*ast.CallExpr); isNC && len(nc.Args) >= 2 {
										ok, desc = true, "single-pass strings.Replacer (no output of one replacement is re-scanned)"
									}
								}
							}
							return true
						})
					}
				}
			}
			return true
		})
		// chained strings.ReplaceAll (nested or statement by statement): the call evaluated first must replace the escape character
		var chain []*ast.CallExpr
		ast.Inspect(fr.Decl.Body, func(x ast.Node) bool {
			if call, isCall := x.(*ast.CallExpr); isCall {
				if fn := Callee(info, call); fn != nil && calleeIs(fn, "strings", "ReplaceAll") && len(call.Args) == 3 {
					chain = append(chain, call)
				}
			}
			return true
		})
		if len(chain) > 0 {
			first := chain[0]
			for _, k := range chain {
				if k.End() < first.End() {
					first = k
				}
			}
			if lit, isLit := stringLit(info, first.Args[1]); isLit && lit == "%" {
				ok, desc = true, "chained ReplaceAll with the escape character replaced first"
			} else {
				ok, desc = false, "chained ReplaceAll whose first step replaces "+exprString(first.Args[1])+" instead of the escape character %: the later % step re-escapes the % of earlier output (\\n becomes %250A)"
			}
		}
		c.Ob("ESCAPE-ORDER", fr.Decl.Name.Name, fr.Decl.Pos(), ok, true, "%s", desc)
	}
}

// ---- C12 ---------------------------------------------------------------------------------------------------------

func c12Extra(c *Ctx, pk *packages.Package) {
	p := c.P
	info := pk.TypesInfo
	c.Rule("EXCLUDE-CHILDREN", "excluding an element excludes every indexed child kind it can contain", 3)
	c.Rule("REFERENCE-TYPES", "field types that carry a type reference (enum, message, group) are handled together", 2)
	c.Rule("IN-PLACE-SITES", "in-place filtering is requested only where the caller owns the image", 3)
	want := map[string][]string{
		"FileDescriptorProto":    {"GetMessageType", "GetEnumType", "GetService", "GetExtension"},
		"DescriptorProto":        {"GetNestedType", "GetEnumType", "GetExtension"},
		"ServiceDescriptorProto": {"GetMethod"},
	}
	if fr := p.Func("private/bufpkg/bufimage/bufimageutil", "transitiveClosure.excludeElement"); fr != nil {
		ast.Inspect(fr.Decl.Body, func(x ast.Node) bool {
			cc, ok := x.(*ast.CaseClause)
			if !ok || len(cc.List) != 1 {
				return true
			}
			tn := namedName(info.TypeOf(cc.List[0]))
			need, has := want[tn]
			if !has {
				return true
			}
			got := map[string]bool{}
			for _, st := range cc.Body {
				if rs, ok := st.(*ast.RangeStmt); ok {
					if call, ok := rs.X.(*ast.CallExpr); ok {
						if sel, ok := call.Fun.(*ast.SelectorExpr); ok {
							// the loop body must recurse into excludeElement
							rec := false
							ast.Inspect(rs.Body, func(m ast.Node) bool {
								if c2, ok := m.(*ast.CallExpr); ok && Callee(info, c2) == fr.Obj {
									rec = true
								}
								return true
							})
							if rec {
								got[sel.Sel.Name] = true
							}
						}
					}
				}
			}
			var missing []string
			for _, nd := range need {
				if !got[nd] {
					missing = append(missing, nd)
				}
			}
			c.Ob("EXCLUDE-CHILDREN", "excludeElement/"+tn, cc.Pos(), len(missing) == 0, true, "children excluded recursively via %v; missing: %v (a surviving reference to such a child would dangle)", need, missing)
			return true
		})
	} else {
		c.Fail("EXCLUDE-CHILDREN", "excludeElement", token.NoPos, "not found")
	}
	// reference-carrying field types
	n := 0
	for _, f := range pk.Syntax {
		ast.Inspect(f, func(x ast.Node) bool {
			cc, ok := x.(*ast.CaseClause)
			if !ok {
				return true
			}
			names := map[string]bool{}
			for _, e := range cc.List {
				if sel, ok := e.(*ast.SelectorExpr); ok && strings.HasPrefix(sel.Sel.Name, "FieldDescriptorProto_TYPE_") {
					names[sel.Sel.Name] = true
				}
			}
			if !names["FieldDescriptorProto_TYPE_MESSAGE"] && !names["FieldDescriptorProto_TYPE_ENUM"] {
				return true
			}
			if len(names) > 4 {
				return true // the scalar arm listing everything
			}
			n++
			ok2 := names["FieldDescriptorProto_TYPE_MESSAGE"] && names["FieldDescriptorProto_TYPE_ENUM"] && names["FieldDescriptorProto_TYPE_GROUP"]
			fd := p.EnclosingFuncDecl(cc)
			name := "?"
			if fd != nil {
				name = declName(fd)
			}
			c.Ob("REFERENCE-TYPES", name, cc.Pos(), ok2, true, "the arm following type references lists ENUM, MESSAGE and GROUP together: %v (a group field's message type is a reference too)", ok2)
			return true
		})
	}
	// the if-form of the same decision: a condition comparing GetType()/Type with TYPE_MESSAGE or TYPE_ENUM alone
	// ("only message fields refer to a type") forgets the other reference-carrying kinds; `GetTypeName() == ""` is the
	// test that covers them all
	for _, f := range pk.Syntax {
		ast.Inspect(f, func(x ast.Node) bool {
			ifs, ok := x.(*ast.IfStmt)
			if !ok {
				return true
			}
			names := map[string]bool{}
			ast.Inspect(ifs.Cond, func(m ast.Node) bool {
				if sel, ok := m.(*ast.SelectorExpr); ok && strings.HasPrefix(sel.Sel.Name, "FieldDescriptorProto_TYPE_") {
					names[sel.Sel.Name] = true
				}
				return true
			})
			if !names["FieldDescriptorProto_TYPE_MESSAGE"] && !names["FieldDescriptorProto_TYPE_ENUM"] {
				return true
			}
			n++
			ok2 := names["FieldDescriptorProto_TYPE_MESSAGE"] && names["FieldDescriptorProto_TYPE_ENUM"] && names["FieldDescriptorProto_TYPE_GROUP"]
			name := "?"
			if fd := p.EnclosingFuncDecl(ifs); fd != nil {
				name = declName(fd)
			}
			c.Ob("REFERENCE-TYPES", name+"/if", ifs.Pos(), ok2, true, "the condition singling out type-referencing fields names ENUM, MESSAGE and GROUP together: %v", ok2)
			return true
		})
	}
	if n < 2 {
		c.Fail("REFERENCE-TYPES", "count", token.NoPos, "only %d reference-type arms found", n)
	}
	// in-place sites
	allowed := map[string]string{
		"private/buf/bufctl.filterImage":                     "the controller filters the image it just built or read and hands only the result on",
		"private/buf/cmd/buf/command/convert.run":            "convert builds a private schema image for one message",
		"private/buf/cmd/buf/command/convert.getSchemaImage": "convert builds a private schema image for one message",
	}
	obj := pk.Types.Scope().Lookup("WithMutateInPlace")
	sites := 0
	for _, q := range p.ModulePkgs() {
		for id, o := range q.TypesInfo.Uses {
			if o != obj {
				continue
			}
			sites++
			fd := p.EnclosingFuncDecl(id)
			name := relPkg(q.PkgPath)
			if fd != nil {
				name += "." + declName(fd)
			}
			why, ok := allowed[name]
			if !ok {
				// accept other functions of the reviewed packages by prefix
				for k, v := range allowed {
					if strings.HasPrefix(name, k[:strings.LastIndex(k, ".")+1]) {
						why, ok = v, true
					}
				}
			}
			c.Ob("IN-PLACE-SITES", name, id.Pos(), ok, false, "WithMutateInPlace used here: %s", map[bool]string{true: why, false: "unreviewed site: an image shared with later consumers (e.g. several plugin groups) would be shrunk for all of them"}[ok])
		}
	}
	if sites < 3 {
		c.Fail("IN-PLACE-SITES", "count", token.NoPos, "only %d WithMutateInPlace sites", sites)
	}
}

// ---- C03 / C04 -----------------------------------------------------------------------------------------------------

func c04Extra(c *Ctx) {
	p := c.P
	pk := p.Pkg(pkgCheckHandle)
	if pk == nil {
		return
	}
	info := pk.TypesInfo
	c.Rule("MESSAGE-LIKE-KINDS", "wherever message-typed fields are singled out, group (delimited) fields are too", 2)
	c.Rule("NORMALISE-SAME-VAR", "a normalisation `if x == A { y = B }` assigns the variable it tested", 2)
	c.Rule("SIBLING-GUARDS", "the WIRE and WIRE_JSON type handlers guard their enum comparison the same way", 2)
	// (a)
	n := 0
	for _, f := range pk.Syntax {
		ast.Inspect(f, func(x ast.Node) bool {
			cc, ok := x.(*ast.CaseClause)
			if !ok {
				return true
			}
			names := map[string]bool{}
			for _, e := range cc.List {
				if sel, ok := e.(*ast.SelectorExpr); ok {
					names[sel.Sel.Name] = true
				}
			}
			isMsg := names["MessageKind"] || names["FieldDescriptorProto_TYPE_MESSAGE"]
			if !isMsg {
				return true
			}
			n++
			ok2 := names["GroupKind"] || names["FieldDescriptorProto_TYPE_GROUP"]
			fd := p.EnclosingFuncDecl(cc)
			name := "?"
			if fd != nil {
				name = declName(fd)
			}
			c.Ob("MESSAGE-LIKE-KINDS", name, cc.Pos(), ok2, true, "the case listing message fields also lists group fields: %v (a delimited-encoded message field is a message field)", ok2)
			return true
		})
	}
	if n < 2 {
		c.Fail("MESSAGE-LIKE-KINDS", "count", token.NoPos, "only %d message-kind arms found", n)
	}
	// (b)
	nb := 0
	for _, fr := range p.FuncsOf(pk) {
		ast.Inspect(fr.Decl.Body, func(x ast.Node) bool {
			ifs, ok := x.(*ast.IfStmt)
			if !ok || ifs.Else != nil || ifs.Init != nil || len(ifs.Body.List) != 1 {
				return true
			}
			be, ok := ifs.Cond.(*ast.BinaryExpr)
			if !ok || be.Op != token.EQL {
				return true
			}
			tested := identObj(info, be.X)
			if tested == nil {
				return true
			}
			if tv, has := info.Types[be.Y]; !has || tv.Value == nil {
				// constant selector (enum constants are constants)
				if _, isSel := be.Y.(*ast.SelectorExpr); !isSel {
					return true
				}
			}
			// helper form: `if x == A { return B }; return x` - the function's other returns hand back the tested
			// variable; every call of such a helper is a normalisation
			if rs, isRet := ifs.Body.List[0].(*ast.ReturnStmt); isRet && len(rs.Results) == 1 && fr.Obj != nil {
				sig := fr.Obj.Type().(*types.Signature)
				if _, isSel := rs.Results[0].(*ast.SelectorExpr); isSel && sig.Results().Len() == 1 && types.Identical(sig.Results().At(0).Type(), tested.Type()) {
					others, same := 0, true
					inspectNoFuncLit(fr.Decl.Body, func(y ast.Node) bool {
						r2, ok := y.(*ast.ReturnStmt)
						if !ok || r2 == rs || len(r2.Results) != 1 {
							return true
						}
						if _, isSel := r2.Results[0].(*ast.SelectorExpr); isSel {
							return true
						}
						others++
						if identObj(info, r2.Results[0]) != tested {
							same = false
						}
						return true
					})
					if others > 0 {
						for id, o := range info.Uses {
							if o == fr.Obj {
								nb++
								caller := "?"
								if fd := p.EnclosingFuncDecl(id); fd != nil {
									caller = fd.Name.Name
								}
								c.Ob("NORMALISE-SAME-VAR", caller+"/via-"+fr.Decl.Name.Name, id.Pos(), same, true, "normalised through %s, which returns the variable it tested when it is not the special value: %v", fr.Decl.Name.Name, same)
							}
						}
					}
				}
				return true
			}
			as, ok := ifs.Body.List[0].(*ast.AssignStmt)
			if !ok || len(as.Lhs) != 1 || len(as.Rhs) != 1 || as.Tok != token.ASSIGN {
				return true
			}
			assigned := identObj(info, as.Lhs[0])
			if assigned == nil {
				return true
			}
			if _, isSel := as.Rhs[0].(*ast.SelectorExpr); !isSel {
				if tv, has := info.Types[as.Rhs[0]]; !has || tv.Value == nil {
					return true
				}
			}
			// same type (a normalisation of one enum-typed variable)
			if !types.Identical(tested.Type(), assigned.Type()) {
				return true
			}
			nb++
			c.Ob("NORMALISE-SAME-VAR", fr.Decl.Name.Name, ifs.Pos(), tested == assigned, true, "`if %s == … { %s = … }`: the normalised variable is the tested one: %v", tested.Name(), assigned.Name(), tested == assigned)
			return true
		})
	}
	if nb < 2 {
		c.Fail("NORMALISE-SAME-VAR", "count", token.NoPos, "only %d normalisation statements found", nb)
	}
	// (c) the two handlers are found through the rule registry, the enum comparison through where it happens (a call
	// to a package function inside the `case …EnumKind` arm), not by function names
	tbl := extractCheckTables(p)
	for _, id := range []string{"FIELD_WIRE_COMPATIBLE_TYPE", "FIELD_WIRE_JSON_COMPATIBLE_TYPE"} {
		var fr *FuncRef
		for _, b := range tbl.ByID[id] {
			if hb := tbl.Handlers[b.HandlerVar]; hb != nil && hb.Func != nil {
				fr = p.DeclOf(hb.Func)
			}
		}
		if fr == nil || fr.Decl.Body == nil {
			c.Fail("SIBLING-GUARDS", id, token.NoPos, "handler of %s not found through the registry", id)
			continue
		}
		guarded, calls := true, 0
		ast.Inspect(fr.Decl.Body, func(x ast.Node) bool {
			cc, ok := x.(*ast.CaseClause)
			if !ok {
				return true
			}
			isEnum := false
			for _, e := range cc.List {
				if sel, ok := ast.Unparen(e).(*ast.SelectorExpr); ok && (sel.Sel.Name == "EnumKind" || sel.Sel.Name == "FieldDescriptorProto_TYPE_ENUM") {
					isEnum = true
				}
			}
			if !isEnum {
				return true
			}
			for _, st := range cc.Body {
				ast.Inspect(st, func(y ast.Node) bool {
					call, ok := y.(*ast.CallExpr)
					if !ok {
						return true
					}
					fn := Callee(info, call)
					if fn == nil || fn.Pkg() != pk.Types {
						return true
					}
					if sig, ok := fn.Type().(*types.Signature); !ok || sig.Recv() != nil || !lastResultIsError(sig) {
						return true
					}
					calls++
					g := false
					for cur := p.Parent(call); cur != nil && cur != ast.Node(cc); cur = p.Parent(cur) {
						if ifs, ok := cur.(*ast.IfStmt); ok && containsNode(ifs.Body, call) {
							if be, ok := ast.Unparen(ifs.Cond).(*ast.BinaryExpr); ok && be.Op == token.NEQ && strings.HasSuffix(exprString(be.X), "TypeName()") && strings.HasSuffix(exprString(be.Y), "TypeName()") {
								g = true
							}
						}
					}
					if !g {
						guarded = false
					}
					return true
				})
			}
			return true
		})
		c.Ob("SIBLING-GUARDS", id, fr.Decl.Pos(), guarded && calls > 0, true, "%d enum compatibility check(s) in the enum arm, each under `previousField.TypeName() != field.TypeName()` like its sibling handler (an unchanged enum type is never re-examined): %v", calls, guarded)
	}
}

// ---- C16 -----------------------------------------------------------------------------------------------------------

func c16Extra(c *Ctx) {
	p := c.P
	pk := p.Pkg("private/bufpkg/bufconfig")
	info := pk.TypesInfo
	c.Rule("STABLE-ORDER", "module configs that share a path keep their file order (stable sort)", 1)
	c.Rule("MIGRATE-REBASE", "every module directory written by the migration is re-based onto the destination directory", 3)
	if fr := p.Func("private/bufpkg/bufconfig", "newBufYAMLFile"); fr != nil {
		stable, other := 0, ""
		ast.Inspect(fr.Decl.Body, func(x ast.Node) bool {
			call, ok := x.(*ast.CallExpr)
			if !ok || len(call.Args) == 0 {
				return true
			}
			fn := Callee(info, call)
			if fn == nil || fn.Pkg() == nil || (fn.Pkg().Path() != "sort" && fn.Pkg().Path() != "slices") {
				return true
			}
			if sl, ok := info.TypeOf(call.Args[0]).Underlying().(*types.Slice); !ok || namedName(sl.Elem()) != "ModuleConfig" {
				return true
			}
			switch fn.Name() {
			case "SliceStable", "Stable", "SortStableFunc":
				stable++
			default:
				other = fn.Pkg().Path() + "." + fn.Name()
			}
			return true
		})
		c.Ob("STABLE-ORDER", "newBufYAMLFile/module-configs", fr.Decl.Pos(), stable > 0 && other == "", true, "module configs are ordered by DirPath with a stable sort (%d) and no unstable one (%s): equal paths keep their order", stable, other)
	}
	ruleIsEmptyCovers(c, "ISEMPTY-COVERS")
	if pkM := p.Pkg("private/buf/bufmigrate"); pkM != nil {
		sites := 0
		for _, sf := range p.SSAFuncsOf([]*packages.Package{pkM}) {
			for _, f := range allSSAFuncs(sf) {
				for _, call := range callsIn(f) {
					if !calleeIs(staticCalleeObj(call.Call), "private/bufpkg/bufconfig", "NewModuleConfig") {
						continue
					}
					sites++
					ok := dependsOnCallUp(p, call.Call.Args[0], func(cc *ssa.CallCommon) bool { return calleeIs(staticCalleeObj(cc), "private/pkg/normalpath", "Rel") }, 2)
					c.Ob("MIGRATE-REBASE", ssaFuncName(f)+"/NewModuleConfig", call.Pos(), ok, true, "the module directory derives from normalpath.Rel(destination, …) like at the sibling sites: %v", ok)
				}
			}
		}
		if sites < 3 {
			c.Fail("MIGRATE-REBASE", "count", token.NoPos, "only %d NewModuleConfig sites in bufmigrate", sites)
		}
	}
}

// ruleIsEmptyCovers (ISEMPTY-COVERS; C16, and C06 because `disallow_comment_ignores` lives in such a section): a
// module-level section that isEmpty() calls empty is dropped in favour of the top-level / default one; an isEmpty that
// forgets a field makes a section holding only that field vanish.
func ruleIsEmptyCovers(c *Ctx, rule string) {
	c.Rule(rule, "isEmpty of an external section looks at every field of the section", 3)
	p := c.P
	pk := p.Pkg("private/bufpkg/bufconfig")
	if pk == nil {
		c.Fail(rule, "anchor", token.NoPos, "bufconfig not found")
		return
	}
	info := pk.TypesInfo
	n := 0
	for _, fr := range p.FuncsOf(pk) {
		if fr.Decl.Name.Name != "isEmpty" || fr.Decl.Recv == nil {
			continue
		}
		recvT := info.TypeOf(fr.Decl.Recv.List[0].Type)
		st, ok := recvT.Underlying().(*types.Struct)
		if !ok {
			continue
		}
		n++
		var missing []string
		for i := 0; i < st.NumFields(); i++ {
			f := st.Field(i)
			if !usesObj(info, fr.Decl.Body, f) {
				missing = append(missing, f.Name())
			}
		}
		c.Ob(rule, namedName(recvT)+".isEmpty", fr.Decl.Pos(), len(missing) == 0, true, "fields not examined: %v (a section holding only such a field would be treated as absent)", missing)
	}
	if n < 3 {
		c.Fail(rule, "count", token.NoPos, "only %d isEmpty methods", n)
	}
}

// c10c11TargetPaths shares PATHS-BY-COMPONENT (written for C01) with C10 ("ls-files lists exactly the files build
// would put in the image": IsTargetFile and the target walk must agree) and C11 (module-level and image-level --path
// selection agree).
func c10c11TargetPaths(c *Ctx) {
	var tp []*packages.Package
	for _, rel := range []string{"private/bufpkg/bufmodule", "private/buf/bufworkspace", "private/buf/buftarget", "private/bufpkg/bufimage"} {
		if q := c.P.Pkg(rel); q != nil {
			tp = append(tp, q)
		}
	}
	ruleTargetPathsByComponent(c, "PATHS-BY-COMPONENT", tp)
}
